"""Type universe of the C source generator checks (C09 UPER; reusable by C10 OER).

Independent description of the ASN.1 subset the C generator documents, with
  * rendering to ASN.1 text (several modules, IMPORTS),
  * random type / module / value generators,
  * conversion to the value form of the Python codecs,
  * JSON (de)serialisation for replay files.
Nothing in here looks at what /repo generates.
"""
import json

I64_MIN = -2 ** 63
I64_MAX = 2 ** 63 - 1
U64_MAX = 2 ** 64 - 1


class Ty(object):
    kind = None

    def to_json(self):
        d = {'k': self.kind}
        for k, v in self.__dict__.items():
            d[k] = _tj(v)
        return d


def _tj(v):
    if isinstance(v, Ty):
        return v.to_json()
    if isinstance(v, Member):
        return {'k': 'member', 'name': v.name, 'ty': _tj(v.ty), 'optional': v.optional,
                'default': _vj(v.default), 'has_default': v.has_default}
    if isinstance(v, (list, tuple)):
        return [_tj(x) for x in v]
    return v


def _vj(v):
    """Python codec values -> JSON."""
    if isinstance(v, (bytes, bytearray)):
        return {'hex': bytes(v).hex()}
    if isinstance(v, tuple):
        return {'tuple': [_vj(x) for x in v]}
    if isinstance(v, list):
        return [_vj(x) for x in v]
    if isinstance(v, dict):
        return {'dict': {k: _vj(x) for k, x in v.items()}}
    return v


def _vu(v):
    if isinstance(v, dict):
        if 'hex' in v:
            return bytes.fromhex(v['hex'])
        if 'tuple' in v:
            return tuple(_vu(x) for x in v['tuple'])
        return {k: _vu(x) for k, x in v['dict'].items()}
    if isinstance(v, list):
        return [_vu(x) for x in v]
    return v


value_to_json = _vj
value_from_json = _vu


def ty_from_json(d):
    k = d['k']
    if k == 'bool':
        return TBool()
    if k == 'null':
        return TNull()
    if k == 'int':
        return TInt(d['lo'], d['hi'], d.get('ext', False))
    if k == 'octets':
        return TOctets(d['lo'], d['hi'], d.get('ext', False))
    if k == 'bits':
        return TBits(d['n'], [tuple(x) for x in d['named']] if d.get('named') else None)
    if k == 'enum':
        return TEnum([tuple(x) for x in d['items']], d.get('ext', False))
    if k == 'seq':
        mk = lambda m: Member(m['name'], ty_from_json(m['ty']), m['optional'], _vu(m['default']), m['has_default'])  # noqa: E731
        return TSeq([mk(m) for m in d['members']], d.get('ext', False), [mk(m) for m in d.get('additions', [])])
    if k == 'seqof':
        return TSeqOf(d['lo'], d['hi'], ty_from_json(d['elem']), d.get('ext', False))
    if k == 'choice':
        return TChoice([(a[0], ty_from_json(a[1])) for a in d['alts']], d.get('ext', False))
    if k == 'ref':
        return TRef(d['module'], d['name'])
    if k == 'real':
        return TReal(d['bits'])
    if k == 'raw':
        return TRaw(d['text'])
    raise ValueError(k)


class TBool(Ty):
    kind = 'bool'


class TNull(Ty):
    kind = 'null'


class TInt(Ty):
    kind = 'int'

    def __init__(self, lo, hi, ext=False):
        self.lo, self.hi, self.ext = lo, hi, ext


class TOctets(Ty):
    kind = 'octets'

    def __init__(self, lo, hi, ext=False):
        self.lo, self.hi, self.ext = lo, hi, ext


class TBits(Ty):
    kind = 'bits'

    def __init__(self, n, named=None):
        self.n, self.named = n, named


class TEnum(Ty):
    kind = 'enum'

    def __init__(self, items, ext=False):
        """items: [(name, number)] in declaration order (numbers all explicit here;
        the text prints "(n)" only where it differs from the position)."""
        self.items, self.ext = list(items), ext


class Member(object):
    def __init__(self, name, ty, optional=False, default=None, has_default=False):
        self.name, self.ty, self.optional, self.default, self.has_default = name, ty, optional, default, has_default


class TSeq(Ty):
    kind = 'seq'

    def __init__(self, members, ext=False, additions=None):
        """additions: members after the extension marker (plain extension
        additions, neither OPTIONAL nor DEFAULT; their presence is the bit in the
        addition bitmap); implies ext."""
        self.members, self.ext = list(members), ext or bool(additions)
        self.additions = list(additions or [])


class TSeqOf(Ty):
    kind = 'seqof'

    def __init__(self, lo, hi, elem, ext=False):
        self.lo, self.hi, self.elem, self.ext = lo, hi, elem, ext


class TChoice(Ty):
    kind = 'choice'

    def __init__(self, alts, ext=False):
        self.alts, self.ext = list(alts), ext


class TReal(Ty):
    """REAL restricted to IEEE 754 binary32 / binary64 by WITH COMPONENTS (OER C generator only)."""
    kind = 'real'

    def __init__(self, bits):
        self.bits = bits


class TRef(Ty):
    kind = 'ref'

    def __init__(self, module, name):
        self.module, self.name = module, name


class TRaw(Ty):
    """ASN.1 text outside the supported subset (used only by the rejection test)."""
    kind = 'raw'

    def __init__(self, text):
        self.text = text


class Spec(object):
    """modules: [(module_name, [(type_name, Ty)])]"""

    def __init__(self, modules):
        self.modules = modules
        self.index = {(m, n): t for m, ts in modules for n, t in ts}

    def resolve(self, ty):
        seen = 0
        while ty.kind == 'ref':
            ty = self.index[(ty.module, ty.name)]
            seen += 1
            if seen > 50:
                raise ValueError('reference cycle')
        return ty

    def to_json(self):
        return [[m, [[n, t.to_json()] for n, t in ts]] for m, ts in self.modules]

    @staticmethod
    def from_json(j):
        return Spec([(m, [(n, ty_from_json(t)) for n, t in ts]) for m, ts in j])

    # ---- ASN.1 text
    def text(self):
        out = []
        for m, ts in self.modules:
            imports = {}
            for _, t in ts:
                for r in refs_of(t):
                    if r.module != m:
                        imports.setdefault(r.module, set()).add(r.name)
            lines = ['%s DEFINITIONS AUTOMATIC TAGS ::= BEGIN' % m]
            if imports:
                lines.append('IMPORTS ' + ' '.join('%s FROM %s' % (', '.join(sorted(ns)), mod)
                                                   for mod, ns in sorted(imports.items())) + ';')
            for n, t in ts:
                lines.append('%s ::= %s' % (n, self.render(t)))
            lines.append('END')
            out.append('\n'.join(lines))
        return '\n'.join(out) + '\n'

    def render(self, t):
        k = t.kind
        if k == 'bool':
            return 'BOOLEAN'
        if k == 'null':
            return 'NULL'
        if k == 'int':
            return 'INTEGER (%d..%d%s)' % (t.lo, t.hi, ', ...' if t.ext else '')
        if k == 'octets':
            return 'OCTET STRING (SIZE(%s%s))' % (_rng(t.lo, t.hi), ', ...' if t.ext else '')
        if k == 'bits':
            nb = ''
            if t.named:
                nb = ' { ' + ', '.join('%s(%d)' % (a, b) for a, b in t.named) + ' }'
            return 'BIT STRING%s (SIZE(%d))' % (nb, t.n)
        if k == 'enum':
            parts = []
            for i, (name, num) in enumerate(t.items):
                parts.append(name if num == i and all(n2 == j for j, (_, n2) in enumerate(t.items[:i]))
                             else '%s(%d)' % (name, num))
            return 'ENUMERATED { %s%s }' % (', '.join(parts), ', ...' if t.ext else '')
        if k == 'seq':
            parts = []
            for m in t.members:
                s = '%s %s' % (m.name, self.render(m.ty))
                if m.optional:
                    s += ' OPTIONAL'
                elif m.has_default:
                    s += ' DEFAULT ' + self.render_value(m.ty, m.default)
                parts.append(s)
            if t.ext:
                parts.append('...')
            for m in getattr(t, 'additions', []):
                parts.append('%s %s' % (m.name, self.render(m.ty)))
            return 'SEQUENCE { %s }' % ', '.join(parts)
        if k == 'seqof':
            return 'SEQUENCE (SIZE(%s%s)) OF %s' % (_rng(t.lo, t.hi), ', ...' if t.ext else '', self.render(t.elem))
        if k == 'choice':
            parts = ['%s %s' % (n, self.render(a)) for n, a in t.alts]
            if t.ext:
                parts.append('...')
            return 'CHOICE { %s }' % ', '.join(parts)
        if k == 'ref':
            return t.name
        if k == 'real':
            if t.bits == 32:
                return 'REAL (WITH COMPONENTS { mantissa (-16777215..16777215), base (2), exponent (-149..104) })'
            return 'REAL (WITH COMPONENTS { mantissa (-9007199254740991..9007199254740991), base (2), exponent (-1074..971) })'
        if k == 'raw':
            return t.text
        raise ValueError(k)

    def render_value(self, ty, v):
        t = self.resolve(ty)
        k = t.kind
        if k == 'bool':
            return 'TRUE' if v else 'FALSE'
        if k == 'int':
            return str(v)
        if k == 'enum':
            return v
        if k == 'octets':
            return "'%s'H" % v.hex().upper()
        if k == 'bits':
            data, n = v
            bits = bin(int.from_bytes(data, 'big') >> (8 * len(data) - n))[2:].zfill(n) if n else ''
            return "'%s'B" % bits
        if k == 'null':
            return 'NULL'
        raise ValueError('no DEFAULT rendering for ' + k)


def _rng(lo, hi):
    return str(lo) if lo == hi else '%d..%d' % (lo, hi)


def refs_of(t):
    k = t.kind
    if k == 'ref':
        yield t
    elif k == 'seq':
        for m in t.members + getattr(t, 'additions', []):
            for r in refs_of(m.ty):
                yield r
    elif k == 'seqof':
        for r in refs_of(t.elem):
            yield r
    elif k == 'choice':
        for _, a in t.alts:
            for r in refs_of(a):
                yield r


def subtypes(t):
    """All type nodes below (and including) t, without following references."""
    yield t
    k = t.kind
    if k == 'seq':
        for m in t.members + getattr(t, 'additions', []):
            for x in subtypes(m.ty):
                yield x
    elif k == 'seqof':
        for x in subtypes(t.elem):
            yield x
    elif k == 'choice':
        for _, a in t.alts:
            for x in subtypes(a):
                yield x


# --------------------------------------------------------------------------
# random types

INT_RANGES = [
    (0, 0), (5, 5), (-3, -3), (0, 1), (0, 2), (0, 3), (0, 7), (0, 8), (1, 3), (-5, 10), (-1, 0), (0, 100),
    (0, 127), (0, 128), (0, 254), (0, 255), (0, 256), (1, 256), (3, 258), (0, 257), (250, 255), (250, 260),
    (-128, 127), (-128, 126), (-127, 127), (-129, 127), (-128, 128), (-100, -90), (-1, 126), (-1, 127),
    (0, 65535), (0, 65536), (1, 65536), (0, 65534), (-32768, 32767), (-32769, 32767), (-32768, 32768), (-1, 32767),
    (0, 2 ** 32 - 1), (0, 2 ** 32), (1, 2 ** 32), (0, 2 ** 32 - 2), (-2 ** 31, 2 ** 31 - 1), (-2 ** 31 - 1, 2 ** 31 - 1),
    (-2 ** 31, 2 ** 31), (-1, 2 ** 31 - 1), (2 ** 32 - 5, 2 ** 32 + 5), (2 ** 31 - 2, 2 ** 31 + 2),
    (0, 2 ** 63 - 1), (0, 2 ** 63), (0, U64_MAX), (1, U64_MAX), (0, U64_MAX - 1), (2 ** 63, U64_MAX),
    (I64_MIN, I64_MAX), (I64_MIN + 1, I64_MAX), (I64_MIN, I64_MAX - 1), (I64_MIN, 0), (I64_MIN, -1),
    (I64_MIN, I64_MIN + 9), (-1, I64_MAX), (I64_MAX - 3, I64_MAX), (U64_MAX - 3, U64_MAX), (-2 ** 40, 2 ** 40),
    (1000, 1000000), (-70000, 5),
    # a word minimum under a field of another word width (integer fast path of the generator)
    (-32768, -32513), (-128, 65000), (-128, 65407), (-2 ** 31, -2 ** 31 + 255), (-2 ** 31, -2 ** 31 + 65535),
    (-32768, 2 ** 32 - 32769), (-128, 2 ** 32 - 129), (I64_MIN, I64_MIN + 255), (I64_MIN, I64_MIN + 65535),
    (I64_MIN, I64_MIN + 2 ** 32 - 1), (-2 ** 31, 2 ** 31 - 1 - 2 ** 20),
]

SIZES = [(0, 0), (1, 1), (2, 2), (3, 3), (7, 7), (8, 8), (0, 1), (0, 2), (0, 3), (1, 2), (1, 4), (2, 5), (0, 7), (0, 8),
         (3, 10), (0, 15), (0, 16), (1, 16), (0, 100), (0, 254), (0, 255), (0, 256), (1, 255), (1, 256), (1, 257),
         (255, 255), (256, 256), (257, 257), (250, 260), (0, 300)]
BIG_SIZES = [(0, 65535), (0, 65536), (1, 65536), (65535, 65535), (65536, 65536), (0, 65534), (60000, 65535)]

MEMBER_NAMES = ['a', 'b', 'c', 'd', 'e', 'f', 'g', 'h', 'foo', 'bar-baz', 'x1', 'fooBar', 'a-b-c', 'q2w', 'm', 'n', 'zz',
                'alpha', 'b2', 'k-9']
ENUM_NAMES = ['red', 'green', 'blue', 'a', 'b', 'c', 'd', 'x-y', 'fooBar', 'z9', 'on', 'off', 'k1', 'k2', 'k3', 'k4', 'k5']
TYPE_NAMES = ['A', 'B', 'C', 'D', 'E', 'F', 'G', 'H', 'Foo', 'FooBar', 'Bar-Baz', 'T1', 'T2x', 'MyType', 'ABc', 'Q']
MODULE_NAMES = ['M', 'Other-Mod', 'Mod2']


def enum_numbers(r, n):
    """Enumeration numbers of n root enumerators, in the order written: the
    implicit numbering, permutations of 0..n-1, gaps, negative numbers, and
    the shapes around "largest number = n - 1" / "smallest = 0" where a test on
    the extremes and a test on every number disagree."""
    x = r.random()
    if x < .4:
        return list(range(n))
    if x < .5:
        nums = list(range(n))
        r.shuffle(nums)
        return nums
    if x < .65:
        # largest is n - 1, some smaller ones pushed below zero (the sorted positions differ from the numbers)
        nums = list(range(n))
        k = r.randrange(1, n) if n > 1 else 0
        for i in range(k):
            nums[i] = -r.randrange(1, 6) - 10 * (k - i)
        if r.random() < .5:
            r.shuffle(nums)
        return nums
    if x < .75:
        lo = -r.choice([1, 2, n, 128, 129, 40000])
        nums = r.sample(range(lo, lo + n + r.choice([0, 1, 3, 300])), n)
        if r.random() < .5:
            nums.sort()
        return nums
    nums = r.sample(range(0, r.choice([n + 3, 300, 70000])), n)
    if r.random() < .5:
        nums.sort()
    return nums


class Gen(object):
    """Random modules in the supported subset.  [avoid] is a predicate on type
    nodes (given the kind of position) that the caller uses to stay out of the
    regions recorded as known findings."""

    def __init__(self, rng, avoid=None, big=False, features=None):
        self.rng = rng
        self.avoid = avoid or (lambda t, where, resolve: False)
        self.big = big
        self.features = features or {}

    def pick_int(self):
        r = self.rng
        if r.random() < .75:
            lo, hi = r.choice(INT_RANGES)
        else:
            w = r.choice([1, 2, 3, 5, 8, 9, 15, 16, 17, 31, 32, 33, 47, 62, 63])
            span = r.randrange(1, 2 ** w + 1)
            lo = r.choice([0, 0, 1, -1, -span // 2, r.randrange(-2 ** w, 2 ** w)])
            hi = lo + span - 1
        return TInt(lo, hi)

    def pick_size(self, allow_big=True):
        r = self.rng
        if self.big and allow_big and r.random() < .25:
            return r.choice(BIG_SIZES)
        if r.random() < .85:
            return r.choice(SIZES)
        lo = r.randrange(0, 40)
        return lo, lo + r.randrange(0, 300)

    def leaf(self):
        r = self.rng
        if self.features.get('real') and r.random() < self.features['real']:
            return TReal(r.choice([32, 64]))
        k = r.choice(['bool', 'int', 'int', 'int', 'octets', 'octets', 'bits', 'enum', 'enum', 'null'])
        if k == 'bool':
            return TBool()
        if k == 'null':
            return TNull()
        if k == 'int':
            return self.pick_int()
        if k == 'octets':
            lo, hi = self.pick_size()
            if hi == 0:
                hi = 1
                lo = min(lo, 1)
            return TOctets(lo, hi)
        if k == 'bits':
            n = r.choice([1, 2, 3, 4, 5, 7, 8, 9, 12, 15, 16, 17, 20, 24, 25, 31, 32, 33, 40, 48, 63, 64])
            named = None
            if r.random() < .3:
                ks = sorted(r.sample(range(n), min(n, r.randrange(1, 4))))
                named = [('n%d' % b, b) for b in ks]
            return TBits(n, named)
        return self.enum()

    def enum(self):
        r = self.rng
        cnt = r.choice([1, 2, 2, 3, 3, 4, 5, 7, 8, 9, 16, 17])
        names = r.sample(ENUM_NAMES, min(cnt, len(ENUM_NAMES)))
        nums = enum_numbers(r, len(names))
        return TEnum(list(zip(names, nums)), ext=r.random() < self.features.get('enum_ext', 0))

    def any_type(self, depth, names):
        """names: referable (module, name) list (already defined types)."""
        r = self.rng
        for _ in range(40):
            t = self._any_type(depth, names)
            if not any(self.avoid(x, 'type', self.spec_resolve) for x in subtypes(t)) and not any(
                    self.avoid(m, 'member', self.spec_resolve) for x in subtypes(t) if x.kind == 'seq' for m in x.members) \
                    and not any(self.avoid(m, 'addition', self.spec_resolve) for x in subtypes(t) if x.kind == 'seq'
                                for m in getattr(x, 'additions', [])):
                return t
        return TBool()

    def _any_type(self, depth, names):
        r = self.rng
        x = r.random()
        if names and x < .18:
            m, n = r.choice(names)
            return TRef(m, n)
        if depth <= 0 or x < .5:
            return self.leaf()
        k = r.choice(['seq', 'seq', 'seqof', 'choice'])
        if k == 'seq':
            return self.seq(depth, names)
        if k == 'seqof':
            lo, hi = self.pick_size(allow_big=False)
            if hi > 40 and r.random() < .8:
                lo, hi = min(lo, 3), r.randrange(1, 20)
            if hi == 0:
                hi = 1
            lo = min(lo, hi)
            return TSeqOf(lo, hi, self.any_type(depth - 1, names))
        return self.choice(depth, names)

    def seq(self, depth, names):
        r = self.rng
        cnt = r.choice([0, 1, 2, 3, 3, 4, 5, 6, 9])
        mnames = r.sample(MEMBER_NAMES, cnt)
        members = []
        for mn in mnames:
            ty = self.any_type(depth - 1, names)
            x = r.random()
            if x < .25:
                members.append(Member(mn, ty, optional=True))
            elif x < .5:
                d = self.default_for(ty)
                if d is None:
                    members.append(Member(mn, ty))
                else:
                    members.append(Member(mn, ty, default=d[0], has_default=True))
            else:
                members.append(Member(mn, ty))
            if self.avoid(members[-1], 'member', self.spec_resolve):
                members[-1] = Member(mn, members[-1].ty)
                if self.avoid(members[-1], 'member', self.spec_resolve):
                    members.pop()
        if depth >= 1 and r.random() < self.features.get('twins', .15):
            for tm in self.twins():
                if not self.avoid(tm, 'member', self.spec_resolve):
                    members.append(tm)
        ext = r.random() < self.features.get('seq_ext', .2)
        additions = []
        if ext and self.features.get('additions') and r.random() < self.features['additions']:
            anames = [n for n in r.sample(MEMBER_NAMES, r.choice([1, 1, 2, 3, 5, 9])) if n not in mnames]
            for an in anames:
                m = Member(an, self.any_type(depth - 1, names))
                if not self.avoid(m, 'addition', self.spec_resolve):
                    additions.append(m)
        return TSeq(members, ext=ext, additions=additions)

    def twins_spec(self):
        """One module with same-named DEFAULT members of every kind in sibling inline SEQUENCEs (root of a
        SEQUENCE and alternatives of a CHOICE); members vetoed by an open finding's region are left out."""
        self._index = {}
        ms = []
        for kind in ('octets', 'enum', 'int', 'bool'):
            tw = self.twins(kind)
            for i, tm in enumerate(tw):
                tm.name = '%s%s' % (tm.name, kind[0])
            ms += tw
        ok = lambda tm: not self.avoid(tm, 'member', self.spec_resolve) and not any(  # noqa: E731
            self.avoid(x, 'type', self.spec_resolve) or (x.kind == 'seq' and any(self.avoid(m, 'member', self.spec_resolve)
                                                                                  for m in x.members))
            for x in subtypes(tm.ty))
        ms = [tm for tm in ms if ok(tm)]
        seq = TSeq([Member('first', TBool())] + ms)
        if any(self.avoid(x, 'type', self.spec_resolve) for x in [seq]):
            seq = TSeq([Member('first', TBool())] + [m for m in ms if self.spec_resolve(m.ty.members[-1].ty).kind != 'octets'])
        cho = TChoice([(tm.name, tm.ty) for tm in ms] or [('only', TBool())])
        if self.avoid(cho, 'type', self.spec_resolve):
            cho = TChoice([('only', TBool())])
        return Spec([('M', [('TwSeq', seq), ('TwCho', cho)])])

    def twins(self, kind=None):
        """Two sibling inline SEQUENCEs whose members have the SAME name and type but DIFFERENT DEFAULTs
        (generators of per-member C constants / conditions must not confuse them)."""
        r = self.rng
        inner = r.choice(MEMBER_NAMES)
        kind = kind or r.choice(['octets', 'octets', 'enum', 'int', 'bool'])
        if kind == 'octets':
            lo, hi = r.choice([(0, 4), (0, 3), (1, 5), (2, 2), (0, 16)])
            mk = lambda: TOctets(lo, hi)  # noqa: E731
            n1 = r.randint(lo, hi)
            d1 = bytes(r.randrange(256) for _ in range(n1))
            n2 = r.randint(lo, hi)
            d2 = bytes(r.randrange(256) for _ in range(n2))
            if d1 == d2:
                d2 = bytes((b + 1) % 256 for b in d1) if d1 else bytes([7] * max(hi, 1))[:hi]
            if d1 == d2:
                return []
        elif kind == 'enum':
            names = r.sample(ENUM_NAMES, r.choice([2, 3, 5]))
            items = list(zip(names, range(len(names))))
            mk = lambda: TEnum(list(items))  # noqa: E731
            d1, d2 = names[0], names[-1]
        elif kind == 'int':
            lo, hi = r.choice([(0, 7), (-5, 10), (0, 255), (0, 65536), (-32768, 32767)])
            mk = lambda: TInt(lo, hi)  # noqa: E731
            d1, d2 = lo, hi
        else:
            mk = lambda: TBool()  # noqa: E731
            d1, d2 = True, False
        out = []
        for nm, d in (('tw-a', d1), ('twB', d2)):
            extra = [Member('z', TBool())] if r.random() < .5 else []
            out.append(Member(nm, TSeq(extra + [Member(inner, mk(), default=d, has_default=True)])))
        return out

    def choice(self, depth, names):
        r = self.rng
        cnt = r.choice([1, 2, 2, 3, 4, 5, 8, 9])
        anames = r.sample(MEMBER_NAMES, cnt)
        alts = [(n, self.any_type(depth - 1, names)) for n in anames]
        if depth >= 1 and r.random() < self.features.get('twins', .15):
            tw = self.twins()
            if not any(self.avoid(tm, 'member', self.spec_resolve) for tm in tw) and not any(
                    self.avoid(x, 'type', self.spec_resolve) for tm in tw for x in subtypes(tm.ty)):
                alts += [(tm.name, tm.ty) for tm in tw]
        return TChoice(alts, ext=r.random() < self.features.get('choice_ext', 0))

    def default_for(self, ty):
        """A DEFAULT value for member type [ty] (None: no default for this kind)."""
        t = self.spec_resolve(ty)
        r = self.rng
        k = t.kind
        if k == 'bool':
            return (r.random() < .5,)
        if k == 'int':
            return (r.choice([t.lo, t.hi, (t.lo + t.hi) // 2]),)
        if k == 'enum':
            return (r.choice(t.items)[0],)
        if k == 'octets' and self.features.get('octets_default', True) and t.hi <= 300:
            n = r.choice([t.lo, t.hi, (t.lo + t.hi) // 2])
            return (bytes(r.randrange(256) for _ in range(n)),)
        return None

    def spec_resolve(self, ty):
        while ty.kind == 'ref':
            ty = self._index[(ty.module, ty.name)]
        return ty

    def spec(self):
        r = self.rng
        nmod = r.choice([1, 1, 2, 3])
        mods = r.sample(MODULE_NAMES, nmod)
        self._index = {}
        names = []
        modules = [(m, []) for m in mods]
        ntypes = r.randrange(2, 7)
        tnames = r.sample(TYPE_NAMES, min(len(TYPE_NAMES), ntypes))
        for tn in tnames:
            mi = r.randrange(nmod)
            t = self.any_type(r.choice([0, 1, 2, 2, 3]), names)
            modules[mi][1].append((tn, t))
            self._index[(mods[mi], tn)] = t
            names.append((mods[mi], tn))
        modules = [(m, ts) for m, ts in modules if ts]
        return Spec(modules)


# --------------------------------------------------------------------------
# random values (in the value form of the Python codecs)

def over_targets(spec, ty, seen=None):
    """Nodes (OCTET STRING / SEQUENCE OF with a variable size) whose length
    field can express more than the maximum: the decoder has to check there."""
    out = []
    t = spec.resolve(ty)
    k = t.kind
    if k in ('octets', 'seqof') and t.lo != t.hi:
        span = t.hi - t.lo
        if (1 << span.bit_length()) - 1 > span:
            out.append(t)
    if k == 'seq':
        for m in t.members + getattr(t, 'additions', []):
            out += over_targets(spec, m.ty)
    elif k == 'seqof':
        if t.hi > 0:
            out += over_targets(spec, t.elem)
    elif k == 'choice':
        for _, a in t.alts:
            out += over_targets(spec, a)
    return out


def contains_node(spec, ty, target):
    t = spec.resolve(ty)
    if t is target:
        return True
    k = t.kind
    if k == 'seq':
        return any(contains_node(spec, m.ty, target) for m in t.members + getattr(t, 'additions', []))
    if k == 'seqof':
        return t.hi > 0 and contains_node(spec, t.elem, target)
    if k == 'choice':
        return any(contains_node(spec, a, target) for _, a in t.alts)
    return False


def gen_over_value(spec, ty, rng, target):
    """A value that is valid except that [target] gets a length above its
    maximum which the length field can still express (the Python encoder does
    not check constraints, so it produces the bytes a hostile peer would send)."""
    t = spec.resolve(ty)
    k = t.kind
    if t is target:
        span = t.hi - t.lo
        n = rng.randint(t.hi + 1, t.lo + (1 << span.bit_length()) - 1)
        if k == 'octets':
            return bytes(rng.randrange(256) for _ in range(n))
        return [gen_value(spec, t.elem, rng, 'lo') for _ in range(n)]
    if k == 'seq':
        d = {}
        for m in t.members:
            if contains_node(spec, m.ty, target):
                d[m.name] = gen_over_value(spec, m.ty, rng, target)
                target = None if False else target
            elif m.optional or m.has_default:
                if rng.random() < .5:
                    d[m.name] = gen_value(spec, m.ty, rng)
            else:
                d[m.name] = gen_value(spec, m.ty, rng)
        for m in getattr(t, 'additions', []):
            if contains_node(spec, m.ty, target):
                d[m.name] = gen_over_value(spec, m.ty, rng, target)
        return d
    if k == 'seqof':
        n = max(t.lo, 1)
        return [gen_over_value(spec, t.elem, rng, target)] + [gen_value(spec, t.elem, rng) for _ in range(n - 1)]
    if k == 'choice':
        c = [(n, a) for n, a in t.alts if contains_node(spec, a, target)]
        n, a = rng.choice(c)
        return (n, gen_over_value(spec, a, rng, target))
    return gen_value(spec, ty, rng)


def gen_value(spec, ty, rng, edge=None, budget=None):
    """edge: None (random), 'lo', 'hi'.  budget: one-element list with the
    number of leaves still allowed (keeps the generated fill code small); once
    it is used up lists take their minimum size and OPTIONAL members are absent."""
    if budget is None:
        budget = [6000]
    budget[0] -= 1
    if budget[0] <= 0 and edge != 'lo':
        edge = 'lo'
    t = spec.resolve(ty)
    k = t.kind
    if k == 'bool':
        return rng.random() < .5 if edge is None else edge == 'hi'
    if k == 'null':
        return None
    if k == 'int':
        if edge == 'lo':
            return t.lo
        if edge == 'hi':
            return t.hi
        x = rng.random()
        if x < .25:
            return rng.choice([t.lo, t.hi, min(t.lo + 1, t.hi), max(t.hi - 1, t.lo)])
        if x < .4:
            c = [v for v in (0, -1, 1, 127, 128, 255, 256, -128, -129, 32767, 32768, 65535, 65536, 2 ** 31 - 1, 2 ** 31,
                             2 ** 32 - 1, 2 ** 32, 2 ** 63 - 1, 2 ** 63, -2 ** 31, -2 ** 31 - 1) if t.lo <= v <= t.hi]
            if c:
                return rng.choice(c)
        return rng.randint(t.lo, t.hi)
    if k == 'octets':
        n = t.lo if edge == 'lo' else t.hi if edge == 'hi' else rng.choice([t.lo, t.hi, rng.randint(t.lo, t.hi)])
        budget[0] -= n // 8
        x = rng.random()
        if x < .1:
            return bytes(n)
        if x < .2:
            return b'\xff' * n
        return rng.getrandbits(8 * n).to_bytes(n, 'big') if n else b''
    if k == 'bits':
        v = 0 if edge == 'lo' else 2 ** t.n - 1 if edge == 'hi' else rng.getrandbits(t.n)
        if edge is None and rng.random() < .2:
            v = rng.choice([1, 2 ** (t.n - 1), 2 ** t.n - 1, 0])
        nbytes = (t.n + 7) // 8
        return ((v << (8 * nbytes - t.n)).to_bytes(nbytes, 'big'), t.n)
    if k == 'enum':
        if edge == 'lo':
            return t.items[0][0]
        if edge == 'hi':
            return t.items[-1][0]
        return rng.choice(t.items)[0]
    if k == 'seq':
        d = {}
        for m in t.members:
            if m.optional:
                if (edge == 'hi') or (edge is None and rng.random() < .55):
                    d[m.name] = gen_value(spec, m.ty, rng, edge, budget)
            elif m.has_default:
                x = rng.random()
                if edge == 'lo' or (edge is None and x < .35):
                    pass                                  # absent: the default applies
                elif edge is None and x < .5:
                    d[m.name] = m.default                 # the default value given explicitly
                else:
                    d[m.name] = gen_value(spec, m.ty, rng, edge, budget)
            else:
                d[m.name] = gen_value(spec, m.ty, rng, edge, budget)
        for m in getattr(t, 'additions', []):
            if (edge == 'hi') or (edge is None and rng.random() < .6):
                d[m.name] = gen_value(spec, m.ty, rng, edge, budget)
        return d
    if k == 'real':
        import struct
        fmt, n = ('>f', 4) if t.bits == 32 else ('>d', 8)
        if edge == 'lo':
            return 0.0
        if edge == 'hi':
            return struct.unpack(fmt, b'\x7f\x7f\xff\xff' if n == 4 else b'\x7f\xef' + b'\xff' * 6)[0]
        x = rng.random()
        if x < .3:
            return rng.choice([0.0, -0.0, 1.0, -1.0, 0.5, float('inf'), float('-inf'), 1.5, 3.0, -2.25])
        while True:
            v = struct.unpack(fmt, rng.getrandbits(8 * n).to_bytes(n, 'big'))[0]
            if v == v:            # no NaN: payloads do not survive a Python float
                return v
    if k == 'seqof':
        n = t.lo if edge == 'lo' else t.hi if edge == 'hi' else rng.choice([t.lo, t.hi, rng.randint(t.lo, t.hi)])
        return [gen_value(spec, t.elem, rng, edge if rng.random() < .3 else None, budget) for _ in range(n)]
    if k == 'choice':
        if edge == 'lo':
            n, a = t.alts[0]
        elif edge == 'hi':
            n, a = t.alts[-1]
        else:
            n, a = rng.choice(t.alts)
        return (n, gen_value(spec, a, rng, edge, budget))
    raise ValueError(k)


def c_supported_type(spec, t, seen=(), codec='uper'):
    """My own statement of the documented subset of the C generator (README
    'Limitations by design' + the property text).  None when supported, else
    the reason the generator has to give an error."""
    k = t.kind
    if k == 'raw':
        return 'outside the subset'
    if k == 'real' and codec != 'oer':
        return 'REAL (OER generator only)'
    if k == 'seq' and getattr(t, 'additions', None) and codec != 'oer':
        return 'extension additions (OER generator only)'
    if k in ('int', 'octets', 'seqof') and t.ext:
        return 'extensible constraint (README: extension additions only in the OER generator)'
    if k == 'int':
        if t.lo < I64_MIN or t.hi > U64_MAX or (t.lo < 0 and t.hi > I64_MAX):
            return 'INTEGER wider than 64 bits'
    if k in ('octets', 'seqof') and t.hi > 65535 and codec != 'oer':
        return 'size above 65535 (X.691 fragmentation, not generated)'
    if k == 'bits' and t.n > 64:
        return 'BIT STRING longer than 64 bits'
    if k == 'ref':
        if (t.module, t.name) in seen:
            return 'recursive type'
        return c_supported_type(spec, spec.index[(t.module, t.name)], seen + ((t.module, t.name),), codec)
    if k == 'seq':
        for m in t.members + getattr(t, 'additions', []):
            r = c_supported_type(spec, m.ty, seen, codec)
            if r:
                return r
        for m in getattr(t, 'additions', []):
            if any(x.kind == 'bits' for x in subtypes(spec.resolve(m.ty))):
                return 'BIT STRING inside an extension addition (the generator has no length code for it and says so)'
    if k == 'seqof':
        return c_supported_type(spec, t.elem, seen, codec)
    if k == 'choice':
        for _, a in t.alts:
            r = c_supported_type(spec, a, seen, codec)
            if r:
                return r
    return None


def c_supported(spec, codec='uper'):
    for m, ts in spec.modules:
        for n, t in ts:
            r = c_supported_type(spec, t, ((m, n),), codec)
            if r:
                return r
    return None


def valid_value(spec, ty, v):
    """Is v (Python codec value form) a value of the type?"""
    t = spec.resolve(ty)
    k = t.kind
    try:
        if k == 'bool':
            return isinstance(v, bool)
        if k == 'null':
            return v is None
        if k == 'int':
            return isinstance(v, int) and not isinstance(v, bool) and t.lo <= v <= t.hi
        if k == 'octets':
            return isinstance(v, (bytes, bytearray)) and t.lo <= len(v) <= t.hi
        if k == 'bits':
            return isinstance(v, tuple) and v[1] == t.n and len(v[0]) == (t.n + 7) // 8
        if k == 'enum':
            return v in dict(t.items)
        if k == 'seq':
            if not isinstance(v, dict):
                return False
            for m in t.members:
                if m.name in v:
                    if not valid_value(spec, m.ty, v[m.name]):
                        return False
                elif not (m.optional or m.has_default):
                    return False
            for m in getattr(t, 'additions', []):
                if m.name in v and not valid_value(spec, m.ty, v[m.name]):
                    return False
            return True
        if k == 'real':
            return isinstance(v, float) and v == v
        if k == 'seqof':
            return isinstance(v, list) and t.lo <= len(v) <= t.hi and all(valid_value(spec, t.elem, e) for e in v)
        if k == 'choice':
            return isinstance(v, tuple) and v[0] in dict(t.alts) and valid_value(spec, dict(t.alts)[v[0]], v[1])
    except Exception:
        return False
    return False


def value_weight(v):
    """Rough size in bytes of the encoding of a value (to keep the quadratic
    Python bit-string encoder out of multi-megabyte messages)."""
    if isinstance(v, (bytes, bytearray)):
        return len(v) + 2
    if isinstance(v, dict):
        return sum(value_weight(x) for x in v.values()) + 1
    if isinstance(v, list):
        return sum(value_weight(x) for x in v) + 2
    if isinstance(v, tuple):
        return sum(value_weight(x) for x in v)
    return 1


def approx_struct_bytes(spec, ty, depth=0):
    """Order of magnitude of sizeof the C struct of a type."""
    t = spec.resolve(ty)
    k = t.kind
    if depth > 30:
        return 8
    if k == 'octets':
        return t.hi + 4
    if k == 'seq':
        return sum(approx_struct_bytes(spec, m.ty, depth + 1) + 1 for m in t.members + getattr(t, 'additions', [])) + 1
    if k == 'seqof':
        return t.hi * approx_struct_bytes(spec, t.elem, depth + 1) + 4
    if k == 'choice':
        return max([approx_struct_bytes(spec, a, depth + 1) for _, a in t.alts] + [1]) + 4
    return 8
