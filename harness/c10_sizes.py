"""C10 — sizes at and above 2^16 / 2^24 in the generated OER C code (round 5).

Region: the octet count of the quantity field of a SEQUENCE OF and of the length
determinant of an OCTET STRING changes at 2^8, 2^16 and 2^24; the random modules of
spine A never have a SEQUENCE OF above 300 elements, so everything the generator
does for 3- and 4-octet quantities was never executed nor looked at.

static   for SEQUENCE OF sizes on both sides of every threshold up to 2^32 - 1, at the
         top level and as SEQUENCE member / CHOICE alternative / element / extension
         addition, the generated C is parsed and the three statements that write the
         quantity field (COUNT, VALUE) and the decoder's comparison are read out and
         evaluated by the Coq model CGen/GenLogicOerSizes.v against the X.696
         specification model (Oer.X696.x_uint_var); theorems in
         GenLogicOerSizesProofs.v (quantity_runtime_is_x696, quantity_fixed_is_x696,
         quantity_count_must_be_minimal, ...).  Same for the length form of OCTET STRING.
dynamic  modules with fixed and variable SEQUENCE OFs of 65536.. elements (BOOLEAN /
         one-octet INTEGER elements: cheap to compile) go through spine A (gcc, clang
         ASan/UBSan, byte-exact against the Python OER codec, truncations, hostile
         quantities).  The 2^24 threshold is covered statically only: the Python OER
         encoder needs more than 20 minutes for 2^24 elements.
"""
import common
from common import to_coq, C

import c09_cc
import c09_driver
import c09_spine_a as A
import c09_types as T
from c09_driver import cparse

CODEC = 'oer'


# --------------------------------------------------------------------------
# driver: long lists of scalars are filled from a table by a loop (the stock
# walker writes one assignment per element)

_BaseWalker = c09_driver.Walker


class BigWalker(_BaseWalker):
    LONG = 600

    def fill(self, ty, slot, v, out, where):
        t = self.spec.resolve(ty)
        if t.kind == 'seqof' and isinstance(v, list) and len(v) > self.LONG and slot.kind == 'struct':
            et = self.spec.resolve(t.elem)
            if t.elem.kind in ('bool', 'int') and (et.kind == 'bool' or -2 ** 63 <= et.lo and et.hi < 2 ** 63):
                ln = self.length_member(slot, t.lo, t.hi)
                if ln:
                    self.emit_scalar(out, ln, '%d' % len(v), len(v))
                em = self.member(slot.members, 'elements', slot.prefix)
                if em.array != t.hi:
                    raise c09_driver.LayoutError('%selements has capacity %r, expected %d' % (slot.prefix, em.array, t.hi))
                es = self.member_slot(t.elem, slot.members, slot.prefix, 'elements', 'i_')
                if es.kind != 'scalar':
                    raise c09_driver.LayoutError('%s: scalar elements expected' % where)
                self.check_scalar(et, es)
                self.tmp += 1
                if et.kind == 'bool':
                    cty, items, rhs = 'uint8_t', ['1' if x else '0' for x in v], 't%d[i_] != 0' % self.tmp
                else:
                    cty = 'uint8_t' if 0 <= et.lo and et.hi <= 255 else 'int64_t'
                    items = [c09_driver.c_int_literal(x) if cty == 'int64_t' else str(x) for x in v]
                    rhs = 't%d[i_]' % self.tmp
                out.append('{ static const %s t%d[] = {%s}; size_t i_; for (i_ = 0; i_ < %d; i_++) %s = %s; }' % (
                    cty, self.tmp, ','.join(items), len(v), es.expr, rhs))
                return
        return _BaseWalker.fill(self, ty, slot, v, out, where)


def install_walker():
    """build_driver instantiates c09_driver.Walker by name; the subclass behaves identically except for
    lists of more than LONG scalar elements (which the random modules of spine A never contain)."""
    if c09_driver.Walker is not BigWalker:
        c09_driver.Walker = BigWalker


# --------------------------------------------------------------------------
# static: the emitted quantity code against the Coq model

BANDS = [(0, 2 ** 8), (2 ** 8, 2 ** 16), (2 ** 16, 2 ** 24), (2 ** 24, 2 ** 32)]
EDGES = [1, 2, 127, 128, 255, 256, 257, 65535, 65536, 65537, 2 ** 24 - 1, 2 ** 24, 2 ** 24 + 1, 2 ** 31, 2 ** 32 - 1]


def band_sample(rng):
    lo, hi = rng.choice(BANDS[1:] + BANDS[2:])
    return rng.randrange(max(lo, 1), hi)


def qexp(e):
    """C expression -> term of CGen.GenLogicOerSizes.qexp (fail closed)."""
    k = e[0]
    if k == 'num':
        return C('QNum', e[1])
    if k == 'cast':
        return qexp(e[-1])
    if k == 'call' and e[1] == 'minimum_uint_length' and len(e[2]) == 1:
        return C('QMinUint', qexp(e[2][0]))
    if k == 'call' and e[1] == 'length_determinant_length' and len(e[2]) == 1:
        return C('QLenDetLen', qexp(e[2][0]))
    if k in ('member', 'arrow') and e[2] == 'length':
        return C('QLen')
    raise cparse.CParseError('quantity code: expression %s is outside the shapes the model covers' % cparse.show(e))


def walk(stmts):
    """all statements in execution order, nested bodies flattened after their head"""
    for s in stmts:
        yield s
        k = s[0]
        if k == 'if':
            for x in walk(s[2]):
                yield x
            if s[3]:
                for x in walk(s[3]):
                    yield x
        elif k == 'for':
            for x in walk(s[4]):
                yield x
        elif k == 'switch':
            for _, b in s[2]:
                for x in walk(b):
                    yield x
        elif k == 'block':
            for x in walk(s[1]):
                yield x


def is_call(s, name):
    return s[0] == 'expr' and s[1][0] == 'call' and s[1][1] == name


def encoder_quantities(f):
    """[(COUNT, VALUE, loop bound expression, loop variable)] of a generated encoder, in order"""
    flat = list(walk(f.body))
    env = {}
    out = []
    for i, s in enumerate(flat):
        if s[0] == 'expr' and s[1][0] == 'assign' and s[1][1] == '=' and s[1][2][0] == 'id':
            env[s[1][2][1]] = s[1][3]
        if is_call(s, 'encoder_append_uint8') and s[1][2][1][0] == 'id' and i + 1 < len(flat) and \
                is_call(flat[i + 1], 'encoder_append_uint'):
            var = s[1][2][1][1]
            nxt = flat[i + 1][1][2]
            if len(nxt) != 3 or nxt[2] != ('id', var) or var not in env:
                raise cparse.CParseError('quantity code: encoder_append_uint8(%s) is not followed by encoder_append_uint(.., %s)' % (var, var))
            loop = None
            for t in flat[i + 2:i + 4]:
                if t[0] == 'for':
                    loop = t
                    break
            if loop is None or loop[2][0] != 'bin' or loop[2][1] != '<' or loop[2][2][0] != 'id':
                raise cparse.CParseError('quantity code: no element loop "for (i = 0; i < N; i++)" after the quantity field')
            out.append((env[var], nxt[1], loop[2][3], loop[2][2][1]))
    return out


def decoder_checks(f):
    """[(operator, bound)] of the comparisons that follow each decoder_read_uint in a generated decoder"""
    flat = list(walk(f.body))
    out = []
    for i, s in enumerate(flat):
        if s[0] == 'expr' and s[1][0] == 'assign' and s[1][3][0] == 'call' and s[1][3][1] == 'decoder_read_uint':
            var = s[1][2]
            nxt = flat[i + 1] if i + 1 < len(flat) else None
            if nxt is not None and nxt[0] == 'if' and nxt[1][0] == 'bin' and nxt[1][2] == var and nxt[1][3][0] == 'num' and any(
                    is_call(x, 'decoder_abort') for x in nxt[2]):
                out.append((nxt[1][1], nxt[1][3][1]))
            else:
                out.append(('none', -1))
    return out


WRAPPERS = ('top', 'member', 'alt', 'elem', 'addition')


def wrap(kind, inner):
    if kind == 'top':
        return inner
    if kind == 'member':
        return T.TSeq([T.Member('a', T.TBool()), T.Member('b', inner), T.Member('c', T.TInt(0, 7), optional=True)])
    if kind == 'alt':
        return T.TChoice([('a', T.TBool()), ('b', inner)])
    if kind == 'elem':
        return T.TSeqOf(1, 2, inner)
    return T.TSeq([T.Member('a', T.TBool())], ext=True, additions=[T.Member('x', inner)])


def probe_sizes(rng, n):
    """(lo, hi, [lengths]) - fixed and variable sizes on both sides of every threshold"""
    out = []
    for e in EDGES:
        out.append((e, e, [e]))
    for e in EDGES[3:]:
        lo = rng.choice([0, 0, 1, rng.randrange(0, e)])
        lens = sorted(set([lo, e] + [x for x in EDGES if lo <= x <= e] + [rng.randrange(lo, e + 1) for _ in range(3)]))
        out.append((lo, e, lens))
    for _ in range(n):
        hi = band_sample(rng)
        if rng.random() < .5:
            out.append((hi, hi, [hi]))
        else:
            lo = rng.choice([0, 1, rng.randrange(0, hi)])
            out.append((lo, hi, sorted(set([lo, hi, rng.randrange(lo, hi + 1), rng.randrange(lo, hi + 1)] +
                                           [x for x in EDGES if lo <= x <= hi and rng.random() < .5]))))
    return out


def static(ctx, rng, active):
    import c10_regions
    avoid = c10_regions.make_avoid(active)
    resolve = lambda t: t  # noqa: E731   (no references in the probe modules)
    probes = []
    for lo, hi, lens in probe_sizes(rng, 14 if ctx.quick else 120):
        elem = rng.choice([T.TBool(), T.TInt(0, 255), T.TInt(-5, 70000), T.TNull()])
        kinds = ['top'] + rng.sample(WRAPPERS[1:], 1 if ctx.quick else 3)
        for kind in kinds:
            inner = T.TSeqOf(lo, hi, elem)
            if kind == 'addition':
                m = T.Member('x', inner)
                if lo == hi or elem.kind == 'null' or avoid(m, 'addition', resolve):
                    continue
            ty = wrap(kind, inner)
            if any(avoid(x, 'type', resolve) for x in T.subtypes(ty)):
                continue
            probes.append((kind, lo, hi, lens, ty))
    qcases, dcases, where = [], [], []
    for start in range(0, len(probes), 10):
        chunk = probes[start:start + 10]
        spec = T.Spec([('M', [('T%d' % i, p[4]) for i, p in enumerate(chunk)])])
        rep = dict(kind='sizes-static', spec=spec.to_json(), text=spec.text(), codec=CODEC)
        g = A.generate(spec, CODEC)
        if g[0] != 'ok':
            ctx.violation('generator does not accept a module of SEQUENCE OFs with sizes up to 2^32 - 1: %r' % (g[1:2],), rep)
            continue
        try:
            src = cparse.parse_source(g[2])
            for i, (kind, lo, hi, lens, ty) in enumerate(chunk):
                fe, fd = src.functions.get('ns_m_t%d_encode_inner' % i), src.functions.get('ns_m_t%d_decode_inner' % i)
                if fe is None or fd is None:
                    raise cparse.CParseError('ns_m_t%d_encode_inner / _decode_inner not generated' % i)
                want = [(1, 2), (lo, hi)] if kind == 'elem' else [(lo, hi)]
                qs, ds = encoder_quantities(fe), decoder_checks(fd)
                if len(qs) != len(want) or len(ds) != len(want):
                    raise cparse.CParseError('%d quantity fields written, %d read, for %d SEQUENCE OFs' % (len(qs), len(ds), len(want)))
                decls = dict((s[2], s[1]) for s in fe.body if s[0] == 'decl')
                for (l, h), (count, value, bound, ivar), (op, num) in zip(want, qs, ds):
                    w = dict(rep, type='T%d' % i, size=[l, h])
                    ls = lens if (l, h) == (lo, hi) else [1, 2]
                    for n in ls:
                        qcases.append((n, qexp(count), qexp(value)))
                        where.append((w, n, cparse.show(count), cparse.show(value)))
                    dcases.append(((l, h), (op, num), w))
                    # the loop variable has to be able to reach the bound
                    ct = decls.get(ivar)
                    base = getattr(ct, 'base', None)
                    if base not in cparse.INT_TYPES or cparse.INT_TYPES[base][0] != 'u' or 2 ** cparse.INT_TYPES[base][1] - 1 < h:
                        c09_cc.limited_violation(ctx, 'sizes-loop-variable', 'element loop of SEQUENCE (SIZE(%d..%d)) OF counts in %s which cannot reach %d' % (l, h, base, h),
                                      dict(w, kind='sizes-loop-variable'))
                    if bound[0] == 'num' and bound[1] != h:
                        ctx.violation('element loop of SEQUENCE (SIZE(%d)) OF runs to %d' % (h, bound[1]), dict(w, kind='sizes-loop-bound'))
                    ctx.count('sizes:static-%s-%s' % (kind, 'fixed' if l == h else 'variable'))
        except cparse.CParseError as e:
            ctx.violation('generated quantity code is outside what the check can read: %s' % e, dict(rep, kind='dialect'))
    # OCTET STRING: which length form for which SIZE
    ocases = []
    osizes = [(lo, hi) for lo, hi, _ in probe_sizes(rng, 6) if hi >= 1]
    osizes += [(0, 126), (0, 127), (1, 128), (0, 129), (127, 127), (128, 128)]
    for start in range(0, len(osizes), 12):
        chunk = osizes[start:start + 12]
        spec = T.Spec([('M', [('T%d' % i, T.TOctets(lo, hi)) for i, (lo, hi) in enumerate(chunk)])])
        g = A.generate(spec, CODEC)
        if g[0] != 'ok':
            ctx.violation('generator does not accept OCTET STRING sizes up to 2^32 - 1: %r' % (g[1:2],),
                          dict(kind='sizes-static', spec=spec.to_json(), text=spec.text(), codec=CODEC))
            continue
        src = cparse.parse_source(g[2])
        for i, (lo, hi) in enumerate(chunk):
            calls = [s[1][1] for s in walk(src.functions['ns_m_t%d_encode_inner' % i].body) if s[0] == 'expr' and s[1][0] == 'call']
            form = {('encoder_append_bytes',): 0, ('encoder_append_uint8', 'encoder_append_bytes'): 1,
                    ('encoder_append_length_determinant', 'encoder_append_bytes'): 2}.get(tuple(calls), -1)
            ocases.append(((lo, hi), form))
    ctx.log('sizes: probe modules generated and parsed')
    body = '''
Definition sizes_theorems := (quantity_runtime_is_x696, quantity_fixed_is_x696, quantity_count_must_be_minimal, quantity_agrees_iff,
  quantity_type_width_refuted, seqof_static_length_sound, quantity_check_sound, octets_length_form_sound).
Definition qc : list (Z * qexp * qexp) := %s.
Eval vm_compute in mismatches Bool.eqb (fun c => quantity_agrees (fst (fst c)) (snd (fst c)) (snd c)) (map (fun c => (c, true)) qc).
Definition oc : list ((Z * Z) * Z) := %s.
Eval vm_compute in mismatches Z.eqb (fun c => x696_octets_length_form (fst c) (snd c)) oc.
''' % (to_coq(qcases), to_coq(ocases))
    bad_q, bad_o = ctx.coq_eval('oer_sizes', ['Base.Prelude', 'Base.Corr', 'CGen.Helpers', 'CGen.OerHelpers', 'CGen.GenLogicOerSizes',
                                              'CGen.GenLogicOerSizesProofs'], body)[:2]
    ctx.evaluations += len(qcases) + len(ocases) + len(dcases)
    seen = set()
    for i in bad_q:
        w, n, cs, vs = where[i]
        key = (w['type'], w['text'])
        if key in seen:
            continue
        seen.add(key)
        c09_cc.limited_violation(ctx, 'sizes-quantity',
                                 'SEQUENCE (SIZE(%d..%d)) OF with %d elements: the generated encoder writes the quantity field with '
                                 'number_of_length_bytes = %s and value %s, which is not the X.696 quantity field the Python codec emits '
                                 '(model CGen.GenLogicOerSizes.quantity_agrees; minimal octet count required by theorem '
                                 'quantity_count_must_be_minimal)' % (w['size'][0], w['size'][1], n, cs, vs),
                                 dict(w, kind='sizes-quantity', elements=n, count=cs, value=vs))
    for (l, h), (op, num), w in dcases:
        ok = (op, num) == (('!=', h) if l == h else ('>', h))
        if not ok:
            c09_cc.limited_violation(ctx, 'sizes-check',
                                     'decoder of SEQUENCE (SIZE(%d..%d)) OF compares the quantity with "%s %d" (theorem quantity_check_sound '
                                     'needs %s %d)' % (l, h, op, num, '!=' if l == h else '>', h), dict(w, kind='sizes-check'))
    for i in bad_o[:2]:
        (lo, hi), form = ocases[i]
        ctx.violation('OCTET STRING (SIZE(%d..%d)): the generated encoder uses length form %d (0 none, 1 one octet, 2 length determinant, '
                      '-1 other), X.696 needs the other one (theorem octets_length_form_sound)' % (lo, hi, form),
                      dict(kind='sizes-octets-form', size=[lo, hi], form=form))
    ctx.count('sizes:static-quantity-cases', len(qcases))
    ctx.log('sizes: %d quantity fields (%d sizes up to 2^32-1) and %d OCTET STRING length forms vs the Coq model' % (
        len(qcases), len(dcases), len(ocases)))


# --------------------------------------------------------------------------
# dynamic: compiled code with 2^16.. elements against the Python codec

def big_list(rng, n, elem):
    if elem.kind == 'bool':
        x = rng.getrandbits(max(n, 1))
        return [bool((x >> i) & 1) for i in range(n)]
    data = rng.getrandbits(8 * max(n, 1)).to_bytes(max(n, 1), 'big')
    return [elem.lo + data[i] % (elem.hi - elem.lo + 1) for i in range(n)]


def dynamic_prep(ctx, rng, active):
    install_walker()
    import c10_regions
    avoid = c10_regions.make_avoid(active)
    resolve = lambda t: t  # noqa: E731
    above = lambda: 65536 + rng.choice([0, 0, 1, rng.randrange(2, 400)])  # noqa: E731
    e1, e2 = T.TBool(), T.TInt(0, 255)
    if rng.random() < .5:
        e1, e2 = e2, e1
    nf, nv, nm, na = above(), above() + 1, above(), above()
    types = [('F', T.TSeqOf(nf, nf, e1)), ('V', T.TSeqOf(rng.choice([0, 1, 65535]), nv, e2)),
             ('N', T.TSeq([T.Member('a', T.TSeqOf(nm, nm, T.TBool())), T.Member('b', T.TInt(0, 7))]))]
    cases = [('M', 'F', big_list(rng, nf, e1)), ('M', 'N', {'a': big_list(rng, nm, T.TBool()), 'b': 5})]
    for n in sorted(set([types[1][1].lo if types[1][1].lo < 2 else nv, rng.choice([65535, 65536]), nv])):
        cases.append(('M', 'V', big_list(rng, n, e2)))
    add = T.Member('x', T.TSeqOf(0, na, T.TInt(0, 255)))
    if not avoid(add, 'addition', resolve):
        types.append(('X', T.TSeq([T.Member('a', T.TBool())], ext=True, additions=[add])))
        cases.append(('M', 'X', {'a': True, 'x': big_list(rng, rng.choice([65535, 65536, na]), T.TInt(0, 255))}))
        cases.append(('M', 'X', {'a': False}))
    types = [(n, t) for n, t in types if not any(avoid(x, 'type', resolve) for x in T.subtypes(t))]
    cases = [c for c in cases if c[1] in [n for n, _ in types]]
    spec = T.Spec([('M', types)])
    p = A.prepare(ctx, 'big16', spec, CODEC, 0, 4, rng, fixed_cases=cases)
    for n, t in types:
        ctx.count('sizes:dynamic-type-%s' % n)
    return p


def dynamic_judge(ctx, p):
    def report(what, rep, cls):
        c09_cc.limited_violation(ctx, 'sizes-' + cls, what + ' [module with SEQUENCE OFs of 2^16.. elements]', rep)
    ctx.evaluations += A.judge(ctx, p, report)
    if p.unit is not None:
        for (m, tn, v), b in zip(p.cases, p.pybytes):
            ctx.case(('sizes', tn, len(b)), None, n=0)


def run(ctx, rng, active):
    static(ctx, rng, active)
    p = dynamic_prep(ctx, rng, active)
    if p.unit is not None:
        c09_cc.run_units([p.unit])
    dynamic_judge(ctx, p)
    ctx.log('sizes: module with SEQUENCE OFs above 65535 elements compiled, run (gcc, clang+ASan/UBSan) and judged')


def replay(ctx, r):
    """static records: regenerate the module, read the quantity code of the type again and evaluate the model"""
    spec = T.Spec.from_json(r['spec'])
    print(spec.text())
    g = A.generate(spec, CODEC)
    if g[0] != 'ok':
        print('STILL FAILS: generation: %r' % (g[1:2],))
        return
    if 'type' not in r:
        print('nothing more to re-run for this record')
        return
    src = cparse.parse_source(g[2])
    try:
        qs = encoder_quantities(src.functions['ns_m_%s_encode_inner' % r['type'].lower()])
        ds = decoder_checks(src.functions['ns_m_%s_decode_inner' % r['type'].lower()])
        cases = [(r.get('elements', r['size'][1]), qexp(c), qexp(v)) for c, v, _, _ in qs[-1:]]
    except cparse.CParseError as e:
        print('STILL FAILS [dialect]: %s' % e)
        return
    for c, v, b, i in qs:
        print('encoder: number_of_length_bytes = %s; value %s; loop bound %s' % (cparse.show(c), cparse.show(v), cparse.show(b)))
    print('decoder checks:', ds)
    res = ctx.coq_eval('oer_sizes_replay', ['Base.Prelude', 'Base.Corr', 'CGen.Helpers', 'CGen.OerHelpers', 'CGen.GenLogicOerSizes'],
                       'Eval vm_compute in map (fun c => (quantity_agrees (fst (fst c)) (snd (fst c)) (snd c), x696_quantity (fst (fst c)), '
                       'gen_quantity_octets (fst (fst c)) (snd (fst c)) (snd c))) %s.\n' % to_coq(cases))
    print('model (agrees, X.696 quantity field, generated octets):', res[0])
    l, h = r['size']
    want = ('!=', h) if l == h else ('>', h)
    if not all(x[0] for x in res[0]):
        print('STILL FAILS [sizes-quantity]: the quantity field written for %d elements is not the X.696 one' % cases[0][0])
    elif ds and tuple(ds[-1]) != want:
        print('STILL FAILS [sizes-check]: decoder compares with %r, expected %r' % (ds[-1], want))
    else:
        print('no failure on this tree')
