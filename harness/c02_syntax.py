"""C02 — small strict recognisers, independent of json / xml.etree.

json_wellformed(data): RFC 8259 grammar on UTF-8 bytes (no NaN/Infinity, no
raw control characters in strings, no trailing commas, no duplicate keys).
xml_wellformed(data): the element-only subset of XML 1.0 that an XER encoder
may emit: optional XML declaration / comments in the prolog, one root
element, elements without attributes (attributes are accepted
syntactically), character data made of legal Chars with '<' and '&' only as
the five predefined entities or character references, properly nested tags.
Both return None when the document is well formed and a reason otherwise.
"""
import re

_WS = ' \t\n\r'
_NUM = re.compile(r'-?(?:0|[1-9][0-9]*)(?:\.[0-9]+)?(?:[eE][+-]?[0-9]+)?')


class _Bad(Exception):
    pass


def json_wellformed(data):
    try:
        try:
            s = data.decode('utf-8', 'strict')
        except UnicodeDecodeError as e:
            raise _Bad('not UTF-8: %s' % e)
        i = _json_value(s, _skip(s, 0), 0)
        i = _skip(s, i)
        if i != len(s):
            raise _Bad('trailing data at %d' % i)
        return None
    except _Bad as e:
        return str(e)


def _skip(s, i):
    while i < len(s) and s[i] in _WS:
        i += 1
    return i


def _json_string(s, i):
    assert s[i] == '"'
    i += 1
    out = []
    while True:
        if i >= len(s):
            raise _Bad('unterminated string')
        ch = s[i]
        if ch == '"':
            return i + 1, ''.join(out)
        if ord(ch) < 0x20:
            raise _Bad('raw control character U+%04X in string' % ord(ch))
        if ch == '\\':
            if i + 1 >= len(s):
                raise _Bad('dangling backslash')
            e = s[i + 1]
            if e in '"\\/bfnrt':
                out.append(e)
                i += 2
            elif e == 'u':
                h = s[i + 2:i + 6]
                if len(h) != 4 or any(c not in '0123456789abcdefABCDEF' for c in h):
                    raise _Bad('bad \\u escape')
                out.append('\\u' + h.lower())
                i += 6
            else:
                raise _Bad('bad escape \\%s' % e)
        else:
            out.append(ch)
            i += 1


def _json_value(s, i, depth):
    if depth > 400:
        raise _Bad('too deep')
    if i >= len(s):
        raise _Bad('value expected at end')
    ch = s[i]
    if ch == '{':
        i = _skip(s, i + 1)
        keys = set()
        if i < len(s) and s[i] == '}':
            return i + 1
        while True:
            if i >= len(s) or s[i] != '"':
                raise _Bad('object key expected at %d' % i)
            i, k = _json_string(s, i)
            if k in keys:
                raise _Bad('duplicate key %r' % k)
            keys.add(k)
            i = _skip(s, i)
            if i >= len(s) or s[i] != ':':
                raise _Bad("':' expected at %d" % i)
            i = _json_value(s, _skip(s, i + 1), depth + 1)
            i = _skip(s, i)
            if i < len(s) and s[i] == ',':
                i = _skip(s, i + 1)
                continue
            if i < len(s) and s[i] == '}':
                return i + 1
            raise _Bad("',' or '}' expected at %d" % i)
    if ch == '[':
        i = _skip(s, i + 1)
        if i < len(s) and s[i] == ']':
            return i + 1
        while True:
            i = _json_value(s, i, depth + 1)
            i = _skip(s, i)
            if i < len(s) and s[i] == ',':
                i = _skip(s, i + 1)
                continue
            if i < len(s) and s[i] == ']':
                return i + 1
            raise _Bad("',' or ']' expected at %d" % i)
    if ch == '"':
        return _json_string(s, i)[0]
    for lit in ('true', 'false', 'null'):
        if s.startswith(lit, i):
            return i + len(lit)
    m = _NUM.match(s, i)
    if m and m.end() > i:
        return m.end()
    raise _Bad('unexpected %r at %d' % (s[i:i + 10], i))


# ---------------------------------------------------------------------------

def _xml_char(c):
    return c in (9, 10, 13) or 32 <= c <= 0xd7ff or 0xe000 <= c <= 0xfffd or 0x10000 <= c <= 0x10ffff


_NAME = re.compile(r'[A-Za-z_:][A-Za-z0-9_:.\-]*')
_REF = re.compile(r'&(?:lt|gt|amp|quot|apos|#[0-9]+|#x[0-9A-Fa-f]+);')
_ATTR = re.compile(r'\s+[A-Za-z_:][A-Za-z0-9_:.\-]*\s*=\s*(?:"[^<"]*"|\'[^<\']*\')')


def xml_wellformed(data):
    try:
        try:
            s = data.decode('utf-8', 'strict')
        except UnicodeDecodeError as e:
            raise _Bad('not UTF-8: %s' % e)
        for ch in s:
            if not _xml_char(ord(ch)):
                raise _Bad('illegal character U+%04X' % ord(ch))
        i = 0
        if s.startswith('<?xml'):
            j = s.find('?>')
            if j < 0:
                raise _Bad('unterminated XML declaration')
            i = j + 2
        i = _xml_misc(s, i)
        i = _xml_element(s, i, 0)
        i = _xml_misc(s, i)
        if i != len(s):
            raise _Bad('content after the root element at %d' % i)
        return None
    except _Bad as e:
        return str(e)


def _xml_misc(s, i):
    while True:
        while i < len(s) and s[i] in _WS:
            i += 1
        if s.startswith('<!--', i):
            j = s.find('-->', i + 4)
            if j < 0 or '--' in s[i + 4:j]:
                raise _Bad('bad comment')
            i = j + 3
            continue
        return i


def _xml_element(s, i, depth):
    if depth > 400:
        raise _Bad('too deep')
    if i >= len(s) or s[i] != '<':
        raise _Bad('element expected at %d' % i)
    m = _NAME.match(s, i + 1)
    if not m:
        raise _Bad('element name expected at %d' % (i + 1))
    name = m.group(0)
    i = m.end()
    while True:
        a = _ATTR.match(s, i)
        if not a:
            break
        i = a.end()
    while i < len(s) and s[i] in _WS:
        i += 1
    if s.startswith('/>', i):
        return i + 2
    if i >= len(s) or s[i] != '>':
        raise _Bad("'>' expected at %d" % i)
    i += 1
    while True:
        if i >= len(s):
            raise _Bad('unterminated element <%s>' % name)
        ch = s[i]
        if ch == '<':
            if s.startswith('</', i):
                m = _NAME.match(s, i + 2)
                if not m or m.group(0) != name:
                    raise _Bad('mismatched end tag for <%s> at %d' % (name, i))
                i = m.end()
                while i < len(s) and s[i] in _WS:
                    i += 1
                if i >= len(s) or s[i] != '>':
                    raise _Bad("'>' expected at %d" % i)
                return i + 1
            if s.startswith('<!--', i):
                i = _xml_misc(s, i)
                continue
            if s.startswith('<!', i) or s.startswith('<?', i):
                raise _Bad('markup declaration / PI in content at %d' % i)
            i = _xml_element(s, i, depth + 1)
        elif ch == '&':
            m = _REF.match(s, i)
            if not m:
                raise _Bad("bare '&' at %d" % i)
            r = m.group(0)
            if r.startswith('&#'):
                c = int(r[3:-1], 16) if r[2] == 'x' else int(r[2:-1])
                if not _xml_char(c):
                    raise _Bad('reference to illegal character %s' % r)
            i = m.end()
        else:
            if s.startswith(']]>', i):
                raise _Bad("']]>' in character data at %d" % i)
            i += 1
