"""C17 — the compile cache is transparent.

Flow (DESIGN.md section 6 C17):
  1. translator/cachekey.py regenerates coq/gen/CacheKey.v (the parts of the
     cache key and how they are joined) from <repo>/asn1tools/compiler.py;
  2. Props/C17.v is compiled and its Print Assumptions output audited;
  3. the five "wrong hit" witnesses proved for the upstream key in
     Cache/Upstream.v and the recorded known findings are replayed on /repo;
  4. random operation histories (compile with varying files / file splits /
     codec / numeric_enums / any_defined_by_choices / encoding, file edits,
     writers killed just before and just after the commit) run on a fresh
     temporary cache directory; every call is compared
       (PT)   with compile_files(..., cache_dir=None) by a behavioural probe,
       (Corr) with the Coq model's prediction (hit or miss, which request's
              Specification comes back), evaluated by vm_compute, and the key
              bytes handed to diskcache with the model's key;
  5. fault runs: SIGKILL of a populating child at random instants, then
     truncation / bit flips / overwrites / deletion of cache files; a fresh
     process must raise or behave like the uncached compile.

Known-finding region (documented predicate [in_payload_region]): a mutation
that only overwrites bytes inside a stored pickled Specification (a *.val file,
or the value blob inside cache.db / cache.db-wal) without changing the file
length.  Failures in that region are reported as the known finding
C17-pickle-no-integrity; the generators keep producing such mutations (they
are the re-observation of the finding) but any wrong Specification outside
that region is a violation.
"""
import ast
import atexit
import gc
import hashlib
import json
import os
import shutil
import signal
import sqlite3
import subprocess
import sys
import tempfile
import time
import traceback
import select

import common
from common import C, to_coq
import lib

import asn1tools
from asn1tools import compiler as acomp
import diskcache

sys.path.insert(0, os.path.join(common.VERIF, 'translator'))
import cachekey  # noqa: E402

GEN = os.path.join(common.COQ, 'gen', 'CacheKey.v')
IMPORTS = ['Base.Prelude', 'Base.Corr', 'Cache.Key', 'Cache.Model', 'Cache.Instance']

_TMP = []


def tmp_root():
    """A scratch directory outside /repo and /verif, removed at exit."""
    if not _TMP:
        # tmpfs when there is one: creating a cache directory costs several fsyncs, which dominate the
        # run time on a busy disk; a SIGKILL loses nothing that is in the page cache, so the crash runs
        # see the same file contents on either file system.  C17_TMPDIR overrides.
        base = os.environ.get('C17_TMPDIR') or ('/dev/shm' if os.access('/dev/shm', os.W_OK) else None)
        d = tempfile.mkdtemp(prefix='c17-verif-', dir=base)
        real = os.path.realpath(d)
        assert not real.startswith(os.path.realpath(common.REPO) + os.sep)
        assert not real.startswith(os.path.realpath(common.VERIF) + os.sep)
        _TMP.append(d)
        atexit.register(shutil.rmtree, d, True)
    return _TMP[0]


_counter = [0]


def fresh_dir(tag):
    _counter[0] += 1
    d = os.path.join(tmp_root(), '%s%d' % (tag, _counter[0]))
    os.makedirs(d)
    return d


# --------------------------------------------------------------------------
# the family of specifications and the behavioural probe

ENUMS = [('a', 'b'), ('b', 'a'), ('a', 'b', 'c'), ('a', 'c', 'b'), ('z', 'a')]
DEFAULTS = ['q', 'é', 'üß']
ADBC = [None,
        {('M', 'F', 'v'): {0: 'NULL', 1: 'INTEGER'}},
        {('M', 'F', 'v'): {0: 'BOOLEAN', 1: 'INTEGER'}}]
CODECS = ['ber', 'der', 'uper', 'per', 'oer', 'jer', 'xer', 'gser']


def module_text(p):
    names = ENUMS[p['enum']]
    parts = ['M DEFINITIONS AUTOMATIC TAGS ::= BEGIN',
             'E ::= ENUMERATED { %s }' % ', '.join(names),
             'S ::= SEQUENCE { x INTEGER (0..%d), e E DEFAULT %s, s UTF8String DEFAULT "%s" }'
             % (p['hi'], names[0], DEFAULTS[p['dflt']])]
    if p.get('any'):
        parts.append('F ::= SEQUENCE { k INTEGER, v ANY DEFINED BY k }')
    if p.get('hidden'):
        # a comment that ends at the next new-line: parse_files inserts one at every file boundary
        parts.append('T ::= INTEGER -- B ::= BOOLEAN\n')
    if p.get('marker'):
        parts.append('K ::= ENUMERATED { alpha, beta }')
    for i in range(p.get('filler', 0)):
        parts.append('P%d ::= SEQUENCE { a INTEGER (0..%d), b BOOLEAN, c OCTET STRING (SIZE (%d)) }'
                     % (i, i + 1, i % 7 + 1))
    parts.append('END')
    eol = p.get('eol', ' ')
    if eol != ' ':
        # line-oriented layout with the three end-of-line conventions; "--" comments whose end matters: what follows
        # the end of line is source text (a cached compile that reads the files differently from an uncached one -
        # bytes vs text mode - sees another module)
        parts[2] = ('S ::= SEQUENCE { x INTEGER -- the range follows' + eol + ' (0..%d) -- , y BOOLEAN' + eol +
                    ', e E DEFAULT %s, s UTF8String DEFAULT "%s" }') % (p['hi'], names[0], DEFAULTS[p['dflt']])
        return eol.join(parts).encode('utf-8')
    return ' '.join(parts).encode('utf-8')


def split_at(data, cuts):
    cuts = [0] + sorted(cuts) + [len(data)]
    return [data[a:b] for a, b in zip(cuts, cuts[1:])]


def random_cuts(rng, data, k, anywhere=False):
    if k <= 1:
        return []
    if anywhere:
        cand = list(range(1, len(data)))
    else:
        cand = [i + 1 for i in range(len(data) - 1) if data[i:i + 1] == b' ']
        j = data.find(b'-- ')
        if j >= 0:
            cand += [j + 3] * 6          # cut inside the comment: the rest of it becomes source text
    return sorted(set(rng.sample(cand, min(k - 1, len(cand)))))


POOL = [0, 1, 2, 5, 300, 'a', 'b', 'c', 'z', 'alpha', 'beta', 'elpha', True, None, b'\x01',
        {'x': 1}, {'x': 1, 'e': 'b'}, {'x': 1, 'e': 1}, {'x': 2, 'e': 'a', 's': 'w'}, {'x': 6, 'e': 'c'},
        {'k': 0, 'v': None}, {'k': 0, 'v': True}, {'k': 1, 'v': 5},
        {'a': 1, 'b': True, 'c': b'\x00'}, {'a': 0, 'b': False, 'c': b'\x00\x01'}]
BLOBS = [b'', b'\x00', b'\x08', b'\x30\x00', b'\x30\x03\x80\x01\x01', b'\x0a\x01\x01', b'{"x":1}', b'<S><x>1</x></S>']
PROBE_TYPES = ['B', 'E', 'F', 'K', 'P0', 'P1', 'P7', 'S', 'T']


def _attempt(f, *a):
    try:
        return ('ok', f(*a))
    except RecursionError:
        return ('err', 'RecursionError', '')
    except Exception as e:  # noqa
        return ('err', type(e).__name__, str(e)[:200])


def fingerprint(spec):
    """Observable behaviour of a returned Specification on a fixed probe set."""
    try:
        names = sorted(spec.types)
    except Exception as e:  # noqa
        return [('not-a-specification', type(spec).__name__, type(e).__name__)]
    out = [('types', tuple(names))]
    for t in [n for n in PROBE_TYPES if n in names]:
        for v in POOL:
            r = _attempt(spec.encode, t, v)
            out.append((t, 'enc', repr(v), repr(r)))
            if r[0] == 'ok':
                out.append((t, 'dec', repr(v), repr(_attempt(spec.decode, t, r[1]))))
        for b in BLOBS:
            out.append((t, 'dec-blob', b.hex(), repr(_attempt(spec.decode, t, b))))
    return out


def fp_hash(fp):
    return hashlib.sha1(repr(fp).encode()).hexdigest()[:16]


# --------------------------------------------------------------------------
# requests

class BytesPool(object):
    """Name every distinct byte string once in the generated Coq text."""

    def __init__(self):
        self.names = {}

    def ref(self, b):
        b = bytes(b)
        if b not in self.names:
            self.names[b] = 'bs%d' % len(self.names)
        return common.Raw(self.names[b])

    def definitions(self):
        return ''.join('Definition %s : bytes := %s.\n' % (n, to_coq(b)) for b, n in self.names.items())


def opts_key(o):
    return (o['codec'], bool(o['ne']), repr(o['adbc']), repr(o['enc']))


def opts_coq(o, pool=None):
    ref = pool.ref if pool else bytes
    return C('mkOpts', [ord(ch) for ch in o['codec']], bool(o['ne']),
             ref(repr(o['adbc']).encode('utf-8')), ref(repr(o['enc']).encode('utf-8')))


def call_kwargs(o, cache_dir):
    return dict(any_defined_by_choices=o['adbc'], encoding=o['enc'], cache_dir=cache_dir,
                numeric_enums=o['ne'])


_uncached = {}
_scratch = []


def uncached(contents, o):
    """compile_files(..., cache_dir=None) on files with these contents:
    ('ok', fingerprint-hash) or ('err', type, message)."""
    k = (tuple(contents), opts_key(o))
    if k not in _uncached:
        if not _scratch:
            _scratch.append(fresh_dir('uncached'))
        paths = []
        for i, c in enumerate(contents):
            p = os.path.join(_scratch[0], 'u%d.asn' % i)
            with open(p, 'wb') as f:
                f.write(c)
            paths.append(p)
        r = _attempt(asn1tools.compile_files, paths, o['codec'], o['adbc'], o['enc'], None, o['ne'])
        if r[0] == 'ok':
            r = ('ok', fp_hash(fingerprint(r[1])))
        if len(_uncached) > 5000:
            _uncached.clear()
        _uncached[k] = r
    return _uncached[k]


# instrumentation of the harness process only (nothing in /repo is touched)
REC = {}
_orig_getitem = diskcache.Cache.__getitem__
_orig_compile_dict = acomp.compile_dict


def _getitem(self, key):
    REC['key'] = key
    try:
        v = _orig_getitem(self, key)
    except KeyError:
        REC['lookup'] = 'miss'
        raise
    except BaseException:
        REC['lookup'] = 'raised'
        raise
    REC['lookup'] = 'hit'
    return v


def _compile_dict(*a, **kw):
    REC['compiled'] = REC.get('compiled', 0) + 1
    return _orig_compile_dict(*a, **kw)


def instrument():
    diskcache.Cache.__getitem__ = _getitem
    acomp.compile_dict = _compile_dict


def cached_call(paths, o, cache_dir):
    """One compile_files call with a cache directory, observed: returns
    (result, rec) with result ('ok', fp-hash) | ('err', type, msg)."""
    REC.clear()
    r = _attempt(asn1tools.compile_files, paths, o['codec'], o['adbc'], o['enc'], cache_dir, o['ne'])
    rec = dict(REC)
    if r[0] == 'ok':
        r = ('ok', fp_hash(fingerprint(r[1])))
    return r, rec


# --------------------------------------------------------------------------
# processes: writers to be killed, verification in a process that never
# touched the cache directory.  Children are forked from the (single-threaded)
# harness process instead of exec'ed: the library is already imported, so a
# writer starts compiling at once and a kill delay is spent inside
# compile_files, not inside the interpreter start-up.

def forked_start(fn, *args):
    r, w = os.pipe()
    sys.stdout.flush()
    sys.stderr.flush()
    pid = os.fork()
    if pid == 0:
        code = 0
        try:
            os.close(r)
            out = fn(*args)
            with os.fdopen(w, 'w') as f:
                json.dump(out, f)
        except BaseException:  # noqa
            code = 1
            try:
                traceback.print_exc()
            except BaseException:  # noqa
                pass
        finally:
            os._exit(code)
    os.close(w)
    return pid, r


def forked_finish(h):
    pid, r = h
    with os.fdopen(r, 'r') as f:
        data = f.read()
    _, status = os.waitpid(pid, 0)
    if os.WIFSIGNALED(status):
        return ('signal', os.WTERMSIG(status))
    if os.WEXITSTATUS(status) != 0 or not data:
        return ('died', os.WEXITSTATUS(status))
    return ('ok', json.loads(data))


def forked(fn, *args):
    return forked_finish(forked_start(fn, *args))


def forked_map(fn, items, workers):
    """[fn(item)] evaluated in forked children, [workers] at a time."""
    out = [None] * len(items)
    running = []
    nxt = 0
    while nxt < len(items) or running:
        while nxt < len(items) and len(running) < workers:
            running.append((nxt, forked_start(fn, items[nxt])))
            nxt += 1
        i, h = running.pop(0)
        out[i] = forked_finish(h)
    return out


def writer(requests, o, cache_dir, phase=None, announce_fd=None, clean_exit=False):
    """Body of a populating process: compile every request into the cache
    directory.  [phase]: kill yourself just before / just after the store."""
    orig = diskcache.Cache.__setitem__

    def patched(self, k, v):
        if phase == 'before':
            os.kill(os.getpid(), signal.SIGKILL)
        if announce_fd is not None:
            os.write(announce_fd, b'W')
        orig(self, k, v)
        if phase == 'after':
            os.kill(os.getpid(), signal.SIGKILL)
    diskcache.Cache.__setitem__ = patched
    done = 0
    for paths in requests:
        r = _attempt(asn1tools.compile_files, paths, o['codec'], o['adbc'], o['enc'], cache_dir, o['ne'])
        done += r[0] == 'ok'
        del r
    if clean_exit:
        # what a normal interpreter exit does: the connection is closed and SQLite checkpoints the
        # write-ahead log into cache.db (a forked child leaves through os._exit, which would not)
        gc.collect()
    return done


def verify_here(cache_dir, requests, o):
    """Compile the requests with the cache directory in this process (which
    must be one that never opened the directory): [(result, lookup)]."""
    res = []
    for paths in requests:
        r, rec = cached_call(paths, o, cache_dir)
        res.append([list(r), rec.get('lookup')])
    return res


def verify_fresh(cache_dir, requests, o):
    r = forked(verify_here, cache_dir, requests, o)
    if r[0] == 'ok':
        return [(tuple(x), look) for x, look in r[1]]
    return [(('err', 'ProcessDied', repr(r)), None) for _ in requests]


def job_opts(o):
    return dict(o, adbc=repr(o['adbc']))


# --------------------------------------------------------------------------
# 3. witnesses of Cache/Upstream.v on /repo

def witnesses():
    base = dict(enum=0, hi=7, dflt=1)
    plain = module_text(base)
    withany = module_text(dict(base, any=1))
    hidden = module_text(dict(base, hidden=1))
    j = hidden.index(b'-- ') + 3
    o = dict(codec='uper', ne=False, adbc=None, enc='utf-8')
    ob = dict(o, codec='ber')
    x = plain
    other = module_text(dict(base, enum=1))
    cut = plain.index(b'BEGIN ') + 6
    assert plain[:cut] == other[:cut] and plain != other
    return [
        ('numeric_enums', [plain], o, [plain], dict(o, ne=True)),
        ('any_defined_by_choices', [withany], dict(ob, adbc=ADBC[1]), [withany], dict(ob, adbc=ADBC[2])),
        ('encoding', [plain], o, [plain], dict(o, enc='latin-1')),
        ('file-split', split_at(hidden, [2]), o, split_at(hidden, [j]), o),
        ('codec-runs-into-file', [x], ob, [b'er' + x], dict(ob, codec='b')),
        # not collisions of the upstream key: one two-call test per remaining argument of the compile
        ('codec', [plain], o, [plain], ob),
        ('second-file-content', split_at(plain, [cut]), o, split_at(other, [cut]), o),
        ('file-order', split_at(plain, [cut]), o, split_at(plain, [cut])[::-1], o),
        ('first-file-content', [plain], o, [other], o),
    ]


def write_files(d, contents, prefix='f'):
    paths = []
    for i, c in enumerate(contents):
        p = os.path.join(d, '%s%d.asn' % (prefix, i))
        with open(p, 'wb') as f:
            f.write(c)
        paths.append(p)
    return paths


def two_call(first, o1, second, o2):
    d = fresh_dir('w')
    cache = os.path.join(d, 'cache')
    p1 = write_files(d, first, 'a')
    if first != second and first[::-1] == second:
        p2 = p1[::-1]                       # the same files, named in the opposite order
    else:
        p2 = write_files(d, second, 'b')
    r1, _ = cached_call(p1, o1, cache)
    r2, rec = cached_call(p2, o2, cache)
    shutil.rmtree(d, True)
    return r1, r2, rec, uncached(second, o2)


def describe(r):
    return 'Specification %s' % r[1] if r[0] == 'ok' else '%s: %s' % (r[1], r[2][:80])


def same_result(cached, plain):
    """Transparent: same Specification behaviour, or both raise."""
    if plain[0] == 'ok':
        return cached == plain
    return cached[0] == 'err'


def replay_doc(kind, **kw):
    d = dict(kind=kind)
    d.update(kw)
    return d


def hexl(contents):
    return [c.hex() for c in contents]


def run_witnesses(ctx):
    for wid, f1, o1, f2, o2 in witnesses():
        r1, r2, rec, plain = two_call(f1, o1, f2, o2)
        ctx.case(('witness', wid), dict(kind='witness', id=wid, second_call=describe(r2), uncached=describe(plain)))
        ctx.count('witness:' + ('transparent' if same_result(r2, plain) else 'WRONG-HIT'))
        if not same_result(r2, plain):
            ctx.violation('cache not transparent (%s): after compiling request 1 into the cache directory, request 2 '
                          'returned %s (lookup %s) but the uncached compile gives %s'
                          % (wid, describe(r2), rec.get('lookup'), describe(plain)),
                          replay_doc('two-call', id=wid, files1=hexl(f1), opts1=job_opts(o1),
                                     files2=hexl(f2), opts2=job_opts(o2)))


# --------------------------------------------------------------------------
# 4. histories

def gen_history(rng, nops):
    """A history over file names 0..5: [('edit', name, bytes) | ('compile', names, opts) |
    ('crash', names, opts, phase)]."""
    docs = []

    def new_doc():
        p = dict(enum=rng.randrange(len(ENUMS)), hi=rng.choice([1, 7, 300]), dflt=rng.randrange(len(DEFAULTS)),
                 any=int(rng.random() < .85), hidden=int(rng.random() < .4),
                 eol=rng.choice([' ', ' ', ' ', '\n', '\r\n', '\r', '\r']))
        docs.append(module_text(p))
        return docs[-1]

    pool = []
    for _ in range(rng.choice([2, 3, 3, 4])):
        pool.append(dict(codec=rng.choice(CODECS), ne=rng.choice([False, True, False, True, 0, 1]),
                         adbc=rng.choice(ADBC), enc=rng.choice(['utf-8', 'utf-8', 'latin-1', 'ascii'])))
    # close variants of one another: the same request up to one option
    o0 = pool[0]
    pool.append(dict(o0, ne=not o0['ne']))
    pool.append(dict(o0, codec=rng.choice([c for c in CODECS if c != o0['codec']])))
    if rng.random() < .6:
        pool.append(dict(o0, enc='latin-1' if o0['enc'] != 'latin-1' else 'utf-8'))
    if rng.random() < .6:
        pool.append(dict(o0, codec='ber', adbc=ADBC[1]))
        pool.append(dict(o0, codec='ber', adbc=ADBC[2]))
    if rng.random() < .15:
        pool.append(dict(o0, codec=rng.choice(['b', 'BER', '', 'bér', 'u'])))
    if rng.random() < .1:
        pool.append(dict(o0, enc='no-such-encoding'))
    groups = [[0, 1], [2], [3, 4, 5], [1, 0]]
    ops = []

    def arrange(names, doc, anywhere):
        cuts = random_cuts(rng, doc, len(names), anywhere)
        parts = split_at(doc, cuts)
        while len(parts) < len(names):
            parts.append(b'')
        for n, c in zip(names, parts):
            ops.append(('edit', n, c))

    arrange([0, 1], new_doc(), False)
    arrange([2], new_doc(), False)
    arrange([3, 4, 5], docs[0] if rng.random() < .5 else new_doc(), False)
    used = []

    def pick_group():
        return rng.choice(groups[:3]) if rng.random() < .93 else groups[3]

    while len(ops) < nops:
        r = rng.random()
        if r < .30 and used:
            # exactly an earlier request again (a hit, unless its files were edited meanwhile)
            g, o = rng.choice(used[-4:])
            ops.append(('compile', g, o))
        elif r < .45 and used:
            # an earlier request with one argument changed
            g, o = rng.choice(used[-4:])
            q = rng.randrange(5)
            if q == 0:
                o = dict(o, ne=not o['ne'])
            elif q == 1:
                o = dict(o, enc='latin-1' if o['enc'] != 'latin-1' else 'utf-8')
            elif q == 2:
                o = dict(o, adbc=rng.choice([a for a in ADBC if a != o['adbc']]))
            elif q == 3:
                o = dict(o, codec=rng.choice([c for c in CODECS if c != o['codec']]))
            else:
                g = pick_group()
            ops.append(('compile', g, o))
            used.append((g, o))
        elif r < .62:
            g, o = pick_group(), rng.choice(pool)
            ops.append(('compile', g, o))
            used.append((g, o))
        elif r < .72:
            g, o = rng.choice(used) if used and rng.random() < .5 else (rng.choice(groups[:3]), rng.choice(pool))
            ops.append(('crash', g, o, rng.choice(['before', 'after'])))
        elif r < .75:
            ops.append(('compile', [rng.choice([0, 2, 9])], rng.choice(pool)))     # 9 never exists
        else:
            g = rng.choice(used)[0] if used and rng.random() < .6 else rng.choice(groups[:3])
            g = sorted(g)
            q = rng.random()
            doc = new_doc() if q < .35 else rng.choice(docs)
            arrange(g, doc, rng.random() < .12)
    return ops


def run_history(ctx, ops, with_crash=True):
    """Run a history on /repo.  Returns (observations, requests) where every
    compile op yields (result, lookup, key-bytes, contents, opts, uncached)."""
    d = fresh_dir('h')
    cache = os.path.join(d, 'cache')
    fs = {}
    obs = []
    for op in ops:
        if op[0] == 'edit':
            fs[op[1]] = op[2]
            with open(os.path.join(d, 'n%d.asn' % op[1]), 'wb') as f:
                f.write(op[2])
            obs.append(None)
            continue
        names, o = op[1], op[2]
        paths = [os.path.join(d, 'n%d.asn' % n) for n in names]
        contents = [fs[n] for n in names] if all(n in fs for n in names) else None
        if op[0] == 'crash':
            st = forked(writer, [paths], o, cache, op[3])
            ctx.count('history:crash-%s:%s' % (op[3], 'killed' if st == ('signal', signal.SIGKILL) else 'no-store'))
            obs.append(None)
            continue
        # a single file is given as a plain string every other time (compile_files accepts both)
        r, rec = cached_call(paths[0] if len(paths) == 1 and len(obs) % 2 else paths, o, cache)
        plain = uncached(contents, o) if contents is not None else ('err', 'FileNotFoundError', '')
        obs.append(dict(result=r, lookup=rec.get('lookup'), key=rec.get('key'), contents=contents, opts=o,
                        plain=plain))
    shutil.rmtree(d, True)
    return obs


def model_inputs(ops, obs, pool):
    """Coq terms: the table of uncached results and the history."""
    table = []
    ids = {}
    fps = {}
    fs = {}
    for op, ob in zip(ops, obs):
        if op[0] == 'edit':
            fs[op[1]] = op[2]
            continue
        names, o = op[1], op[2]
        if not all(n in fs for n in names):
            continue
        contents = [fs[n] for n in names]
        k = (tuple(contents), opts_key(o))
        if k in ids:
            continue
        plain = uncached(contents, o)
        n = len(ids) if plain[0] == 'ok' else -1 - len(ids)
        ids[k] = n
        fps[n] = plain
        table.append((([pool.ref(c) for c in contents], opts_coq(o, pool)), n))
    h = []
    for op in ops:
        if op[0] == 'edit':
            h.append(C('OEdit', op[1], pool.ref(op[2])))
        elif op[0] == 'compile':
            h.append(C('OCompile', list(op[1]), opts_coq(op[2], pool)))
        else:
            h.append(C('OCrash', list(op[1]), opts_coq(op[2], pool),
                       C('BeforeCommit') if op[3] == 'before' else C('AfterCommit')))
    return table, h, fps


KEYERR = ('UnicodeEncodeError', 'error')       # struct.error has __name__ 'error'


def agrees(pred, ob, fps):
    """Model prediction (hit, code) vs the observed call."""
    hit, code = pred
    r = ob['result']
    real_hit = 1 if ob['lookup'] in ('hit', 'raised') else 0
    if hit != real_hit:
        return False
    if code >= 0:
        return r == fps[code]
    if code == -1:
        return r[0] == 'err' and ob['plain'][0] == 'err' and r[1:] == ob['plain'][1:]
    if code in (-2, -3):
        # which of "non-ASCII codec name" and "missing file" is raised first is not modelled
        return r[0] == 'err' and r[1] in KEYERR + ('FileNotFoundError',)
    return False


def op_json(op):
    if op[0] == 'edit':
        return ['edit', op[1], op[2].hex()]
    return [op[0], list(op[1]), job_opts(op[2])] + list(op[3:])


def op_from_json(j):
    if j[0] == 'edit':
        return ('edit', j[1], bytes.fromhex(j[2]))
    o = dict(j[2], adbc=ast.literal_eval(j[2]['adbc']))
    return (j[0], j[1], o) + tuple(j[3:])


def histories(ctx, n, nops, translated):
    rng = ctx.rng
    all_ops, all_obs = [], []
    reported = 0
    for hi in range(n):
        ops = gen_history(rng, nops)
        obs = run_history(ctx, ops)
        all_ops.append(ops)
        all_obs.append(obs)
        for i, (op, ob) in enumerate(zip(ops, obs)):
            if ob is None:
                continue
            o = ob['opts']
            kind = ('%s-%s' % (ob['lookup'] or 'no-lookup', ob['result'][0]))
            ctx.count('history:call:' + kind)
            ctx.case(('call', hashlib.sha1(repr((ob['contents'], opts_key(o))).encode()).hexdigest()[:12], kind),
                     dict(kind='call', codec=o['codec'], numeric_enums=o['ne'], encoding=o['enc'],
                          adbc=repr(o['adbc'])[:40], files=len(op[1]), lookup=ob['lookup'],
                          result=describe(ob['result'])))
            if not same_result(ob['result'], ob['plain']) and reported < 4:
                reported += 1
                ctx.violation('cache not transparent: call %d of a history (codec %r, numeric_enums %r, encoding %r, '
                              'any_defined_by_choices %s, %d file(s), lookup %s) returned %s but the uncached compile '
                              'of the same files gives %s'
                              % (i, o['codec'], o['ne'], o['enc'], repr(o['adbc'])[:50], len(op[1]), ob['lookup'],
                                 describe(ob['result']), describe(ob['plain'])),
                              replay_doc('history', ops=[op_json(x) for x in ops[:i + 1]], call=i))
    ctx.log('%d histories run on %s' % (n, common.REPO))
    if not translated:
        return
    # correspondence with the Coq model: hit/miss and identity of the returned Specification
    cases = []
    fpss = []
    pool = BytesPool()
    for ops, obs in zip(all_ops, all_obs):
        table, h, fps = model_inputs(ops, obs, pool)
        cases.append((table, h))
        fpss.append(fps)
    # ... and of the key bytes handed to diskcache
    kc = []
    seen = set()
    for obs in all_obs:
        for ob in obs:
            if ob is None or ob['contents'] is None:
                continue
            k = (tuple(ob['contents']), opts_key(ob['opts']))
            if k in seen:
                continue
            seen.add(k)
            real = ob['key']
            if real is None:
                real_z = [-1]
            elif isinstance(real, bytes):
                real_z = real            # printed as a hex literal
            else:
                real_z = [-3]
            kc.append((([pool.ref(c) for c in ob['contents']], opts_coq(ob['opts'], pool)), real_z, ob))
    if ctx.quick and len(kc) > 40:
        kc = rng.sample(kc, 40)
    body = ('%s'
            'Definition cases : list (table * list (@op bytes bytes Z)) := %s.\n'
            'Eval vm_compute in map (fun c => run_codes (fst c) (snd c)) cases.\n'
            'Definition kcases : list ((list bytes * sopts) * list Z) := %s.\n'
            'Eval vm_compute in mismatches zlist_eqb key_code kcases.\n'
            % (pool.definitions(), to_coq(cases), to_coq([(x, y) for x, y, _ in kc])))
    preds, badk = ctx.coq_eval('hist', IMPORTS, body)
    ctx.log('model evaluated on the histories and keys (%d kB of Coq text)' % (len(body) // 1000))
    bad = 0
    for hi, (ops, obs, pred, fps) in enumerate(zip(all_ops, all_obs, preds, fpss)):
        assert len(pred) == len(ops), (len(pred), len(ops))
        for i, (op, ob, pr) in enumerate(zip(ops, obs, pred)):
            if ob is None:
                continue
            ctx.evaluations += 1
            if not agrees(pr, ob, fps) and bad < 3:
                bad += 1
                want = fps.get(pr[1], pr[1]) if pr[1] >= 0 else pr[1]
                ctx.violation('model and compile_files disagree on call %d of a history: model predicts %s returning %s, '
                              'observed lookup %s returning %s'
                              % (i, 'hit' if pr[0] == 1 else 'miss', want, ob['lookup'], describe(ob['result'])),
                              replay_doc('history', ops=[op_json(x) for x in ops[:i + 1]], call=i,
                                         model=[pr[0], pr[1]]))
    ctx.evaluations += len(kc)
    ctx.count('corr:key-bytes', len(kc))
    for i in badk[:3]:
        ob = kc[i][2]
        ctx.violation('model key and the key handed to diskcache differ for codec %r numeric_enums %r encoding %r: '
                      'library key %s' % (ob['opts']['codec'], ob['opts']['ne'], ob['opts']['enc'],
                                          (ob['key'] or b'').hex()[:80]),
                      replay_doc('key', files=hexl(ob['contents']), opts=job_opts(ob['opts']),
                                 library_key=(ob['key'] or b'').hex()))


# --------------------------------------------------------------------------
# 5. fault runs

def big_doc(rng, filler):
    return module_text(dict(enum=rng.randrange(len(ENUMS)), hi=7, dflt=rng.randrange(len(DEFAULTS)), filler=filler))


def kill_trial(plan):
    """(in a forked runner) fork a populating writer, SIGKILL it at the planned
    instant, then compile again here, in a process that never opened the
    directory.  Returns [child_state, results]."""
    r, w = os.pipe()
    pid = os.fork()
    if pid == 0:
        try:
            os.close(r)
            writer(plan['requests'], plan['opts'], plan['cache'], None, w)
        finally:
            os._exit(0)
    os.close(w)
    if plan['mode'] == 'at-store':
        select.select([r], [], [], 60)        # 'W': the writer is about to store
    time.sleep(plan['delay'])
    try:
        os.kill(pid, signal.SIGKILL)
    except ProcessLookupError:
        pass
    _, status = os.waitpid(pid, 0)
    os.close(r)
    state = 'killed' if os.WIFSIGNALED(status) else 'finished'
    return [state, verify_here(plan['cache'], plan['requests'], plan['opts'])]


def kill_runs(ctx, n):
    rng = ctx.rng
    d = fresh_dir('kill')
    plans = []
    t0 = time.time()
    o = dict(codec='uper', ne=False, adbc=None, enc='utf-8')
    # calibration: how long does a populating child live?
    doc = big_doc(rng, 100)
    cal = os.path.join(d, 'cal')
    os.makedirs(cal)
    paths = write_files(cal, [doc])
    t0 = time.time()
    forked(writer, [paths], o, os.path.join(cal, 'cache'))
    total = time.time() - t0
    pool = [big_doc(rng, 100), big_doc(rng, 110), big_doc(rng, 3), big_doc(rng, 0)]
    for i in range(n):
        td = os.path.join(d, 't%d' % i)
        os.makedirs(td)
        o = dict(codec=rng.choice(['uper', 'ber']), ne=rng.random() < .5, adbc=None, enc='utf-8')
        docs = [rng.choice(pool[:2]) if rng.random() < .7 else rng.choice(pool[2:])]
        if rng.random() < .4:
            docs.append(rng.choice(pool))
        reqs = [write_files(td, [dc], 'd%d_' % j) for j, dc in enumerate(docs)]
        mode = 'uniform' if rng.random() < .4 else 'at-store'
        delay = rng.uniform(0, total * 1.1) if mode == 'uniform' else rng.choice([0, rng.uniform(0, .004), rng.uniform(0, .03)])
        plans.append(dict(cache=os.path.join(td, 'cache'), requests=reqs, opts=o, mode=mode, delay=delay,
                          docs=[[dc] for dc in docs]))
    for plan in plans:
        for contents in plan['docs']:
            uncached(contents, plan['opts'])          # before forking: the runners inherit the memo
    results = forked_map(kill_trial, plans, 8)
    for plan, fr in zip(plans, results):
        if fr[0] != 'ok':
            raise RuntimeError('kill-trial runner failed: %r' % (fr,))
        state, res = fr[1]
        for contents, (r, look) in zip(plan['docs'], res):
            r = tuple(r)
            plain = uncached(contents, plan['opts'])
            verdict = 'same' if r == plain else ('error' if r[0] == 'err' else 'WRONG')
            ctx.count('kill:%s:%s:then-%s:%s' % (plan['mode'], state, look, verdict))
            ctx.case(('kill', plan['mode'], state, look, verdict, len(contents[0]) > 4000),
                     dict(kind='kill', mode=plan['mode'], delay=round(plan['delay'], 4), child=state,
                          then_lookup=look, verdict=verdict))
            if verdict == 'WRONG' or (verdict == 'error' and plain[0] == 'ok'):
                # a killed writer must leave the entry absent or complete: even an error is a failure here
                ctx.violation('after SIGKILL of a populating process (%s, delay %.4fs, child %s) a fresh process got %s, '
                              'uncached compile gives %s' % (plan['mode'], plan['delay'], state, describe(r),
                                                             describe(plain)),
                              replay_doc('kill', files=[hexl(c) for c in plan['docs']], opts=job_opts(plan['opts']),
                                         mode=plan['mode'], delay=plan['delay']))
    shutil.rmtree(d, True)


def list_cache_files(cache):
    out = []
    for root, _, files in os.walk(cache):
        for fn in files:
            p = os.path.join(root, fn)
            out.append((os.path.relpath(p, cache), os.path.getsize(p)))
    return sorted(out)


def stored_values(cache):
    """The pickled values as stored: blobs inside the database and *.val files."""
    blobs = []
    try:
        con = sqlite3.connect('file:%s?mode=ro' % os.path.join(cache, 'cache.db'), uri=True)
        for value, filename in con.execute('SELECT value, filename FROM Cache'):
            if value is not None:
                blobs.append(bytes(value))
        con.close()
    except sqlite3.Error:
        pass
    return blobs


def in_payload_region(orig, rel, mutation, blobs):
    """The known-finding region: the mutation overwrites bytes (no change of
    length) that all lie inside a stored pickled Specification."""
    if mutation['kind'] not in ('flip', 'overwrite'):
        return False
    if rel.endswith('.val'):
        return True
    for off in range(mutation['offset'], mutation['offset'] + mutation.get('length', 1)):
        lo, hi = max(0, off - 11), min(len(orig), off + 12)
        win_a, win_b = orig[lo:off + 1], orig[off:hi]
        if not any((len(win_a) >= 8 and win_a in b) or (len(win_b) >= 8 and win_b in b) for b in blobs):
            return False
    return True


def mutate(rng, data):
    """A damage plan for a file with these bytes."""
    nz = [i for i, b in enumerate(data) if b] or [0]
    r = rng.random()
    if r < .5 and data:
        off = rng.choice(nz) if rng.random() < .85 else rng.randrange(len(data))
        return dict(kind='flip', offset=off, bit=rng.randrange(8))
    if r < .68 and data:
        off = rng.choice(nz)
        ln = rng.choice([1, 2, 4, 16, 64])
        return dict(kind='overwrite', offset=off, length=min(ln, len(data) - off), fill=rng.choice([0, 255, 0x41]))
    if r < .9:
        return dict(kind='truncate', size=rng.choice([0, rng.randrange(len(data) + 1), max(0, len(data) - rng.randrange(1, 64))]))
    return dict(kind='delete')


def apply_mutation(path, data, m):
    if m['kind'] == 'delete':
        os.remove(path)
        return
    b = bytearray(data)
    if m['kind'] == 'flip':
        b[m['offset']] ^= 1 << m['bit']
    elif m['kind'] == 'overwrite':
        b[m['offset']:m['offset'] + m['length']] = bytes([m['fill']]) * m['length']
    elif m['kind'] == 'truncate':
        b = b[:m['size']]
    with open(path, 'wb') as f:
        f.write(bytes(b))


def corrupt_trial(plan):
    cache = plan['cache']
    if plan.get('template'):
        shutil.copytree(plan['template'], cache)
    path = os.path.join(cache, plan['file'])
    with open(path, 'rb') as f:
        data = f.read()
    apply_mutation(path, data, plan['mutation'])
    return verify_here(cache, plan['requests'], plan['opts'])


def corruption_runs(ctx, ntemplates, per_template, findings):
    rng = ctx.rng
    d = fresh_dir('corrupt')
    plans = []
    for ti in range(ntemplates):
        td = os.path.join(d, 'tpl%d' % ti)
        os.makedirs(td)
        o = dict(codec=rng.choice(['uper', 'ber', 'oer', 'xer']), ne=rng.random() < .5, adbc=None, enc='utf-8')
        docs = [big_doc(rng, 0), big_doc(rng, 2), big_doc(rng, 100 if ti % 2 == 0 else 1)]
        reqs = [write_files(td, [dc], 'd%d_' % j) for j, dc in enumerate(docs)]
        tpl = os.path.join(td, 'cache')
        st = forked(writer, reqs, o, tpl, None, None, ti % 2 == 0)
        if st != ('ok', len(reqs)):
            raise RuntimeError('populating child failed: %r' % (st,))
        for dc in docs:
            uncached([dc], o)
        files = list_cache_files(tpl)
        blobs = stored_values(tpl)
        ctx.count('corrupt:template-files:' + ','.join(sorted(set('val' if f.endswith('.val') else f for f, _ in files))))
        for j in range(per_template):
            # half of the trials aim at value files when there are any
            vals = [f for f, _ in files if f.endswith('.val')]
            rel = rng.choice(vals) if vals and rng.random() < .35 else rng.choice([f for f, _ in files])
            with open(os.path.join(tpl, rel), 'rb') as f:
                data = f.read()
            m = mutate(rng, data)
            plans.append(dict(template=tpl, cache=os.path.join(td, 'c%d' % j), file=rel, mutation=m, requests=reqs,
                              opts=o, docs=[[dc] for dc in docs],
                              region=in_payload_region(data, rel, m, blobs)))
    results = []
    for fr in forked_map(corrupt_trial, plans, 10):
        # a runner that dies (e.g. killed by a signal inside SQLite) did not return a Specification
        results.append([(tuple(x), look) for x, look in fr[1]] if fr[0] == 'ok'
                       else [(('err', 'ProcessDied', repr(fr)), None)] * 3)
    finding = next((f for f in findings if f['id'] == 'C17-pickle-no-integrity'), None)
    seen_known = 0
    for plan, res in zip(plans, results):
        worst = 'same'
        detail = None
        for contents, (r, look) in zip(plan['docs'], res):
            plain = uncached(contents, plan['opts'])
            v = 'same' if r == plain else ('error' if r[0] == 'err' else 'WRONG')
            if v == 'WRONG' or (v == 'error' and worst == 'same'):
                worst, detail = v, (r, plain, look)
        fkind = 'val' if plan['file'].endswith('.val') else plan['file']
        ctx.count('corrupt:%s:%s:%s%s' % (fkind, plan['mutation']['kind'], worst, ':in-pickle' if plan['region'] else ''))
        ctx.case(('corrupt', fkind, plan['mutation']['kind'], worst, plan['region']),
                 dict(kind='corrupt', file=fkind, mutation=plan['mutation'], verdict=worst, in_pickle=plan['region']))
        if worst == 'WRONG':
            r, plain, look = detail
            if plan['region'] and finding is not None:
                seen_known += 1
                continue
            ctx.violation('damaged cache returned a wrong Specification instead of an error: %s of %s -> %s, uncached %s'
                          % (plan['mutation'], fkind, describe(r), describe(plain)),
                          replay_doc('corrupt', files=[hexl(c) for c in plan['docs']], opts=job_opts(plan['opts']),
                                     file=plan['file'] if not plan['file'].endswith('.val') else '*.val',
                                     mutation=plan['mutation']))
    if seen_known:
        ctx.count('corrupt:known-finding-reobserved-by-random-damage', seen_known)
    shutil.rmtree(d, True)


def pickle_witness(w):
    """The recorded witness of C17-pickle-no-integrity: overwrite one
    occurrence of an identifier inside the stored pickle with another
    identifier of the same length."""
    d = fresh_dir('kf')
    doc = module_text(dict(enum=w['enum'], hi=7, dflt=0, filler=w['filler'], marker=1))
    o = dict(codec=w['codec'], ne=False, adbc=None, enc='utf-8')
    reqs = [write_files(d, [doc])]
    cache = os.path.join(d, 'cache')
    forked(writer, reqs, o, cache, None, None, True)
    marker = bytes.fromhex(w['find'])
    plain = uncached([doc], o)
    last = (None, None, 'marker not found in the stored value')
    template = cache + '.tpl'
    os.rename(cache, template)
    for rel, _ in list_cache_files(template):
        with open(os.path.join(template, rel), 'rb') as f:
            data = f.read()
        if (rel.endswith('.val')) != bool(w['value_file']) or rel == 'cache.db-shm':
            continue
        # every occurrence of the identifier in the stored bytes, last one first (in the pickle of a
        # Specification the last one is the name the type checker compares with)
        occ = []
        i = data.find(marker)
        while i >= 0:
            occ.append(i)
            i = data.find(marker, i + 1)
        for i in reversed(occ):
            shutil.rmtree(cache, True)
            shutil.copytree(template, cache)
            apply_mutation(os.path.join(cache, rel), data, dict(kind='flip', offset=i + w['offset'], bit=w['bit']))
            (r, look), = verify_fresh(cache, reqs, o)
            last = (r, plain, look)
            if r[0] == 'ok' and r != plain:
                shutil.rmtree(d, True)
                return last
    shutil.rmtree(d, True)
    return last


def run_known_findings(ctx, findings):
    for f in findings:
        w = f['witness']
        if w.get('kind') == 'pickle-flip':
            r, plain, look = pickle_witness(w)
            if w.get('also_in_database'):
                r2, plain2, look2 = pickle_witness(dict(w, value_file=False, filler=0))
                ctx.count('known-finding:db-blob-variant:' + ('fails' if r2 and r2[0] == 'ok' and r2 != plain2 else 'passes'))
                if r is None or not (r[0] == 'ok' and r != plain):
                    r, plain, look = r2, plain2, look2
            ctx.case(('known', f['id']), dict(kind='known-finding', id=f['id'], got=describe(r) if r else look))
            if r is None:
                ctx.count('known-finding:witness-not-applicable')
            elif r[0] == 'ok' and r != plain:
                ctx.known_finding(f['id'], f['what'])
            else:
                ctx.count('known-finding:no-longer-fails')
                ctx.log('known finding %s no longer reproduces (got %s)' % (f['id'], describe(r)))


# --------------------------------------------------------------------------

def replay(ctx):
    doc = json.load(open(ctx.replay))
    r = doc['replay']
    kind = r.get('kind')
    print('replaying', kind)
    instrument()

    def opts(j):
        return dict(j, adbc=ast.literal_eval(j['adbc']))
    if kind == 'two-call':
        f1 = [bytes.fromhex(x) for x in r['files1']]
        f2 = [bytes.fromhex(x) for x in r['files2']]
        r1, r2, rec, plain = two_call(f1, opts(r['opts1']), f2, opts(r['opts2']))
        print('first call :', describe(r1))
        print('second call:', describe(r2), '(lookup %s)' % rec.get('lookup'))
        print('uncached   :', describe(plain))
        if not same_result(r2, plain):
            ctx.violation('cache not transparent (%s)' % r.get('id'), r)
    elif kind == 'history':
        ops = [op_from_json(x) for x in r['ops']]
        obs = run_history(ctx, ops)
        ob = obs[r['call']]
        print('call %d: lookup %s ->' % (r['call'], ob['lookup']), describe(ob['result']))
        print('uncached          ->', describe(ob['plain']))
        if 'model' in r:
            print('model predicted (hit, code) =', r['model'])
        if not same_result(ob['result'], ob['plain']):
            ctx.violation('cache not transparent at call %d' % r['call'], r)
    elif kind == 'key':
        print('library key:', r['library_key'])
        body = 'Eval vm_compute in key_code %s.\n' % to_coq(([bytes.fromhex(x) for x in r['files']],
                                                             opts_coq(opts(r['opts']))))
        print('model key  :', bytes(ctx.coq_eval('key1', IMPORTS, body)[0]).hex())
    elif kind in ('corrupt', 'kill'):
        print('fault runs are replayed by re-running the tier with the recorded seed (%s); recorded plan:' % doc.get('seed'))
        print(json.dumps({k: v for k, v in r.items() if k != 'files'}, indent=1))
    else:
        print(json.dumps(r, indent=1)[:2000])


def run(ctx):
    if ctx.replay:
        return replay(ctx)
    instrument()
    ctx.level = 'proof'
    ctx.rule = ('calls: distinct by (file contents with boundaries, codec, numeric_enums, any_defined_by_choices, '
                'encoding, hit/miss/raised, ok/err); histories vary file contents, the split of one text into 1-3 files, '
                'the eight codecs (+ unsupported names), options, edits and reverts, writers killed before/after the '
                'commit; fault cases: distinct by (kill mode, child state, later lookup, verdict) and by (damaged file '
                'kind, mutation kind, verdict, inside-pickle?); non-trivial = everything except first-ever misses')
    ctx.trusted_base += [
        'translator/cachekey.py (fail-closed ast matcher) produced coq/gen/CacheKey.v from asn1tools/compiler.py in this run',
        'diskcache/SQLite as an oracle: a committed entry is found again under exactly its key bytes, an uncommitted '
        'one is absent (atomic commit) - assumed by the model (OCrash has two outcomes), exercised by the SIGKILL runs',
        'pickle round trip of a Specification preserves behaviour (assumed; every hit in the histories is probed)',
        "Python repr() of any_defined_by_choices / encoding is injective on the plain data used as options "
        '(Section hypotheses ser_a_inj, ser_e_inj of C17_key_injective)',
        'behavioural probe (fingerprint: encode/decode of a fixed value pool on the types of the generated modules) '
        'as the meaning of "behaves exactly like"',
    ]
    ctx.assumptions += [
        'single writer at a time per history (no concurrent compile_files on one cache directory)',
        'files do not change between the key computation and the parse inside one compile_files call',
        'silent alteration of stored bytes is excluded from C17_cache_fault_safe_repo (refuted otherwise: '
        'C17_silent_alteration_refuted, known finding C17-pickle-no-integrity)',
    ]
    # 1. translator
    translated = True
    try:
        comps, frame = cachekey.regenerate(common.REPO, GEN)
        ctx.obligation('translator:cache-key', True, '%s / %s' % (' '.join(comps), frame))
        ctx.extra['cache_key'] = dict(components=comps, framing=frame)
        ctx.log('cache key in %s: [%s] joined with %s' % (common.REPO, ', '.join(comps), frame))
    except cachekey.Untranslatable as e:
        translated = False
        ctx.obligation('translator:cache-key', False, str(e))
        ctx.log('translator failed (fail-closed): %s' % e)
    # 2. proofs
    ok = translated and ctx.coq_props()
    ctx.log('Props/C17.v checked: %s' % ok)
    if translated and not ok:
        # the model itself (no proofs) must still build for the correspondence run
        mok, detail = ctx.coq_build(['theories/Cache/Instance.vo'])
        if not mok:
            translated = False
            ctx.log('model does not build: ' + detail)
    findings = common.load_findings('C17')
    # 3. witnesses
    run_witnesses(ctx)
    ctx.log('witnesses replayed')
    run_known_findings(ctx, findings)
    ctx.log('known findings replayed')
    # 4. histories
    def budget(n):
        # quick tier on a loaded machine: keep inside the time box by shrinking the remaining phases
        late = ctx.quick and time.time() - ctx.t0 > 60
        return max(4, n // 2) if late else n
    if ctx.quick:
        histories(ctx, budget(8), 24, translated)
    else:
        histories(ctx, 40, 36, translated)
    ctx.log('histories done')
    # 5. faults
    kill_runs(ctx, budget(16) if ctx.quick else 96)
    ctx.log('SIGKILL runs done')
    corruption_runs(ctx, 2 if ctx.quick else 8, budget(20) if ctx.quick else 70, findings)
    ctx.log('corruption runs done')
    ctx.extra['open_theorems'] = []
    ctx.extra['refuted'] = ['C17_silent_alteration_refuted (known finding C17-pickle-no-integrity)',
                            'C17_upstream_key_not_injective_refuted / C17_upstream_key_not_transparent_refuted '
                            '(the key before proposed_fixes/C17-cache-key.diff)']
    if not ok:
        common.proof_broken(ctx)
