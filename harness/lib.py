"""Running the real library from /repo's working tree."""
import os
import sys

import common

sys.path.insert(0, common.REPO)
import asn1tools  # noqa: E402

assert os.path.realpath(asn1tools.__file__).startswith(os.path.realpath(common.REPO)), asn1tools.__file__

_cache = {}


def compile_string(text, codec, **kw):
    key = (text, codec, tuple(sorted(kw.items())))
    if key not in _cache:
        if len(_cache) > 4000:
            _cache.clear()
        _cache[key] = asn1tools.compile_string(text, codec, **kw)
    return _cache[key]


def classify(e):
    """Error class observable at the API."""
    if isinstance(e, asn1tools.DecodeError):
        return 'decode'
    if isinstance(e, asn1tools.ConstraintsError):
        return 'constraints'
    if isinstance(e, asn1tools.EncodeError):
        return 'encode'
    if isinstance(e, asn1tools.ParseError):
        return 'parse'
    if isinstance(e, asn1tools.CompileError):
        return 'compile'
    if isinstance(e, asn1tools.Error):
        return 'error'
    return 'foreign:' + type(e).__name__


def attempt(f, *a, **kw):
    """('ok', value) or ('err', class, message)."""
    try:
        return ('ok', f(*a, **kw))
    except RecursionError as e:
        return ('err', 'foreign:RecursionError', '')
    except Exception as e:  # noqa
        return ('err', classify(e), str(e))


class _Deadline(BaseException):
    pass


def attempt_timed(seconds, f, *a, **kw):
    """attempt() under a wall-clock limit (main thread only): ('err', 'timeout', ...) when f does not return in time."""
    import signal
    import threading
    if threading.current_thread() is not threading.main_thread():
        return attempt(f, *a, **kw)

    def on_alarm(signum, frame):
        raise _Deadline()
    old = signal.signal(signal.SIGALRM, on_alarm)
    try:
        signal.setitimer(signal.ITIMER_REAL, seconds, 1.0)
        try:
            r = attempt(f, *a, **kw)
        finally:
            signal.setitimer(signal.ITIMER_REAL, 0)
        return r
    except _Deadline:
        return ('err', 'timeout', 'no result within %s s' % seconds)
    finally:
        signal.setitimer(signal.ITIMER_REAL, 0)
        signal.signal(signal.SIGALRM, old)
