"""C02 — Text codecs (JER, XER) round-trip every value and emit well-formed documents.

Flow:
  1. Props/C02.v is compiled and its Print Assumptions output audited
     (jer_roundtrip, xer_roundtrip_partial, tree-level and shared-universe
     variants, three refutations, two non-vacuity Examples).
  2. The recorded known findings (known_findings/C02.json) are replayed on
     /repo.
  3. Correspondence, model vs /repo, on generated (module, type, value,
     numeric_enums) cases:
       enc:  Specification.encode(...) bytes, parsed by this harness with
             json / xml.etree (own hooks), for indent in {None, 0, 1, 4} must
             all give the same tree, and that tree must be the tree the Coq
             model computes (vm_compute), EncodeError class included
             (missing mandatory member, unknown ENUMERATED / CHOICE name);
       dec:  the tree, and mutated trees (unknown member added, key/tag
             renamed, member removed, string replaced), written by the
             independent serialisers of c02_gen.py, decoded by
             Specification.decode must give what the model's decoder gives
             (values, DecodeError, foreign exception class).
  4. Property test on /repo: decode(encode(v, indent)) == normalised v for
     indent in {None, 0, 1, 4} x numeric_enums x {jer, xer}; floats compared
     by float.hex(); every encoding must pass the hand-written strict
     recognisers of c02_syntax.py (and expat for XML); REAL batteries (huge,
     tiny, subnormal, infinite, random bit patterns).

Modules: the fixed fixture module of c02_gen.py (every construct of the text
codecs at least once: DEFAULT/OPTIONAL/addition group, the three XER
list-element forms, recursion through SEQUENCE OF and through an OPTIONAL
member, named and fixed-size BIT STRING, REAL) plus random modules from
gen_asn1.py extended with REAL.  Generator exclusions are the documented
predicates of c02_gen.py; each is a recorded finding replayed in step 2.
On a tree without the XER REAL repair the check reports the failures (with a
time limit for the non-terminating encoder) and stops the REAL batteries after
a dozen reports.
"""
import json
import math
import signal
import struct
import xml.parsers.expat

import common
from common import C, Raw, to_coq
import lib
import gen_asn1
from gen_asn1 import Opts, all_members, norm, to_numeric, shape, type_size
import c02_gen as G
import c02_syntax as S

INDENTS = [None, 0, 1, 4]
FUEL = 40
IMPORTS = ['Base.Prelude', 'Base.Corr', 'Syntax.Asn1', 'Text.Universe', 'Text.Json', 'Text.Xml',
           'Text.JerImpl', 'Text.XerImpl']


class Hang(BaseException):
    pass


def _alarm(signum, frame):
    raise Hang()


def limited(seconds, f, *a, **kw):
    """lib.attempt under a wall-clock limit (the unrepaired XER REAL encoder
    loops forever on infinities)."""
    old = signal.signal(signal.SIGALRM, _alarm)
    signal.setitimer(signal.ITIMER_REAL, seconds)
    try:
        try:
            return lib.attempt(f, *a, **kw)
        except Hang:
            return ('err', 'hang', 'no result within %gs' % seconds)
    finally:
        signal.setitimer(signal.ITIMER_REAL, 0)
        signal.signal(signal.SIGALRM, old)


HANGS = []


def no_infinities(rt, T, v):
    """Unrepaired tree only: after three reported hangs of the XER REAL encoder on an infinity the
    generators stop producing infinities for XER (each one costs the full time limit)."""
    return G.map_value(rt, T, v, lambda t, x: 0.0 if t['k'] == 'REAL' and isinstance(x, float) and math.isinf(x) else x)


def opts_for(rng, quick):
    o = Opts()
    o.kinds = set(gen_asn1.DEFAULT_KINDS)
    o.str_kinds = ['IA5String', 'VisibleString', 'NumericString', 'PrintableString', 'UTF8String', 'UTF8String',
                   'BMPString', 'GeneralString', 'UniversalString', 'GraphicString', 'TeletexString',
                   'ObjectDescriptor']
    o.n_types = 4
    o.max_depth = 3
    o.ext_implied = rng.random() < .5
    return o


def pyrepr(v):
    return repr(v)


def pyeval(s):
    return eval(s, {'__builtins__': {}, 'inf': float('inf'), 'nan': float('nan')})


def tree_of(codec, data):
    return G.json_tree(data) if codec == 'jer' else G.xml_tree(data)


def wellformed(codec, data):
    """None, or why the independent recognisers reject the document."""
    if codec == 'jer':
        return S.json_wellformed(data)
    why = S.xml_wellformed(data)
    if why is not None:
        return why
    try:
        p = xml.parsers.expat.ParserCreate()
        p.Parse(data, True)
    except xml.parsers.expat.ExpatError as e:
        return 'expat: %s' % e
    return None


# ---------------------------------------------------------------------------
# known findings

def roundtrip_once(codec, spec_text, tname, value, numeric=False, indent=None):
    spec = lib.compile_string(spec_text, codec, numeric_enums=numeric)
    r = limited(2, spec.encode, tname, value, indent=indent)
    if r[0] != 'ok':
        return ('encode-' + r[1], r[2] if len(r) > 2 else '')
    d = limited(2, spec.decode, tname, r[1])
    if d[0] != 'ok':
        return ('decode-' + d[1], d[2] if len(d) > 2 else '', r[1])
    return ('ok', d[1], r[1])


def run_known_findings(ctx, findings):
    for f in findings:
        w = f['witness']
        still = []
        for codec in w['codecs']:
            out = roundtrip_once(codec, w['spec'], w['type'], pyeval(w['value']))
            if out[0] != 'ok' or not G.same(out[1], pyeval(w['expect'])):
                still.append('%s: %s' % (codec, out[0] if out[0] != 'ok' else 'decoded %r' % (out[1],)))
        ctx.case(('finding', f['id']))
        if still:
            ctx.known_finding(f['id'], f['what'] + ' [' + '; '.join(still) + ']')
        else:
            ctx.log('known finding %s no longer reproduces on this tree (entry is stale)' % f['id'])
            ctx.extra.setdefault('stale_findings', []).append(f['id'])


# ---------------------------------------------------------------------------
# negative / mutated inputs

def negate_value(rng, rt, T, v, numeric):
    """A value the encoder must reject with EncodeError, or None."""
    t = rt(T)
    k = t['k']
    if k in ('SEQUENCE', 'SET'):
        ms = [m for m in all_members(t) if m['opt'] is None and m['name'] in v]
        if ms:
            m = rng.choice(ms)
            if rng.random() < .5:
                return {n: x for n, x in v.items() if n != m['name']}, 'missing-member'
            sub = negate_value(rng, rt, m['t'], v[m['name']], numeric)
            if sub is not None:
                out = dict(v)
                out[m['name']] = sub[0]
                return out, sub[1]
        return None
    if k == 'ENUMERATED':
        return (99999 if numeric else 'zz'), 'unknown-enum'
    if k == 'CHOICE':
        return ('zz', 0), 'unknown-alt'
    if k in ('SEQUENCE OF', 'SET OF') and v:
        sub = negate_value(rng, rt, t['elem'], v[0], numeric)
        if sub is not None:
            return [sub[0]] + list(v[1:]), sub[1]
    return None


def json_nodes(j, acc):
    if isinstance(j, G.Pairs):
        acc.append(j)
        for _, x in j:
            json_nodes(x, acc)
    elif isinstance(j, list):
        for x in j:
            json_nodes(x, acc)
    return acc


def json_copy(j):
    if isinstance(j, G.Pairs):
        return G.Pairs((k, json_copy(x)) for k, x in j)
    if isinstance(j, list):
        return [json_copy(x) for x in j]
    return j


def mutate_json(rng, j):
    j = json_copy(j)
    objs = json_nodes(j, [])
    kind = rng.choice(['add', 'add-front', 'rename', 'remove', 'string'])
    if kind == 'string' or not objs:
        # replace one string somewhere by "zz"
        holders = []

        def walk(x):
            if isinstance(x, G.Pairs):
                for i, (k, y) in enumerate(x):
                    if isinstance(y, str):
                        holders.append((x, i, k))
                    walk(y)
            elif isinstance(x, list):
                for i, y in enumerate(x):
                    if isinstance(y, str):
                        holders.append((x, i, None))
                    walk(y)
        walk(j)
        if isinstance(j, str):
            return 'zz', 'string'
        if not holders:
            return None
        h, i, k = rng.choice(holders)
        h[i] = (k, 'zz') if k is not None else 'zz'
        return j, 'string'
    o = rng.choice(objs)
    if kind == 'add':
        o.append(('zzz', 1))
    elif kind == 'add-front':
        o.insert(0, ('zzz', 1))
    elif not o:
        o.append(('zzz', 1))
    elif kind == 'rename':
        i = rng.randrange(len(o))
        o[i] = ('zz', o[i][1])
    else:
        del o[rng.randrange(len(o))]
    return j, kind


def xml_copy(x):
    return [x[0], x[1], [xml_copy(k) for k in x[2]]]


def xml_freeze(x):
    return (x[0], x[1], [xml_freeze(k) for k in x[2]])


def xml_nodes(x, acc):
    acc.append(x)
    for k in x[2]:
        xml_nodes(k, acc)
    return acc


def mutate_xml(rng, x):
    x = xml_copy(x)
    nodes = xml_nodes(x, [])
    kind = rng.choice(['add', 'add-front', 'rename', 'remove'])
    if kind in ('add', 'add-front'):
        # only into elements that already have children: an empty element may be a leaf type whose
        # decoder reads .text, and the writer's indentation would then be text the tree does not record
        cands = [n for n in nodes if n[2]]
        if not cands:
            return None
        n = rng.choice(cands)
        if kind == 'add':
            n[2].append(['zzz', None, []])
        else:
            n[2].insert(0, ['zzz', None, []])
    elif kind == 'rename':
        cands = [n for n in nodes[1:]]
        if not cands:
            return None
        rng.choice(cands)[0] = 'zz'
    else:
        cands = [n for n in nodes if n[2]]
        if not cands:
            return None
        n = rng.choice(cands)
        del n[2][rng.randrange(len(n[2]))]
    return xml_freeze(x), kind


# ---------------------------------------------------------------------------
# correspondence

def corr(ctx, nmods, batch=12):
    """Correspondence in batches of [batch] modules (one Coq evaluation per codec and batch); the
    fixture module is module 0 of the first batch."""
    done = 0
    while done < nmods + 1:
        n = min(batch, nmods + 1 - done)
        corr_batch(ctx, range(done, done + n))
        done += n


def corr_batch(ctx, indices):
    rng = ctx.rng
    envdefs = []
    tables = {}
    for codec in ('jer', 'xer'):
        tables[codec] = {'enc': [], 'dec': []}

    for mi in indices:
        mod, text, g = G.fixture(rng) if mi == 0 else G.generate(rng, opts_for(rng, ctx.quick))
        rt = G.make_resolver(mod)
        for numeric in (False, True):
            envdefs.append('Definition env_%d_%d : xenv := of_env %s %s.' % (
                mi, numeric, 'true' if numeric else 'false', to_coq(gen_asn1.coq_env(G.effective_module(mod), numeric))))
        for codec in ('jer', 'xer'):
            for numeric in (False, True):
                r = lib.attempt(lib.compile_string, text, codec, numeric_enums=numeric)
                if r[0] != 'ok':
                    ctx.violation('generated module does not compile for %s: %s' % (codec, r[1:]),
                                  dict(kind='compile', spec=text, codec=codec, numeric=numeric))
                    continue
                spec = r[1]
                env = Raw('env_%d_%d' % (mi, numeric))
                for tname, T in mod['types']:
                    for rep in range(4 if mi == 0 else 2):
                        v0 = g.gen_value(T)
                        if mi == 0 and rep == 0:
                            v0 = G.strip_optional(rt, T, v0)
                        v = G.for_codec(rt, T, v0, codec, special_reals_only=(codec == 'xer'), rng=rng)
                        if codec == 'xer' and len(HANGS) >= 3:
                            v = no_infinities(rt, T, v)
                        neg = None
                        if numeric:
                            v = to_numeric(rt, T, v)
                        if rng.random() < .15:
                            nv = negate_value(rng, rt, T, v, numeric)
                            if nv is not None:
                                v, neg = nv
                        if isinstance(v, dict) and rng.random() < .2:
                            v = dict([('junk', 5)] + list(v.items()))
                        corr_case(ctx, tables[codec], spec, codec, numeric, env, text, rt, tname, T, v, neg)

    ctx.log('corr: cases generated on /repo')
    for codec in ('jer', 'xer'):
        eval_tables(ctx, codec, envdefs, tables[codec])


def corr_case(ctx, table, spec, codec, numeric, env, text, rt, tname, T, v, neg):
    rng = ctx.rng
    meta = dict(spec=text, codec=codec, numeric=numeric, type=tname, value=pyrepr(v))
    key = (codec, numeric, shape(rt, T), neg)
    r = limited(2, spec.encode, tname, v, indent=None)
    vt = G.xvalue(rt, T, v)
    if r[0] != 'ok':
        ctx.count('corr:%s:enc:%s' % (codec, r[1]))
        if r[1] == 'hang':
            HANGS.append(1)
            ctx.violation('encode does not terminate', dict(kind='pt', indent=None, **meta))
            return
        table['enc'].append(((env, tname, vt), G.result_term(r, None), dict(kind='corr-enc', impl=repr(r[1:]), **meta)))
        ctx.case(('corr-enc',) + key)
        return
    try:
        tree = tree_of(codec, r[1])
        for ind in INDENTS[1:]:
            ri = limited(2, spec.encode, tname, v, indent=ind)
            ti = tree_of(codec, ri[1]) if ri[0] == 'ok' else ri
            ctx.evaluations += 1
            if ti != tree:
                ctx.violation('indent=%r changes the encoded tree' % ind,
                              dict(kind='indent-tree', indent=ind, **meta))
                return
    except (G.Anomaly, ValueError, SyntaxError) as e:
        ctx.violation('encoding is outside the tree model / not parseable: %s' % e,
                      dict(kind='pt', indent=None, **meta))
        return
    conv = G.json_term if codec == 'jer' else G.xml_term
    table['enc'].append(((env, tname, vt), C('Ok', conv(tree)), dict(kind='corr-enc', impl=r[1].decode('utf-8')[:300], **meta)))
    ctx.case(('corr-enc',) + key, dict(kind='corr-enc', codec=codec, numeric=numeric, type=tname,
                                       value=pyrepr(v)[:200], encoded=r[1].decode('utf-8')[:200]))
    ctx.count('corr:%s:enc:ok' % codec)
    # decode direction: the tree itself and up to two mutations of it
    variants = [(tree, 'as-encoded')]
    for _ in range(2):
        m = (mutate_json if codec == 'jer' else mutate_xml)(rng, tree)
        if m is not None:
            variants.append(m)
    for tr, how in variants:
        data = (G.json_write if codec == 'jer' else G.xml_write)(tr, rng)
        d = limited(2, spec.decode, tname, data)
        if d[0] == 'ok':
            try:
                exp = C('Ok', G.xvalue(rt, T, d[1]))
            except Exception:
                ctx.count('corr:%s:dec:unexportable' % codec)
                continue
        else:
            exp = G.result_term(d, None)
        table['dec'].append(((env, tname, conv(tr)), exp,
                             dict(kind='corr-dec', how=how, data=data.decode('utf-8')[:400],
                                  impl=repr(d[1:])[:300], **meta)))
        ctx.case(('corr-dec', how) + key)
        ctx.count('corr:%s:dec:%s:%s' % (codec, how, d[0] if d[0] == 'ok' else d[1]))


def eval_tables(ctx, codec, envdefs, table):
    if codec == 'jer':
        fns = '''
Definition enc_case (c : xenv * string * xvalue) : result json :=
  let '(e, n, v) := c in match lookup n e with Some t => jenc e fuel t v | None => Err EUnmodelled end.
Definition dec_case (c : xenv * string * json) : result xvalue :=
  let '(e, n, j) := c in match lookup n e with Some t => jdec e fuel t j | None => Err EUnmodelled end.
Definition tree_eqb := json_eqb.
'''
        tree_ty = 'json'
    else:
        fns = '''
Definition enc_case (c : xenv * string * xvalue) : result xml :=
  let '(e, n, v) := c in match lookup n e with Some t => xenc e fuel false [n] n t v | None => Err EUnmodelled end.
Definition dec_case (c : xenv * string * xml) : result xvalue :=
  let '(e, n, j) := c in match lookup n e with Some t => xdec e fuel false [n] t j | None => Err EUnmodelled end.
Definition tree_eqb := xml_eqb.
'''
        tree_ty = 'xml'
    head = 'Open Scope string_scope.\nOpen Scope list_scope.\nOpen Scope Z_scope.\n' \
           'Definition fuel : nat := %d%%nat.\n' % FUEL + '\n'.join(envdefs) + '\n' + fns
    body = head + '''
Definition enc_cases : list ((xenv * string * xvalue) * result %s) := %s.
Eval vm_compute in mismatches (result_eqb tree_eqb) enc_case enc_cases.
Definition dec_cases : list ((xenv * string * %s) * result xvalue) := %s.
Eval vm_compute in mismatches (result_eqb xvalue_eqb) dec_case dec_cases.
''' % (tree_ty, to_coq([(a, b) for a, b, _ in table['enc']]), tree_ty, to_coq([(a, b) for a, b, _ in table['dec']]))
    bad_enc, bad_dec = ctx.coq_eval('corr_' + codec, IMPORTS, body)
    tot = ctx.extra.setdefault('corr_%s' % codec, dict(enc_cases=0, dec_cases=0, enc_disagree=0, dec_disagree=0))
    tot['enc_cases'] += len(table['enc'])
    tot['dec_cases'] += len(table['dec'])
    tot['enc_disagree'] += len(bad_enc)
    tot['dec_disagree'] += len(bad_dec)
    ctx.log('corr %s: %d encode cases, %d decode cases, disagreements %d / %d' % (
        codec, len(table['enc']), len(table['dec']), len(bad_enc), len(bad_dec)))
    picked = [(which, i) for which, bad in (('enc', bad_enc), ('dec', bad_dec)) for i in bad[:4]]
    if picked:
        # one more evaluation prints what the model computes for the first disagreements
        outs = ctx.coq_eval('corr1_' + codec, IMPORTS, head + ''.join(
            'Eval vm_compute in %s_case %s.\n' % (which, to_coq(table[which][i][0])) for which, i in picked))
        for (which, i), mv in zip(picked, outs):
            inp, exp, meta = table[which][i]
            ctx.violation('model and %s.py disagree (%s, %s of type %s): impl %s, model %s' % (
                codec, which, meta.get('how', 'encode'), meta['type'], meta['impl'][:160], repr(mv)[:200]),
                dict(model=repr(mv)[:1000], **meta))


# ---------------------------------------------------------------------------
# property test on /repo

def check_roundtrip(ctx, spec, codec, numeric, text, rt, tname, T, v, key, hangs):
    want = norm(rt, T, v, numeric)
    for ind in INDENTS:
        meta = dict(kind='pt', spec=text, codec=codec, numeric=numeric, type=tname, value=pyrepr(v), indent=ind)
        r = limited(1.5, spec.encode, tname, v, indent=ind)
        ctx.case(('pt', ind) + key)
        if r[0] != 'ok':
            if r[1] == 'hang':
                hangs.append(1)
            ctx.violation('%s encode of an in-scope value fails: %s %s' % (codec.upper(), r[1], r[2][:120]), meta)
            return False
        why = wellformed(codec, r[1])
        if why is not None:
            ctx.violation('%s encoding is not well-formed: %s' % (codec.upper(), why),
                          dict(encoded=r[1].decode('utf-8', 'replace')[:400], **meta))
            return False
        d = limited(1.5, spec.decode, tname, r[1])
        if d[0] != 'ok':
            ctx.violation('%s decode of its own encoding fails: %s %s' % (codec.upper(), d[1], d[2][:120]),
                          dict(encoded=r[1].decode('utf-8', 'replace')[:400], **meta))
            return False
        # named-bit BIT STRINGs are equal modulo trailing zero bits: normalise both sides
        try:
            got = norm(rt, T, d[1], numeric)
        except Exception:       # decoded value does not even have the shape of the type
            got = d[1]
        if not G.same(got, want):
            ctx.violation('%s round trip changes the value (indent=%r): decoded %s, expected %s' % (
                codec.upper(), ind, pyrepr(d[1])[:160], pyrepr(want)[:160]),
                dict(encoded=r[1].decode('utf-8', 'replace')[:400], decoded=pyrepr(d[1])[:400], **meta))
            return False
    return True


def pt(ctx, nmods):
    rng = ctx.rng
    hangs = []
    start = len(ctx.violations)
    for mi in range(nmods + 1):
        if len(ctx.violations) - start >= 40:
            ctx.log('property test stopped after 40 reported failures')
            return
        mod, text, g = G.fixture(rng) if mi == 0 else G.generate(rng, opts_for(rng, ctx.quick))
        rt = G.make_resolver(mod)
        for codec in ('jer', 'xer'):
            for numeric in (False, True):
                r = lib.attempt(lib.compile_string, text, codec, numeric_enums=numeric)
                if r[0] != 'ok':
                    ctx.violation('generated module does not compile for %s: %s' % (codec, r[1:]),
                                  dict(kind='compile', spec=text, codec=codec, numeric=numeric))
                    continue
                for tname, T in mod['types']:
                    for rep in range(6 if mi == 0 else 3):
                        v0 = g.gen_value(T)
                        if mi == 0 and rep == 0:
                            v0 = G.strip_optional(rt, T, v0)
                        v = G.for_codec(rt, T, v0, codec)
                        if codec == 'xer' and len(hangs) + len(HANGS) >= 3:
                            v = no_infinities(rt, T, v)
                        if numeric:
                            v = to_numeric(rt, T, v)
                        reals = G.has_kind(rt, T, v, ('REAL',))
                        cls = 'real' if reals else 'plain'
                        ctx.count('pt:%s:%s' % (codec, cls))
                        check_roundtrip(ctx, r[1], codec, numeric, text, rt, tname, T, v,
                                        (codec, numeric, shape(rt, T), cls), hangs)


REAL_SPEC = '''M DEFINITIONS AUTOMATIC TAGS ::= BEGIN
R ::= REAL
L ::= SEQUENCE OF REAL
S ::= SEQUENCE { a REAL, b REAL OPTIONAL, c SEQUENCE OF R, d CHOICE { x REAL, y NULL } }
END
'''


def pt_reals(ctx, nrandom):
    """REAL batteries: the magnitudes the property names, boundaries of the
    binary64 format, powers of ten around the repr() notation switch, random
    bit patterns."""
    rng = ctx.rng
    vals = list(G.SPECIAL_REALS) + list(G.HARD_REALS) + [-x for x in G.HARD_REALS]
    vals += [float('1e%d' % e) for e in range(-324, 309, 7)]
    vals += [math.ldexp(1.0, e) for e in (-1074, -1073, -1023, -1022, -1, 0, 1, 52, 53, 1023)]
    vals += [math.nextafter(x, s) for x in (1e16, 1e-4, 1e-5, 10.0, 1e22, 1e23) for s in (0.0, math.inf)]
    while len(vals) < nrandom:
        f = struct.unpack('>d', struct.pack('>Q', rng.getrandbits(64)))[0]
        vals.append(f)
    T = {'k': 'REF', 'name': 'REAL', 'real': True}
    mod = {'types': [('R', T), ('L', {'k': 'SEQUENCE OF', 'elem': T, 'size': None})]}
    rt = G.make_resolver(mod)
    hangs = []
    for codec in ('jer', 'xer'):
        spec = lib.compile_string(REAL_SPEC, codec)
        before = len(ctx.violations)
        for i, f in enumerate(vals):
            if codec == 'xer' and math.isinf(f) and len(hangs) >= 2:
                continue
            if len(ctx.violations) - before >= 12:
                ctx.log('REAL battery for %s stopped after 12 reported failures' % codec)
                break
            cls = 'nan' if math.isnan(f) else 'inf' if math.isinf(f) else 'zero' if f == 0 else \
                'subnormal' if abs(f) < 2.2250738585072014e-308 else 'e%+04d' % (math.frexp(f)[1] // 64 * 64)
            ctx.count('pt-real:%s:%s' % (codec, 'special' if cls in ('nan', 'inf', 'zero') else 'finite'))
            if not check_roundtrip(ctx, spec, codec, False, REAL_SPEC, rt, 'R', T, f, (codec, 'REAL', cls), hangs):
                continue
            if i % 4 == 0:
                check_roundtrip(ctx, spec, codec, False, REAL_SPEC, rt, 'L', mod['types'][1][1],
                                [f, -f, f], (codec, 'SEQOF-REAL', cls), hangs)
        # structured use
        for f in vals[:12]:
            if len(ctx.violations) - before >= 16 or (codec == 'xer' and math.isinf(f) and len(hangs) >= 2):
                continue
            v = {'a': f, 'c': [f, 1.5], 'd': ('x', f)}
            d = limited(2, lambda: spec.decode('S', spec.encode('S', v, indent=1)))
            ctx.case(('pt-real-struct', codec, repr(f)))
            if d[0] != 'ok' or not G.same(d[1], v):
                ctx.violation('%s round trip of a REAL inside SEQUENCE/CHOICE fails: %r' % (codec.upper(), d[1:]),
                              dict(kind='pt', spec=REAL_SPEC, codec=codec, numeric=False, type='S', value=pyrepr(v),
                                   indent=1))


# ---------------------------------------------------------------------------

def replay(ctx):
    doc = json.load(open(ctx.replay))
    r = doc['replay']
    print('replaying', r.get('kind'), '-', doc.get('what', '')[:200])
    if 'spec' not in r:
        print(json.dumps(r, indent=1)[:2000])
        return
    v = pyeval(r['value'])
    print(r['spec'])
    print('type', r['type'], 'codec', r['codec'], 'numeric_enums', r.get('numeric'), 'value', r['value'][:400])
    spec = lib.compile_string(r['spec'], r['codec'], numeric_enums=bool(r.get('numeric')))
    for ind in ([r['indent']] if 'indent' in r else INDENTS):
        e = limited(3, spec.encode, r['type'], v, indent=ind)
        print('indent=%r encode ->' % (ind,), e[0], (e[1] if e[0] == 'ok' else e[1:]))
        if e[0] == 'ok':
            print('   well-formed:', wellformed(r['codec'], e[1]) or 'yes')
            d = limited(3, spec.decode, r['type'], e[1])
            print('   decode ->', d[0], d[1:] if d[0] != 'ok' else pyrepr(d[1])[:600])
    if r.get('kind') == 'corr-dec':
        d = limited(3, spec.decode, r['type'], r['data'].encode('utf-8'))
        print('decode of the rewritten document', r['data'][:300], '->', d)
    if 'model' in r:
        print('model said:', r['model'][:600])


def run(ctx):
    if ctx.replay:
        return replay(ctx)
    ctx.rule = ('cases: (codec, numeric_enums, type shape [constructor tree with constraint widths, optionality, '
                'extension structure], value class [plain / contains REAL / negative kind / tree mutation kind], '
                'indent) ; distinct by that tuple; non-trivial = type AST size >= 3, or a REAL special/boundary '
                'magnitude class, or a mutated/negative input')
    ctx.trusted_base += [
        'serialiser/parser law assumed, not proved: json.loads(json.dumps(t, separators|indent)) = t on trees with '
        'distinct keys and finite floats; ElementTree.fromstring(tostring(indent_xml(t))) = t (modulo white-space-only '
        'text of elements with children and tails) on trees of XML names and XML 1.0 characters without CR. '
        'It is the hypothesis [par (ser indent tree) = Some tree] of jer_roundtrip / xer_roundtrip_partial (a Section '
        'variable, not an axiom) and is exercised for indent in {None,0,1,4} by the property test.',
        'CPython repr(float)/float(str)/json float printing: exact round trip of finite doubles is decided by the '
        'property test only (the XER theorem covers the five special values)',
        'tree abstraction of harness/c02_gen.py (json object_pairs_hook / ElementTree walk) and its two independent writers',
        'harness/gen_asn1.py + c02_gen.py generator distribution (histogram below); Text/Universe.v of_ty erasure '
        'is exercised because the harness exports the shared ty and lets Coq erase it',
        'not modelled: compile_user_type cache under mutual recursion, time types, ANY, EXTERNAL, parameterisation',
    ]
    ctx.assumptions += [
        'XER strings restricted to XML 1.0 Char minus CARRIAGE RETURN (finding C02-xer-cr)',
        'mandatory members of extension additions are present in values (EncodeError otherwise, by design)',
        'checked on the tree with proposed_fixes/C02-xer-real-format.diff and C02-default-in-addition-group.diff '
        'applied; on the unrepaired tree the XER REAL cases (inf/-inf hang, nan, magnitudes >= 1e16 or < 1e-4) and '
        'absent DEFAULT members of extension addition groups are reported as violations',
    ]
    ctx.extra['open_theorems'] = ['xer_roundtrip_partial (OPEN: finite non-zero REAL text = repr()/float())',
                                  'xer_roundtrip_tree_partial', 'xer_roundtrip_shared_partial']
    ok = ctx.coq_props()
    ctx.log('Props/C02.v: %s' % ('all obligations discharged' if ok else 'BROKEN'))
    run_known_findings(ctx, common.load_findings('C02'))
    corr(ctx, 10 if ctx.quick else 100)
    ctx.log('correspondence done')
    pt(ctx, 30 if ctx.quick else 500)
    pt_reals(ctx, 400 if ctx.quick else 20000)
    if not ok:
        common.proof_broken(ctx)
