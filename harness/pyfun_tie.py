"""Tie of the codec helper functions to the source (translator/pyfun.py).

run_tie(ctx) does three things and returns a dict (see the end of run_tie):

 1. regenerates coq/gen/PyBer.v, PyPer.v, PyOer.v from common.REPO with the
    fail-closed translator (failure -> obligation 'translator:pyfun' false);
 2. builds coq/theories/Py/Py{Ber,Per,Oer}Tie.vo, one obligation per tie
    theorem ('tie:<theorem>'), audits their Print Assumptions output;
 3. differential test (<= 400 cases, boundary values + ctx.rng) of
      (a) the REGENERATED functions against the real Python functions imported
          from the library (validates the translator and Py/PyRuntime.v), and
      (b) the hand-written model functions against the same library functions
          on the domain of the tie theorems (this is what names the concrete
          input when a tie theorem broke because the source changed).

report(ctx, res) turns the result into VIOLATION lines: one per failing input,
or a no-failing-input-found violation naming the broken tie theorem.
replay_case(ctx, case) re-runs one recorded input.

Run stand-alone:  VERIF_REPO=/tmp/wt /venv/bin/python harness/pyfun_tie.py
"""
import importlib
import os
import re
import sys

sys.path.insert(0, os.path.dirname(os.path.abspath(__file__)))
import common                                            # noqa: E402
from common import C, to_coq                             # noqa: E402

sys.path.insert(0, os.path.join(common.VERIF, 'translator'))
import pyfun                                             # noqa: E402

GEN_DIR = os.path.join(common.COQ, 'gen')
TIE_FILES = ['theories/Py/PyBerTie.v', 'theories/Py/PyPerTie.v', 'theories/Py/PyOerTie.v']
EXAMPLES = 'theories/Py/PyTieExamples.v'
FUEL = '(Z.to_nat 3000)'
MODULES = {'PyBer': 'asn1tools.codecs.ber', 'PyPer': 'asn1tools.codecs.per', 'PyOer': 'asn1tools.codecs.oer'}
# tie theorem of each function (for the report)
THEOREM = {
    ('PyBer', 'encode_length_definite'): 'py_encode_length_definite_eq',
    ('PyBer', 'encode_signed_integer'): 'py_encode_signed_integer_eq',
    ('PyBer', 'encode_tag'): 'py_encode_tag_eq',
    ('PyBer', 'skip_tag'): 'py_skip_tag_eq',
    ('PyBer', 'read_tag'): 'py_read_tag_eq',
    ('PyBer', 'decode_length'): 'py_decode_length_eq',
    ('PyBer', 'skip_tag_length_contents'): 'py_skip_tag_length_contents_eq',
    ('PyBer', 'decode_full_length'): 'py_decode_full_length_eq',
    ('PyBer', 'detect_end_of_contents_tag'): 'py_detect_end_of_contents_tag_eq',
    ('PyBer', 'is_end_of_data'): 'py_is_end_of_data_eq',
    ('PyBer', 'encode_object_identifier_subidentifier'): 'py_encode_object_identifier_subidentifier_eq',
    ('PyBer', 'decode_object_identifier_subidentifier'): 'py_decode_object_identifier_subidentifier_eq',
    ('PyPer', 'is_unbound'): 'py_is_unbound_eq',
    ('PyPer', 'to_int'): 'py_to_int_eq',
    ('PyPer', 'to_byte_array'): 'py_to_byte_array_eq',
    ('PyPer', 'integer_as_number_of_bits'): 'py_integer_as_number_of_bits_eq',
    ('PyPer', 'integer_as_number_of_bits_power_of_two'): 'py_integer_as_number_of_bits_power_of_two_eq',
    ('PyPer', 'size_as_number_of_bytes'): 'py_size_as_number_of_bytes_eq',
    ('PyOer', 'encode_tag'): 'py_oer_encode_tag_eq',
}

_PRELUDE = '''From Asn1V Require Import Base.Prelude Base.Corr Py.PyRuntime.
From Asn1V Require Base.Bits Syntax.Asn1 Ber.Header Ber.BerCommon Per.UperImpl Per.PerImpl Oer.OerPrim.
Definition off_z (r : result nat) : result Z := match r with Ok o => Ok (Z.of_nat o) | Err e => Err e end.
Definition snd_off_z {A} (r : result (A * nat)) : result (A * Z) :=
  match r with Ok (a, o) => Ok (a, Z.of_nat o) | Err e => Err e end.
Definition size_of (mn mx : pybound) : Asn1.size :=
  match mn, mx with
  | BInt lo, BInt hi => Asn1.SzRange lo (Some hi) false
  | BInt lo, _ => Asn1.SzRange lo None false
  | _, _ => Asn1.SzNone
  end.
'''


# --------------------------------------------------------------------------
# values

def is_bytes(v):
    return isinstance(v, (bytes, bytearray))


def coq_arg(v, t):
    """Coq term for the Python argument [v] of translator type [t]."""
    if t == pyfun.INT:
        return '(%d)%%Z' % v
    if t == pyfun.BOOL:
        return 'true' if v else 'false'
    if t in pyfun.SEQ:
        return to_coq(bytes(v)) if is_bytes(v) else to_coq(list(v))
    if t == pyfun.BOUND:
        if v is None:
            return 'BNone'
        if isinstance(v, str):
            return '(BStr "%s"%%string)' % v
        return '(BInt (%d)%%Z)' % v
    if t == pyfun.INTBYTES:
        return '(IBInt (%d)%%Z)' % v if isinstance(v, int) else '(IBBytes %s)' % to_coq(bytes(v))
    if isinstance(t, tuple) and t[0] == 'opt':
        return 'None' if v is None else '(Some %s)' % coq_arg(v, t[1])
    raise TypeError((v, t))


def norm(v, t):
    """The Python value [v] of translator type [t] in the form common.parse_coq gives the Coq value."""
    if t == pyfun.BOOL:
        if not isinstance(v, bool):
            raise TypeError('expected bool, got %r' % (v,))
        return v
    if t == pyfun.INT:
        if isinstance(v, bool) or not isinstance(v, int):
            raise TypeError('expected int, got %r' % (v,))
        return v
    if t in pyfun.SEQ:
        return [int(x) for x in v]
    if isinstance(t, tuple) and t[0] == 'opt':
        return None if v is None else C('Some', norm(v, t[1]))
    if isinstance(t, tuple) and t[0] == 'tuple':
        if not isinstance(v, tuple) or len(v) != len(t[1]):
            raise TypeError('expected a %d-tuple, got %r' % (len(t[1]), v))
        return tuple(norm(x, u) for x, u in zip(v, t[1]))
    raise TypeError((v, t))


def py_outcome(mod, fn, args, ret):
    """Outcome of the library function in the model's vocabulary."""
    f = getattr(mod, fn)
    try:
        return C('Ok', norm(f(*args), ret))
    except Exception as e:  # noqa
        names = [c.__name__ for c in type(e).__mro__]
        if 'MissingDataError' in names:
            return C('Err', C('EMissing', e.offset, e.expected_length))
        if 'OutOfByteDataError' in names or 'OutOfDataError' in names:
            return C('Err', C('EOutOfData'))
        if 'DecodeError' in names:
            return C('Err', C('EDecode'))
        if 'EncodeError' in names:
            return C('Err', C('EEncode'))
        return C('Err', C('EForeign', type(e).__name__))


def show(o):
    return to_coq(o) if not isinstance(o, C) else repr(o)


def json_args(args):
    out = []
    for a in args:
        if is_bytes(a):
            out.append(['bytes', bytes(a).hex()])
        elif a is None:
            out.append(['none'])
        elif isinstance(a, bool):
            out.append(['bool', a])
        elif isinstance(a, int):
            out.append(['int', str(a)])
        else:
            out.append(['str', a])
    return out


def args_from_json(j):
    out = []
    for a in j:
        k = a[0]
        out.append(bytes.fromhex(a[1]) if k == 'bytes' else None if k == 'none' else a[1] if k in ('bool', 'str')
                   else int(a[1]))
    return out


# --------------------------------------------------------------------------
# the hand-written model's function for each translated function: (domain predicate, Coq text)

def _nat(n):
    return '(Z.to_nat (%d)%%Z)' % n


def _hexc(b):
    return to_coq(bytes(b))


def model_term(module, fn, a):
    """Coq text of the implementation-model function on arguments [a] in the
    output form of the generated function, or None outside the tie domain."""
    if module == 'PyBer':
        if fn == 'encode_length_definite':
            return 'Ok (Header.encode_length_definite (%d))' % a[0] if 0 <= a[0] < 2 ** 2040 else None
        if fn == 'encode_signed_integer':
            return 'Ok (BerCommon.encode_signed_integer (%d))' % a[0]
        if fn == 'encode_tag':
            return 'Ok (Header.encode_tag (%d) (%d))' % (a[0], a[1]) if a[0] >= 0 and 0 <= a[1] < 256 else None
        if fn == 'encode_object_identifier_subidentifier':
            return 'Ok (BerCommon.encode_subid (%d))' % a[0]
        if fn == 'decode_full_length':
            return 'Header.decode_full_length %s' % _hexc(a[0])
        if a[1] < 0:
            return None
        d, off = _hexc(a[0]), _nat(a[1])
        if fn == 'skip_tag':
            return 'off_z (Header.skip_tag %s %s)' % (d, off)
        if fn == 'read_tag':
            return ('match Header.skip_tag %s %s with Ok o => Ok (slice %s %s o) | Err e => Err e end' % (d, off, d, off))
        if fn == 'decode_length':
            return 'snd_off_z (Header.decode_length %s %s %s)' % (d, off, 'true' if a[2] else 'false')
        if fn == 'skip_tag_length_contents':
            return 'Header.skip_tag_length_contents %s %s' % (d, off)
        if fn == 'detect_end_of_contents_tag':
            return 'BerCommon.detect_eoc %s %s' % (d, off)
        if fn == 'is_end_of_data':
            if a[2] is not None and a[2] < 0:
                return None
            return 'snd_off_z (BerCommon.is_end_of_data %s %s %s)' % (d, off, 'None' if a[2] is None
                                                                     else '(Some %s)' % _nat(a[2]))
        if fn == 'decode_object_identifier_subidentifier':
            return ('match BerCommon.decode_subid (skipn %s %s) 0 with Ok (v, n) => Ok (v, Z.of_nat (%s + n)) '
                    '| Err e => Err e end' % (off, d, off))
    if module == 'PyPer':
        if fn == 'integer_as_number_of_bits':
            return 'Ok (Bits.bit_length (%d))' % a[0]
        if fn == 'integer_as_number_of_bits_power_of_two':
            return 'Ok (Z.of_nat (PerImpl.pow2_bits (%d)))' % a[0] if 0 <= a[0] < 2 ** 32 else None
        if fn == 'size_as_number_of_bytes':
            return 'Ok (PerImpl.size_as_bytes (%d))' % a[0]
        if fn == 'to_int':
            return 'Ok (%d)%%Z' % a[0] if isinstance(a[0], int) else 'Ok (be_value %s)' % _hexc(a[0])
        if fn == 'to_byte_array':
            return 'Ok (BerCommon.be_bytes (Z.to_nat (((%d) + 7) / 8)) (%d))' % (a[1], a[0])
        if fn == 'is_unbound':
            mn, mx = a
            # the representation of a SIZE constraint of the model (PyPerTie.size_minimum / size_maximum)
            if (mn is None and mx is None) or (isinstance(mn, int) and (mx == 'MAX' or isinstance(mx, int))):
                return 'Ok (UperImpl.size_unbound (size_of %s %s))' % (coq_arg(mn, pyfun.BOUND), coq_arg(mx, pyfun.BOUND))
            return None
    if module == 'PyOer' and fn == 'encode_tag':
        return 'Ok (OerPrim.encode_tag (%d) (%d))' % (a[0], a[1]) if a[0] >= 0 and a[1] in (0, 64, 128, 192) else None
    return None


def _decode_full_length_domain(module, fn):
    return module == 'PyBer' and fn == 'decode_full_length'


# --------------------------------------------------------------------------
# cases

INTS = [0, 1, 2, 30, 31, 32, 62, 63, 64, 126, 127, 128, 129, 255, 256, 257, 16383, 16384, 32767, 32768, 65535, 65536,
        2 ** 21 - 1, 2 ** 21, 2 ** 24 - 1, 2 ** 24, 2 ** 31, 2 ** 32 - 1, 2 ** 32, 2 ** 63, 2 ** 64 - 1, 2 ** 64]
DATA = [b'', b'\x00', b'\x00\x00', b'\x00\x00\x00', b'\x02\x01\x05', b'\x02\x01', b'\x02', b'\x30\x80\x00\x00',
        b'\x30\x80', b'\x1f', b'\x1f\x81', b'\x1f\x81\x00', b'\x1f\x81\x00\x01\x07', b'\x1f\x1f\x00',
        b'\x3f\xff\xff\x7f\x00', b'\xbf\x87\x68\x03abc', b'\x04\x81\x03abc', b'\x04\x81\x80' + b'x' * 128,
        b'\x04\x82\x01\x00' + b'y' * 256, b'\x04\x82\x01\x00' + b'y' * 255, b'\x04\x82\x01', b'\x04\x83\x00\x00\x01z',
        b'\x04\x84\xff\xff\xff\xff', b'\x04\x80', b'\x04\xff', b'\x04\x81', b'\x04\x81\x00', b'\x04\x7f' + b'q' * 127,
        b'\x04\x7f' + b'q' * 126, b'\x30\x06\x02\x01\x01\x02\x01\x02', b'\x06\x03\x2a\x86\x48', b'\x2a\x86\x48\x86\xf7\x0d',
        b'\x86\xf7', b'\xff\xff\xff', b'\x80', b'\x7f', b'\x81\x80\x80\x00', b'\x05\x00', b'\x00\x01', b'\x01\x00',
        b'\x9f\x1f\x01\x00', b'\x5f\x81\x80\x80\x80\x01\x02\xaa\xbb']


def rand_data(rng):
    k = rng.choice([0, 1, 2, 3, 4, 6, 9, 17])
    special = [0, 0, 0x1f, 0x3f, 0x7f, 0x80, 0x81, 0x82, 0x84, 0xff, 0x30, 0x04]
    return bytes(rng.choice(special) if rng.random() < .6 else rng.randrange(256) for _ in range(k))


def rand_int(rng, neg=False):
    bits = rng.choice([1, 5, 7, 8, 9, 14, 15, 16, 21, 31, 32, 33, 63, 64, 65, 100, 300])
    v = rng.getrandbits(bits)
    if neg and rng.random() < .5:
        v = -v
    return v


def core_cases():
    """Boundary cases that are part of every run (about 330)."""
    cs = []

    def add(m, f, *a):
        cs.append((m, f, list(a)))
    for n in [0, 1, 126, 127, 128, 129, 255, 256, 65535, 65536, 2 ** 32, 2 ** 1016, 2 ** 2039, 2 ** 2040 - 1, 2 ** 2040, -1]:
        add('PyBer', 'encode_length_definite', n)
    for n in [0, 1, -1, 127, 128, -128, -129, 255, 256, 32767, 32768, -32768, -32769, 65535, 65536, 2 ** 63, -2 ** 63 - 1]:
        add('PyBer', 'encode_signed_integer', n)
    flags = [0, 0x20, 0x40, 0x80, 0xa0, 0xc0, 0xe0]
    for i, n in enumerate([0, 1, 30, 31, 32, 127, 128, 129, 16383, 16384, 2 ** 21, 2 ** 32]):
        add('PyBer', 'encode_tag', n, flags[i % 7])
    for i, n in enumerate([0, 1, 62, 63, 64, 127, 128, 129, 16383, 16384, 2 ** 21, 2 ** 32]):
        add('PyOer', 'encode_tag', n, [0, 0x40, 0x80, 0xc0][i % 4])
    add('PyBer', 'encode_tag', 5, 256)
    add('PyBer', 'encode_tag', 500, -1)
    add('PyBer', 'encode_tag', -1, 0)
    add('PyOer', 'encode_tag', 5, 256)
    add('PyOer', 'encode_tag', 70, 0x20)
    for n in [0, 1, 127, 128, 129, 16383, 16384, 2 ** 21, 2 ** 32, -1]:
        add('PyBer', 'encode_object_identifier_subidentifier', n)
    for k, d in enumerate(DATA):
        add('PyBer', 'skip_tag', d, 0)
        add('PyBer', 'decode_length', d, 1, k % 4 != 0)
        if k % 2 == 1 or len(d) < 4:
            add('PyBer', 'decode_full_length', d)
        if k % 3 == 0:
            add('PyBer', 'read_tag', d, 0)
            add('PyBer', 'skip_tag_length_contents', d, 0)
        if k % 4 == 1:
            add('PyBer', 'decode_object_identifier_subidentifier', d, 0)
            add('PyBer', 'decode_object_identifier_subidentifier', d, 1)
            add('PyBer', 'skip_tag', d, len(d))
            add('PyBer', 'decode_length', d, len(d), True)
    for d, off in [(b'\x00\x00', 0), (b'\x00\x00', 1), (b'\x00\x00', 2), (b'\x00\x01', 0), (b'\x05\x00\x00', 1), (b'\x05\x00\x00', 2),
                   (b'', 0), (b'\x00', 0), (b'\x01\x00\x00', 0)]:
        add('PyBer', 'detect_end_of_contents_tag', d, off)
        add('PyBer', 'is_end_of_data', d, off, None)
        add('PyBer', 'is_end_of_data', d, off, [0, 1, 2][len(d) % 3])
    for d in [b'\x02\x01\x05', b'\x1f\x81\x00\x01', b'\x00\x00']:
        add('PyBer', 'skip_tag', d, -1)
        add('PyBer', 'decode_length', d, -2, True)
        add('PyBer', 'detect_end_of_contents_tag', d, -2)
        add('PyBer', 'decode_object_identifier_subidentifier', d, -3)
    for mn, mx in [(None, None), ('MIN', 5), (0, 'MAX'), (0, 65535), (0, 65536), (1, 65537), (0, None), (0, 'MIN'), (None, 3),
                   ('MAX', 'MAX'), (0, 0), (-1, 'MAX')]:
        add('PyPer', 'is_unbound', mn, mx)
    for v in [0, 1, 255, 256, -7, 2 ** 64, b'', b'\x00', b'\x01', b'\x01\x00', b'\xff\xff', b'\x00\x00\x80']:
        add('PyPer', 'to_int', v)
    for num, nb in [(0x1234, 16), (0x1234, 9), (0x1234, 8), (0x1234, 7), (5, 0), (5, -8), (-2, 16), (65536, 17), (255, 8),
                    (256, 8), (-256, 24), (2 ** 70 + 3, 64)]:
        add('PyPer', 'to_byte_array', num, nb)
    for n in [0, 1, 2, 3, 4, 5, 8, 15, 16, 17, 255, 256, 65535, 65536, 2 ** 32 - 1]:
        add('PyPer', 'integer_as_number_of_bits', n)
        add('PyPer', 'integer_as_number_of_bits_power_of_two', n)
        add('PyPer', 'size_as_number_of_bytes', n)
    for n in [2 ** 32, 2 ** 64, 2 ** 100, -5]:
        add('PyPer', 'integer_as_number_of_bits_power_of_two', n)
        add('PyPer', 'size_as_number_of_bytes', n)
    return cs


def make_cases(rng, budget=400):
    """[(module, function, args)]: the core boundary cases, a sample of the wider
    enumeration below, then random ones -- budget in total."""
    core = core_cases()
    cs = []

    def add(m, f, *a):
        cs.append((m, f, list(a)))
    # ber encoders
    for n in INTS + [2 ** 1015, 2 ** 1016 - 1, 2 ** 1016, 2 ** 2039, 2 ** 2040 - 1, 2 ** 2040, -1, -128]:
        add('PyBer', 'encode_length_definite', n)
    for n in INTS[:24] + [2 ** 63, 2 ** 64]:
        add('PyBer', 'encode_signed_integer', n)
        add('PyBer', 'encode_signed_integer', -n)
        add('PyBer', 'encode_signed_integer', -n - 1)
    for n in INTS[:24] + [2 ** 32, 2 ** 64, -1, -31]:
        add('PyBer', 'encode_tag', n, rng.choice([0, 0x20, 0x40, 0x80, 0xa0, 0xc0, 0xe0]))
        add('PyOer', 'encode_tag', n, rng.choice([0, 0x40, 0x80, 0xc0]))
        add('PyBer', 'encode_object_identifier_subidentifier', n)
    add('PyBer', 'encode_tag', 5, 256)
    add('PyBer', 'encode_tag', 500, -1)
    add('PyOer', 'encode_tag', 5, 256)
    add('PyOer', 'encode_tag', 70, 0x20)
    # ber decoders
    datas = list(DATA) + [rand_data(rng) for _ in range(14)]
    for d in datas:
        offs = sorted(set([0, 1, 2, len(d) - 1, len(d), len(d) + 1]) & set(range(0, len(d) + 2)))
        if len(offs) > 3:
            offs = [0] + rng.sample(offs[1:], 2)
        for off in offs:
            add('PyBer', 'skip_tag', d, off)
            add('PyBer', 'decode_length', d, off, rng.random() < .7)
            if rng.random() < .5:
                add('PyBer', 'read_tag', d, off)
                add('PyBer', 'skip_tag_length_contents', d, off)
            if rng.random() < .5:
                add('PyBer', 'detect_end_of_contents_tag', d, off)
                add('PyBer', 'is_end_of_data', d, off, rng.choice([None, None, 0, off, off + 1, len(d)]))
                add('PyBer', 'decode_object_identifier_subidentifier', d, off)
        add('PyBer', 'decode_full_length', d)
    # negative offsets: Python indexes from the end (generated code only; outside the tie domain)
    for d in [b'\x02\x01\x05', b'\x1f\x81\x00\x01', b'\x00\x00']:
        add('PyBer', 'skip_tag', d, -1)
        add('PyBer', 'decode_length', d, -2, True)
        add('PyBer', 'detect_end_of_contents_tag', d, -2)
        add('PyBer', 'decode_object_identifier_subidentifier', d, -3)
    # per
    bounds = [None, 'MIN', 'MAX', 0, 1, 65535, 65536, -1]
    for mn in bounds:
        for mx in bounds:
            if rng.random() < .6 or (mn, mx) in ((0, 'MIN'), (0, 65535), (0, 65536), (None, None), (1, 'MAX')):
                add('PyPer', 'is_unbound', mn, mx)
    for v in [0, 1, 255, 256, -7, 2 ** 64, b'', b'\x00', b'\x01', b'\x01\x00', b'\xff\xff', b'\x00\x00\x80',
              rand_data(rng), rand_data(rng)]:
        add('PyPer', 'to_int', v)
    for nb in [0, 1, 7, 8, 9, 15, 16, 17, 24, 64, 65, -3, -8]:
        add('PyPer', 'to_byte_array', rand_int(rng, True), nb)
        add('PyPer', 'to_byte_array', rng.choice([0, 1, 255, 256, -1, -256]), nb)
    for n in INTS + [2 ** 32 + 1, 2 ** 100, -5]:
        add('PyPer', 'integer_as_number_of_bits', n)
        add('PyPer', 'integer_as_number_of_bits_power_of_two', n)
        add('PyPer', 'size_as_number_of_bytes', n)
    seen = set(repr(c) for c in core)
    cs = [c for c in cs if repr(c) not in seen]
    room = max(0, (budget - len(core)) // 2)
    if len(cs) > room:
        cs = [cs[i] for i in sorted(rng.sample(range(len(cs)), room))]
    cs = core[:budget] + cs
    # random ones
    while len(cs) < budget:
        r = rng.random()
        if r < .12:
            add('PyBer', 'encode_length_definite', rand_int(rng))
        elif r < .24:
            add('PyBer', 'encode_signed_integer', rand_int(rng, True))
        elif r < .34:
            add('PyBer', 'encode_tag', rand_int(rng) >> rng.choice([0, 20, 50]), rng.choice([0, 0x20, 0x40, 0x80, 0xa0, 0xc0]))
        elif r < .42:
            add('PyOer', 'encode_tag', rand_int(rng) >> rng.choice([0, 20, 50]), rng.choice([0, 0x40, 0x80, 0xc0]))
        elif r < .5:
            add('PyBer', 'encode_object_identifier_subidentifier', rand_int(rng))
        elif r < .8:
            d = rand_data(rng)
            off = rng.randrange(0, len(d) + 2)
            f = rng.choice(['skip_tag', 'decode_length', 'skip_tag_length_contents', 'read_tag',
                            'decode_object_identifier_subidentifier', 'detect_end_of_contents_tag', 'decode_full_length'])
            if f == 'decode_length':
                add('PyBer', f, d, off, rng.random() < .7)
            elif f == 'decode_full_length':
                add('PyBer', f, d)
            else:
                add('PyBer', f, d, off)
        elif r < .9:
            add('PyPer', rng.choice(['integer_as_number_of_bits', 'integer_as_number_of_bits_power_of_two',
                                     'size_as_number_of_bytes']), rand_int(rng))
        else:
            add('PyPer', 'to_byte_array', rand_int(rng, True), rng.choice([0, 3, 8, 12, 32, 40]))
    return cs[:budget]


# --------------------------------------------------------------------------

def _specs():
    out = {}
    for relpath, modname, specs in pyfun.SPECS:
        for name, params, ret in specs:
            out[(modname, name)] = (params, ret)
    return out


def library_modules():
    if common.REPO not in sys.path:
        sys.path.insert(0, common.REPO)
    mods = {k: importlib.import_module(v) for k, v in MODULES.items()}
    for m in mods.values():
        assert os.path.realpath(m.__file__).startswith(os.path.realpath(common.REPO)), m.__file__
    return mods


def generated_term(table, module, fn, args, params):
    fuel = next(t['fuel'] for t in table if t['module'] == module and t['function'] == fn)
    return '%s.%s%s %s' % (module, fn, ' ' + FUEL if fuel else '', ' '.join(coq_arg(a, t) for a, (_, t) in zip(args, params)))


def evaluate(ctx, name, groups, with_generated):
    """groups: {key: [coq terms of one result type]} -> {key: [parsed values]}."""
    keys = [k for k in groups if groups[k]]
    body = _PRELUDE
    if with_generated:
        body += 'From Asn1Gen Require PyBer PyPer PyOer.\n'
    for k in keys:
        body += 'Eval vm_compute in [%s].\n' % ';\n  '.join(groups[k])
    res = ctx.coq_eval(name, ['Base.Prelude'], body)
    assert len(res) == len(keys), (len(res), len(keys))
    return dict(zip(keys, res))


def differential(ctx, table, cases, translated):
    """-> list of failing inputs (dicts)."""
    specs = _specs()
    mods = library_modules()
    lib = []
    gen_groups, mod_groups = {}, {}
    for i, (m, f, a) in enumerate(cases):
        params, ret = specs[(m, f)]
        lib.append(py_outcome(mods[m], f, a, ret))
        if translated:
            gen_groups.setdefault((m, f), []).append((i, generated_term(table, m, f, a, params)))
        mt = model_term(m, f, a)
        if mt is not None:
            mod_groups.setdefault((m, f), []).append((i, mt))
    failing = []
    for kind, groups, with_gen in (('generated-vs-library', gen_groups, True), ('model-vs-library', mod_groups, False)):
        if not groups:
            continue
        res = evaluate(ctx, 'pyfun_' + kind.split('-')[0], {k: [t for _, t in v] for k, v in groups.items()}, with_gen)
        for k, items in groups.items():
            vals = res[k]
            assert len(vals) == len(items), (k, len(vals), len(items))
            for (i, _), v in zip(items, vals):
                ctx.evaluations += 1
                ctx.count('pyfun:%s:%s.%s' % (kind.split('-')[0], k[0], k[1]))
                if v != lib[i]:
                    m, f, a = cases[i]
                    failing.append(dict(kind=kind, module=m, function=f, args=json_args(a), library=repr(lib[i]),
                                        coq=repr(v), theorem=THEOREM.get((m, f))))
    return failing


def theorems_of(path, with_end=False):
    """[(theorem, first line)] (or (theorem, first line, line of its Qed)) of a tie file."""
    src = open(os.path.join(common.COQ, path)).read()
    out = []
    for m in re.finditer(r'^(Theorem|Corollary)\s+([\w\']+)', src, flags=re.M):
        start = src[:m.start()].count('\n') + 1
        q = re.search(r'^\s*(Qed|Defined)\.', src[m.start():], flags=re.M)
        end = start + src[m.start():m.start() + q.start()].count('\n') if q else 10 ** 9
        out.append((m.group(2), start, end) if with_end else (m.group(2), start))
    return out


def audit_assumptions(ctx, names):
    """Print Assumptions of every tie theorem, from one small generated file.  -> {name: closed?}"""
    d = os.path.join(common.COQ, 'cases')
    os.makedirs(d, exist_ok=True)
    path = os.path.join(d, 'PYFUN_audit_%d.v' % os.getpid())
    with open(path, 'w') as f:
        f.write('From Asn1V Require Import Py.PyBerTie Py.PyPerTie Py.PyOerTie.\n')
        for n in names:
            f.write('Print Assumptions %s.\n' % n)
    rc, out = common.sh(['coqc'] + common.COQ_FLAGS + ['-Q', 'cases', 'Asn1Cases', path], cwd=common.COQ, timeout=600)
    for ext in ('.v', '.vo', '.glob', '.vok', '.vos'):
        for q in (path[:-2] + ext, os.path.join(d, '.' + os.path.basename(path)[:-2] + '.aux')):
            try:
                os.remove(q)
            except OSError:
                pass
    blocks = re.split(r'^(?=Closed under the global context|Axioms:)', out, flags=re.M)[1:]
    if rc != 0 or len(blocks) != len(names):
        return {n: False for n in names}, out[-300:]
    return {n: b.startswith('Closed under the global context') for n, b in zip(names, blocks)}, ''


def _failure_line(path, detail):
    base = re.escape(os.path.basename(path))
    m = re.search(r'%s:(\d+)' % base, detail) or re.search(r'%s", line (\d+)' % base, detail)
    return int(m.group(1)) if m else None


def build_ties(ctx, examples=True):
    """Build the generated files, the tie files and the examples; one obligation
    per theorem.  -> (ok, {theorem: ok}, broken)."""
    status, broken = {}, []
    targets = [p + 'o' for p in TIE_FILES] + ([EXAMPLES + 'o'] if examples else [])
    # one make call for everything (each call waits for the build lock); per file only to diagnose a failure
    ok_all, detail_all = ctx.coq_build(targets)
    if ok_all:
        names = [n for p in TIE_FILES for n, _ in theorems_of(p)]
        closed, why = audit_assumptions(ctx, names)
        for n in names:
            status[n] = closed[n]
            ctx.obligation('tie:' + n, closed[n], 'closed under the global context' if closed[n]
                           else 'Print Assumptions is not closed ' + why)
            if not closed[n]:
                broken.append(n)
        if examples:
            ctx.obligation('tie:examples', True, '')
        return not broken, status, broken
    upstream = False
    for path in TIE_FILES:
        ths = theorems_of(path)
        line = _failure_line(path, detail_all)
        if line is not None:
            ok, detail = False, detail_all
        else:
            ok, detail = ctx.coq_build([path + 'o'])
            line = None if ok else _failure_line(path, detail)
        blamed = False
        for name, ln, end in theorems_of(path, True):
            if ok:
                st, why = True, 'checked'
            elif line is None:
                st, why = False, 'not checked (%s)' % (detail[:160] or 'a file it depends on failed')
            elif end < line:
                st, why = True, 'checked before the failure at line %d' % line
            elif not blamed:
                # the failure is inside this theorem's proof, or in one of the lemmas that precede it
                st, why, blamed = False, detail[:300], True
                broken.append(name)
            else:
                st, why = False, 'not reached (the file stops at line %d)' % line
            status[name] = st
            ctx.obligation('tie:' + name, st, why)
        if not ok and line is None and not upstream:
            upstream = True
            if not broken:
                broken.append('%s: %s' % (path, detail[:160]))
    if examples:
        ok_ex, detail = (False, 'not checked') if broken else ctx.coq_build([EXAMPLES + 'o'])
        ctx.obligation('tie:examples', ok_ex, detail[:300])
        if not ok_ex and not broken:
            broken.append('PyTieExamples: ' + detail[:160])
    return all(status.values()) and not broken, status, broken


def run_tie(ctx, budget=400, examples=True):
    res = dict(translated=False, translator_error=None, functions=[], ties={}, broken=[], failing_inputs=[], ok=False)
    # 1. translator
    try:
        table = pyfun.regenerate(common.REPO, GEN_DIR)
        res['translated'] = True
        res['functions'] = table
        ctx.obligation('translator:pyfun', True, '%d functions of ber.py, per.py, oer.py' % len(table))
        ctx.log('pyfun: %d functions regenerated from %s' % (len(table), common.REPO))
    except pyfun.Untranslatable as e:
        table = None
        res['translator_error'] = str(e)
        ctx.obligation('translator:pyfun', False, str(e))
        ctx.log('pyfun: translator failed (fail-closed): %s' % e)
    # 2. tie theorems
    ties_ok = False
    if table is not None:
        ok_gen, detail = ctx.coq_build(['gen/PyBer.vo', 'gen/PyPer.vo', 'gen/PyOer.vo'])
        ctx.obligation('translator:pyfun-output-typechecks', ok_gen, detail[:300])
        if not ok_gen:
            res['translated'] = False
            res['translator_error'] = 'generated text does not typecheck: ' + detail[:300]
            table = None
    if table is not None:
        ties_ok, res['ties'], res['broken'] = build_ties(ctx, examples)
        ctx.log('pyfun: tie theorems %s' % ('all check' if ties_ok else 'BROKEN: ' + ', '.join(res['broken'])))
    else:
        for path in TIE_FILES:
            for name, _ in theorems_of(path):
                ctx.obligation('tie:' + name, False, 'not checked: the translator failed')
    # 3. differential runs
    cases = make_cases(ctx.rng, budget)
    res['failing_inputs'] = differential(ctx, table, cases, table is not None)
    res['cases'] = len(cases)
    ctx.log('pyfun: %d differential cases, %d disagreements' % (len(cases), len(res['failing_inputs'])))
    res['ok'] = bool(res['translated'] and ties_ok and not res['failing_inputs'])
    ctx.trusted_base.append('translator/pyfun.py and the Python-subset semantics of coq/theories/Py/PyRuntime.v '
                            '(cross-checked on every run by the differential test of the regenerated functions '
                            'against the library functions)')
    return res


def report(ctx, res, functions=None):
    """VIOLATION lines for a result of run_tie ([functions]: restrict to these function names)."""
    def mine(f):
        return functions is None or f in functions
    shown = 0
    for fi in res['failing_inputs']:
        if not mine(fi['function']) or shown >= 4:
            continue
        shown += 1
        what = ('%s.%s%s: the library returns %s but the %s gives %s%s'
                % (MODULES[fi['module']].split('.')[-1], fi['function'], tuple(args_from_json(fi['args'])), fi['library'],
                   'regenerated function' if fi['kind'].startswith('generated') else 'implementation model',
                   fi['coq'], ' (tie theorem %s)' % fi['theorem'] if fi['theorem'] else ''))
        ctx.violation(what, dict(kind='pyfun', **fi))
    if shown:
        return
    if res['translator_error']:
        ctx.violation('translator/pyfun.py cannot translate the helper layer any more: ' + res['translator_error'],
                      dict(kind='pyfun-translator', error=res['translator_error']), no_input=True)
    elif res['broken']:
        ctx.violation('tie theorem no longer checks: ' + ', '.join(res['broken']),
                      dict(kind='pyfun-tie', broken=res['broken']), no_input=True)


def replay_case(ctx, case):
    """Re-run one recorded failing input; prints the three outcomes."""
    specs = _specs()
    m, f = case['module'], case['function']
    a = args_from_json(case['args'])
    params, ret = specs[(m, f)]
    libv = py_outcome(library_modules()[m], f, a, ret)
    print('library :', repr(libv))
    try:
        table = pyfun.regenerate(common.REPO, GEN_DIR)
        ctx.coq_build(['gen/PyBer.vo', 'gen/PyPer.vo', 'gen/PyOer.vo'])
        g = evaluate(ctx, 'pyfun_replay_g', {'g': [generated_term(table, m, f, a, params)]}, True)['g'][0]
        print('generated:', repr(g))
    except pyfun.Untranslatable as e:
        g = None
        print('generated: untranslatable (%s)' % e)
    mt = model_term(m, f, a)
    mv = None
    if mt is not None:
        mv = evaluate(ctx, 'pyfun_replay_m', {'m': [mt]}, False)['m'][0]
        print('model   :', repr(mv))
    if (g is not None and g != libv) or (mv is not None and mv != libv):
        ctx.violation('%s%s: library %r, generated %r, model %r' % (f, tuple(a), libv, g, mv), dict(kind='pyfun', **case))


if __name__ == '__main__':
    c = common.Ctx('PYFUN', 'quick', int(os.environ.get('VERIF_SEED', '1')))
    r = run_tie(c)
    report(c, r)
    for n, ok, d in c.obligations:
        if not ok:
            print('FAILED obligation %s: %s' % (n, d[:200]))
    print('translated=%s ties_broken=%s failing_inputs=%d ok=%s' % (r['translated'], r['broken'], len(r['failing_inputs']),
                                                                   r['ok']))
    for fi in r['failing_inputs'][:8]:
        print('  ', fi['kind'], fi['function'], args_from_json(fi['args']), 'library', fi['library'], 'coq', fi['coq'])
    sys.exit(0 if r['ok'] else 1)
