"""C10 — IR side: the OER helper block parsed from /repo executed in the Coq IR
against the model CGen/OerHelpers.v (CGen/OerIrRun.v), and the generated OER
per-type functions executed as IR programs against the Python OER codec and
the binary (c09_ir.run_units, codec independent)."""
import common
from common import to_coq
import c09_cc
import c09_ir
import c10_helpers
from c09_driver import cparse


def helpers_vs_model(ctx, n, rng=None):
    rng = rng or ctx.rng
    try:
        prog = c10_helpers.helpers_program()
    except cparse.CParseError as e:
        ctx.violation('the OER helper block cannot be translated to the IR: %s' % e, dict(kind='helpers-ir', error=str(e)),
                      no_input=True)
        return
    hist = c10_helpers.histories(rng, n)
    ecases = [(list(init), size, [c10_helpers.op_coq(o, True) for o in ops]) for k, size, init, ops in hist if k == 'E']
    dcases = [(list(init), size, [c10_helpers.op_coq(o, False) for o in ops]) for k, size, init, ops in hist if k == 'D']
    body = '''
Open Scope string_scope.
Definition helpers_ir : program := %s.
Definition fuel := %s.
Definition ecases : list (list Z * Z * list oeop) := %s.
Definition dcases : list (list Z * Z * list odop) := %s.
Eval vm_compute in nonzero (map (oenc_agree helpers_ir fuel) ecases).
Eval vm_compute in nonzero (map (odec_agree helpers_ir fuel) dcases).
''' % (prog, c09_ir.FUEL, to_coq(ecases), to_coq(dcases))
    ebad, dbad = ctx.coq_eval('oer_helpers_ir', ['Base.Prelude', 'CGen.Ir', 'CGen.Helpers', 'CGen.OerHelpers', 'CGen.IrRun',
                                                 'CGen.OerIrRun'], body)
    eh = [h for h in hist if h[0] == 'E']
    dh = [h for h in hist if h[0] == 'D']
    ctx.evaluations += len(hist)
    ctx.count('ir:oer-helper-histories', len(hist))
    for bad, hs in ((ebad, eh), (dbad, dh)):
        for i, code in bad:
            k, size, init, ops = hs[i]
            c09_cc.limited_violation(
                ctx, 'helpers-ir',
                'the OER helper block as parsed from oer_functions.py and the model CGen/OerHelpers.v disagree on history %s '
                '(buffer of %d bytes): %s' % ([c10_helpers.op_text(o, k == 'E') for o in ops], size, c09_ir.CODES.get(code, code)),
                dict(kind='helpers-ir', side=k, size=size, init=init.hex(),
                     ops=[c10_helpers.op_text(o, k == 'E') for o in ops], code=code))
