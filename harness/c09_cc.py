"""Compile-and-run infrastructure for the generated C (C09; reusable by C10).

A *unit* is one generated (header, source) pair plus a generated driver.  All
files live in a private temporary directory that is removed at exit; nothing
is cached between runs.
"""
import atexit
import os
import shutil
import subprocess
import tempfile
from concurrent.futures import ThreadPoolExecutor

GCC_FLAGS = ['-std=c99', '-Wall', '-Wextra', '-Werror=implicit-function-declaration', '-O0']
CLANG_FLAGS = ['-std=c99', '-O1', '-g', '-fsanitize=address,undefined', '-fno-sanitize-recover=all',
               '-fno-omit-frame-pointer', '-Wno-everything']
SAN_ENV = dict(os.environ, ASAN_OPTIONS='detect_leaks=0:abort_on_error=0:allocator_may_return_null=1',
               UBSAN_OPTIONS='print_stacktrace=1:halt_on_error=1')

_root = None


def root():
    global _root
    if _root is None:
        _root = tempfile.mkdtemp(prefix='c09-')
        atexit.register(shutil.rmtree, _root, True)
    return _root


def cleanup():
    global _root
    if _root is not None:
        shutil.rmtree(_root, True)
        _root = None


def run(cmd, cwd, timeout=300, env=None):
    try:
        p = subprocess.run(cmd, cwd=cwd, stdout=subprocess.PIPE, stderr=subprocess.PIPE, timeout=timeout, env=env)
        return p.returncode, p.stdout.decode('utf-8', 'replace'), p.stderr.decode('utf-8', 'replace')
    except subprocess.TimeoutExpired as e:
        return -999, (e.stdout or b'').decode('utf-8', 'replace'), 'TIMEOUT after %ss' % timeout


class Unit(object):
    """files: {name: text}; gen_source: name of the generated .c; driver: name of
    the driver .c; fuzz: text of the fuzz input file or None."""

    def __init__(self, uid, files, gen_source, driver, fuzz=None, extra_args=None):
        self.uid = uid
        self.files = files
        self.gen_source = gen_source
        self.driver = driver
        self.fuzz = fuzz
        self.result = None


def build_and_run(unit, sanitize=True, plain=True, run_timeout=300):
    """Returns a dict:
      gcc_rc, gcc_err (diagnostics of the generated source under the project's
      warning set), plain: (rc, out, err) of the gcc binary, san: same for the
      sanitizer binary, fuzz: (rc, out, err) of the sanitizer binary in fuzz mode."""
    d = os.path.join(root(), 'u%s' % unit.uid)
    os.makedirs(d, exist_ok=True)
    for n, t in unit.files.items():
        with open(os.path.join(d, n), 'w') as f:
            f.write(t)
    if unit.fuzz is not None:
        with open(os.path.join(d, 'fuzz.txt'), 'w') as f:
            f.write(unit.fuzz)
    res = {}
    rc, out, err = run(['gcc'] + GCC_FLAGS + ['-c', unit.gen_source, '-o', 'gen.o'], d)
    res['gcc_rc'], res['gcc_err'] = rc, err
    if rc != 0:
        shutil.rmtree(d, True)
        return res
    if plain:
        rc, out, err = run(['gcc', '-std=c99', '-O0', '-w', unit.driver, 'gen.o', '-o', 'drv_plain'], d)
        if rc != 0:
            res['driver_err'] = err
            shutil.rmtree(d, True)
            return res
        res['plain'] = run(['./drv_plain'], d, run_timeout)
    if sanitize:
        # only the generated source is instrumented; the driver is plain -O0 code (fast to compile)
        rc, out, err = run(['clang'] + CLANG_FLAGS + ['-c', unit.gen_source, '-o', 'gen_san.o'], d)
        if rc == 0:
            rc, out, err = run(['clang', '-std=c99', '-O0', '-w', '-c', unit.driver, '-o', 'drv_san.o'], d)
        if rc == 0:
            rc, out, err = run(['clang', '-fsanitize=address,undefined', '-fuse-ld=gold', 'gen_san.o', 'drv_san.o', '-o', 'drv_san'], d)
        if rc != 0:
            res['clang_err'] = err
            shutil.rmtree(d, True)
            return res
        res['san'] = run(['./drv_san'], d, run_timeout, SAN_ENV)
        if unit.fuzz is not None:
            res['fuzz'] = run(['./drv_san', 'fuzz.txt'], d, run_timeout, SAN_ENV)
    shutil.rmtree(d, True)
    return res


def run_units(units, jobs=16, **kw):
    with ThreadPoolExecutor(max_workers=jobs) as ex:
        futs = [ex.submit(build_and_run, u, **kw) for u in units]
        for u, f in zip(units, futs):
            u.result = f.result()
    return units


_reported = {}


def limited_violation(ctx, cls, what, replay, per_class=3, total=15, **kw):
    """Report at most [per_class] failing inputs per failure class and [total]
    per run (one defect usually fails hundreds of generated cases); the rest is
    only counted."""
    n = _reported.get(cls, 0)
    _reported[cls] = n + 1
    if n >= per_class or sum(min(v, per_class) for v in _reported.values()) > total:
        ctx.count('further-failures-not-listed:' + cls)
        return
    ctx.violation(what, replay, **kw)
