"""Writes MANIFEST.json from the table below (single source of truth)."""
import json
import os

HERE = os.path.dirname(os.path.dirname(os.path.abspath(__file__)))
CHECKS = {}
NA = {}


def claim(pid, category, text, note, technique, design_ref):
    CHECKS[pid] = dict(category=category, text=text, note=note, technique=technique, design_ref=design_ref)


claim('C15', 'proof',
      'Coq theorem C15_decode_length_prefix: for every identifier-octet string, every definite length-octet string '
      '(short/long, minimal or padded), every contents, tail and every prefix length the length probe returns the '
      'total length iff the header is complete and None otherwise. Model tied to ber.py by a differential run of '
      'decode_full_length/encode_tag/encode_length_definite on generated headers, and the property itself is '
      'executed on /repo (decode_with_length on msg+tail, decode_length on every prefix).',
      'Trusted: Coq kernel + vm_compute; hand-written model Ber/Header.v (correspondence is sampled); '
      'decode_with_length over whole types is checked on /repo by the property test and proved for the modelled '
      'DER/BER universe only where Props/C15.v says so.',
      'Coq proof over hand-written model + differential correspondence', 'DESIGN.md section 6 C15')

claim('C05', 'proof',
      'Coq theorems about the executable UPER implementation model (Per/UperImpl.v, the whole type-directed codec incl. '
      'extension additions, groups, CHOICE additions, 16K fragmentation): the X.691 n-bit field and length determinant '
      'round-trip for every value and continuation (Props/C05.v), with the model tied to per.py/uper.py on every run by '
      'comparing complete encodings and decodings of generated (module, type, value) cases bit for bit.',
      'Hand-written model, correspondence is sampled (generator histogram in the evidence). Whole-type refinement to a '
      'separate X.691 specification model is OPEN; aligned PER is covered by property tests only (no model yet). Known '
      'deviations of the code from X.691 are recorded in known_findings/C05.json and the generator stays out of them.',
      'Coq proof over hand-written model + differential correspondence', 'DESIGN.md section 6 C05')

claim('C18', 'proof',
      'machine-checked: (a) no function reachable at encode/decode/check time writes to a compiled object, module/class '
      'state or a caller\'s value - finite statement over the write-set table regenerated from /repo\'s ast on every run; '
      '(b) for every history and every interleaving of threads whose steps respect that table, shared state is unchanged '
      'and each call returns what it returns alone on a fresh copy (unbounded, induction over step lists / merges)',
      'the table\'s completeness is the translator\'s (fail-closed, trusted) and is validated at run time by a structural '
      'fingerprint of all shared state after every call; thread schedules are explored (2-8 threads, randomised switch '
      'interval), not enumerated; one known finding (structured DEFAULT aliased into decode results, only through compile_dict)',
      'Coq proof over an abstract shared/call-local heap + regenerated write-set table (Python-ast abstract interpretation) '
      '+ differential histories on /repo', 'DESIGN.md section 6 C18')

ALL = ['C%02d' % i for i in range(1, 21)]
for p in ALL:
    if p not in CHECKS:
        NA[p] = ('not claimed yet: the model/theorem/correspondence spine for this property is not built at this '
                 'commit (see DESIGN.md section 11.1)')

doc = {
    'version': 1,
    'setup_cmd': 'bash -c "cd coq && ./build.sh %s"' % ' '.join('theories/Props/%s.vo' % p for p in sorted(CHECKS)),
    'hooks': {'guard': 'EERIMOQ_ASN1TOOLS_VERIF',
              'enable': 'no hooks in /repo are needed; ./check sets EERIMOQ_ASN1TOOLS_VERIF=1 for uniformity',
              'baseline_off_cmd': 'cd /repo && /venv/bin/python -m pytest -ra -q -p no:cacheprovider --timeout=900 '
                                  '--continue-on-collection-errors',
              'source_commits': [], 'add_only': True},
    'engines': [{'name': 'coq-model+correspondence', 'path': 'coq/', 'serves_properties': sorted(CHECKS),
                 'kind_free_text': 'Coq 8.16 theorems about hand-written implementation models; harness/ runs the '
                                   'models (vm_compute) and /repo on the same inputs'}],
    'checks': [
        {'property_id': p, 'quick_cmd': './check %s --tier quick' % p,
         'thorough_cmd': './check %s --tier thorough' % p,
         'evidence_file': 'evidence/%s.json' % p, 'replay_cmd_template': './check %s --replay {path}' % p,
         'engine': 'coq-model+correspondence',
         'level_claimed': {'category': c['category'], 'text': c['text'], 'design_ref': c['design_ref']},
         'level_note': c['note'], 'technique': c['technique']}
        for p, c in sorted(CHECKS.items())],
    'not_applicable': [{'property_id': p, 'reason': r} for p, r in sorted(NA.items())],
    'notes': 'See DESIGN.md. known_findings.json lists recorded defects; seeded/ holds confirmed breaking changes.',
}
json.dump(doc, open(os.path.join(HERE, 'MANIFEST.json'), 'w'), indent=1)
print('claimed:', sorted(CHECKS))
