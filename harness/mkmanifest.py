"""Writes MANIFEST.json from the table below (single source of truth)."""
import json
import os

HERE = os.path.dirname(os.path.dirname(os.path.abspath(__file__)))
CHECKS = {}
NA = {}


def claim(pid, category, text, note, technique, design_ref):
    CHECKS[pid] = dict(category=category, text=text, note=note, technique=technique, design_ref=design_ref)


for fn in sorted(os.listdir(os.path.join(HERE, 'claims'))):
    if fn.endswith('.json'):
        c = json.load(open(os.path.join(HERE, 'claims', fn)))
        claim(fn[:-5], c['category'], c['text'], c['note'], c['technique'], c['design_ref'])

ALL = ['C%02d' % i for i in range(1, 21)]
for p in ALL:
    if p not in CHECKS:
        NA[p] = ('not claimed yet: the model/theorem/correspondence spine for this property is not built at this '
                 'commit (see DESIGN.md section 11.1)')

doc = {
    'version': 1,
    'setup_cmd': 'bash -c "cd coq && ./build.sh %s"' % ' '.join('theories/Props/%s.vo' % p for p in sorted(CHECKS)),
    'hooks': {'guard': 'EERIMOQ_ASN1TOOLS_VERIF',
              'enable': 'no hooks in /repo are needed; ./check sets EERIMOQ_ASN1TOOLS_VERIF=1 for uniformity',
              'baseline_off_cmd': 'cd /repo && /venv/bin/python -m pytest -ra -q -p no:cacheprovider --timeout=900 '
                                  '--continue-on-collection-errors',
              'source_commits': [], 'add_only': True},
    'engines': [{'name': 'coq-model+correspondence', 'path': 'coq/', 'serves_properties': sorted(CHECKS),
                 'kind_free_text': 'Coq 8.16 theorems about hand-written implementation models; harness/ runs the '
                                   'models (vm_compute) and /repo on the same inputs'}],
    'checks': [
        {'property_id': p, 'quick_cmd': './check %s --tier quick' % p,
         'thorough_cmd': './check %s --tier thorough' % p,
         'evidence_file': 'evidence/%s.json' % p, 'replay_cmd_template': './check %s --replay {path}' % p,
         'engine': 'coq-model+correspondence',
         'level_claimed': {'category': c['category'], 'text': c['text'], 'design_ref': c['design_ref']},
         'level_note': c['note'], 'technique': c['technique']}
        for p, c in sorted(CHECKS.items())],
    'not_applicable': [{'property_id': p, 'reason': r} for p, r in sorted(NA.items())],
    'notes': 'See DESIGN.md. known_findings.json lists recorded defects; seeded/ holds confirmed breaking changes.',
}
json.dump(doc, open(os.path.join(HERE, 'MANIFEST.json'), 'w'), indent=1)
print('claimed:', sorted(CHECKS))
