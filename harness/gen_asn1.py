"""Grammar-directed generator of ASN.1 modules and values (DESIGN.md section 6).

An abstract type is a dict {'k': kind, ...}; a module is
{'name', 'tags', 'ext_implied', 'types': [(name, T)], 'values': [(name, int)]}.
The generator renders the module to ASN.1 text for the library and exports
the same abstract types/values as Coq terms of Syntax/Asn1.v for the models,
so the models never depend on the library's parser or compiler.

All randomness comes from the rng passed in.
"""
from common import C, Nat, Raw, to_coq

STR_KINDS = {
    'IA5String': 'SkIA5', 'VisibleString': 'SkVisible', 'NumericString': 'SkNumeric',
    'PrintableString': 'SkPrintable', 'UTF8String': 'SkUTF8', 'BMPString': 'SkBMP',
    'GeneralString': 'SkGeneral', 'GraphicString': 'SkGraphic', 'TeletexString': 'SkTeletex',
    'UniversalString': 'SkUniversal', 'ObjectDescriptor': 'SkObjectDescriptor',
}
KM_KINDS = ['IA5String', 'VisibleString', 'NumericString', 'PrintableString']
ALPHABETS = {
    'IA5String': [chr(i) for i in range(128)],
    'VisibleString': [chr(i) for i in range(32, 127)],
    'NumericString': list(' 0123456789'),
    'PrintableString': list("ABCDEFGHIJKLMNOPQRSTUVWXYZabcdefghijklmnopqrstuvwxyz0123456789 '()+,-./:=?"),
}
BOUND_WIDTHS = [1, 2, 3, 7, 8, 15, 16, 127, 128, 255, 256, 257, 65535, 65536, 65537, 2 ** 32, 2 ** 64]
DEFAULT_KINDS = ('BOOLEAN', 'INTEGER', 'ENUMERATED', 'OCTET STRING', 'BIT STRING', 'STRING', 'NULL',
                 'SEQUENCE', 'SET', 'CHOICE', 'SEQUENCE OF', 'SET OF', 'OBJECT IDENTIFIER', 'REF')
ALL_KINDS = DEFAULT_KINDS


def looks_numeric(s):
    try:
        float(s)
        return True
    except ValueError:
        return s.strip() == '' or s != s.strip()


class Opts(object):
    def __init__(self, **kw):
        self.kinds = set(DEFAULT_KINDS)
        self.max_depth = 3
        self.n_types = 4
        self.extensible = True          # extension markers / additions
        self.ext_constraints = True     # (lo..hi, ...) and SIZE(.., ...)
        self.groups = True
        self.defaults = True
        self.optional = True
        self.explicit_tags = False      # [n] / [APPLICATION n] prefixes on members and types
        self.tag_modes = ['AUTOMATIC']  # module tagging defaults to draw from
        self.recursion = True
        self.named_numbers = True
        self.value_refs = True
        self.alphabets = True
        self.str_kinds = list(KM_KINDS) + ['UTF8String']
        self.big = False                # allow lengths near 16K/64K
        self.max_members = 4
        self.ext_implied = False
        self.unbounded_int = True
        self.set_needs_tags = True      # SET members always carry distinct tags (AUTOMATIC or explicit)
        self.named_bits = True
        self.int_max_bits = 70
        self.xml_safe = False           # strings restricted to characters XML 1.0 can carry unchanged
        # names of known-finding regions the generator must stay out of; the two defaults are
        # parser/compile-layer defects that hit every codec (recorded in known_findings/C19.json)
        self.avoid = set()
        self.base_avoid = {'numeric_string_default'}
        self.__dict__.update(kw)
        self.avoid = set(self.avoid) | set(self.base_avoid)


# ---------------------------------------------------------------------------
# type generation

class Gen(object):
    def __init__(self, rng, opts=None):
        self.rng = rng
        self.o = opts or Opts()
        self.values = []       # value assignments (name, int)
        self.types = []        # (name, T)
        self.counter = 0

    def fresh(self, prefix):
        self.counter += 1
        return '%s%d' % (prefix, self.counter)

    def bound_pair(self):
        r = self.rng
        w = r.choice(BOUND_WIDTHS) if r.random() < .7 else r.randrange(1, 1 << r.randrange(1, 20))
        lo = r.choice([0, 0, 1, -1, -128, -129, 5, 100, -2 ** 31, 2 ** 31, -(1 << r.randrange(1, 60))])
        if w.bit_length() > self.o.int_max_bits:
            w = 2 ** 32
        return lo, lo + w - 1

    def int_constraint(self):
        r = self.rng
        p = r.random()
        if p < .25 and self.o.unbounded_int:
            return None
        lo, hi = self.bound_pair()
        if p < .35 and self.o.unbounded_int:
            lo = None
        elif p < .45 and self.o.unbounded_int:
            hi = None
        ext = self.o.ext_constraints and r.random() < .25
        if ext and (lo is None or hi is None) and 'int_ext_open' in self.o.avoid:
            ext = False
        return {'lo': lo, 'hi': hi, 'ext': ext}

    def size_constraint(self, maxn=None, small=True):
        r = self.rng
        p = r.random()
        if p < .35:
            return None
        lo = r.choice([0, 0, 1, 2, 3, 5])
        if p < .55:
            hi = lo                                             # fixed size
        else:
            hi = lo + r.choice([1, 2, 3, 7, 8, 15, 20, 250, 255, 256] if not small else [1, 2, 3, 7, 8, 15])
        if self.o.big and r.random() < .1:
            lo, hi = r.choice([(0, 65535), (0, 65536), (16384, 16384), (65536, 65536), (0, 70000)])
        if r.random() < .08:
            hi = None                                           # MAX
        ext = self.o.ext_constraints and r.random() < .2 and hi is not None
        if maxn is not None and hi is not None and hi > maxn:
            return None
        return {'lo': lo, 'hi': hi, 'ext': ext}

    def gen_type(self, depth=0, allow_ref=True):
        r = self.rng
        o = self.o
        leafs = [k for k in ('BOOLEAN', 'INTEGER', 'INTEGER', 'ENUMERATED', 'OCTET STRING', 'BIT STRING', 'STRING',
                             'NULL', 'OBJECT IDENTIFIER') if k in o.kinds]
        comps = [k for k in ('SEQUENCE', 'SEQUENCE', 'SET', 'CHOICE', 'SEQUENCE OF', 'SET OF') if k in o.kinds]
        if allow_ref and 'REF' in o.kinds and self.types and r.random() < .2:
            return {'k': 'REF', 'name': r.choice(self.types)[0]}
        if depth >= o.max_depth or not comps or r.random() < .45:
            k = r.choice(leafs)
        else:
            k = r.choice(comps)
        if k == 'BOOLEAN' or k == 'NULL' or k == 'OBJECT IDENTIFIER':
            return {'k': k}
        if k == 'INTEGER':
            t = {'k': k, 'c': self.int_constraint(), 'named': None}
            if o.named_numbers and r.random() < .15:
                t['named'] = [('n%d' % i, i * 3) for i in range(r.randrange(1, 4))]
            return t
        if k == 'ENUMERATED':
            n = r.choice([1, 2, 3, 4, 5, 8, 9])
            vals = r.sample(range(-3, 40), n) if r.random() < .5 else list(range(n))
            if r.random() < .1:
                vals[0] = r.choice([127, 128, 255, 256, 32767, 32768, 70000, -129])
            root = [('e%d' % i, v) for i, v in enumerate(vals)]
            ext = None
            if o.extensible and r.random() < .3:
                m = r.randrange(0, 3)
                used = set(vals)
                ext = []
                nxt = max(vals) + 1
                for i in range(m):
                    while nxt in used:
                        nxt += 1
                    ext.append(('x%d' % i, nxt))
                    used.add(nxt)
                    nxt += r.choice([1, 1, 5])
            return {'k': k, 'root': root, 'ext': ext}
        if k == 'OCTET STRING':
            return {'k': k, 'size': self.size_constraint()}
        if k == 'BIT STRING':
            t = {'k': k, 'size': self.size_constraint(), 'named': None}
            if o.named_bits and r.random() < .3:
                nb = r.randrange(1, 5)
                bits = sorted(r.sample(range(0, 12), nb))
                t['named'] = [('b%d' % b, b) for b in bits]
                if t['size'] is not None and t['size']['hi'] is not None and t['size']['hi'] <= bits[-1]:
                    t['size'] = None
                if 'named_bits_with_size' in o.avoid:
                    t['size'] = None
            return t
        if k == 'STRING':
            sk = r.choice(o.str_kinds)
            t = {'k': k, 'sk': sk, 'size': self.size_constraint(), 'alpha': None}
            if o.alphabets and sk in KM_KINDS and r.random() < .3:
                pool = ALPHABETS[sk]
                pool = [c for c in pool if c.isalnum() or c == ' ']
                if sk == 'NumericString':
                    pool = list(' 0123456789')
                n = r.choice([1, 2, 3, 4, 5, 8, 9, 16, 17])
                if n == 1 and 'alpha1' in self.o.avoid:
                    n = 2
                t['alpha'] = sorted(r.sample(pool, min(n, len(pool))))
            return t
        if k in ('SEQUENCE', 'SET'):
            nm = r.randrange(0, o.max_members + 1)
            root = [self.gen_member(depth, 'm') for _ in range(nm)]
            ext = None
            if o.extensible and r.random() < .4:
                ext = []
                for _ in range(r.randrange(0, 3)):
                    if o.groups and k == 'SEQUENCE' and r.random() < .3:
                        grp = [self.gen_member(depth, 'g') for _ in range(r.randrange(1, 3))]
                        if 'group_zero_width' in self.o.avoid:
                            for gm in grp:
                                if gm['opt'] is None and self.maybe_zero_width(gm['t']):
                                    gm['t'] = {'k': 'BOOLEAN'}
                        ext.append({'group': grp})
                    else:
                        ext.append({'member': self.gen_member(depth, 'a', in_ext=True)})
            return {'k': k, 'root': root, 'ext': ext}
        if k in ('SEQUENCE OF', 'SET OF'):
            return {'k': k, 'elem': self.gen_type(depth + 1), 'size': self.size_constraint()}
        if k == 'CHOICE':
            n = r.randrange(1, o.max_members + 1)
            root = [{'name': self.fresh('c'), 't': self.gen_type(depth + 1), 'opt': None} for _ in range(n)]
            ext = None
            if o.extensible and r.random() < .4:
                ext = [{'name': self.fresh('x'), 't': self.gen_type(depth + 1), 'opt': None}
                       for _ in range(r.randrange(0, 3))]
            return {'k': k, 'root': root, 'ext': ext}
        raise AssertionError(k)

    def gen_member(self, depth, prefix, in_ext=False):
        r = self.rng
        t = self.gen_type(depth + 1)
        m = {'name': self.fresh(prefix), 't': t, 'opt': None}
        p = r.random()
        if self.o.optional and p < .3:
            m['opt'] = 'optional'
        elif self.o.defaults and p < .5:
            rt = self.resolve(t)
            if rt['k'] in ('BOOLEAN', 'INTEGER', 'ENUMERATED', 'OCTET STRING', 'BIT STRING', 'STRING') and \
                    not (rt['k'] == 'STRING' and rt['sk'] not in KM_KINDS + ['UTF8String']):
                v = self.gen_value(t, simple=True)
                if rt['k'] == 'STRING' and 'numeric_string_default' in self.o.avoid and looks_numeric(v):
                    v = None
                if prefix == 'g' and rt['k'] in ('BIT STRING', 'OCTET STRING') and 'group_default_strings' in self.o.avoid:
                    v = None
                if t['k'] == 'REF' and rt['k'] == 'BOOLEAN' and 'ref_bool_default' in self.o.avoid:
                    v = None
                if v is not None and self.default_renderable(rt, v):
                    m['opt'] = ('default', v)
        return m

    def maybe_zero_width(self, t):
        rt = self.resolve(t)
        k = rt['k']
        if k == 'NULL':
            return True
        if k == 'INTEGER':
            c = rt['c']
            return c is not None and c['lo'] is not None and c['lo'] == c['hi']
        if k in ('OCTET STRING', 'BIT STRING', 'STRING', 'SEQUENCE OF', 'SET OF'):
            s = rt['size']
            return s is not None and (s['hi'] == 0 or (k in ('SEQUENCE OF', 'SET OF') and s['lo'] == s['hi']))
        if k == 'ENUMERATED':
            return len(rt['root']) == 1
        if k in ('SEQUENCE', 'SET', 'CHOICE'):
            return True      # may be zero width depending on members: be conservative
        return False

    def default_renderable(self, rt, v):
        if rt['k'] == 'STRING':
            return all(32 <= ord(c) < 127 and c != '"' for c in v)
        if rt['k'] == 'BIT STRING':
            return True
        return True

    def resolve(self, t):
        seen = 0
        while t['k'] == 'REF':
            t = dict(self.types)[t['name']] if t['name'] in dict(self.types) else self.pending[t['name']]
            seen += 1
            assert seen < 50
        return t

    # -----------------------------------------------------------------------
    def gen_module(self, name='M'):
        r = self.rng
        o = self.o
        self.pending = {}
        n = r.randrange(1, o.n_types + 1)
        for i in range(n):
            tn = 'T%d' % i
            if o.recursion and 'SEQUENCE' in o.kinds and r.random() < .15:
                # direct recursion through an OPTIONAL member / SEQUENCE OF / CHOICE
                self.pending[tn] = {'k': 'NULL'}
                base = self.gen_type(1)
                how = r.choice(['opt', 'seqof', 'choice'])
                if how == 'opt':
                    t = {'k': 'SEQUENCE', 'root': [{'name': self.fresh('v'), 't': base, 'opt': None},
                                                   {'name': self.fresh('next'), 't': {'k': 'REF', 'name': tn},
                                                    'opt': 'optional'}], 'ext': None}
                elif how == 'seqof' and 'SEQUENCE OF' in o.kinds:
                    t = {'k': 'SEQUENCE', 'root': [{'name': self.fresh('v'), 't': base, 'opt': None},
                                                   {'name': self.fresh('kids'),
                                                    't': {'k': 'SEQUENCE OF', 'elem': {'k': 'REF', 'name': tn},
                                                          'size': None}, 'opt': None}], 'ext': None}
                elif 'CHOICE' in o.kinds:
                    t = {'k': 'CHOICE', 'root': [{'name': self.fresh('leaf'), 't': base, 'opt': None},
                                                 {'name': self.fresh('node'),
                                                  't': {'k': 'SEQUENCE', 'root': [
                                                      {'name': self.fresh('l'), 't': {'k': 'REF', 'name': tn}, 'opt': None}],
                                                      'ext': None}, 'opt': None}], 'ext': None}
                else:
                    t = base
                self.pending.pop(tn, None)
            else:
                t = self.gen_type(0, allow_ref=i > 0)
            self.types.append((tn, t))
        return {'name': name, 'tags': r.choice(o.tag_modes), 'ext_implied': o.ext_implied and r.random() < .3,
                'types': self.types, 'values': self.values}

    # -----------------------------------------------------------------------
    # values
    def gen_int(self, c):
        r = self.rng
        if c is None:
            return r.choice([0, 1, -1, 127, 128, -128, -129, 255, 256, 32767, 32768, -32768, -32769,
                             2 ** 31, -2 ** 31 - 1, 2 ** 63, -2 ** 63, 2 ** 64, r.randrange(-10 ** 6, 10 ** 6),
                             r.randrange(-2 ** 70, 2 ** 70)])
        lo, hi = c['lo'], c['hi']
        if c['ext'] and r.random() < .25 and lo is not None and hi is not None:
            return r.choice([lo - 1, hi + 1, lo - 300, hi + 70000, -1 if lo > -1 else lo - 1])
        if lo is None and hi is None:
            return self.gen_int(None)
        if lo is None:
            return hi - r.choice([0, 1, 127, 128, 255, 256, 65536, r.randrange(0, 10 ** 6)])
        if hi is None:
            return lo + r.choice([0, 1, 127, 128, 255, 256, 65535, 65536, 2 ** 32, r.randrange(0, 10 ** 6)])
        cands = [lo, hi, lo + 1, hi - 1, (lo + hi) // 2, lo + 255, lo + 256, lo + 65535, lo + 65536]
        cands = [x for x in cands if lo <= x <= hi]
        return r.choice(cands) if r.random() < .7 else r.randrange(lo, hi + 1)

    def gen_len(self, size, cap=12, kind=None):
        r = self.rng
        if size is None:
            if self.o.big and r.random() < .05:
                return r.choice([127, 128, 129, 16383, 16384, 16385, 32768, 49152, 65535, 65536, 70000])
            return r.choice([0, 1, 2, 3, 5, cap])
        lo, hi = size['lo'], size['hi']
        if kind == 'bits' and size['ext'] and lo == hi and 'bits_fixed_ext_outside' in self.o.avoid:
            return lo
        if size['ext'] and r.random() < .25 and not (kind and kind + '_ext_outside' in self.o.avoid):
            # known finding per-size-extension-over-64k: no out-of-root length of 16384 or more for per/uper
            cap_out = 16383 if 'size_ext_over_16k' in self.o.avoid else None
            return r.choice([x for x in [lo - 1, hi + 1, hi + 3] if x >= 0 and (cap_out is None or x <= cap_out)] or [lo])
        if hi is None:
            return lo + r.choice([0, 1, 2, cap])
        if hi - lo > 300:
            return r.choice([lo, lo + 1, hi if self.o.big and r.random() < .1 else lo + 2])
        return r.choice([lo, hi, r.randrange(lo, hi + 1)])

    def gen_value(self, t, simple=False, depth=0):
        r = self.rng
        t = self.resolve(t)
        k = t['k']
        if k == 'BOOLEAN':
            return r.random() < .5
        if k == 'NULL':
            return None
        if k == 'INTEGER':
            return self.gen_int(t['c'])
        if k == 'ENUMERATED':
            pool = t['root'] + (t['ext'] or [])
            return r.choice(pool)[0]
        if k == 'OCTET STRING':
            n = self.gen_len(t['size'])
            return bytes(r.randrange(256) for _ in range(n))
        if k == 'BIT STRING':
            n = self.gen_len(t['size'], kind='bits')
            if t.get('named'):
                # named-bit values: any bits, possibly with trailing zeros
                if t['size'] is None:
                    n = r.choice([0, 1, t['named'][-1][1] + 1, t['named'][-1][1] + 4])
            nbytes = (n + 7) // 8
            b = bytearray(r.randrange(256) for _ in range(nbytes))
            if n % 8:
                b[-1] &= (0xff << (8 - n % 8)) & 0xff
            if t.get('named') and r.random() < .5 and nbytes:
                b[-1] = 0
            return (bytes(b), n)
        if k == 'STRING':
            n = self.gen_len(t['size'], kind='str')
            if t['alpha']:
                pool = t['alpha']
            elif t['sk'] in ALPHABETS:
                pool = ALPHABETS[t['sk']]
                if simple:
                    pool = [c for c in pool if c.isalnum() or c == ' ']
            elif t['sk'] == 'BMPString':
                pool = [chr(c) for c in (65, 97, 0xe5, 0x3b1, 0x4e2d, 0xfffd, 0x20ac)]
            else:
                pool = [chr(c) for c in (65, 97, 48, 0xe5, 0x3b1, 0x4e2d, 0x1f600, 0x7f, 0x80, 0x7ff, 0x800, 0xffff, 0x10000)]
                if simple:
                    pool = ['a', 'B', '0', ' ']
            if self.o.xml_safe:
                pool = [c for c in pool if 0x20 <= ord(c) and ord(c) not in (0x7f, 0xfffe, 0xffff)] or ['a']
            return ''.join(r.choice(pool) for _ in range(n))
        if k == 'OBJECT IDENTIFIER':
            a0 = r.choice([0, 1, 2])
            a1 = r.randrange(0, 40) if a0 < 2 or r.random() < .7 else r.choice([40, 47, 48, 100, 999, 16383])
            rest = [r.choice([0, 1, 127, 128, 16383, 16384, 2 ** 32, r.randrange(0, 10 ** 6)]) for _ in range(r.randrange(0, 5))]
            return '.'.join(str(x) for x in [a0, a1] + rest)
        if k in ('SEQUENCE', 'SET'):
            d = {}
            for m in t['root']:
                self.fill_member(d, m, depth)
            if t['ext'] is not None:
                # a legal abstract value knows a prefix of the additions (its version): mandatory
                # members of known additions are present, everything after the cut is absent
                cut = r.randrange(0, len(t['ext']) + 1)
                for a in t['ext'][:cut]:
                    if 'group' in a:
                        if any(m['opt'] is None for m in a['group']) or r.random() < .7:
                            for m in a['group']:
                                self.fill_member(d, m, depth)
                    else:
                        self.fill_member(d, a['member'], depth)
            return d
        if k in ('SEQUENCE OF', 'SET OF'):
            n = self.gen_len(t['size'], cap=4 if depth > 0 else 6)
            if depth > 3:
                n = t['size']['lo'] if t['size'] else 0
            return [self.gen_value(t['elem'], simple, depth + 1) for _ in range(n)]
        if k == 'CHOICE':
            pool = t['root'] + (t['ext'] or [])
            if depth > 3:
                pool = pool[:1]
            m = r.choice(pool)
            return (m['name'], self.gen_value(m['t'], simple, depth + 1))
        raise AssertionError(k)

    def fill_member(self, d, m, depth):
        r = self.rng
        if m['opt'] == 'optional':
            if r.random() < (.5 if depth < 3 else .1):
                d[m['name']] = self.gen_value(m['t'], depth=depth + 1)
        elif m['opt'] is not None:
            p = r.random()
            if p < .3:
                pass
            elif p < .5:
                v = m['opt'][1]
                rt = self.resolve(m['t'])
                if rt['k'] == 'BIT STRING' and rt.get('named') and rt['size'] is None and r.random() < .5:
                    # the default value written with additional trailing zero bits (the same abstract value)
                    b, n = v
                    n2 = n + r.choice([1, 7, 8, 9])
                    v = (bytes(b) + bytes((n2 + 7) // 8 - len(b)), n2)
                d[m['name']] = v
            else:
                d[m['name']] = self.gen_value(m['t'], depth=depth + 1)
        else:
            d[m['name']] = self.gen_value(m['t'], depth=depth + 1)


# ---------------------------------------------------------------------------
# rendering to ASN.1 text

def render_size(s, inner='SIZE'):
    if s is None:
        return ''
    lo, hi = s['lo'], s['hi']
    body = '%d' % lo if lo == hi else '%d..%s' % (lo, 'MAX' if hi is None else '%d' % hi)
    return ' (%s(%s%s))' % (inner, body, ', ...' if s['ext'] else '')


def render_value(rt, v):
    k = rt['k']
    if k == 'BOOLEAN':
        return 'TRUE' if v else 'FALSE'
    if k == 'INTEGER':
        return str(v)
    if k == 'ENUMERATED':
        return v
    if k == 'OCTET STRING':
        return "'%s'H" % v.hex().upper()
    if k == 'BIT STRING':
        data, n = v
        bits = ''.join('{:08b}'.format(b) for b in data)[:n]
        return "'%s'B" % bits
    if k == 'STRING':
        return '"%s"' % v
    if k == 'NULL':
        return 'NULL'
    raise AssertionError(k)


def render_type(t, resolve, indent=0):
    k = t['k']
    pad = '  ' * (indent + 1)
    if k in ('BOOLEAN', 'NULL', 'OBJECT IDENTIFIER'):
        return k
    if k == 'REF':
        return t['name']
    if k == 'INTEGER':
        s = 'INTEGER'
        if t.get('named'):
            s += ' { %s }' % ', '.join('%s(%d)' % nv for nv in t['named'])
        c = t['c']
        if c is not None:
            s += ' (%s..%s%s)' % ('MIN' if c['lo'] is None else c['lo'], 'MAX' if c['hi'] is None else c['hi'],
                                  ', ...' if c['ext'] else '')
        return s
    if k == 'ENUMERATED':
        items = ['%s(%d)' % nv for nv in t['root']]
        if t['ext'] is not None:
            items.append('...')
            items += ['%s(%d)' % nv for nv in t['ext']]
        return 'ENUMERATED { %s }' % ', '.join(items)
    if k == 'OCTET STRING':
        return 'OCTET STRING' + render_size(t['size'])
    if k == 'BIT STRING':
        s = 'BIT STRING'
        if t.get('named'):
            s += ' { %s }' % ', '.join('%s(%d)' % nv for nv in t['named'])
        return s + render_size(t['size'])
    if k == 'STRING':
        s = t['sk'] + render_size(t['size'])
        if t['alpha']:
            s += ' (FROM (%s))' % ' | '.join('"%s"' % c for c in t['alpha'])
        return s
    if k in ('SEQUENCE OF', 'SET OF'):
        return '%s%s OF %s' % (k.split()[0], render_size(t['size']), render_type(t['elem'], resolve, indent))
    if k in ('SEQUENCE', 'SET', 'CHOICE'):
        items = [render_member(m, resolve, indent + 1) for m in t['root']]
        if t['ext'] is not None:
            items.append('...')
            for a in t['ext']:
                if isinstance(a, dict) and 'group' in a:
                    items.append('[[ %s ]]' % ', '.join(render_member(m, resolve, indent + 1) for m in a['group']))
                elif isinstance(a, dict) and 'member' in a:
                    items.append(render_member(a['member'], resolve, indent + 1))
                else:
                    items.append(render_member(a, resolve, indent + 1))
        if not items:
            return '%s { }' % k
        return '%s {\n%s%s\n%s}' % (k, pad, (',\n' + pad).join(items), '  ' * indent)
    raise AssertionError(k)


def render_tag(tag):
    if tag is None:
        return ''
    cls, num, mode = tag
    return '[%s%d] %s' % (cls + ' ' if cls else '', num, mode + ' ' if mode else '')


def render_member(m, resolve, indent):
    s = '%s %s%s' % (m['name'], render_tag(m.get('tag')), render_type(m['t'], resolve, indent))
    if m['opt'] == 'optional':
        s += ' OPTIONAL'
    elif m['opt'] is not None:
        s += ' DEFAULT ' + render_value(resolve(m['t']), m['opt'][1])
    return s


def render_module(mod, resolve):
    lines = ['%s DEFINITIONS %s TAGS %s::= BEGIN' % (mod['name'], mod['tags'],
                                                     'EXTENSIBILITY IMPLIED ' if mod['ext_implied'] else '')]
    for n, v in mod.get('values', []):
        lines.append('%s INTEGER ::= %d' % (n, v))
    for n, t in mod['types']:
        lines.append('%s ::= %s%s' % (n, render_tag(t.get('tag')), render_type(t, resolve)))
    lines.append('END')
    return '\n'.join(lines) + '\n'


def make_resolver(mod):
    d = dict(mod['types'])

    def resolve(t):
        n = 0
        while t['k'] == 'REF':
            t = d[t['name']]
            n += 1
            assert n < 100
        return t
    return resolve


# ---------------------------------------------------------------------------
# export to Coq (Syntax/Asn1.v)

def coq_size(s):
    if s is None:
        return C('SzNone')
    return C('SzRange', s['lo'], C('Some', s['hi']) if s['hi'] is not None else None, bool(s['ext']))


def coq_str(s):
    return s


def coq_value(rt_of, t, v):
    """Python value -> Coq [value] term, directed by the (unresolved) type."""
    t = rt_of(t)
    k = t['k']
    if v is None:
        return C('VNone')
    if k == 'BOOLEAN':
        return C('VBool', bool(v))
    if k == 'INTEGER':
        return C('VInt', int(v))
    if k == 'ENUMERATED':
        return C('VInt', v) if isinstance(v, int) else C('VEnum', v)
    if k == 'OCTET STRING':
        return C('VBytes', bytes(v))
    if k == 'BIT STRING':
        return C('VBits', bytes(v[0]), int(v[1]))
    if k == 'STRING':
        return C('VStr', [ord(c) for c in v])
    if k == 'OBJECT IDENTIFIER':
        return C('VOid', [int(x) for x in v.split('.')])
    if k in ('SEQUENCE', 'SET'):
        ms = all_members(t)
        byname = {m['name']: m for m in ms}
        return C('VSeq', [(m['name'], coq_value(rt_of, m['t'], v[m['name']])) for m in ms if m['name'] in v])
    if k in ('SEQUENCE OF', 'SET OF'):
        return C('VList', [coq_value(rt_of, t['elem'], x) for x in v])
    if k == 'CHOICE':
        if v[0] is None:
            return C('VUnknownChoice')
        byname = {m['name']: m for m in t['root'] + (t['ext'] or [])}
        return C('VChoice', v[0], coq_value(rt_of, byname[v[0]]['t'], v[1]))
    raise AssertionError(k)


def all_members(t):
    ms = list(t['root'])
    for a in (t['ext'] or []):
        if 'group' in a:
            ms += a['group']
        else:
            ms.append(a['member'])
    return ms


def coq_member(rt_of, m, numeric_enums=False):
    if m['opt'] is None:
        o = C('Mandatory')
    elif m['opt'] == 'optional':
        o = C('Optional')
    else:
        dv = m['opt'][1]
        rt = rt_of(m['t'])
        if numeric_enums and rt['k'] == 'ENUMERATED':
            dv = dict(rt['root'] + (rt['ext'] or []))[dv]
        o = C('Default', coq_value(rt_of, m['t'], dv))
    return ((m['name'], coq_type(rt_of, m['t'], numeric_enums)), o)


def coq_type(rt_of, t, numeric_enums=False):
    k = t['k']
    if k == 'BOOLEAN':
        return C('TBool')
    if k == 'NULL':
        return C('TNull')
    if k == 'OBJECT IDENTIFIER':
        return C('TOid')
    if k == 'REF':
        return C('TRef', t['name'])
    if k == 'INTEGER':
        c = t['c']
        if c is None:
            return C('TInt', C('IcNone'))
        opt = lambda x: None if x is None else C('Some', x)
        return C('TInt', C('IcRange', opt(c['lo']), opt(c['hi']), bool(c['ext'])))
    if k == 'ENUMERATED':
        return C('TEnum', list(t['root']), None if t['ext'] is None else C('Some', list(t['ext'])))
    if k == 'OCTET STRING':
        return C('TOctets', coq_size(t['size']))
    if k == 'BIT STRING':
        return C('TBits', None if not t.get('named') else C('Some', list(t['named'])), coq_size(t['size']))
    if k == 'STRING':
        return C('TStr', C(STR_KINDS[t['sk']]), coq_size(t['size']),
                 None if not t['alpha'] else C('Some', [ord(c) for c in t['alpha']]))
    if k in ('SEQUENCE', 'SET'):
        ext = None
        if t['ext'] is not None:
            ext = C('Some', [((True, [coq_member(rt_of, m, numeric_enums) for m in a['group']]) if 'group' in a
                              else (False, [coq_member(rt_of, a['member'], numeric_enums)])) for a in t['ext']])
        return C('TSeq', k == 'SET', [coq_member(rt_of, m, numeric_enums) for m in t['root']], ext)
    if k in ('SEQUENCE OF', 'SET OF'):
        return C('TSeqOf', k == 'SET OF', coq_type(rt_of, t['elem'], numeric_enums), coq_size(t['size']))
    if k == 'CHOICE':
        return C('TChoice', [coq_member(rt_of, m, numeric_enums) for m in t['root']],
                 None if t['ext'] is None else C('Some', [coq_member(rt_of, m, numeric_enums) for m in t['ext']]))
    raise AssertionError(k)


def coq_env(mod, numeric_enums=False):
    rt_of = make_resolver(mod)
    return [(n, coq_type(rt_of, t, numeric_enums)) for n, t in mod['types']]


# ---------------------------------------------------------------------------
# reference normalisation (what a decoder returns for an encoded value)

def clean_bits(v, named):
    data, n = v
    nbytes = (n + 7) // 8
    b = bytearray(data[:nbytes])
    if n % 8 and b:
        b[-1] &= (0xff << (8 - n % 8)) & 0xff
    if named:
        while b and b[-1] == 0:
            b.pop()
        if b:
            low = (b[-1] & -b[-1]).bit_length() - 1
            n = 8 * len(b) - low
        else:
            n = 0
    return (bytes(b), n)


def norm(rt_of, t, v, numeric_enums=False):
    """Abstract value: defaults filled in, named-bit strings cleaned."""
    t = rt_of(t)
    k = t['k']
    if k == 'BIT STRING':
        return clean_bits(v, bool(t.get('named')))
    if k == 'OCTET STRING':
        return bytes(v)
    if k in ('SEQUENCE', 'SET'):
        out = {}
        for m in all_members(t):
            if m['name'] in v:
                out[m['name']] = norm(rt_of, m['t'], v[m['name']], numeric_enums)
            elif m['opt'] not in (None, 'optional'):
                dv = m['opt'][1]
                rt = rt_of(m['t'])
                if numeric_enums and rt['k'] == 'ENUMERATED':
                    dv = dict(rt['root'] + (rt['ext'] or []))[dv]
                out[m['name']] = norm(rt_of, m['t'], dv, numeric_enums)
        return out
    if k == 'SEQUENCE OF':
        return [norm(rt_of, t['elem'], x, numeric_enums) for x in v]
    if k == 'SET OF':
        # a SET OF is a multiset: canonical order for comparison
        return sorted((norm(rt_of, t['elem'], x, numeric_enums) for x in v), key=repr)
    if k == 'CHOICE':
        byname = {m['name']: m for m in t['root'] + (t['ext'] or [])}
        return (v[0], norm(rt_of, byname[v[0]]['t'], v[1], numeric_enums))
    return v


def to_numeric(rt_of, t, v):
    """Rewrite ENUMERATED names to numbers (numeric_enums=True API values)."""
    t = rt_of(t)
    k = t['k']
    if k == 'ENUMERATED':
        return dict(t['root'] + (t['ext'] or []))[v]
    if k in ('SEQUENCE', 'SET'):
        by = {m['name']: m for m in all_members(t)}
        return {n: to_numeric(rt_of, by[n]['t'], x) for n, x in v.items()}
    if k in ('SEQUENCE OF', 'SET OF'):
        return [to_numeric(rt_of, t['elem'], x) for x in v]
    if k == 'CHOICE':
        by = {m['name']: m for m in t['root'] + (t['ext'] or [])}
        return (v[0], to_numeric(rt_of, by[v[0]]['t'], v[1]))
    return v


def type_size(rt_of, t, seen=()):
    """AST size of a type (for the non-triviality rule)."""
    k = t['k']
    if k == 'REF':
        return 1 if t['name'] in seen else 1 + type_size(rt_of, rt_of(t), seen + (t['name'],))
    if k in ('SEQUENCE', 'SET'):
        return 1 + sum(type_size(rt_of, m['t'], seen) for m in all_members(t))
    if k == 'CHOICE':
        return 1 + sum(type_size(rt_of, m['t'], seen) for m in t['root'] + (t['ext'] or []))
    if k in ('SEQUENCE OF', 'SET OF'):
        return 1 + type_size(rt_of, t['elem'], seen)
    return 1


def shape(rt_of, t, depth=0):
    """Short structural fingerprint used for distinct-case counting."""
    k = t['k']
    if depth > 3:
        return '..'
    if k == 'REF':
        return 'R'
    if k == 'INTEGER':
        c = t['c']
        if c is None:
            return 'I'
        w = None if c['lo'] is None or c['hi'] is None else (c['hi'] - c['lo']).bit_length()
        return 'I%s%s' % (w, 'x' if c['ext'] else '')
    if k in ('OCTET STRING', 'BIT STRING', 'STRING'):
        s = t['size']
        return (t.get('sk') or k)[:3] + ('' if s is None else '%s-%s%s' % (s['lo'], s['hi'], 'x' if s['ext'] else ''))
    if k in ('SEQUENCE', 'SET'):
        return '%s{%s%s}' % (k[:3], ','.join(shape(rt_of, m['t'], depth + 1) + ('?' if m['opt'] == 'optional' else
                                                                              '=' if m['opt'] else '')
                                             for m in t['root']),
                             '' if t['ext'] is None else '|' + ','.join(
                                 ('[[%s]]' % ','.join(shape(rt_of, m['t'], depth + 1) for m in a['group'])) if 'group' in a
                                 else shape(rt_of, a['member']['t'], depth + 1) for a in t['ext']))
    if k == 'CHOICE':
        return 'CH{%s%s}' % (','.join(shape(rt_of, m['t'], depth + 1) for m in t['root']),
                             '' if t['ext'] is None else '|' + ','.join(shape(rt_of, m['t'], depth + 1) for m in t['ext']))
    if k in ('SEQUENCE OF', 'SET OF'):
        s = t['size']
        return '%sOF%s(%s)' % (k[:3], '' if s is None else '%s-%s%s' % (s['lo'], s['hi'], 'x' if s['ext'] else ''),
                               shape(rt_of, t['elem'], depth + 1))
    if k == 'ENUMERATED':
        return 'E%d%s' % (len(t['root']), '' if t['ext'] is None else 'x%d' % len(t['ext']))
    return k[:4]


def generate(rng, opts=None, name='M'):
    """-> (module, text, Gen)"""
    g = Gen(rng, opts)
    mod = g.gen_module(name)
    rt_of = make_resolver(mod)
    return mod, render_module(mod, rt_of), g
