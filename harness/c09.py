"""C09 — Generated UPER C code is equivalent to the Python UPER codec and memory-safe.

Spine A (exploration of the compiled artefact, ties everything to /repo):
  random modules of the documented C subset -> asn1tools.source.c.generate ->
  gcc -std=c99 -Wall -Wextra and clang -fsanitize=address,undefined -> generated
  driver -> compare with the Python UPER codec (c09_spine_a.py).
Spine B (proof): Coq model of the helper block (CGen/Helpers.v) with theorems
  in Props/C09.v; the helper C text is re-parsed from uper_functions.py on every
  run (translator/cparse.py + c09_helpers.py) and the compiled helpers are run
  against the model on random call sequences.
Deepening: the generated encode/decode functions are translated to the Coq IR
  (CGen/Ir.v) and evaluated by vm_compute against the Python codec (c09_ir.py).
"""
import json
import os

import common
import lib
import c09_cc
import c09_regions
import c09_spine_a as A
import c09_types as T

CODEC = 'uper'

# Constructs outside the documented subset: the generator has to raise its Error.
UNSUPPORTED = [
    ('int-unbounded', 'INTEGER'), ('int-semi', 'INTEGER (0..MAX)'), ('int-min', 'INTEGER (MIN..5)'),
    ('int-65-unsigned', 'INTEGER (0..18446744073709551616)'), ('int-65-signed', 'INTEGER (-1..9223372036854775808)'),
    ('int-below-int64', 'INTEGER (-9223372036854775809..0)'), ('int-ext', 'INTEGER (0..7, ...)'),
    ('octets-unbounded', 'OCTET STRING'), ('octets-ext', 'OCTET STRING (SIZE(1..4, ...))'),
    ('octets-min-only', 'OCTET STRING (SIZE(1..MAX))'),
    ('bits-variable', 'BIT STRING (SIZE(1..4))'), ('bits-65', 'BIT STRING (SIZE(65))'), ('bits-unbounded', 'BIT STRING'),
    ('seqof-unbounded', 'SEQUENCE OF BOOLEAN'), ('seqof-ext', 'SEQUENCE (SIZE(1..4, ...)) OF BOOLEAN'),
    ('set', 'SET { a BOOLEAN }'), ('setof', 'SET (SIZE(1..2)) OF BOOLEAN'), ('oid', 'OBJECT IDENTIFIER'),
    ('ia5', 'IA5String (SIZE(3))'), ('utf8', 'UTF8String'), ('visible', 'VisibleString (SIZE(1..2))'),
    ('numeric', 'NumericString (SIZE(2))'), ('real', 'REAL'), ('utctime', 'UTCTime'), ('any', 'ANY'),
    ('octets-64k', 'OCTET STRING (SIZE(0..65536))'), ('octets-64k-fixed', 'OCTET STRING (SIZE(65536))'),
    ('seqof-64k', 'SEQUENCE (SIZE(0..65536)) OF BOOLEAN'),
    ('recursive', 'SEQUENCE { a A OPTIONAL }'),
]
# which finding covers which rejection case while it is open
UNSUPPORTED_REGION = {'real': 'real-silently-dropped', 'octets-64k': 'size-above-64k', 'octets-64k-fixed': 'size-above-64k-fixed',
                      'seqof-64k': 'size-above-64k', 'recursive': 'recursive-type-recursion-error'}


def unsupported_specs(rng):
    out = []
    for name, text in UNSUPPORTED:
        raw = T.TRaw(text)
        where = rng.choice(['top', 'member', 'element', 'alt'])
        if name == 'recursive':
            where = 'top'
        if where == 'top':
            ty = raw
        elif where == 'member':
            ty = T.TSeq([T.Member('a', T.TBool()), T.Member('b', raw, optional=rng.random() < .5)])
        elif where == 'element':
            ty = T.TSeqOf(1, 3, raw)
        else:
            ty = T.TChoice([('a', T.TBool()), ('b', raw)])
        out.append((name, T.Spec([('M', [('A', ty), ('B', T.TInt(0, 7))])])))
    return out


def run_findings(ctx, findings, rng):
    """Replay the witness of every open finding.  Returns the ids that still
    reproduce (their regions stay excluded from the random generation)."""
    preps = []
    for f in findings:
        w = f['witness']
        spec = T.Spec.from_json(w['spec'])
        cases = None
        if w.get('cases') is not None:
            cases = [(m, n, T.value_from_json(v)) for m, n, v in w['cases']]
        p = A.prepare(ctx, 'k%d' % len(preps), spec, CODEC, 3, 20 if w.get('fuzz') else 0, rng, fixed_cases=cases)
        if w.get('inputs'):
            p_add_inputs(p, w['inputs'])
        preps.append(p)
    c09_cc.run_units([p.unit for p in preps if p.unit is not None])
    active = []
    for f, p in zip(findings, preps):
        seen = []
        A.judge(ctx, p, lambda what, rep, cls: seen.append((cls, what)))
        want = set(f['witness'].get('classes', []))
        hit = [s for s in seen if not want or s[0] in want]
        if hit:
            ctx.known_finding(f['id'], '%s [%s]' % (f['what'], hit[0][1][:160]))
            active.append(f['id'])
        else:
            ctx.log('finding %s no longer reproduces on this tree (its region is generated again)' % f['id'])
            ctx.count('finding-fixed:' + f['id'])
    return active


def p_add_inputs(p, inputs):
    """Extra fuzz inputs [(type-name, hex)] for a witness."""
    if p.unit is None:
        return
    names = [n for _, n in p.types]
    for tn, hx in inputs:
        p.fuzz.append((names.index(tn), bytes.fromhex(hx)))
    p.unit.fuzz = ''.join('%d %s\n' % (ti, b.hex()) for ti, b in p.fuzz)


def shape_key(spec, ty, depth=0):
    t = spec.resolve(ty)
    k = t.kind
    if k == 'int':
        return 'int%d%s' % ((t.hi - t.lo).bit_length(), 's' if t.lo < 0 else 'u')
    if k == 'octets':
        return 'oct%s' % ('f' if t.lo == t.hi else 'v')
    if k == 'bits':
        return 'bits%d' % t.n
    if k == 'enum':
        return 'enum%d' % len(t.items)
    if depth > 1:
        return k
    if k == 'seq':
        return 'seq(%s)' % ','.join(('?' if m.optional else '=' if m.has_default else '') + shape_key(spec, m.ty, depth + 1)
                                     for m in t.members)
    if k == 'seqof':
        return 'seqof%s(%s)' % ('f' if t.lo == t.hi else 'v', shape_key(spec, t.elem, depth + 1))
    if k == 'choice':
        return 'choice(%s)' % ','.join(shape_key(spec, a, depth + 1) for _, a in t.alts)
    return k


def spine_a(ctx, active, n_units, n_values, n_fuzz):
    rng = ctx.rng
    avoid = c09_regions.make_avoid(active)
    feats = dict(seq_ext=.25, choice_ext=0 if 'choice-extension-bit' in active else .25,
                 enum_ext=0 if 'enum-extension-bit' in active else .25)
    preps = []
    for i in range(n_units):
        g = T.Gen(rng, avoid=avoid, big=(i % 9 == 4), features=feats)
        spec = g.spec()
        preps.append(A.prepare(ctx, i, spec, CODEC, n_values, n_fuzz, rng))
    # structured corner: same-named DEFAULT members in sibling inline SEQUENCEs / CHOICE alternatives
    preps.append(A.prepare(ctx, 'tw', T.Gen(rng, avoid=avoid, features=feats).twins_spec(), CODEC, n_values + 3, n_fuzz, rng))
    # rejection of what is outside the subset
    rej = []
    for name, spec in unsupported_specs(rng):
        if UNSUPPORTED_REGION.get(name) in active:
            continue
        p = A.prepare(ctx, 'r' + name, spec, CODEC, 0, 0, rng)
        rej.append((name, p))
    ctx.log('spine A: %d random modules (+%d rejection cases), compiling with gcc and clang+ASan/UBSan' % (len(preps), len(rej)))
    c09_cc.run_units([p.unit for p in preps if p.unit is not None])

    def report(what, rep, cls):
        c09_cc.limited_violation(ctx, cls, what, rep)
    for p in preps:
        n = A.judge(ctx, p, report)
        ctx.evaluations += n
        for m, ts in p.spec.modules:
            for tn, ty in ts:
                for x in T.subtypes(ty):
                    ctx.count('type:' + x.kind)
        if p.unit is not None:
            for (m, tn, v), b in zip(p.cases, p.pybytes):
                ctx.case((shape_key(p.spec, p.spec.index[(m, tn)]), len(b)),
                         dict(kind='case', type=p.spec.render(p.spec.index[(m, tn)])[:200], value=repr(v)[:120],
                              python_bytes=b.hex()[:64]), n=0)
        for tn, v, err in getattr(p, 'py_encode_failures', []):
            ctx.count('python-encode-failed:' + str(err[0]))
    for name, p in rej:
        ctx.evaluations += 1
        ctx.count('reject:' + p.gen[0])
        A.judge(ctx, p, report)
    return preps


def replay(ctx):
    doc = json.load(open(ctx.replay))
    r = doc['replay']
    print('replaying', r.get('kind'), '-', doc.get('what', '')[:200])
    if 'spec' not in r:
        print('nothing to re-run for this record')
        return
    spec = T.Spec.from_json(r['spec'])
    cases = None
    if 'value' in r:
        cases = [(r['module'], r['type'], T.value_from_json(r['value']))]
    p = A.prepare(ctx, 'replay', spec, r.get('codec', CODEC), 2, 0, ctx.rng, fixed_cases=cases)
    if 'input' in r and p.unit is not None:
        p_add_inputs(p, [(r['type'], r['input'])])
    if p.unit is not None:
        c09_cc.run_units([p.unit])
    seen = []
    A.judge(ctx, p, lambda what, rep, cls: seen.append((cls, what)))
    print(spec.text())
    if str(r.get('kind', '')).startswith('ir-') and p.unit is not None:
        import c09_ir
        ctx.quick = False
        before = len(ctx.violations)
        c09_ir.run_units(ctx, [p], 1)
        for v in ctx.violations[before:]:
            seen.append(('ir', v['what']))
    for cls, what in seen:
        print('STILL FAILS [%s]: %s' % (cls, what[:500]))
    if not seen:
        print('no failure on this tree')


def run(ctx):
    if ctx.replay:
        return replay(ctx)
    ctx.rule = ('Spine A cases: (module of the C subset) x (type) x (value: all-minimum, all-maximum, random with boundary '
                'bias) compiled with gcc and clang+ASan/UBSan: encode bytes, every smaller destination size (canaries), '
                'decode of the Python bytes (every field, presence flag, length, selector), every truncation, mutated '
                'inputs (accept => re-encode/re-decode stable); distinct by (type shape to depth 2, encoded length); '
                'non-trivial = every case (each is a compiled-code execution compared with the Python codec)')
    ctx.level = 'proof'
    ctx.trusted_base += [
        'translator/cparse.py (fail-closed parser of the generated C dialect, reads the helper C text out of uper_functions.py via ast) '
        'and translator/ctoir.py (C integer typing for LP64 made explicit in the IR)',
        'CGen/Ir.v: big-step semantics of the dialect (value trees, copy-in/copy-out pointer parameters) - my reading of C99, '
        'validated against gcc/clang binaries on return codes and outputs',
        'gcc -std=c99 and clang 14 with -fsanitize=address,undefined: memory safety / UB of the compiled artefact is explored, not proved',
        'the Python UPER codec of /repo as the oracle of "equivalent"; struct field naming conventions of the generated header',
    ]
    ctx.assumptions += [
        'LP64 target: int 32 bit, long = size_t = ssize_t 64 bit; conversion to a signed type wraps (gcc/clang)',
        'helper theorems: cursor live (size = 8 * capacity < 2^62, 0 <= pos <= size) or latched; arguments as the generated code passes them '
        '(nnbi width <= 64, byte counts <= source capacity, error codes small positive ints)',
        'no two pointer parameters of one call alias (true for the dialect: cursor, struct, byte buffer are distinct objects)',
    ]
    ctx.extra['open_theorems'] = [
        'validate_sound (validated generated program = codec model for all values and buffer sizes): no validator with a soundness '
        'proof exists; generated functions are executed as IR terms on sampled values only',
        'the generated per-type functions are not tied to a model by proof (the 32 helper functions are: CGen/HelpersIrTie.v)',
        'fuel monotonicity of the IR interpreter',
    ]
    try:
        import random
        from concurrent.futures import ThreadPoolExecutor
        import c09_helpers
        import c09_ir
        parsed = c09_helpers.regenerate(ctx)          # coq/gen/UperHelpers*.v from /repo, before the build
        # The Coq build, the two helper correspondences and the compile-and-run spine are independent:
        # run them side by side (each with its own deterministic random stream).
        ex = ThreadPoolExecutor(max_workers=4)
        f_props = ex.submit(ctx.coq_props)
        f_help = ex.submit(c09_helpers.run, ctx, parsed, random.Random(ctx.seed * 7919 + 1)) if parsed is not None else None
        f_hir = ex.submit(c09_ir.helpers_vs_model, ctx, 60 if ctx.quick else 600, random.Random(ctx.seed * 7919 + 2))
        import c09_logic
        f_logic = ex.submit(c09_logic.run, ctx, [], random.Random(ctx.seed * 7919 + 3))
        findings = common.load_findings('C09')
        active = run_findings(ctx, findings, ctx.rng)
        ctx.log('known findings replayed: %d of %d still reproduce' % (len(active), len(findings)))
        ctx.extra['regions_excluded'] = active
        A.ACTIVE = set(active)
        if ctx.quick:
            preps = spine_a(ctx, active, 32, 3, 12)
        else:
            preps = spine_a(ctx, active, 300, 6, 50)
        ctx.log('spine A judged')
        c09_ir.run_units(ctx, preps, 4 if ctx.quick else 80)
        ctx.log('IR: generated functions vs Python codec and binary done')
        for f, what in ((f_help, 'helpers: compiled helper block vs Coq model'), (f_hir, 'IR: parsed helper block vs Coq model'),
                        (f_logic, 'logic: type_length / range-check criterion vs Coq model')):
            if f is not None:
                f.result()
                ctx.log(what + ' done')
        ok = f_props.result()
        ctx.log('Coq: Props/C09.v built and audited (%s)' % ('ok' if ok else 'BROKEN'))
        ex.shutdown()
        if not ok:
            common.proof_broken(ctx)
    finally:
        c09_cc.cleanup()
