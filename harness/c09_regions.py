"""Regions of the type universe in which /repo's C generator has a recorded
defect (C09).  Each predicate is keyed by the id of a finding in
known_findings/C09.json or of a repair in proposed_fixes/; the random
generator stays out of a region only while its finding is listed as open (the
check still replays the recorded witness of every open finding on every run).

A predicate takes (node, where, resolve): node is a type node (where ==
'type') or a SEQUENCE member (where == 'member'); resolve follows references.
"""
import c09_types as T


def _promoted_signed_max(t):
    """Largest value of the C type in which `src_p->x - minimum` is computed for
    a negative minimum (int for 8/16/32-bit fields, int64_t for 64-bit)."""
    lo, hi = t.lo, t.hi
    if lo < -2 ** 31 or hi > 2 ** 31 - 1:
        return 2 ** 63 - 1
    return 2 ** 31 - 1


def int_signed_half(t, where, resolve):
    """INTEGER with a negative minimum whose maximum needs more bits than the
    minimum: utils.type_length picks intN_t from the maximum as if unsigned."""
    if where != 'type' or t.kind != 'int' or t.lo >= 0:
        return False
    for w in (8, 16, 32, 64):
        if t.lo >= -2 ** (w - 1) and t.hi <= 2 ** w - 1:      # what type_length computes
            return t.hi > 2 ** (w - 1) - 1
    return False


def int_signed_span(t, where, resolve):
    """INTEGER with a negative minimum whose span exceeds the signed type the
    subtraction `value - minimum` is evaluated in (signed overflow, UB), unless
    the aligned intN helpers are used."""
    if where != 'type' or t.kind != 'int' or t.lo >= 0:
        return False
    nbits = (t.hi - t.lo).bit_length()
    if nbits in (8, 16, 32, 64) and t.lo in (-128, -32768, -2147483648, -9223372036854775808):
        return False
    if t.lo < -2 ** 31 + 1 and t.lo >= -2 ** 31 and t.hi <= 2 ** 31 - 1:
        return False            # the literal 2147483648 is a long: 64-bit arithmetic
    return t.hi - t.lo > _promoted_signed_max(t)


def enum_hyphen_mapping(t, where, resolve):
    """ENUMERATED whose numbers differ from the positions (value mapping switch)
    and with an enumerator that is not a C identifier."""
    if where != 'type' or t.kind != 'enum':
        return False
    order = sorted(t.items, key=lambda it: it[1])
    mapping = any(i != num for i, (_, num) in enumerate(order))
    return mapping and any(T_canon(n) != n for n, _ in t.items)


def enum_default_hyphen(m, where, resolve):
    """DEFAULT on an ENUMERATED member when the member name (inline type) or the
    default enumerator is not a C identifier."""
    if where != 'member' or not m.has_default or resolve(m.ty).kind != 'enum':
        return False
    return (m.ty.kind == 'enum' and T_canon(m.name) != m.name) or T_canon(m.default) != m.default


def size_above_64k(t, where, resolve):
    """OCTET STRING / SEQUENCE OF whose maximum size exceeds 65535."""
    return where == 'type' and t.kind in ('octets', 'seqof') and t.hi > 65535


def named_bits_alignment(t, where, resolve):
    """BIT STRING with named bits whose size is not 8, 16, 24, 32 or 64."""
    return where == 'type' and t.kind == 'bits' and bool(t.named) and t.n not in (8, 16, 24, 32, 64)


def bits_default(m, where, resolve):
    """DEFAULT on a BIT STRING member."""
    return where == 'member' and m.has_default and resolve(m.ty).kind == 'bits'


def python_default_ref_bool(m, where, resolve):
    """DEFAULT on a member whose type is a reference to a BOOLEAN type: the
    *Python* codec keeps the default as the string 'TRUE'/'FALSE' (recorded
    under C19); the generated C is right, the oracle is wrong."""
    return where == 'member' and m.has_default and m.ty.kind == 'ref' and resolve(m.ty).kind == 'bool'


def octets_fixed_default(m, where, resolve):
    """DEFAULT on a fixed-size OCTET STRING member."""
    if where != 'member' or not m.has_default:
        return False
    t = resolve(m.ty)
    return t.kind == 'octets' and t.lo == t.hi


def octets_default_name_clash(t, where, resolve):
    """Two OCTET STRING DEFAULT members with the same (canonical) name inside
    one type assignment (references are separate functions)."""
    if where != 'type' or t.kind not in ('seq', 'seqof', 'choice'):
        return False
    names = []
    for x in T.subtypes(t):
        if x.kind == 'seq':
            for m in x.members:
                if m.has_default and resolve(m.ty).kind == 'octets':
                    names.append(T_canon(m.name))
    return len(names) != len(set(names))


def length_wraps_before_check(t, where, resolve):
    """Variable-size OCTET STRING / SEQUENCE OF with a uint8_t length member
    (maximum <= 255) whose length field can express a value above 255: the
    decoder adds the minimum in uint8_t, the sum wraps, the range check passes."""
    if where != 'type' or t.kind not in ('octets', 'seqof') or t.lo == t.hi or t.hi > 255:
        return False
    return t.lo + (1 << (t.hi - t.lo).bit_length()) - 1 > 255


def T_canon(name):
    import re
    return re.sub(r'[^a-zA-Z0-9]', '_', name)


REGIONS = {
    'int-signed-half': int_signed_half,
    'int-signed-span': int_signed_span,
    'enum-hyphen-mapping': enum_hyphen_mapping,
    'enum-default-hyphen': enum_default_hyphen,
    'octets-fixed-default': octets_fixed_default,
    'octets-default-name-clash': octets_default_name_clash,
    'length-wraps-before-check': length_wraps_before_check,
    'size-above-64k': size_above_64k,
    'named-bits-alignment': named_bits_alignment,
    'bits-default-invalid-c': bits_default,
    'python-default-on-referenced-boolean': python_default_ref_bool,
}


ALIAS = {'size-above-64k-fixed': 'size-above-64k'}


def make_avoid(ids):
    ids = set(ALIAS.get(i, i) for i in ids)
    preds = [REGIONS[i] for i in ids if i in REGIONS]

    def avoid(node, where, resolve):
        return any(p(node, where, resolve) for p in preds)
    return avoid
