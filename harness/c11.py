"""C11 — check_constraints accepts exactly the values the declared constraints admit.

  obligations : Props/C11.v (constraints_iff both directions, error class,
                never-on-the-wire, decode side), Print Assumptions audit
  corr        : /repo spec.encode(name, v, check_constraints=True) raising
                ConstraintsError yes/no + dotted path  vs  Check/Constraints.v
                evaluated by vm_compute on the same (type, value); values at,
                just inside and just outside every bound of every constrained
                component; also the after-decode call
  PT          : the same observable on all 8 codecs vs the Python oracle
                c11c12_oracle.admits driven by the generator's abstract type
"""
import json
import os

import common
import lib
import gen_asn1
import c11c12_gen as G
import c11c12_oracle as O
import c11c12_coq
from common import to_coq

FIXED = '''
The fixed module exercises every form the property names on every run.
'''


def fixed_module():
    """Hand-written abstract module: MIN/MAX, named numbers, value references,
    single values, extensible constraints, constraints on references (member,
    alias, list element), list inside CHOICE inside an addition, recursion."""
    I = lambda lo, hi, ext=False, **kw: dict({'k': 'INTEGER', 'c': {'lo': lo, 'hi': hi, 'ext': ext}, 'named': None}, **kw)
    S = lambda lo, hi, ext=False: {'lo': lo, 'hi': hi, 'ext': ext}
    ref = lambda n, **over: dict({'k': 'REF', 'name': n}, **({'over': over} if over else {}))
    mem = lambda n, t, opt=None: {'name': n, 't': t, 'opt': opt}
    types = [
        ('I0', {'k': 'INTEGER', 'c': None, 'named': [('n0', 0), ('n1', 3), ('n2', 6)]}),
        ('N0', {'k': 'STRING', 'sk': 'IA5String', 'size': None, 'alpha': None}),
        ('L0', {'k': 'SEQUENCE OF', 'elem': {'k': 'BOOLEAN'}, 'size': None}),
        ('A1', ref('I0', c=dict(S(0, 6), lo_txt=None, hi_txt='n2'))),            # alias with named-number bound
        ('A2', ref('N0', size=S(2, 2), alpha=list('abc'), alpha_ranges=True)),   # alias SIZE + FROM range
        ('A3', ref('L0', size=dict(S(1, 2), hi_txt='two'))),                      # alias SIZE on a list, value ref
        ('E1', {'k': 'SEQUENCE OF', 'elem': ref('N0', size=S(1, 3)), 'size': S(0, 2, True)}),
        ('S1', {'k': 'SEQUENCE', 'ext': [
            {'member': mem('c', {'k': 'CHOICE', 'ext': [], 'root': [
                mem('l', {'k': 'SEQUENCE OF', 'size': S(1, 2),
                          'elem': {'k': 'BIT STRING', 'named': None, 'size': S(3, 4)}}),
                mem('s', {'k': 'STRING', 'sk': 'NumericString', 'size': S(1, None), 'alpha': None})]}, 'optional')}],
            'root': [
                mem('a', I(None, 10, lo_txt=None)),                              # MIN..10
                mem('b', dict(I(-5, None))),                                     # -5..MAX
                mem('c0', {'k': 'INTEGER', 'named': None,
                           'c': {'lo': 7, 'hi': 7, 'ext': False, 'single': True}}),        # single value
                mem('d', I(0, 255, True)),                                       # extensible
                mem('x', ref('L0', size=S(1, 2)), 'optional'),
                mem('y', ref('I0', c=dict(S(0, 5), lo_txt='zero', hi_txt=None))),
                mem('o', {'k': 'OCTET STRING', 'size': S(2, 2)}, 'optional'),
                mem('p', {'k': 'STRING', 'sk': 'PrintableString', 'size': None, 'alpha': None}, 'optional'),
                mem('u', {'k': 'STRING', 'sk': 'UTF8String', 'size': S(1, 2), 'alpha': None}, 'optional'),
            ]}),
        # the same referenced type under the same component name at a constrained and an unconstrained
        # site: the library caches the compiled referenced type per (type, component name)
        ('Q1', {'k': 'SEQUENCE', 'ext': None, 'root': [
            mem('x', ref('L0')), mem('y', ref('I0')), mem('name', ref('N0')), mem('lab', ref('Lab'))]}),
        ('Q2', {'k': 'SEQUENCE', 'ext': None, 'root': [
            mem('name', ref('N0', size=S(2, 2))), mem('lab', ref('Lab', size=S(2, 2)))]}),
        ('Q3', {'k': 'SET', 'ext': None, 'root': [
            mem('name', ref('N0', alpha=list('abc'), alpha_ranges=False)), mem('y', ref('I0', c=S(0, 5)))]}),
        ('Q4', {'k': 'SEQUENCE OF', 'elem': ref('N0'), 'size': None}),
        ('Q5', {'k': 'CHOICE', 'ext': None, 'root': [mem('name', ref('N0')), mem('x', ref('L0', size=S(3, 3)))]}),
        ('Lab', {'k': 'OCTET STRING', 'size': S(0, 8)}),
        ('R1', {'k': 'SEQUENCE', 'ext': None, 'root': [
            mem('v', I(0, 3)), mem('next', ref('R1'), 'optional')]}),
        ('R2', {'k': 'SEQUENCE', 'ext': None, 'root': [
            mem('v', I(0, 3)),
            mem('kids', {'k': 'SEQUENCE OF', 'elem': ref('R2'), 'size': S(0, 2)})]}),
    ]
    mod = {'name': 'M', 'tags': 'AUTOMATIC', 'ext_implied': False, 'types': types,
           'values': [('two', 2), ('zero', 0)]}
    values = {
        'I0': [5], 'N0': ['hello'], 'L0': [[True, False]], 'A1': [3], 'A2': ['ab'], 'A3': [[True]],
        'E1': [['ab', 'c']],
        'S1': [{'a': 10, 'b': -5, 'c0': 7, 'd': 100, 'x': [True], 'y': 5, 'o': b'ab', 'p': 'Ab 1', 'u': 'å',
                'c': ('l', [(b'\xa0', 3)])},
               {'a': -2 ** 70, 'b': 2 ** 70, 'c0': 7, 'd': 1000, 'y': 0, 'c': ('s', '12 3')}],
        'Q1': [{'x': [True, False, True, True], 'y': 100, 'name': 'hello z', 'lab': b'123'},
               {'x': [], 'y': -7, 'name': '', 'lab': b'12345678'}],
        'Q2': [{'name': 'zz', 'lab': b'12'}],
        'Q3': [{'name': 'abcabc', 'y': 5}],
        'Q4': [['hello', 'z', '']],
        'Q5': [('name', 'hello'), ('x', [True, True, True])],
        'Lab': [b'12345678'],
        'R1': [{'v': 1, 'next': {'v': 2, 'next': {'v': 3, 'next': {'v': 0}}}}],
        'R2': [{'v': 1, 'kids': [{'v': 2, 'kids': [{'v': 3, 'kids': []}]}, {'v': 0, 'kids': []}]}],
    }
    return mod, values


def lib_observe(spec, name, v, **kw):
    r = lib.attempt(spec.encode, name, v, check_constraints=True, **kw)
    if r[0] == 'ok':
        return ('pass', '')
    if r[1] == 'constraints':
        return ('constraints', r[2].split(':')[0])
    return ('pass', '')          # the constraints check passed; the codec's own outcome is not C11's observable


def expected(rt, t, name, v):
    vs = O.violations(rt, t, v)
    if not vs:
        assert O.admits(rt, t, v)
        return ('pass', '')
    assert not O.admits(rt, t, v)
    return ('constraints', '.'.join((name,) + vs[0]))


NOVALUE = object()
_seen = {}


def report(ctx, sig, what, replay):
    """One VIOLATION per signature (kind of check x verdict/path difference);
    further ones are only counted."""
    _seen[sig] = _seen.get(sig, 0) + 1
    if _seen[sig] == 1:
        ctx.violation(what, replay)
    else:
        ctx.count('further-violations:' + ':'.join(sig))


def diff_kind(got, exp):
    return 'verdict' if got[0] != exp[0] else 'path'


def small_value(g, rt, t, limit=400):
    """A generated value with at most [limit] component positions (the big
    option of the generator may produce lists of 70000 elements)."""
    for _ in range(4):
        v = g.gen_value(t)
        n = 0
        for _ in G.positions(rt, t, v):
            n += 1
            if n > limit:
                break
        else:
            return v
    return NOVALUE


class Batch(object):
    """Cases of one module, for the Coq run."""

    def __init__(self, em, text):
        self.em = em
        self.text = text
        self.rt = gen_asn1.make_resolver(em)
        self.cases = []       # (name, value, label, libobs)

    def coq_chunks(self, chunk=40):
        return range(0, len(self.cases), chunk)

    def coq(self, i, chunk=40):
        """Coq texts (one Eval each) for chunks of the cases."""
        env = c11c12_coq.cq(gen_asn1.coq_env(self.em))
        tys = dict(self.em['types'])
        out = []
        for j in range(0, len(self.cases), chunk):
            cs = [(n, gen_asn1.coq_value(self.rt, tys[n], v)) for n, v, _, _ in self.cases[j:j + chunk]]
            k = '%d_%d' % (i, j)
            out.append('Definition env%s : env := %s.\nDefinition cases%s : list (string * value) := %s.\n'
                       'Eval vm_compute in map (run_constraints Repaired env%s) cases%s.\n'
                       % (k, env, k, c11c12_coq.cq(cs), k, k))
        return out


CODE = {0: 'pass', 1: 'constraints', 2: 'encode', 3: 'foreign', 4: 'fuel', 5: 'unmodelled', 6: 'other'}


def compile_all(ctx, text):
    specs = {}
    for c in O.CODECS:
        r = lib.attempt(lib.compile_string, text, c)
        if r[0] != 'ok':
            ctx.count('compile-failed:%s:%s' % (c, r[1]))
            continue
        specs[c] = r[1]
    return specs


def is_known(findings, text, name, v):
    for f in findings:
        w = f['witness']
        if w.get('spec') == text and w.get('type') == name and repr(v) == w.get('value'):
            return f
    return None


LARGE = 6000          # repr length above which a value is "large" for the Coq run
_large_left = [300000]


def model_case(ctx, b, case):
    """Queue a case for the Coq model.  Type checking a 70000-element list
    literal costs Coq seconds, so large values share a fixed budget per run
    (all of them are still checked on /repo against the oracle)."""
    n = len(repr(case[1]))
    if n > LARGE:
        if n > _large_left[0]:
            ctx.count('model-skipped-large-value')
            return
        _large_left[0] -= n
    b.cases.append(case)


def run_module(ctx, mod, em, text, g, given_values, budget, batches, dec_budget):
    rng = ctx.rng
    rt = gen_asn1.make_resolver(em)
    specs = compile_all(ctx, text)
    if 'ber' not in specs:
        ctx.violation('generated module does not compile: ' + text[:200], dict(kind='compile', spec=text))
        return
    b = Batch(em, text)
    cases = []
    for name, t in em['types']:
        bases = list(given_values.get(name, [])) if given_values else \
            [x for x in (small_value(g, rt, t) for _ in range(2)) if x is not NOVALUE]
        for base in bases:
            cases.append((name, base, 'base', ()))
            if not O.admits(rt, t, base):
                continue
            pos = list(G.positions(rt, t, base))
            if len(pos) > 40:
                pos = [pos[0]] + rng.sample(pos[1:], 39)
            for path, names, st, sv in pos:
                for label, new in O.boundary_mutants(g, rng, rt, st, sv):
                    cases.append((name, G.replace_at(base, path, new), label, names))
    if len(cases) > budget:
        keep = [c for c in cases if c[2] == 'base']       # every base value (also of the twin sites)
        rest = [c for c in cases if c[2] != 'base']
        rng.shuffle(rest)
        cases = keep + rest[:budget - len(keep)]
    tys = dict(em['types'])
    for name, v, label, names in cases:
        t = tys[name]
        exp = expected(rt, t, name, v)
        obs = {}
        for c, spec in specs.items():
            obs[c] = lib_observe(spec, name, v)
            ctx.evaluations += 1
            if obs[c] != exp:
                report(ctx, ('pt', diff_kind(obs[c], exp), exp[0]), '%s check_constraints: %s on a value the constraints %s (type %s, component %s, %s): got %r expected %r'
                              % (c, 'no ConstraintsError' if obs[c][0] == 'pass' else 'ConstraintsError/path',
                                 'reject' if exp[0] == 'constraints' else 'admit', name, '.'.join(names), label, obs[c], exp),
                              dict(kind='pt', spec=text, codec=c, type=name, value=repr(v), expected=list(exp), label=label))
                break
        ctx.case(('case', gen_asn1.shape(rt, t)[:40], label, exp[0]),
                 dict(kind='encode', type=name, label=label, value=repr(v)[:120], expected=exp[0], path=exp[1]))
        ctx.count('mut:' + label.split(':')[0] + ':' + exp[0])
        model_case(ctx, b, (name, v, label, obs.get('ber')))
        # after-decode call
        if dec_budget[0] > 0 and label != 'base' and rng.random() < .5:
            dec_budget[0] -= 1
            for c, spec in specs.items():
                e = lib.attempt(spec.encode, name, v)
                if e[0] != 'ok':
                    continue
                d = lib.attempt(spec.decode, name, e[1])
                if d[0] != 'ok':
                    ctx.count('decode-skipped:%s:%s' % (c, d[1]))
                    continue
                v2 = d[1]
                try:
                    exp2 = expected(rt, t, name, v2)
                except Exception:
                    ctx.count('decode-unmodelled-value:%s' % c)
                    continue
                d2 = lib.attempt(spec.decode, name, e[1], check_constraints=True)
                got = ('pass', '') if d2[0] == 'ok' else ('constraints', d2[2].split(':')[0]) if d2[1] == 'constraints' \
                    else ('other:' + d2[1], '')
                ctx.evaluations += 1
                ctx.count('decode:%s:%s' % (c, exp2[0]))
                if got != exp2 or (d2[0] == 'ok' and d2[1] != v2):
                    report(ctx, ('pt-decode', diff_kind(got, exp2), exp2[0]), '%s decode(check_constraints=True) of a value the constraints %s: got %r expected %r'
                                  % (c, 'reject' if exp2[0] == 'constraints' else 'admit', got, exp2),
                                  dict(kind='pt-decode', spec=text, codec=c, type=name, data=bytes(e[1]).hex(),
                                       expected=list(exp2)))
                    break
                if c == 'ber':
                    model_case(ctx, b, (name, v2, 'decoded', got))
    batches.append(b)


def corr(ctx, batches):
    res = c11c12_coq.eval_batches(ctx, 'corr', ['Base.Prelude', 'Syntax.Asn1', 'Check.Location', 'Check.Constraints', 'Check.Run'],
                                  [t for i, b in enumerate(batches) for t in b.coq(i)])
    it = iter(res)
    res = [[x for _ in b.coq_chunks() for x in next(it)] for b in batches]
    agree = 0
    for b, rs in zip(batches, res):
        assert len(rs) == len(b.cases)
        for (name, v, label, obs), (code, path) in zip(b.cases, rs):
            model = (CODE[code], path)
            ctx.evaluations += 1
            if obs is None:
                continue
            if model != obs:
                report(ctx, ('corr', diff_kind(model, obs), obs[0]), 'model Check/Constraints.v and constraints_checker.py disagree on type %s (%s): model %r, /repo %r'
                              % (name, label, model, obs),
                              dict(kind='corr', spec=b.text, type=name, value=repr(v), model=list(model), impl=list(obs)))
            else:
                agree += 1
    ctx.extra['model_vs_impl_agreements'] = agree


def replay_findings(ctx, findings):
    for f in findings:
        w = f['witness']
        spec = lib.compile_string(w['spec'], w.get('codec', 'ber'))
        got = lib_observe(spec, w['type'], eval(w['value']))
        if got[0] != w['expected']:
            ctx.known_finding(f['id'], f['what'])
        else:
            print('known finding %s no longer reproduces (got %r)' % (f['id'], got))


def replay(ctx):
    doc = json.load(open(ctx.replay))
    r = doc['replay']
    print('replaying', r.get('kind'))
    if 'spec' in r and 'type' in r:
        for c in ([r['codec']] if 'codec' in r else ['ber']):
            spec = lib.compile_string(r['spec'], c)
            if 'value' in r:
                print(c, 'encode(check_constraints=True) ->', lib_observe(spec, r['type'], eval(r['value'])),
                      'expected', r.get('expected') or r.get('model'))
            if 'data' in r:
                print(c, 'decode(check_constraints=True) ->',
                      lib.attempt(spec.decode, r['type'], bytes.fromhex(r['data']), check_constraints=True)[:2],
                      'expected', r.get('expected'))


def run(ctx):
    if ctx.replay:
        return replay(ctx)
    ctx.rule = ('case = (type shape, mutated component kind, which bound, offset -1/0/+1 or alphabet in/out, expected '
                'verdict); every case runs on 8 codecs (encode with check_constraints=True), a sample also through '
                'decode(check_constraints=True); non-trivial = every case (all are boundary values of a constrained or '
                'deliberately unconstrained component inside a generated module)')
    # C11C12_SKIP_PROOFS=1 is for the mutation self-test only (the obligations do not depend on /repo)
    ok = True if os.environ.get('C11C12_SKIP_PROOFS') else ctx.coq_props()
    ctx.log('obligations checked')
    findings = common.load_findings('C11')
    replay_findings(ctx, findings)
    batches = []
    dec_budget = [40 if ctx.quick else 600]
    mod, values = fixed_module()
    em = G.effective(mod)
    g = gen_asn1.Gen(ctx.rng, gen_asn1.Opts())
    g.types = em['types']
    run_module(ctx, mod, em, G.render_module(mod), g, values, 400, batches, dec_budget)
    nmod = 14 if ctx.quick else 150
    for i in range(nmod):
        opts = gen_asn1.Opts(max_depth=3, n_types=5, recursion=True, big=(i % 5 == 4),
                             str_kinds=list(gen_asn1.KM_KINDS) + ['UTF8String', 'BMPString', 'GeneralString'])
        mod, em, text, g = G.generate(ctx.rng, opts)
        run_module(ctx, mod, em, text, g, None, 60 if ctx.quick else 120, batches, dec_budget)
    ctx.log('property test done, %d evaluations' % ctx.evaluations)
    corr(ctx, batches)
    ctx.log('correspondence done')
    ctx.trusted_base += [
        'harness/gen_asn1.py + c11c12_gen.py: the abstract type is rendered to ASN.1 text and exported to Coq by two '
        'independent printers; resolution of MIN/MAX/named numbers/value references is done by the generator',
        'c11c12_oracle.admits: Python re-implementation of Check/Admits.v used as PT oracle',
    ]
    ctx.extra['open_theorems'] = []
    ctx.extra['not_modelled'] = ['REAL', 'time types', 'ANY / open types', 'union and intersection constraints, '
                                 'WITH COMPONENTS, PATTERN (not interpreted by the tool; excluded by the property)']
    if not ok:
        common.proof_broken(ctx)
