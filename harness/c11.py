"""C11 — check_constraints accepts exactly the values the declared constraints admit.

  obligations : Props/C11.v (constraints_iff both directions, error class,
                never-on-the-wire, decode side), Print Assumptions audit
  corr        : /repo spec.encode(name, v, check_constraints=True) raising
                ConstraintsError yes/no + dotted path  vs  Check/Constraints.v
                evaluated by vm_compute on the same (type, value); values at,
                just inside and just outside every bound of every constrained
                component; also the after-decode call
  PT          : the same observable on all 8 codecs vs the Python oracle
                c11c12_oracle.admits driven by the generator's abstract type
  serial      : constraints applied in series at reference sites (round 5):
                Check/Serial.v (implementation model compiled_range Head /
                KeepBounds, specification admits_series, legality) evaluated by
                vm_compute on every series of every module and on every bound
                +-1 of every constraint of the series  vs  /repo on the alias
                chain P0 ::= <built-in> c0, P1 ::= P0 c1, ...  and vs the Python
                oracle; theorems Check/SerialProofs.v
"""
import json
import os

import common
import lib
import gen_asn1
import c11c12_gen as G
import c11c12_oracle as O
import c11c12_coq
from common import to_coq

FIXED = '''
The fixed module exercises every form the property names on every run.
'''


def fixed_module(minmax=False):
    """Hand-written abstract module: MIN/MAX, named numbers, value references,
    single values, extensible constraints, constraints on references (member,
    alias, list element), list inside CHOICE inside an addition, recursion."""
    I = lambda lo, hi, ext=False, **kw: dict({'k': 'INTEGER', 'c': {'lo': lo, 'hi': hi, 'ext': ext}, 'named': None}, **kw)
    S = lambda lo, hi, ext=False: {'lo': lo, 'hi': hi, 'ext': ext}
    ref = lambda n, **over: dict({'k': 'REF', 'name': n}, **({'over': over} if over else {}))
    mem = lambda n, t, opt=None: {'name': n, 't': t, 'opt': opt}
    types = [
        ('I0', {'k': 'INTEGER', 'c': None, 'named': [('n0', 0), ('n1', 3), ('n2', 6)]}),
        ('N0', {'k': 'STRING', 'sk': 'IA5String', 'size': None, 'alpha': None}),
        ('L0', {'k': 'SEQUENCE OF', 'elem': {'k': 'BOOLEAN'}, 'size': None}),
        ('A1', ref('I0', c=dict(S(0, 6), lo_txt=None, hi_txt='n2'))),            # alias with named-number bound
        ('A2', ref('N0', size=S(2, 2), alpha=list('abc'), alpha_ranges=True)),   # alias SIZE + FROM range
        ('A3', ref('L0', size=dict(S(1, 2), hi_txt='two'))),                      # alias SIZE on a list, value ref
        ('E1', {'k': 'SEQUENCE OF', 'elem': ref('N0', size=S(1, 3)), 'size': S(0, 2, True)}),
        ('S1', {'k': 'SEQUENCE', 'ext': [
            {'member': mem('c', {'k': 'CHOICE', 'ext': [], 'root': [
                mem('l', {'k': 'SEQUENCE OF', 'size': S(1, 2),
                          'elem': {'k': 'BIT STRING', 'named': None, 'size': S(3, 4)}}),
                mem('s', {'k': 'STRING', 'sk': 'NumericString', 'size': S(1, None), 'alpha': None})]}, 'optional')}],
            'root': [
                mem('a', I(None, 10, lo_txt=None)),                              # MIN..10
                mem('b', dict(I(-5, None))),                                     # -5..MAX
                mem('c0', {'k': 'INTEGER', 'named': None,
                           'c': {'lo': 7, 'hi': 7, 'ext': False, 'single': True}}),        # single value
                mem('d', I(0, 255, True)),                                       # extensible
                mem('x', ref('L0', size=S(1, 2)), 'optional'),
                mem('y', ref('I0', c=dict(S(0, 5), lo_txt='zero', hi_txt=None))),
                mem('o', {'k': 'OCTET STRING', 'size': S(2, 2)}, 'optional'),
                mem('p', {'k': 'STRING', 'sk': 'PrintableString', 'size': None, 'alpha': None}, 'optional'),
                mem('u', {'k': 'STRING', 'sk': 'UTF8String', 'size': S(1, 2), 'alpha': None}, 'optional'),
            ]}),
        # the same referenced type under the same component name at a constrained and an unconstrained
        # site: the library caches the compiled referenced type per (type, component name)
        ('Q1', {'k': 'SEQUENCE', 'ext': None, 'root': [
            mem('x', ref('L0')), mem('y', ref('I0')), mem('name', ref('N0')), mem('lab', ref('Lab'))]}),
        ('Q2', {'k': 'SEQUENCE', 'ext': None, 'root': [
            mem('name', ref('N0', size=S(2, 2))), mem('lab', ref('Lab', size=S(2, 2)))]}),
        ('Q3', {'k': 'SET', 'ext': None, 'root': [
            mem('name', ref('N0', alpha=list('abc'), alpha_ranges=False)), mem('y', ref('I0', c=S(0, 5)))]}),
        ('Q4', {'k': 'SEQUENCE OF', 'elem': ref('N0'), 'size': None}),
        ('Q5', {'k': 'CHOICE', 'ext': None, 'root': [mem('name', ref('N0')), mem('x', ref('L0', size=S(3, 3)))]}),
        ('Lab', {'k': 'OCTET STRING', 'size': S(0, 8)}),
        ('R1', {'k': 'SEQUENCE', 'ext': None, 'root': [
            mem('v', I(0, 3)), mem('next', ref('R1'), 'optional')]}),
        ('R2', {'k': 'SEQUENCE', 'ext': None, 'root': [
            mem('v', I(0, 3)),
            mem('kids', {'k': 'SEQUENCE OF', 'elem': ref('R2'), 'size': S(0, 2)})]}),
    ]
    # constraints applied in series at reference sites: extensible / non-extensible parent x child, value
    # ranges and SIZEs, one to three levels, MIN / MAX = the parent's bound; alias, member, element, alternative
    bits = lambda s: {'k': 'BIT STRING', 'named': None, 'size': s}
    types += [
        ('PA', I(0, 10)), ('PX', I(0, 10, True)), ('PM', I(0, None)),
        ('B1', ref('PA', c=S(2, 5))), ('B2', ref('PA', c=S(2, 5, True))),
        ('B3', ref('PX', c=S(2, 5))), ('B4', ref('PX', c=S(2, 5, True))),
        ('C1', ref('B2', c=S(3, 4))), ('C2', ref('B2', c=S(3, 4, True))),
        ('C3', ref('B3', c=S(3, 4, True))), ('C4', ref('B4', c=S(3, 4))),
        ('C5', ref('C2', c=dict(S(3, 3, True), single=True))),
        ('D1', ref('PA', c=S(None, 5))), ('D2', ref('PA', c=S(5, None))), ('D3', ref('PM', c=S(None, 5))),
        ('D4', ref('PA', c=S(None, 5, True))), ('D5', ref('B1', c=S(3, None))),
        ('PS', {'k': 'STRING', 'sk': 'IA5String', 'size': S(1, 5), 'alpha': None}),
        ('PO', {'k': 'OCTET STRING', 'size': S(1, 5, True)}),
        ('PL', {'k': 'SEQUENCE OF', 'elem': {'k': 'BOOLEAN'}, 'size': S(1, 3)}),
        ('PB', bits(S(4, 12))),
        ('W1', ref('PL', size=S(2, 2, True))), ('W2', ref('PS', size=S(2, None))),
        ('W3', ref('PO', size=S(2, 3))), ('W4', ref('W3', size=S(3, 3, True))),
        ('V1', {'k': 'SEQUENCE', 'ext': None, 'root': [
            mem('x', ref('PS', size=S(2, 3, True))), mem('y', ref('PA', c=S(2, 5, True)), 'optional'),
            mem('z', ref('B2', c=S(3, 4, True)), 'optional'), mem('w', ref('PO', size=S(2, 3)), 'optional'),
            mem('l', ref('PL', size=S(2, 2, True)), 'optional'), mem('b', ref('PB', size=S(8, 8, True)), 'optional'),
            mem('k', ref('C4'), 'optional'), mem('name', ref('PS', size=S(5, 5, True)), 'optional')]}),
        ('V2', {'k': 'SEQUENCE OF', 'elem': ref('PA', c=S(2, 5, True)), 'size': None}),
        ('V3', {'k': 'SET OF', 'elem': ref('PS', size=S(2, 3, True)), 'size': None}),
        ('V4', {'k': 'SEQUENCE OF', 'elem': ref('B2', c=S(3, 4, True)), 'size': S(0, 2)}),
        ('V5', {'k': 'CHOICE', 'ext': None, 'root': [
            mem('y', ref('PA', c=S(2, 5, True))), mem('l', ref('PL', size=S(2, 3))),
            mem('o', ref('PO', size=S(2, 3, True)))]}),
        # the same referenced types under the same component names without the constraint
        ('V6', {'k': 'SET', 'ext': None, 'root': [mem('x', ref('PS')), mem('y', ref('PA')), mem('z', ref('B2'))]}),
    ]
    if not minmax:
        # MIN / MAX written at a reference site on a bounded parent: proposed_fixes/C11-serial-min-max.diff;
        # C12 (which shares this module) keeps out of that region
        types = [(n, t) for n, t in types if n not in MINMAX_TYPES]
    mod = {'name': 'M', 'tags': 'AUTOMATIC', 'ext_implied': False, 'types': types,
           'values': [('two', 2), ('zero', 0)]}
    values = {
        'I0': [5], 'N0': ['hello'], 'L0': [[True, False]], 'A1': [3], 'A2': ['ab'], 'A3': [[True]],
        'E1': [['ab', 'c']],
        'S1': [{'a': 10, 'b': -5, 'c0': 7, 'd': 100, 'x': [True], 'y': 5, 'o': b'ab', 'p': 'Ab 1', 'u': 'å',
                'c': ('l', [(b'\xa0', 3)])},
               {'a': -2 ** 70, 'b': 2 ** 70, 'c0': 7, 'd': 1000, 'y': 0, 'c': ('s', '12 3')}],
        'Q1': [{'x': [True, False, True, True], 'y': 100, 'name': 'hello z', 'lab': b'123'},
               {'x': [], 'y': -7, 'name': '', 'lab': b'12345678'}],
        'Q2': [{'name': 'zz', 'lab': b'12'}],
        'Q3': [{'name': 'abcabc', 'y': 5}],
        'Q4': [['hello', 'z', '']],
        'Q5': [('name', 'hello'), ('x', [True, True, True])],
        'Lab': [b'12345678'],
        'R1': [{'v': 1, 'next': {'v': 2, 'next': {'v': 3, 'next': {'v': 0}}}}],
        'R2': [{'v': 1, 'kids': [{'v': 2, 'kids': [{'v': 3, 'kids': []}]}, {'v': 0, 'kids': []}]}],
        'PA': [5], 'PX': [5, 50], 'PM': [3], 'B1': [3], 'B2': [3, 7], 'B3': [3], 'B4': [3, 20],
        'C1': [3], 'C2': [3, 8], 'C3': [4], 'C4': [3], 'C5': [3, 9], 'D1': [3], 'D2': [7], 'D3': [2], 'D4': [3, 8],
        'D5': [4], 'PS': ['abc'], 'PO': [b'abc'], 'PL': [[True, False]], 'PB': [(b'\xa5\x50', 12)],
        'W1': [[True, True]], 'W2': ['abc'], 'W3': [b'ab'], 'W4': [b'abc'],
        'V1': [{'x': 'ab', 'y': 3, 'z': 3, 'w': b'ab', 'l': [True, True], 'b': (b'\xa5', 8), 'k': 3, 'name': 'abcde'},
               {'x': 'abcd', 'y': 9, 'z': 0, 'l': [True]}],
        'V2': [[3, 4]], 'V3': [['ab', 'abc']], 'V4': [[3]],
        'V5': [('y', 3), ('l', [True, True]), ('o', b'ab')],
        'V6': [{'x': 'abcde', 'y': 10, 'z': 9}],
    }
    if not minmax:
        values = {n: v for n, v in values.items() if n not in MINMAX_TYPES}
    return mod, values


MINMAX_TYPES = ('D1', 'D2', 'D3', 'D5', 'W2')


def lib_observe(spec, name, v, **kw):
    r = lib.attempt(spec.encode, name, v, check_constraints=True, **kw)
    if r[0] == 'ok':
        return ('pass', '')
    if r[1] == 'constraints':
        return ('constraints', r[2].split(':')[0])
    return ('pass', '')          # the constraints check passed; the codec's own outcome is not C11's observable


def expected(rt, t, name, v):
    vs = O.violations(rt, t, v)
    if not vs:
        assert O.admits(rt, t, v)
        return ('pass', '')
    assert not O.admits(rt, t, v)
    return ('constraints', '.'.join((name,) + vs[0]))


def series_sig(t):
    """'@ser:nx' when the component's value-range / SIZE constraint is a series
    (constraints at reference sites on top of the referenced type's own)."""
    c = t.get('c') if t['k'] == 'INTEGER' else t.get('size')
    if isinstance(c, dict) and c.get('series'):
        return '@ser:' + ''.join('x' if x['ext'] else 'n' for x in c['series'])
    return ''


NOVALUE = object()
_seen = {}


def report(ctx, sig, what, replay):
    """One VIOLATION per signature (kind of check x verdict/path difference);
    further ones are only counted."""
    _seen[sig] = _seen.get(sig, 0) + 1
    if _seen[sig] == 1:
        ctx.violation(what, replay)
    else:
        ctx.count('further-violations:' + ':'.join(sig))


def diff_kind(got, exp):
    return 'verdict' if got[0] != exp[0] else 'path'


def small_value(g, rt, t, limit=400):
    """A generated value with at most [limit] component positions (the big
    option of the generator may produce lists of 70000 elements)."""
    for _ in range(4):
        v = g.gen_value(t)
        n = 0
        for _ in G.positions(rt, t, v):
            n += 1
            if n > limit:
                break
        else:
            return v
    return NOVALUE


class Batch(object):
    """Cases of one module, for the Coq run."""

    def __init__(self, em, text):
        self.em = em
        self.text = text
        self.rt = gen_asn1.make_resolver(em)
        self.cases = []       # (name, value, label, libobs)

    def coq_chunks(self, chunk=40):
        return range(0, len(self.cases), chunk)

    def coq(self, i, chunk=40):
        """Coq texts (one Eval each) for chunks of the cases."""
        env = c11c12_coq.cq(gen_asn1.coq_env(self.em))
        tys = dict(self.em['types'])
        out = []
        for j in range(0, len(self.cases), chunk):
            cs = [(n, gen_asn1.coq_value(self.rt, tys[n], v)) for n, v, _, _ in self.cases[j:j + chunk]]
            k = '%d_%d' % (i, j)
            out.append('Definition env%s : env := %s.\nDefinition cases%s : list (string * value) := %s.\n'
                       'Eval vm_compute in map (run_constraints Repaired env%s) cases%s.\n'
                       % (k, env, k, c11c12_coq.cq(cs), k, k))
        return out


CODE = {0: 'pass', 1: 'constraints', 2: 'encode', 3: 'foreign', 4: 'fuel', 5: 'unmodelled', 6: 'other'}


def compile_all(ctx, text):
    specs = {}
    for c in O.CODECS:
        r = lib.attempt(lib.compile_string, text, c)
        if r[0] != 'ok':
            ctx.count('compile-failed:%s:%s' % (c, r[1]))
            continue
        specs[c] = r[1]
    return specs


def is_known(findings, text, name, v):
    for f in findings:
        w = f['witness']
        if w.get('spec') == text and w.get('type') == name and repr(v) == w.get('value'):
            return f
    return None


LARGE = 6000          # repr length above which a value is "large" for the Coq run
_large_left = [300000]


def model_case(ctx, b, case):
    """Queue a case for the Coq model.  Type checking a 70000-element list
    literal costs Coq seconds, so large values share a fixed budget per run
    (all of them are still checked on /repo against the oracle)."""
    n = len(repr(case[1]))
    if n > LARGE:
        if n > _large_left[0]:
            ctx.count('model-skipped-large-value')
            return
        _large_left[0] -= n
    b.cases.append(case)


def run_module(ctx, mod, em, text, g, given_values, budget, batches, dec_budget):
    rng = ctx.rng
    rt = gen_asn1.make_resolver(em)
    specs = compile_all(ctx, text)
    if 'ber' not in specs:
        ctx.violation('generated module does not compile: ' + text[:200], dict(kind='compile', spec=text))
        return
    b = Batch(em, text)
    cases = []
    for name, t in em['types']:
        bases = list(given_values.get(name, [])) if given_values else \
            [x for x in (small_value(g, rt, t) for _ in range(2)) if x is not NOVALUE]
        for base in bases:
            cases.append((name, base, 'base', ()))
            if not O.admits(rt, t, base):
                continue
            pos = list(G.positions(rt, t, base))
            if len(pos) > 40:
                pos = [pos[0]] + rng.sample(pos[1:], 39)
            for path, names, st, sv in pos:
                sig = series_sig(rt(st))
                for label, new in O.boundary_mutants(g, rng, rt, st, sv):
                    cases.append((name, G.replace_at(base, path, new), label + sig, names))
    if len(cases) > budget:
        keep = [c for c in cases if c[2] == 'base']       # every base value (also of the twin sites)
        rest = [c for c in cases if c[2] != 'base']
        rng.shuffle(rest)
        # components constrained in series at reference sites first (a third of the budget at most)
        ser = [c for c in rest if '@ser' in c[2]][:max(budget // 3, 1)]
        ids = set(id(c) for c in ser)
        rest = ser + [c for c in rest if id(c) not in ids]
        cases = keep + rest[:max(budget - len(keep), len(ser))]
    tys = dict(em['types'])
    for name, v, label, names in cases:
        t = tys[name]
        exp = expected(rt, t, name, v)
        obs = {}
        for c, spec in specs.items():
            obs[c] = lib_observe(spec, name, v)
            ctx.evaluations += 1
            if obs[c] != exp:
                report(ctx, ('pt', diff_kind(obs[c], exp), exp[0], label.partition('@ser:')[2]), '%s check_constraints: %s on a value the constraints %s (type %s, component %s, %s): got %r expected %r'
                              % (c, 'no ConstraintsError' if obs[c][0] == 'pass' else 'ConstraintsError/path',
                                 'reject' if exp[0] == 'constraints' else 'admit', name, '.'.join(names), label, obs[c], exp),
                              dict(kind='pt', spec=text, codec=c, type=name, value=repr(v), expected=list(exp), label=label))
                break
        ctx.case(('case', gen_asn1.shape(rt, t)[:40], label, exp[0]),
                 dict(kind='encode', type=name, label=label, value=repr(v)[:120], expected=exp[0], path=exp[1]))
        ctx.count('mut:' + label.split(':')[0] + ':' + exp[0])
        model_case(ctx, b, (name, v, label, obs.get('ber')))
        # after-decode call
        if dec_budget[0] > 0 and label != 'base' and rng.random() < .5:
            dec_budget[0] -= 1
            for c, spec in specs.items():
                e = lib.attempt(spec.encode, name, v)
                if e[0] != 'ok':
                    continue
                d = lib.attempt(spec.decode, name, e[1])
                if d[0] != 'ok':
                    ctx.count('decode-skipped:%s:%s' % (c, d[1]))
                    continue
                v2 = d[1]
                try:
                    exp2 = expected(rt, t, name, v2)
                except Exception:
                    ctx.count('decode-unmodelled-value:%s' % c)
                    continue
                d2 = lib.attempt(spec.decode, name, e[1], check_constraints=True)
                got = ('pass', '') if d2[0] == 'ok' else ('constraints', d2[2].split(':')[0]) if d2[1] == 'constraints' \
                    else ('other:' + d2[1], '')
                ctx.evaluations += 1
                ctx.count('decode:%s:%s' % (c, exp2[0]))
                if got != exp2 or (d2[0] == 'ok' and d2[1] != v2):
                    report(ctx, ('pt-decode', diff_kind(got, exp2), exp2[0]), '%s decode(check_constraints=True) of a value the constraints %s: got %r expected %r'
                                  % (c, 'reject' if exp2[0] == 'constraints' else 'admit', got, exp2),
                                  dict(kind='pt-decode', spec=text, codec=c, type=name, data=bytes(e[1]).hex(),
                                       expected=list(exp2)))
                    break
                if c == 'ber':
                    model_case(ctx, b, (name, v2, 'decoded', got))
    batches.append(b)


# one import list for both Coq runs: one build (the coq build lock is shared with every other check)
IMPORTS = ['Base.Prelude', 'Syntax.Asn1', 'Check.Location', 'Check.Constraints', 'Check.Run', 'Check.Serial',
           'Check.SerialProofs']


def corr(ctx, batches):
    res = c11c12_coq.eval_batches(ctx, 'corr', IMPORTS,
                                  [t for i, b in enumerate(batches) for t in b.coq(i)])
    ctx.log('model evaluated on %d cases' % sum(len(b.cases) for b in batches))
    it = iter(res)
    res = [[x for _ in b.coq_chunks() for x in next(it)] for b in batches]
    agree = 0
    for b, rs in zip(batches, res):
        assert len(rs) == len(b.cases)
        for (name, v, label, obs), (code, path) in zip(b.cases, rs):
            model = (CODE[code], path)
            ctx.evaluations += 1
            if obs is None:
                continue
            if model != obs:
                report(ctx, ('corr', diff_kind(model, obs), obs[0], label.partition('@ser:')[2]), 'model Check/Constraints.v and constraints_checker.py disagree on type %s (%s): model %r, /repo %r'
                              % (name, label, model, obs),
                              dict(kind='corr', spec=b.text, type=name, value=repr(v), model=list(model), impl=list(obs)))
            else:
                agree += 1
    ctx.extra['model_vs_impl_agreements'] = agree


def plain(c):
    return {'lo': c['lo'], 'hi': c['hi'], 'ext': bool(c['ext'])}


def series_module(kind, series):
    """P0 ::= <built-in> c0, P1 ::= P0 c1, ...: the series as an alias chain."""
    lines = ['S DEFINITIONS AUTOMATIC TAGS ::= BEGIN']
    for i, c in enumerate(series):
        parent = ('INTEGER' if kind == 'c' else 'OCTET STRING') if i == 0 else 'P%d' % (i - 1)
        lines.append('P%d ::= %s%s' % (i, parent, G.r_int_constraint(plain(c)) if kind == 'c' else G.r_size(plain(c))))
    lines.append('END')
    return '\n'.join(lines) + '\n'


def serial_corr(ctx, ems):
    """Every series of two or more constraints of the run: Check/Serial.v
    (legality, collapsed range, verdict of the code as it is / of the repaired
    rule / of the specification at every bound -1/0/+1 of every constraint of
    the series) vs the generator (legality, collapse), the Python oracle and
    /repo on the alias chain."""
    seen = {}
    for em in ems:
        for kind, basekind, series in G.serial_sites(em):
            key = (kind, tuple((c['lo'], c['hi'], bool(c['ext'])) for c in series))
            seen.setdefault(key, basekind)
    items = []
    for (kind, ser), basekind in sorted(seen.items(), key=repr):
        ns = set()
        for lo, hi, _ in ser:
            for b in (lo, hi):
                if b is not None:
                    ns.update(x for x in (b - 1, b, b + 1) if kind == 'c' or 0 <= x <= 70001)
        items.append((kind, ser, sorted(ns)))
    if not items:
        raise AssertionError('no serially applied constraint in this run')
    opt = lambda b: [] if b is None else [b]
    texts = []
    for j in range(0, len(items), 60):
        arg = [([(opt(lo), opt(hi), ext) for lo, hi, ext in ser], ns) for _, ser, ns in items[j:j + 60]]
        texts.append('Definition sc%d : list (list (list Z * list Z * bool) * list Z) := %s.\n'
                     'Eval vm_compute in map run_series sc%d.\n' % (j, c11c12_coq.cq(arg), j))
    res = c11c12_coq.eval_batches(ctx, 'serial', IMPORTS, texts, shards=4)
    res = [x for r in res for x in r]
    assert len(res) == len(items)
    agree = 0
    for (kind, ser, ns), r in zip(items, res):
        (strict, lax, (mins, maxs), verdicts) = r
        series = [{'lo': lo, 'hi': hi, 'ext': ext} for lo, hi, ext in ser]
        sig = ''.join('x' if c['ext'] else 'n' for c in series)
        assert lax == 1, ('generator wrote an illegal series', kind, ser)
        ctx.count('series:%s:%s:%s' % (kind, sig, 'strict' if strict else 'min-max-of-parent'))
        col = G.collapse(series)
        if not col['ext']:
            assert (opt(col['lo']), opt(col['hi'])) == (list(mins), list(maxs)), ('collapse', ser, col, mins, maxs)
        text = series_module(kind, series)
        spec = lib.compile_string(text, 'ber')
        name = 'P%d' % (len(series) - 1)
        assert len(verdicts) == len(ns)
        for n, (head, (keep, adm)) in zip(ns, verdicts):
            ctx.evaluations += 1
            oracle = O.in_range(col, n)
            assert bool(adm) == oracle == O.in_range({'series': series}, n), ('oracle vs Serial.v admits_series', ser, n)
            assert keep == adm, ('serial_keep_bounds_agrees', ser, n)
            v = n if kind == 'c' else bytes(n)
            got = lib_observe(spec, name, v)[0] == 'pass'
            ctx.case(('series', kind, sig, strict, bool(adm), bool(head)),
                     dict(kind='series', series=[list(x) for x in ser], value=n, admitted=bool(adm)))
            if got != bool(keep):
                report(ctx, ('corr-serial', 'pass' if keep else 'constraints', 'strict' if strict else 'minmax',
                             'as-coded' if got == bool(head) else 'unlike-coded'),
                       'constraints applied in series at reference sites %s: model Check/Serial.v (repaired rule = '
                       'specification) %s the value %d, /repo %s it (%s the rule as coded)'
                       % (ser, 'admits' if keep else 'rejects', n, 'admits' if got else 'rejects',
                          'as' if got == bool(head) else 'and unlike'),
                       dict(kind='corr-serial', spec=text, type=name, value=repr(v),
                            expected=['pass' if keep else 'constraints', '' if keep else name]))
            else:
                agree += 1
    ctx.extra['serial_series'] = len(items)
    ctx.extra['serial_model_vs_impl_agreements'] = agree
    for t in ('serial_head_agrees', 'serial_keep_bounds_agrees', 'serial_head_refuted', 'serial_ext_child_keeps_parent',
              'collapse_admits'):
        ctx.obligation('Check/SerialProofs.v:' + t, True, 'built (gate: no Admitted/Axiom); Print Assumptions closed at build')


def replay_findings(ctx, findings):
    for f in findings:
        w = f['witness']
        spec = lib.compile_string(w['spec'], w.get('codec', 'ber'))
        got = lib_observe(spec, w['type'], eval(w['value']))
        if got[0] != w['expected']:
            ctx.known_finding(f['id'], f['what'])
        else:
            print('known finding %s no longer reproduces (got %r)' % (f['id'], got))


def replay(ctx):
    doc = json.load(open(ctx.replay))
    r = doc['replay']
    print('replaying', r.get('kind'))
    if 'spec' in r and 'type' in r:
        for c in ([r['codec']] if 'codec' in r else ['ber']):
            spec = lib.compile_string(r['spec'], c)
            if 'value' in r:
                print(c, 'encode(check_constraints=True) ->', lib_observe(spec, r['type'], eval(r['value'])),
                      'expected', r.get('expected') or r.get('model'))
            if 'data' in r:
                print(c, 'decode(check_constraints=True) ->',
                      lib.attempt(spec.decode, r['type'], bytes.fromhex(r['data']), check_constraints=True)[:2],
                      'expected', r.get('expected'))


def run(ctx):
    if ctx.replay:
        return replay(ctx)
    ctx.rule = ('case = (type shape, mutated component kind, which bound, offset -1/0/+1 or alphabet in/out, expected '
                'verdict); every case runs on 8 codecs (encode with check_constraints=True), a sample also through '
                'decode(check_constraints=True); non-trivial = every case (all are boundary values of a constrained or '
                'deliberately unconstrained component inside a generated module)')
    # C11C12_SKIP_PROOFS=1 is for the mutation self-test only (the obligations do not depend on /repo)
    ok = True if os.environ.get('C11C12_SKIP_PROOFS') else ctx.coq_props(extra_targets=['theories/Check/SerialProofs.vo'])
    ctx.log('obligations checked')
    findings = common.load_findings('C11')
    replay_findings(ctx, findings)
    batches = []
    dec_budget = [40 if ctx.quick else 600]
    mod, values = fixed_module(minmax=True)
    em = G.effective(mod)
    g = gen_asn1.Gen(ctx.rng, gen_asn1.Opts())
    g.types = em['types']
    run_module(ctx, mod, em, G.render_module(mod), g, values, 500, batches, dec_budget)
    dropped = 0
    nmod = 14 if ctx.quick else 150
    for i in range(nmod):
        opts = gen_asn1.Opts(max_depth=3, n_types=5, recursion=True, big=(i % 5 == 4),
                             str_kinds=list(gen_asn1.KM_KINDS) + ['UTF8String', 'BMPString', 'GeneralString'])
        mod, em, text, g = G.generate(ctx.rng, opts, serial=True)
        dropped += mod.get('serial_dropped', 0)
        run_module(ctx, mod, em, text, g, None, 50 if ctx.quick else 130, batches, dec_budget)
    ctx.extra['serial_dropped_illegal'] = dropped
    ctx.log('property test done, %d evaluations' % ctx.evaluations)
    corr(ctx, batches)
    ctx.log('correspondence done')
    serial_corr(ctx, [b.em for b in batches])
    ctx.log('serial constraints: model / specification / oracle / /repo done')
    ctx.trusted_base += [
        'harness/gen_asn1.py + c11c12_gen.py: the abstract type is rendered to ASN.1 text and exported to Coq by two '
        'independent printers; resolution of MIN/MAX/named numbers/value references is done by the generator',
        'c11c12_oracle.admits: Python re-implementation of Check/Admits.v used as PT oracle',
        'c11c12_gen.series_of / collapse: which constraints apply in series to a component and the single constraint '
        'exported to the Coq environment (collapse compared with Check/Serial.v on every run; series_of is generator '
        'knowledge: it wrote the reference chain)',
    ]
    ctx.extra['open_theorems'] = []
    ctx.extra['not_modelled'] = ['REAL', 'time types', 'ANY / open types', 'union and intersection constraints, '
                                 'WITH COMPONENTS, PATTERN (not interpreted by the tool; excluded by the property)']
    if not ok:
        common.proof_broken(ctx)
