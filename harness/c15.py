"""C15 — BER/DER framing helpers agree with the decoder on where a message ends."""
import common
from common import C, Nat, to_coq
import lib
import c15_forms
from asn1tools.codecs import ber


def enc_tag(number, cls, constructed, minimal=True, pad=0):
    """Independent identifier-octet writer (optionally non-minimal)."""
    first = cls | (0x20 if constructed else 0)
    if number < 31 and minimal:
        return bytes([first | number])
    digs = []
    n = number
    while True:
        digs.append(n & 0x7f)
        n >>= 7
        if n == 0:
            break
    digs += [0] * pad
    digs.reverse()
    return bytes([first | 0x1f] + [0x80 | d for d in digs[:-1]] + [digs[-1]])


def enc_len(n, pad=None):
    if pad is None:
        if n < 128:
            return bytes([n])
        b = n.to_bytes((n.bit_length() + 7) // 8, 'big')
        return bytes([0x80 | len(b)]) + b
    b = n.to_bytes(max(pad, (n.bit_length() + 7) // 8, 1), 'big')
    return bytes([0x80 | len(b)]) + b


def probe_impl(data):
    r = lib.attempt(ber.decode_full_length, data)
    if r[0] == 'ok':
        return -1 if r[1] is None else r[1]
    return -2 if r[1] == 'decode' else -3


def gen_header_cases(ctx, n):
    rng = ctx.rng
    cases = []
    numbers = [0, 1, 30, 31, 32, 127, 128, 16383, 16384, 2 ** 21 - 1, 2 ** 21, 2 ** 28, 2 ** 35 + 5]
    big = 0
    lens = [0, 1, 2, 126, 127, 128, 129, 255, 256, 257, 65535, 65536, 70000]
    for _ in range(n):
        number = rng.choice(numbers) if rng.random() < .6 else rng.randrange(0, 1 << rng.randrange(1, 40))
        minimal = rng.random() < .8
        tag = enc_tag(number, rng.choice([0, 0x40, 0x80, 0xc0]), rng.random() < .5, minimal,
                      0 if minimal else rng.randrange(0, 3))
        L = rng.choice(lens) if rng.random() < .5 else rng.randrange(0, 400)
        if rng.random() < 0.15:
            L = rng.choice([2 ** 32, 2 ** 64 + 3, 2 ** 100])       # declared, contents never complete
        le = enc_len(L, None if rng.random() < .7 else rng.randrange(1, 6) if rng.random() < .8 else
                     rng.choice([15, 16, 17, 64, 126, 127]))     # up to 127 length octets (X.690 8.1.3.5)
        have = L if L <= 70000 else rng.randrange(0, 50)
        if have > 300 and (rng.random() < .9 or big >= 3):
            have = rng.randrange(0, 300)     # most long contents are only partly present
        elif have > 300:
            big += 1
        content = bytes(rng.randrange(256) for _ in range(have))
        tail = bytes(rng.randrange(256) for _ in range(rng.choice([0, 0, 1, 5])))
        data = tag + le + content + (tail if have == L else b'')
        hl = len(tag) + len(le)
        ks = {0, 1, len(tag), hl - 1, hl, hl + 1, len(data)} | {rng.randrange(0, len(data) + 1) for _ in range(3)}
        for k in sorted(k for k in ks if 0 <= k <= len(data)):
            cases.append((data[:k], dict(tag=tag.hex(), len=le.hex(), L=L, k=k, hl=hl)))
    # malformed headers too: indefinite length, truncated high-tag-number octets, random bytes
    for _ in range(n // 3):
        d = bytes(rng.randrange(256) for _ in range(rng.randrange(0, 8)))
        if rng.random() < .3:
            d = bytes([rng.randrange(256), 0x80]) + d
        cases.append((d, dict(random=d.hex())))
    return cases


def spec_for(rng):
    """A BER/DER type with a chosen (possibly huge) tag and a value whose
    encoding has a chosen content length."""
    number = rng.choice([0, 5, 30, 31, 127, 128, 16383, 16384, 2 ** 21, 2 ** 28])
    cls = rng.choice(['', 'APPLICATION ', 'PRIVATE '])
    n = rng.choice([0, 1, 5, 126, 127, 128, 129, 255, 256, 300, 65535, 65536, 70000])
    kind = rng.choice(['OCTET STRING', 'IA5String', 'SEQUENCE OF INTEGER', 'SEQ'])
    mode = rng.choice(['IMPLICIT', 'EXPLICIT'])
    if kind == 'OCTET STRING':
        v = bytes(rng.randrange(256) for _ in range(n))
    elif kind == 'IA5String':
        v = ''.join(chr(rng.randrange(32, 127)) for _ in range(n))
    elif kind == 'SEQUENCE OF INTEGER':
        v = [rng.randrange(-300, 300) for _ in range(min(n, 3000))]
    else:
        kind = 'SEQUENCE { a INTEGER, b OCTET STRING, c BOOLEAN OPTIONAL }'
        v = {'a': rng.randrange(-2 ** 40, 2 ** 40), 'b': bytes(rng.randrange(256) for _ in range(n))}
        if rng.random() < .5:
            v['c'] = True
    text = 'M DEFINITIONS %s TAGS ::= BEGIN T ::= [%s%d] %s END' % (mode, cls, number, kind)
    return text, v, dict(number=number, cls=cls.strip(), kind=kind.split(' {')[0], n=n, mode=mode)


def pt_framing(ctx, rounds):
    """The property itself on /repo: decode_with_length(msg + tail) and
    decode_length(msg[:k]) for every k."""
    rng = ctx.rng
    for _ in range(rounds):
        text, v, meta = spec_for(rng)
        codec = rng.choice(['ber', 'der'])
        spec = lib.compile_string(text, codec)
        msg = spec.encode('T', v)
        alone = spec.decode('T', msg)
        tail = bytes(rng.randrange(256) for _ in range(rng.choice([0, 1, 2, 7, 300])))
        if rng.random() < .5:
            # tails that look like a continuation of the message: end-of-contents octets, a further
            # segment / element, the next message of a stream
            tail = rng.choice([b'\x00\x00', b'\x00\x00\x00\x00', b'\x04\x01\x41\x00\x00', msg[:300], b'\x00',
                               b'\x24\x00\x00\x00', b'\x02\x01\x05'])
        r = lib.attempt(spec.decode_with_length, 'T', msg + tail)
        ctx.case(('pt', codec, meta['number'], meta['kind'], meta['n'], meta['mode'], len(tail) > 0),
                 dict(kind='decode_with_length', spec=text, codec=codec, msg_len=len(msg), tail_len=len(tail)))
        ctx.count('pt:%s:%s' % (codec, meta['kind']))
        if r != ('ok', (alone, len(msg))):
            got = r[1] if r[0] == 'ok' else r[1:]
            ctx.violation('decode_with_length(msg+tail) != (decode(msg), len(msg)): got %r' % (
                (got[1] if r[0] == 'ok' else got),),
                dict(kind='decode_with_length', spec=text, codec=codec, msg=msg.hex()[:400], msg_len=len(msg),
                     tail=tail.hex()[:80], value=repr(v)[:300]))
            continue
        # header length from an independent TLV reading
        hl = header_len(msg)
        ks = range(len(msg) + 1) if len(msg) < 600 else list(range(0, hl + 40)) + \
            [rng.randrange(hl, len(msg) + 1) for _ in range(40)] + [len(msg) - 1, len(msg)]
        full = msg + tail
        for k in list(ks) + [len(full)]:
            got = lib.attempt(spec.decode_length, full[:k])
            want = ('ok', len(msg) if k >= hl else None)
            ctx.evaluations += 1
            if got != want:
                ctx.violation('decode_length(prefix of %d octets) = %r, expected %r' % (k, got[1:], want[1]),
                              dict(kind='decode_length', spec=text, codec=codec, msg=full[:max(k, hl + 4)].hex()[:400],
                                   k=k, header_len=hl, msg_len=len(msg)))
                break


def header_len(msg):
    i = 1
    if msg[0] & 0x1f == 0x1f:
        while msg[i] & 0x80:
            i += 1
        i += 1
    if msg[i] & 0x80:
        return i + 1 + (msg[i] & 0x7f)
    return i + 1


def corr_headers(ctx, n):
    cases = gen_header_cases(ctx, n)
    pairs = []
    for data, meta in cases:
        want = probe_impl(data)
        pairs.append((bytes(data), want))
        ctx.case(('hdr', meta.get('tag'), meta.get('len'), min(meta.get('k', -1), meta.get('hl', 0) + 2)),
                 dict(kind='probe', data=data.hex()[:80], impl=want, **{k: v for k, v in meta.items() if k != 'random'}))
        ctx.count('corr:probe:' + ('none' if want == -1 else 'decode-error' if want == -2 else
                                   'foreign' if want == -3 else 'length'))
    body = '''
Definition probe (d : list Z) : Z :=
  match decode_full_length d with
  | Ok (Some n) => n | Ok None => -1 | Err EDecode => -2 | Err _ => -3 end.
Definition cases : list (list Z * Z) := %s.
Eval vm_compute in mismatches Z.eqb probe cases.
''' % to_coq(pairs)
    (bad,) = ctx.coq_eval('probe', ['Base.Prelude', 'Base.Corr', 'Ber.Header'], body)
    for i in bad:
        data, meta = cases[i]
        (mv,) = ctx.coq_eval('probe1', ['Base.Prelude', 'Ber.Header'],
                             'Eval vm_compute in decode_full_length %s.\n' % to_coq(bytes(data)))
        ctx.violation('model and ber.decode_full_length disagree on %s: impl %r model %r' % (data.hex()[:60], pairs[i][1], mv),
                      dict(kind='corr-probe', data=data.hex(), impl=pairs[i][1], model=repr(mv)))
    # encode_tag / encode_length_definite against the model
    rng = ctx.rng
    tl = []
    for _ in range(n):
        number = rng.choice([0, 30, 31, 127, 128, 16383, 16384, 2 ** 28]) if rng.random() < .5 else rng.randrange(0, 1 << rng.randrange(1, 40))
        flags = rng.choice([0, 0x20, 0x40, 0x80, 0xa0, 0xc0, 0xe0])
        L = rng.choice([0, 127, 128, 255, 256, 65535, 65536, 2 ** 32]) if rng.random() < .5 else rng.randrange(0, 1 << rng.randrange(1, 70))
        tl.append(((number, flags, L), list(ber.encode_tag(number, flags)) + [-1] + list(ber.encode_length_definite(L))))
        ctx.case(('enc', number.bit_length(), flags, L.bit_length()))
    body = '''
Definition f (c : Z * Z * Z) : list Z := let '(n, fl, L) := c in encode_tag n fl ++ [-1] ++ encode_length_definite L.
Definition cases : list ((Z * Z * Z) * list Z) := %s.
Eval vm_compute in mismatches zlist_eqb f cases.
''' % to_coq(tl)
    (bad,) = ctx.coq_eval('enc', ['Base.Prelude', 'Base.Corr', 'Ber.Header'], body)
    for i in bad:
        ctx.violation('model and ber.encode_tag/encode_length_definite disagree on %r' % (tl[i][0],),
                      dict(kind='corr-enc', input=tl[i][0], impl=tl[i][1]))


def replay(ctx):
    import json
    doc = json.load(open(ctx.replay))
    r = doc['replay']
    print('replaying', r.get('kind'))
    if r.get('kind', '').startswith('forms-'):
        spec = lib.compile_string(r['spec'], 'ber')
        msg = bytes.fromhex(r['msg'])
        print(r['spec'])
        print('form:', r.get('form'), ' type:', r['type'], ' msg:', msg.hex())
        print('decode_with_length(msg)        ->', lib.attempt(spec.decode_with_length, r['type'], msg))
        if 'tail' in r:
            print('decode_with_length(msg + %s) ->' % r['tail'],
                  lib.attempt(spec.decode_with_length, r['type'], msg + bytes.fromhex(r['tail'])),
                  ' expected end offset', len(msg))
        if 'k' in r:
            print('decode_length(first %d octets) ->' % r['k'], lib.attempt(spec.decode_length, bytes.fromhex(r['data'])[:r['k']]),
                  ' expected', len(msg) if r['k'] >= r['header_len'] else None)
        print('decode_length(msg)             ->', lib.attempt(spec.decode_length, msg))
    elif r.get('kind') in ('decode_with_length', 'decode_length'):
        spec = lib.compile_string(r['spec'], r['codec'])
        if r['kind'] == 'decode_length':
            print('decode_length ->', lib.attempt(spec.decode_length, bytes.fromhex(r['msg'])[:r['k']]),
                  'expected', r['msg_len'] if r['k'] >= r['header_len'] else None)
    elif r.get('kind') == 'corr-probe':
        print('impl:', probe_impl(bytes.fromhex(r['data'])), 'model said', r['model'])


def run(ctx):
    if ctx.replay:
        return replay(ctx)
    ctx.rule = ('header cases: (tag number x class x minimal/padded) x (length value x short/long/padded form) x prefix '
                'length k around every boundary; distinct by (tag octets, length octets, k relative to header); '
                'PT cases: (codec, tag number, type kind, content size, tagging mode, tail?) on /repo; non-trivial = '
                'multi-octet tag or long-form length or k strictly inside the header; '
                'forms cases (round 5): (type shape, focus string leaf written in each catalogue shape x length form x '
                'enclosing length forms) x 8-10 adversarial tails x prefixes around the header')
    # one build (one wait for the build lock) for everything the case files import
    import_sets = [['Base.Prelude', 'Base.Corr', 'Ber.Header'], ['Base.Prelude', 'Ber.Header'], c15_forms.IMPORTS]
    needs = [tuple(sorted('theories/%s.vo' % i.replace('.', '/') for i in imps)) for imps in import_sets]
    # helper layer regenerated from the source (translator/pyfun.py) BEFORE the theorems are checked against it
    import pyfun_tie
    _tie = pyfun_tie.run_tie(ctx, budget=400)
    ok = ctx.coq_props(extra_targets=sorted({t for need in needs for t in need} | {c15_forms.AGREE_V + 'o'}))
    pyfun_tie.report(ctx, _tie, functions=['skip_tag', 'decode_length', 'skip_tag_length_contents', 'decode_full_length',
                                           'encode_tag', 'encode_length_definite'])
    ctx.log('Props/C15.v audited')
    if ok:
        ctx._built.update(needs)       # (otherwise coq_eval builds what it needs itself)
    ok = c15_forms.audit_agree(ctx, built=ok) and ok
    ctx.log('Ber/HeaderAgree.v audited')
    ctx.trusted_base += [
        'harness/c15_forms.py: deterministic TLV writer (catalogue of string shapes / length forms) on top of '
        'codec_ber.py\'s independent parser and typed walker; every tree it writes is checked by X690.ber_check',
        'Ber/X690.v part 2 (bwf, bser, bread): the notion of "valid BER encoding" in HeaderAgree.probe_agrees_with_decoder']
    n = 120 if ctx.quick else 1500
    corr_headers(ctx, n)
    ctx.log('header correspondence done')
    pt_framing(ctx, 40 if ctx.quick else 600)
    ctx.log('encoder-output framing done')
    c15_forms.pt_forms(ctx, ctx.quick)
    if not ok:
        common.proof_broken(ctx)
