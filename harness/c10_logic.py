"""C10 — the static encoded-length arithmetic of the OER C generator against its
Coq model (CGen/GenLogicOer.v; theorems in GenLogicOerProofs.v):
oer.get_length_determinant_length (compared with both the model of the tree as it
is - proved wrong on 1677726..16777215 - and the repaired one - proved equal to
X.696 and to the C helper), get_sequence_present_mask_length,
get_sequence_additions_mask_length, _Generator.get_enumerated_value_length."""
import common
from common import to_coq
import asn1tools
from asn1tools.source.c import oer as c_oer


def run(ctx, rng):
    ns = [0, 1, 127, 128, 255, 256, 65535, 65536, 1677725, 1677726, 1677727, 2000000, 16777215, 16777216, 2 ** 32 - 1]
    ns += [rng.randrange(0, 2 ** rng.choice([7, 8, 16, 21, 24, 25, 32])) for _ in range(150 if ctx.quick else 2000)]
    ld = [(n, c_oer.get_length_determinant_length(n)) for n in ns]
    pm = []
    for _ in range(80):
        o, e = rng.randrange(0, 70), rng.randrange(2)
        pm.append(((o, e), c_oer.get_sequence_present_mask_length([None] * o, e)))
    am = [(k, c_oer.get_sequence_additions_mask_length([None] * k)) for k in list(range(0, 40)) + [63, 64, 65, 255, 256]]
    g = c_oer._Generator('ns')
    g.module_name = 'M'
    g.type_name = 'T'
    ev = []
    for v in [0, 127, 128, -1, -128, -129, 32767, 32768, -32768, -32769, 8388607, 8388608, -8388608, -8388609, 2 ** 31 - 1,
              -2 ** 31, 2 ** 31, -2 ** 31 - 1] + [rng.randrange(-2 ** 33, 2 ** 33) for _ in range(60)]:
        try:
            r = g.get_enumerated_value_length(v)
        except asn1tools.errors.Error:
            r = -1
        ev.append((v, r))
    # INTEGER: static length = type_length // 8, against X.696 (model) and against what the Python codec really emits
    import c09_types as T
    import lib
    il = []
    for lo, hi in rng.sample(T.INT_RANGES, 40):
        try:
            w = g.type_length(lo, hi) // 8
        except asn1tools.errors.Error:
            w = -1
        il.append(((lo, hi), w))
        if w > 0:
            r = lib.attempt(lambda: len(lib.compile_string(
                'M DEFINITIONS AUTOMATIC TAGS ::= BEGIN A ::= INTEGER (%d..%d) END' % (lo, hi), 'oer').encode('A', lo)))
            if r[0] == 'ok' and r[1] != w:
                ctx.violation('static length of INTEGER (%d..%d) is %d octets, the Python OER codec emits %d' % (lo, hi, w, r[1]),
                              dict(kind='logic-integer-length', range=[lo, hi], generator=w, python=r[1]))
    body = '''
Definition ilc : list ((Z * Z) * Z) := %s.
Eval vm_compute in mismatches Z.eqb (fun c => match x696_int_octets (fst c) (snd c) with Some k => k | None => -1 end) ilc.
Definition ldc : list (Z * Z) := %s.
Eval vm_compute in mismatches Z.eqb gen_length_determinant_length ldc.
Eval vm_compute in mismatches Z.eqb gen_length_determinant_length_fixed ldc.
Definition pmc : list ((Z * Z) * Z) := %s.
Eval vm_compute in mismatches Z.eqb (fun c => present_mask_length (fst c) (snd c)) pmc.
Definition amc : list (Z * Z) := %s.
Eval vm_compute in mismatches Z.eqb additions_mask_length amc.
Definition evc : list (Z * Z) := %s.
Eval vm_compute in mismatches Z.eqb (fun v => match gen_enumerated_value_length v with Some k => k | None => -1 end) evc.
''' % (to_coq(il), to_coq(ld), to_coq(pm), to_coq(am), to_coq(ev))
    bad_il, bad_ld, bad_ldf, bad_pm, bad_am, bad_ev = ctx.coq_eval(
        'oer_logic', ['Base.Prelude', 'Base.Corr', 'CGen.Helpers', 'CGen.OerHelpers', 'CGen.GenLogicOer'], body)
    ctx.evaluations += len(ld) + len(pm) + len(am) + len(ev) + len(il)
    for i in bad_il[:1]:
        ctx.violation('static length of INTEGER (%d..%d) = %d octets differs from X.696 clause 10 (model x696_int_octets)' % (
            il[i][0][0], il[i][0][1], il[i][1]), dict(kind='logic-integer-length', range=list(il[i][0]), generator=il[i][1]))
    ctx.count('logic:oer-static-length', len(ld))
    if bad_ld and bad_ldf:
        i = bad_ld[0] if bad_ld[0] in bad_ldf else bad_ldf[0]
        ctx.violation('oer.get_length_determinant_length(%d) = %d agrees neither with the model of the unrepaired tree nor with '
                      'the repaired one' % ld[i], dict(kind='logic-length-determinant-length', n=ld[i][0], python=ld[i][1]))
    elif not bad_ld:
        ctx.extra['length_determinant_length_variant'] = 'as in /repo at the time of writing (1677726 typo, refuted)'
        fs = [f for f in common.load_findings('C10') if f['id'] == 'oer-length-determinant-length-typo']
        what = ('oer.get_length_determinant_length(2000000) = %d, X.696 needs 4 octets (theorem '
                'gen_length_determinant_length_refuted)' % c_oer.get_length_determinant_length(2000000))
        if fs:
            ctx.known_finding(fs[0]['id'], fs[0]['what'] + ' [' + what + ']')
        else:
            ctx.violation(what, dict(kind='logic-length-determinant-length', n=2000000, python=5))
    else:
        ctx.extra['length_determinant_length_variant'] = 'repaired (gen_length_determinant_length_fixed_sound)'
    for bad, cases, name in ((bad_pm, pm, 'get_sequence_present_mask_length'), (bad_am, am, 'get_sequence_additions_mask_length'),
                             (bad_ev, ev, 'get_enumerated_value_length')):
        for i in bad[:1]:
            ctx.violation('oer.%s%r = %r differs from the model' % (name, cases[i][0], cases[i][1]),
                          dict(kind='logic-' + name, args=cases[i][0], python=cases[i][1]))
