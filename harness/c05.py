"""C05 — PER and UPER encodings are bit-exact X.691."""
import json

import common
import codec_common as CC
import codec_uper as U
import boundary
import xcodec as X
import gen_asn1 as G
import lib

FINDING_WITNESSES = 'known_findings/C05.json'


def rerun_findings(ctx):
    """Re-run every recorded witness; a witness that still fails prints KNOWN-FINDING,
    one that no longer fails is simply not reported (a fixed entry suppresses nothing)."""
    for f in common.load_findings(ctx.pid):
        w = f['witness']
        still = False
        for codec in w.get('codecs', ['uper']):
            r = lib.attempt(lib.compile_string, w['spec'], codec)
            if r[0] != 'ok':
                still = still or w.get('expect') == 'compile-error'
                continue
            v = eval(w['value'])
            e = lib.attempt(r[1].encode, w['type'], v)
            if e[0] != 'ok':
                still = True
            elif 'x691' in w:
                still = still or e[1].hex() != w['x691']
            else:
                d = lib.attempt(r[1].decode, w['type'], e[1])
                still = still or d[0] != 'ok' or d[1] != v
        if still:
            ctx.known_finding(f['id'], f['what'])


def run(ctx):
    if ctx.replay:
        doc = json.load(open(ctx.replay))['replay']
        spec = lib.compile_string(doc['spec'], doc.get('codec', 'uper'), numeric_enums=doc.get('numeric_enums', False))
        print('library:', lib.attempt(spec.encode, doc['type'], eval(doc['value'])))
        return
    ctx.rule = ('modules from harness/gen_asn1.py (all modelled kinds, extensible constraints, additions and groups, '
                'references/recursion) x boundary-biased values x numeric_enums; distinct by (codec, type shape, value '
                'prefix); non-trivial = every case (each compares complete bit strings of a generated type)')
    ok = ctx.coq_props()
    n = 60 if ctx.quick else 900
    opts = G.Opts(**U.OPTS)
    cases = CC.gen_cases(ctx, opts, n, 3)
    CC.corr_encode_decode(ctx, U, cases)
    if not ctx.quick:
        big = G.Opts(big=True, max_depth=1, n_types=2, **U.OPTS)
        CC.corr_encode_decode(ctx, U, CC.gen_cases(ctx, big, 40, 2), tag='corr-big', shard=20)
    mods = X.models()
    for codec in ('uper', 'per'):
        if codec in mods and codec != 'uper':
            CC.corr_encode_decode(ctx, mods[codec], CC.gen_cases(ctx, G.Opts(**mods[codec].OPTS), n, 3))
    boundary.run(ctx, ['uper', 'per'], mods, roundtrip=False,
                 lengths=None if not ctx.quick else 'quick')
    rerun_findings(ctx)
    ctx.extra['open_theorems'] = ['uper_refines_x691 (whole types): OPEN', 'aligned PER: modelled (Per/PerImpl.v) and compared bit for bit; its round-trip/prefix theorems are OPEN']
    if not ok:
        common.proof_broken(ctx)
