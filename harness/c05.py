"""C05 — PER and UPER encodings are bit-exact X.691."""
import json

import common
import codec_common as CC
import codec_uper as U
import boundary
import xcodec as X
import gen_asn1 as G
import lib
import c05_refsites as RS

FINDING_WITNESSES = 'known_findings/C05.json'


def rerun_findings(ctx):
    """Re-run every recorded witness; a witness that still fails prints KNOWN-FINDING,
    one that no longer fails is simply not reported (a fixed entry suppresses nothing)."""
    for f in common.load_findings(ctx.pid):
        w = f['witness']
        still = False
        for codec in w.get('codecs', ['uper']):
            r = lib.attempt(lib.compile_string, w['spec'], codec)
            if r[0] != 'ok':
                still = still or w.get('expect') == 'compile-error'
                continue
            v = eval(w['value'])
            e = lib.attempt(r[1].encode, w['type'], v)
            if e[0] != 'ok':
                still = True
            elif 'x691' in w:
                still = still or e[1].hex() != w['x691']
            else:
                d = lib.attempt(r[1].decode, w['type'], e[1])
                still = still or d[0] != 'ok' or d[1] != v
        if still:
            ctx.known_finding(f['id'], f['what'])


def sm_vs_library(ctx, cases, codec='uper', tag='', shard=150):
    """The X.691 specification model (Per/X691.v) against uper.py directly: on every generated case inside
    x691_scope the library's octets must be the specification's (this is the composition of the correspondence
    IM = library with the theorem IM = SM, executed end to end); the share of cases inside the scope is reported.

    Reference-site cases (c05_refsites.SiteCase) are evaluated on the SURFACE module: the environment is computed
    in Coq by Per/RefSite.v [elab_env] from the definitions as written and the list of constrained sites, and the
    type is the plain reference to the case's type, so what a constrained reference means comes from the
    specification side and not from the Python `effective` rewriting used for the implementation model."""
    from common import to_coq, C
    rows = []
    for c in cases:
        r = lib.attempt(lib.compile_string, c.text, codec, numeric_enums=c.numeric)
        if r[0] != 'ok':
            continue
        e = lib.attempt(r[1].encode, c.tname, c.api_value())
        rows.append((c, e))
    shards, index = [], []
    for s0 in range(0, len(rows), shard):
        part = rows[s0:s0 + shard]
        envs, lines, cells = {}, [], []
        for c, e in part:
            key = (id(c.mod), c.numeric)
            site = isinstance(c, RS.SiteCase)
            if key not in envs:
                envs[key] = 'env%d' % len(envs)
                if site:
                    senv, ds = RS.coq_surface(c.amod, c.numeric)
                    lines.append('Definition s%s : env := %s.' % (envs[key], to_coq(senv)))
                    lines.append('Definition d%s : list derived := %s.' % (envs[key], to_coq(ds)))
                    lines.append('Definition %s : env := elab_env_or_empty s%s d%s.' % (envs[key], envs[key], envs[key]))
                else:
                    lines.append('Definition %s : env := %s.' % (envs[key], to_coq(G.coq_env(c.mod, c.numeric))))
            ty = to_coq(C('TRef', c.tname)) if site else to_coq(G.coq_type(c.rt, c.t, c.numeric))
            val = to_coq(G.coq_value(c.rt, c.t, c.api_value()))
            nm = 'true' if c.numeric else 'false'
            want = to_coq(bytes(e[1])) if e[0] == 'ok' else '[]'
            # third component: the surface module is well formed (every constrained site elaborates)
            wf = ('match elab_env s%s d%s with Some _ => true | None => false end' % (envs[key], envs[key])) if site else 'true'
            if codec == 'uper':
                cells.append('(x691_scope %s %s 40 %s %s, match x691_encode_octets %s %s 40 %s %s with Ok b => '
                             'if list_eqb Z.eqb b %s then 1 else 0 | Err _ => 2 end, %s)' % (
                                 nm, envs[key], ty, val, nm, envs[key], ty, val, want, wf))
            else:
                # aligned: the reading pad_empty = true (an empty octet-aligned bit-field still pads)
                cells.append('(x691a_scope true %s %s 40 %s %s, match x691a_encode_octets %s %s true 40 %s %s with Ok b => '
                             'if list_eqb Z.eqb b %s then 1 else 0 | Err _ => 2 end, %s)' % (
                                 nm, envs[key], ty, val, nm, envs[key], ty, val, want, wf))
        lines.append('Eval vm_compute in [%s].' % ';\n '.join(cells))
        shards.append('\n'.join(lines) + '\n')
        index.append(part)
    res = CC.run_shards(ctx, 'x691_' + tag + codec, ['Base.Prelude', 'Base.Corr', 'Syntax.Asn1', 'Per.UperImpl', 'Per.X691', 'Per.X691Refine'] +
                        (['Per.PerImpl', 'Per.X691Aligned', 'Per.X691AlignedRefine'] if codec == 'per' else []) +
                        (['Per.RefSite'] if tag else []), shards)
    for part, r in zip(index, res):
        (cells,) = r
        for (c, e), (inscope, verdict, wf) in zip(part, cells):
            ctx.evaluations += 1
            inscope = inscope in (True, 'true')
            ctx.count('x691-scope:%s%s:%s' % (tag, codec, 'in' if inscope else 'out'))
            if wf not in (True, 'true'):
                ctx.violation('harness: a generated surface module does not elaborate in Per/RefSite.v (generator and '
                              'specification disagree about what can be written)', c.replay(codec=codec, kind='x691-elab'))
                continue
            if not inscope:
                continue
            empty = e[0] == 'ok' and e[1] == b''
            if e[0] == 'ok' and verdict != 1 and not empty:
                ctx.violation('%s: a value inside the X.691 scope is encoded as %s, not as the specification model '
                              'prescribes' % (codec, e[1].hex()[:80]),
                              c.replay(codec=codec, kind='x691', lib=e[1].hex()))
            elif e[0] != 'ok' and verdict != 2:
                ctx.violation('%s: a value inside the X.691 scope that the specification model encodes is rejected: %s %s'
                              % (codec, e[1], e[2][:100]), c.replay(codec=codec, kind='x691'))


def run(ctx):
    if ctx.replay:
        doc = json.load(open(ctx.replay))['replay']
        spec = lib.compile_string(doc['spec'], doc.get('codec', 'uper'), numeric_enums=doc.get('numeric_enums', False))
        print('library:', lib.attempt(spec.encode, doc['type'], eval(doc['value'])))
        return
    ctx.rule = ('modules from harness/gen_asn1.py (all modelled kinds, extensible constraints, additions and groups, '
                'references/recursion) and from harness/c05_refsites.py (same-named reference sites of one named type '
                'with per-site SIZE / range / OPTIONAL / DEFAULT / tag, AUTOMATIC / IMPLICIT / EXPLICIT TAGS) x '
                'boundary-biased values x numeric_enums; distinct by (codec, type shape, value '
                'prefix); non-trivial = every case (each compares complete bit strings of a generated type)')
    # helper layer regenerated from the source (translator/pyfun.py) BEFORE the theorems are checked against it
    import pyfun_tie
    _tie = pyfun_tie.run_tie(ctx, budget=400)
    ok = ctx.coq_props()
    pyfun_tie.report(ctx, _tie, functions=['integer_as_number_of_bits', 'integer_as_number_of_bits_power_of_two', 'size_as_number_of_bytes', 'is_unbound', 'to_int', 'to_byte_array'])

    n = 60 if ctx.quick else 900
    opts = G.Opts(**U.OPTS)
    cases = CC.gen_cases(ctx, opts, n, 3)
    CC.corr_encode_decode(ctx, U, cases)
    sm_vs_library(ctx, cases)
    if not ctx.quick:
        big = G.Opts(big=True, max_depth=1, n_types=2, **dict(U.OPTS, recursion=False))
        CC.corr_encode_decode(ctx, U, CC.gen_cases(ctx, big, 40, 2), tag='corr-big', shard=20)
    mods = X.models()
    for codec in ('uper', 'per'):
        if codec in mods and codec != 'uper':
            pcases = CC.gen_cases(ctx, G.Opts(**mods[codec].OPTS), n, 3)
            CC.corr_encode_decode(ctx, mods[codec], pcases)
            sm_vs_library(ctx, pcases, codec)
    # round 5: reference sites that share the compile layer's cache key (same component name, same referenced
    # type), each with its own constraint / OPTIONAL / DEFAULT / tag, with and without AUTOMATIC TAGS
    nsite = 20 if ctx.quick else 400
    for codec in ('uper', 'per'):
        cm = U if codec == 'uper' else mods.get(codec)
        if cm is None:
            continue
        scases = RS.gen_cases(ctx, G.Opts(**cm.OPTS), nsite, 2)
        if not ctx.quick:
            # implementation models on the effective module (all cases, decoder included); the quick tier keeps the
            # specification path only (one Coq evaluation per codec; ~91 % of the cases are inside the X.691 scope)
            CC.corr_encode_decode(ctx, cm, scases, tag='corr-sites')
        sm_vs_library(ctx, scases, codec, tag='sites-', shard=400 if ctx.quick else 150)
    boundary.run(ctx, ['uper', 'per'], mods, roundtrip=False,
                 lengths=None if not ctx.quick else 'quick')
    rerun_findings(ctx)
    ctx.extra['open_theorems'] = ['aligned PER: refinement to an aligned serialiser of the X.691 field list is OPEN']
    if not ok:
        common.proof_broken(ctx)
