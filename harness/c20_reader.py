"""An independent reader for RFC 3641 (GSER) value notation.

Written from the RFC's ABNF (section 3), not from asn1tools/codecs/gser.py:

  sp = *%x20   msp = 1*%x20
  identifier      = lowercase *alphanumeric *(hyphen 1*alphanumeric)
  BooleanValue    = "TRUE" / "FALSE"          NullValue = "NULL"
  IntegerValue    = "0" / positive-number / ("-" positive-number) / identifier
  EnumeratedValue = identifier
  BitStringValue  = bstring / hstring / bit-list
  bstring = squote *binary-digit squote "B"   hstring = squote *hex-digit squote "H"  (A-F upper case)
  bit-list = "{" [ sp identifier *( "," sp identifier ) ] sp "}"
  OctetStringValue = hstring
  StringValue     = dquote *SafeUTF8Character dquote     (a dquote inside is written twice)
  ObjectIdentifierValue = numeric-oid = oid-component 1*( "." oid-component )
  RealValue       = "0" / "PLUS-INFINITY" / "MINUS-INFINITY" / realnumber / "-" realnumber
  realnumber      = mantissa exponent
  mantissa        = (positive-number [ "." *decimal-digit ]) / ( "0." *("0") positive-number )
  exponent        = "E" ( "0" / ([ "-" ] positive-number) )
  SequenceValue = SetValue = "{" [ sp NamedValue *( "," sp NamedValue ) ] sp "}"
  NamedValue      = identifier msp Value
  SequenceOfValue = SetOfValue = "{" [ sp Value *( "," sp Value ) ] sp "}"
  ChoiceValue     = identifier ":" Value

Types are the abstract type dicts of gen_asn1.py ({'k': kind, ...}) plus
{'k': 'REAL'}.  The result is the abstract value: SEQUENCE/SET as a dict with
absent DEFAULT members filled in, lists, (name, value) for CHOICE, bytes,
(bytes, nbits), str, int, bool, None, dotted str for OBJECT IDENTIFIER, float.

Dialect switches (both off = the RFC to the letter):
  nl        line feed counts as white space (the library's indented layout)
  colon_sp  white space allowed around the CHOICE colon (X.680 style)
"""
import re


class Reject(Exception):
    def __init__(self, pos, msg):
        Exception.__init__(self, 'at %d: %s' % (pos, msg))
        self.pos = pos


IDENT = re.compile(r'[a-z][A-Za-z0-9]*(?:-[A-Za-z0-9]+)*')
TYPEREF = re.compile(r'[A-Z][A-Za-z0-9]*(?:-[A-Za-z0-9]+)*')
NUMBER = re.compile(r'0|[1-9][0-9]*')
REALNUM = re.compile(r'(?:[1-9][0-9]*(?:\.[0-9]*)?|0\.0*[1-9][0-9]*)E(?:0|-?[1-9][0-9]*)')
IDCHAR = re.compile(r'[A-Za-z0-9-]')


class Reader(object):
    def __init__(self, text, resolve, nl=False, colon_sp=False):
        self.s = text
        self.i = 0
        self.resolve = resolve
        self.ws = ' \n' if nl else ' '
        self.colon_sp = colon_sp

    # -- lexical ------------------------------------------------------------
    def fail(self, msg):
        raise Reject(self.i, msg + ' near %r' % self.s[self.i:self.i + 20])

    def sp(self):
        while self.i < len(self.s) and self.s[self.i] in self.ws:
            self.i += 1

    def msp(self):
        if not (self.i < len(self.s) and self.s[self.i] in self.ws):
            self.fail('white space expected')
        self.sp()

    def peek(self, lit):
        return self.s.startswith(lit, self.i)

    def lit(self, lit):
        if not self.peek(lit):
            self.fail('%r expected' % lit)
        self.i += len(lit)

    def rx(self, rx, what):
        m = rx.match(self.s, self.i)
        if not m:
            self.fail(what + ' expected')
        self.i = m.end()
        return m.group(0)

    def word(self, rx, what):
        """A token that must not run into further identifier characters."""
        w = self.rx(rx, what)
        if self.i < len(self.s) and IDCHAR.match(self.s[self.i]):
            self.fail('malformed ' + what)
        return w

    # -- values -----------------------------------------------------------------
    def value(self, t):
        t = self.resolve(t)
        k = t['k']
        if k == 'BOOLEAN':
            if self.peek('TRUE'):
                self.i += 4
                return True
            self.lit('FALSE')
            return False
        if k == 'NULL':
            self.lit('NULL')
            return None
        if k == 'INTEGER':
            if self.i < len(self.s) and self.s[self.i].islower() and t.get('named'):
                name = self.word(IDENT, 'identifier')
                if name not in dict(t['named']):
                    self.fail('unknown named number')
                return dict(t['named'])[name]
            neg = self.peek('-')
            if neg:
                self.i += 1
            n = self.rx(NUMBER, 'number')
            if self.i < len(self.s) and self.s[self.i].isdigit():
                self.fail('leading zero')
            if neg and n == '0':
                self.fail('-0')
            return -int(n) if neg else int(n)
        if k == 'ENUMERATED':
            name = self.word(IDENT, 'identifier')
            if name not in [n for n, _ in t['root'] + (t['ext'] or [])]:
                self.fail('unknown enumeration item %r' % name)
            return name
        if k == 'BIT STRING':
            return self.bit_string(t)
        if k == 'OCTET STRING':
            return self.hstring()[0]
        if k == 'STRING':
            return self.string()
        if k == 'OBJECT IDENTIFIER':
            arcs = [self.rx(NUMBER, 'oid component')]
            while self.peek('.'):
                self.i += 1
                arcs.append(self.rx(NUMBER, 'oid component'))
            if len(arcs) < 2 or (self.i < len(self.s) and self.s[self.i].isdigit()):
                self.fail('numeric-oid needs two components without leading zeros')
            return '.'.join(arcs)
        if k == 'REAL':
            if self.peek('PLUS-INFINITY'):
                self.i += 13
                return float('inf')
            if self.peek('MINUS-INFINITY'):
                self.i += 14
                return float('-inf')
            neg = self.peek('-')
            if neg:
                self.i += 1
            m = REALNUM.match(self.s, self.i)
            if m:
                self.i = m.end()
                mant, exp = m.group(0).split('E')
                x = float(mant + 'e' + exp)
                return -x if neg else x
            if not neg and self.peek('0'):
                self.i += 1
                if self.i < len(self.s) and (self.s[self.i].isalnum() or self.s[self.i] in '.+-'):
                    self.fail('malformed real')
                return 0.0
            self.fail('real value expected')
        if k in ('SEQUENCE', 'SET'):
            return self.components(t)
        if k in ('SEQUENCE OF', 'SET OF'):
            self.lit('{')
            self.sp()
            out = []
            if self.peek('}'):
                self.i += 1
                return out
            while True:
                out.append(self.value(t['elem']))
                if self.peek(','):
                    self.i += 1
                    self.sp()
                    continue
                self.sp()
                self.lit('}')
                return out
        if k == 'CHOICE':
            name = self.word(IDENT, 'identifier')
            if self.colon_sp:
                self.sp()
            self.lit(':')
            if self.colon_sp:
                self.sp()
            for m in t['root'] + (t['ext'] or []):
                if m['name'] == name:
                    return (name, self.value(m['t']))
            self.fail('unknown alternative %r' % name)
        raise AssertionError(k)

    def hstring(self):
        self.lit("'")
        j = self.i
        while j < len(self.s) and self.s[j] in '0123456789ABCDEF':
            j += 1
        digits = self.s[self.i:j]
        self.i = j
        self.lit("'H")
        if len(digits) % 2:
            self.fail('odd number of hex digits')
        return bytes.fromhex(digits), 4 * len(digits)

    def bit_string(self, t):
        if self.peek('{'):
            # bit-list of named bits
            named = dict(t.get('named') or [])
            self.i += 1
            self.sp()
            names = []
            if not self.peek('}'):
                while True:
                    n = self.word(IDENT, 'identifier')
                    if n not in named:
                        self.fail('unknown named bit')
                    names.append(n)
                    if self.peek(','):
                        self.i += 1
                        self.sp()
                        continue
                    self.sp()
                    break
            self.lit('}')
            nbits = max([named[n] for n in names] + [-1]) + 1
            bits = ['0'] * nbits
            for n in names:
                bits[named[n]] = '1'
            return pack_bits(''.join(bits))
        self.lit("'")
        j = self.i
        while j < len(self.s) and self.s[j] in '01':
            j += 1
        if self.s.startswith("'B", j):
            bits = self.s[self.i:j]
            self.i = j + 2
            return pack_bits(bits)
        self.i -= 1
        data, n = self.hstring()
        return (data, n)

    def string(self):
        self.lit('"')
        out = []
        while True:
            if self.i >= len(self.s):
                self.fail('unterminated string')
            c = self.s[self.i]
            if c == '"':
                if self.s.startswith('""', self.i):
                    out.append('"')
                    self.i += 2
                    continue
                self.i += 1
                return ''.join(out)
            out.append(c)
            self.i += 1

    def components(self, t):
        members = list(t['root'])
        for a in (t['ext'] or []):
            members += a['group'] if 'group' in a else [a['member']]
        self.lit('{')
        self.sp()
        seen = {}
        order = []
        if not self.peek('}'):
            while True:
                name = self.word(IDENT, 'identifier')
                self.msp()
                ms = [m for m in members if m['name'] == name]
                if not ms:
                    self.fail('unknown component %r' % name)
                if name in seen:
                    self.fail('component %r twice' % name)
                seen[name] = self.value(ms[0]['t'])
                order.append(name)
                if self.peek(','):
                    self.i += 1
                    self.sp()
                    continue
                self.sp()
                break
        self.lit('}')
        if t['k'] == 'SEQUENCE':
            pos = [[m['name'] for m in members].index(n) for n in order]
            if pos != sorted(pos):
                self.fail('SEQUENCE components out of order')
        out = {}
        for m in members:
            if m['name'] in seen:
                out[m['name']] = seen[m['name']]
            elif m['opt'] == 'optional':
                pass
            elif m['opt'] is not None:
                out[m['name']] = m['opt'][1]
            else:
                self.fail('mandatory component %r missing' % m['name'])
        return out


def pack_bits(bits):
    n = len(bits)
    padded = bits + '0' * (-n % 8)
    return (bytes(int(padded[i:i + 8], 2) for i in range(0, len(padded), 8)), n)


def read_value(text, t, resolve, nl=False, colon_sp=False):
    """Value notation for a value of type t; must consume the whole text."""
    r = Reader(text, resolve, nl, colon_sp)
    v = r.value(t)
    if r.i != len(text):
        r.fail('text after the value')
    return v


def read_assignment(data, type_name, t, resolve, nl=False, colon_sp=False):
    """The library's wrapper: valuereference msp typereference msp "::=" sp Value.
    [data] is the encoder's bytes object (UTF-8)."""
    text = data.decode('utf-8')           # strict: malformed UTF-8 is a rejection
    r = Reader(text, resolve, nl, colon_sp)
    r.word(IDENT, 'valuereference')
    r.msp()
    tn = r.word(TYPEREF, 'typereference')
    if tn != type_name:
        r.fail('type name %r expected' % type_name)
    r.msp()
    r.lit('::=')
    r.sp()
    v = r.value(t)
    if r.i != len(text):
        r.fail('text after the value')
    return v
