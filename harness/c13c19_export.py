"""Specification dictionary (asn1tools.parse_string output, possibly already
rewritten by compile_dict) -> Coq term of Compile/Descr.v, as a tree of
common.C objects that is also what common.parse_coq returns for the term
printed by Coq, so that model output and implementation state compare with ==.

Fails closed (Unsupported) on anything the model does not represent.
"""
from common import C

KNOWN = ('type', 'name', 'tag', 'optional', 'default', 'values', 'named-bits', 'members', 'element')


class Unsupported(Exception):
    pass


def ascii_ok(s):
    return isinstance(s, str) and all(32 <= ord(c) < 127 for c in s)


def some(x):
    return C('Some', x)


def ex_dval(v):
    if v is True or v is False:
        return C('DvBool', v)
    if isinstance(v, int):
        return C('DvInt', v)
    if isinstance(v, str):
        if not ascii_ok(v):
            raise Unsupported('non-ASCII DEFAULT text')
        return C('DvStr', v)
    if isinstance(v, list) and all(isinstance(x, str) for x in v):
        return C('DvNames', list(v))
    if isinstance(v, tuple) and len(v) == 2 and isinstance(v[0], (bytes, bytearray)) and isinstance(v[1], int) \
            and not isinstance(v[1], bool):
        return C('DvBits', list(v[0]), v[1])
    if isinstance(v, (bytes, bytearray)):
        return C('DvBytes', list(v))
    if v is None:
        return C('DvNone')
    return C('DvOther', repr(v))


def ex_tag(t):
    if not isinstance(t, dict) or set(t) - {'number', 'class', 'kind'} or 'number' not in t:
        raise Unsupported('tag %r' % (t,))
    if not isinstance(t['number'], int) or isinstance(t['number'], bool):
        raise Unsupported('tag number %r' % (t['number'],))
    for k in ('class', 'kind'):
        if k in t and not isinstance(t[k], str):
            raise Unsupported('tag %s %r' % (k, t[k]))
    return C('Tagd', t['number'], some(t['class']) if 'class' in t else None,
             some(t['kind']) if 'kind' in t else None)


def ex_values(vs):
    out = []
    for v in vs:
        if v is None:
            out.append(None)
        elif isinstance(v, tuple) and len(v) == 2 and isinstance(v[0], str):
            if isinstance(v[1], int) and not isinstance(v[1], bool):
                out.append(some((v[0], C('EvInt', v[1]))))
            elif isinstance(v[1], str):
                out.append(some((v[0], C('EvName', v[1]))))
            else:
                raise Unsupported('enum value %r' % (v,))
        else:
            raise Unsupported('enum value %r' % (v,))
    return out


def ex_node(x):
    if x is None:
        return C('NMarker')
    if isinstance(x, list):
        return C('NGroup', [ex_node(y) for y in x])
    if not isinstance(x, dict):
        raise Unsupported('node %r' % (type(x),))
    if 'components-of' in x:
        if set(x) != {'components-of'} or not isinstance(x['components-of'], str):
            raise Unsupported('components-of with other keys')
        return C('NCompOf', x['components-of'])
    if 'type' not in x or not isinstance(x['type'], str):
        raise Unsupported('descriptor without type')
    for k in x:
        if not isinstance(k, str):
            raise Unsupported('key %r' % (k,))
    if 'optional' in x and x['optional'] is not True:
        raise Unsupported('optional: %r' % (x['optional'],))
    if 'name' in x and not isinstance(x['name'], str):
        raise Unsupported('name')
    nb = None
    if 'named-bits' in x:
        if not all(isinstance(p, tuple) and len(p) == 2 and isinstance(p[0], str) and isinstance(p[1], str)
                   for p in x['named-bits']):
            raise Unsupported('named-bits %r' % (x['named-bits'],))
        nb = some([(p[0], p[1]) for p in x['named-bits']])
    rest = sorted((k, repr(v)) for k, v in x.items() if k not in KNOWN)
    for k, r in rest:
        if not ascii_ok(k) or not ascii_ok(r):
            raise Unsupported('non-ASCII attribute')
    a = C('Attrs', x['type'], some(x['name']) if 'name' in x else None,
          some(ex_tag(x['tag'])) if 'tag' in x else None,
          'optional' in x,
          some(ex_dval(x['default'])) if 'default' in x else None,
          some(ex_values(x['values'])) if 'values' in x else None,
          nb, rest)
    ms = None
    if 'members' in x:
        if not isinstance(x['members'], list):
            raise Unsupported('members')
        ms = some([ex_node(y) for y in x['members']])
    el = some(ex_node(x['element'])) if 'element' in x else None
    return C('NType', a, ms, el)


def ex_module(name, m):
    keys = set(m)
    if not keys <= {'extensibility-implied', 'imports', 'object-classes', 'object-sets', 'tags', 'types', 'values'}:
        raise Unsupported('module keys %r' % (sorted(keys),))
    if m.get('object-classes') or m.get('object-sets'):
        raise Unsupported('object classes / sets')
    if 'tags' in m and not isinstance(m['tags'], str):
        raise Unsupported('tags')
    values = []
    for vn, vd in m['values'].items():
        if set(vd) != {'type', 'value'} or not isinstance(vd['type'], str):
            raise Unsupported('value assignment %r' % (vd,))
        values.append((vn, C('ValDef', vd['type'], ex_dval(vd['value']))))
    for tn, td in m['types'].items():
        if 'parameters' in td:
            raise Unsupported('parameterised type')
    return C('Module', name, some(m['tags']) if 'tags' in m else None, bool(m['extensibility-implied']),
             [(k, list(v)) for k, v in m['imports'].items()],
             [(tn, ex_node(td)) for tn, td in m['types'].items()], values)


def ex_dict(d):
    return [ex_module(n, m) for n, m in d.items()]


def plain_violation(x, path=()):
    """None when x is built from dict/list/tuple/str/int/bool/None/bytes only
    (what pformat/eval reproduces exactly); else the path of the offender."""
    if x is None or isinstance(x, (str, int, bytes)):
        return None
    if isinstance(x, dict):
        if type(x) is not dict:
            return path + (type(x).__name__,)
        for k, v in x.items():
            if type(k) is not str:
                return path + (repr(k),)
            r = plain_violation(v, path + (k,))
            if r:
                return r
        return None
    if type(x) in (list, tuple):
        for i, v in enumerate(x):
            r = plain_violation(v, path + (i,))
            if r:
                return r
        return None
    return path + (type(x).__name__,)
