"""C03 — DER output is the unique X.690 distinguished encoding.

  * Coq: Props/C03.v (der_refines_x690 and corollaries) about Ber/DerImpl.v
    against the independent specification Ber/X690.v.
  * Correspondence: /repo DER encode vs DerImpl.der_encode (bytes and error
    classes) and /repo DER decode vs DerImpl.der_decode (values, end offsets,
    error classes) on encoder outputs and on malformed inputs.
  * Property test on /repo: DER bytes vs X690.der_encode byte for byte, and a
    structural re-read of the bytes by the harness's own TLV parser driven by
    the abstract module (tags, constructed bits, minimal lengths and integers,
    BOOLEAN FF, BIT STRING padding, named-bit trailing zeros, DEFAULT
    omission, SET order, SET OF order).
  * Round 5 (c03_setof.py): SET OF over element types without one fixed tag
    (untagged CHOICE directly / through references / nested, ANY): corpus and
    generator of values that separate the sort keys, and the emitted element
    order against the literal comparison of X.690 11.6 (Ber/X690SetOf.v).
"""
import json

import common
from common import C, Nat, Raw, to_coq
import lib
import gen_asn1
import codec_ber as cb
import codec_der as cd
import c03_setof

CORR_IMPORTS = ['Base.Prelude', 'Syntax.Asn1', 'Ber.Header', 'Ber.BerCommon', 'Ber.DerImpl', 'Ber.BerImpl', 'Ber.BerCorr',
                'Ber.X690', 'Ber.BerScope', 'Ber.BerAcceptBase', 'Ber.BerAcceptD']
SCOPE_FUEL = 60
SCOPE_DEPTH = 10


SHOW = 'Local Open Scope string_scope.\n'


MAX_SHOWN = 12


def show_models(ctx, mods, cases, expr_of, exprs=None):
    """what the model computes for the given (few) cases, in one coqc run"""
    if not cases:
        return []
    exprs = exprs or [expr_of(c) for c in cases]
    need = sorted({c.mi for c in cases})
    pre = ''.join('Definition e%d_%d : env := %s.\n' % (i, n, to_coq(cb.coq_env(mods[i][0], bool(n))))
                  for i in need for n in (0, 1))
    body = pre + SHOW + ''.join('Eval vm_compute in %s.\n' % x for x in exprs)
    return list(ctx.coq_eval('show', CORR_IMPORTS, body))


class Batch(object):
    """Boolean Coq checks collected from all phases of a run and evaluated
    together (sharded, in parallel); a failing check is re-evaluated to show
    what the model computed and reported through its own callback."""

    def __init__(self, ctx, mods):
        self.ctx, self.mods = ctx, mods
        self.items, self.meta = [], []

    def add(self, case, check_expr, show_expr, report, soft=None):
        """soft: histogram key to count a failing check under instead of reporting a violation"""
        self.items.append(check_expr)
        self.meta.append((case, show_expr, report, soft))

    def run(self, name='batch'):
        ctx = self.ctx
        bad = cb.eval_shards(ctx, name, CORR_IMPORTS, env_preamble(self.mods), self.items)
        for i in bad:
            if self.meta[i][3]:
                ctx.count(self.meta[i][3])
                ctx.extra.setdefault('out_of_coq_scope', [])
                if len(ctx.extra['out_of_coq_scope']) < 5:
                    ctx.extra['out_of_coq_scope'].append(self.meta[i][2](None))
        bad = [i for i in bad if not self.meta[i][3]]
        first = bad[:MAX_SHOWN]
        shown = show_models(ctx, self.mods, [self.meta[i][0] for i in first], None,
                            exprs=[self.meta[i][1] for i in first])
        for i, mv in zip(bad, shown + [None] * len(bad)):
            what, rep = self.meta[i][2](mv)
            ctx.violation(what, rep)
        ctx.log('%d Coq checks evaluated, %d disagree' % (len(self.items), len(bad)))


class Case(object):
    __slots__ = ('mi', 'mod', 'text', 'tname', 't', 'v', 'numeric', 'gen', 'corner')


def gen_cases(ctx, n_modules, per_type, opts=None, codec='der'):
    """modules with the tagging layer; values for every named type"""
    rng = ctx.rng
    mods, cases = [], []
    tries = 0
    while len(mods) < n_modules and tries < n_modules * 20:
        tries += 1
        mod, text, g = cb.generate(rng, opts or cb.default_opts())
        probs = cb.scope_problems(mod, codec)
        if probs:
            for p in set(probs):
                ctx.count('gen:excluded:' + p)
            continue
        try:
            lib.compile_string(text, codec)
        except Exception as e:  # noqa
            # the generator's own legality repair should make every module compile
            ctx.violation('generated module does not compile with %s: %s: %s' % (codec, type(e).__name__, e),
                          dict(kind='compile', spec=text, codec=codec))
            continue
        mi = len(mods)
        mods.append((mod, text))
        ctx.count('gen:module-tags:' + mod['tags'])
        for tname, t in mod['types']:
            for _ in range(per_type):
                c = Case()
                c.mi, c.mod, c.text, c.tname, c.t, c.gen = mi, mod, text, tname, t, g
                c.v = g.gen_value(t)
                c.numeric = rng.random() < .25
                c.corner = False
                cases.append(c)
    # the hand-made corner modules
    for mod, vals in cb.corner_modules():
        if cb.scope_problems(mod, codec):
            continue
        text = gen_asn1.render_module(mod, gen_asn1.make_resolver(mod))
        try:
            lib.compile_string(text, codec)
        except Exception as e:  # noqa
            ctx.violation('corner module does not compile with %s: %s: %s' % (codec, type(e).__name__, e),
                          dict(kind='compile', spec=text, codec=codec))
            continue
        g = gen_asn1.Gen(rng, opts or cb.default_opts())
        g.types = mod['types']
        g.pending = {}
        mi = len(mods)
        mods.append((mod, text))
        ctx.count('gen:corner-modules')
        tmap = dict(mod['types'])
        has_enum = 'ENUMERATED' in text
        for tname, v in vals:
            for numeric in ((False, True) if has_enum else (False,)):
                c = Case()
                c.mi, c.mod, c.text, c.tname, c.t, c.gen = mi, mod, text, tname, tmap[tname], g
                c.v, c.numeric = v, numeric
                c.corner = True
                cases.append(c)
    return mods, cases


def api_value(c):
    rt_of = cb.Resolver(c.mod)
    return gen_asn1.to_numeric(rt_of, c.t, c.v) if c.numeric else c.v


def env_preamble(mods):
    """Definitions e<i>_<n> : env for every module and both numeric flags"""
    out = []
    for i, (mod, _) in enumerate(mods):
        for numeric in (False, True):
            out.append('Definition e%d_%d : env := %s.' % (i, int(numeric), to_coq(cb.coq_env(mod, numeric))))
    return '\n'.join(out) + '\n'


def terms(c):
    rt_of = cb.Resolver(c.mod)
    env = 'e%d_%d' % (c.mi, int(c.numeric))
    ty = to_coq(C('TRef', c.tname))
    val = to_coq(cb.coq_value(rt_of, c.t, api_value(c)))
    return env, ty, val


def shape_key(c):
    rt_of = gen_asn1.make_resolver(c.mod)
    return gen_asn1.shape(rt_of, c.t)


def corr_encode(ctx, batch, cases, codec='der', cmod=cd, label='DER'):
    """library encode vs the model's encoder (bytes and error classes)"""
    enc = []
    for c in cases:
        spec = lib.compile_string(c.text, codec, numeric_enums=c.numeric)
        r = lib.attempt(spec.encode, c.tname, api_value(c))
        enc.append(r)
        env, ty, val = terms(c)
        mx = cmod.model_encode_expr(env, ty, val, c.numeric)

        def report(mv, c=c, r=r):
            what = label + ' encode: library %s, model %s' % (
                r[1].hex() if r[0] == 'ok' else r[1:], (mv[0], bytes(mv[1]).hex()) if mv else '(not shown)')
            return what, dict(kind='corr-%s-encode' % codec, spec=c.text, type=c.tname, value=repr(api_value(c)),
                              numeric=c.numeric, lib=repr(r)[:300], model=repr(mv)[:300])
        batch.add(c, 'enc_agree %s %s' % (mx, to_coq(cb.outcome_term(r, kind='enc'))), 'show_enc ' + mx, report)
        ctx.case(('enc', c.mod['tags'], shape_key(c), c.numeric, r[0]),
                 dict(kind='%s-encode' % codec, spec=c.text, type=c.tname, value=repr(api_value(c))[:200],
                      lib=(r[1].hex()[:80] if r[0] == 'ok' else r[1])))
        ctx.count('corr:encode:' + (r[0] if r[0] == 'ok' else r[1]))
    return enc


def scope_checks(ctx, batch, cases, which):
    """the generated universe satisfies the scope hypotheses of the theorems
    (Coq's own decidable predicates, evaluated on the exported types); a type
    outside is only counted: the theorems do not speak about it"""
    seen = set()
    for c in cases:
        key = (c.mi, c.tname, c.numeric)
        if key in seen:
            continue
        seen.add(key)
        env, ty, _ = terms(c)
        num = to_coq(bool(c.numeric))
        if which == 'enc':
            expr = 'scope_enc %s %s %d%%nat %s' % (num, env, SCOPE_FUEL, ty)
        else:
            expr = '(in_scope %s %s %d%%nat %s && compilesD %s %d%%nat %d%%nat %s)' % (
                num, env, SCOPE_FUEL, ty, env, SCOPE_DEPTH, SCOPE_FUEL, ty)
        ctx.count('scope:checked')
        batch.add(c, expr, expr, lambda mv, c=c: 'type %s of %s' % (c.tname, c.text[:400]), soft='scope:outside-coq-scope')


def tlv_spans(data):
    """(start, end) of the TLVs directly inside the outermost constructed definite-length TLV"""
    try:
        root, end = cb.parse_strict(data, der=False)
    except (cb.TlvError, IndexError):
        return []
    if not root.constructed or not root.children:
        return []
    out = []
    # recompute the positions by re-serialising the children in DER form only when the input is DER
    try:
        body = b''.join(cb.write_der(k) for k in root.children)
    except Exception:  # noqa
        return []
    pos = data.find(body)
    if pos < 0:
        return []
    for k in root.children:
        n = len(cb.write_der(k))
        out.append((pos, pos + n))
        pos += n
    return out


def mutate(rng, data):
    """one malformed relative of an encoding"""
    b = bytearray(data)
    kind = rng.choice(['flip', 'truncate', 'insert', 'length', 'tag', 'delete', 'splice', 'indef', 'random', 'dup', 'dup'])
    if kind == 'flip' and b:
        i = rng.randrange(len(b))
        b[i] ^= 1 << rng.randrange(8)
    elif kind == 'truncate' and b:
        b = b[:rng.randrange(len(b))]
    elif kind == 'insert':
        i = rng.randrange(len(b) + 1)
        b[i:i] = bytes(rng.randrange(256) for _ in range(rng.choice([1, 1, 2, 3])))
    elif kind == 'length' and len(b) > 1:
        i = rng.randrange(1, len(b))
        b[i] = rng.choice([0, 1, 0x7f, 0x80, 0x81, 0x82, 0xff, (b[i] + 1) & 0xff, (b[i] - 1) & 0xff])
    elif kind == 'tag' and b:
        i = rng.randrange(len(b))
        b[i] = rng.choice([0, 0x1f, 0x3f, 0x9f, 0xbf, 0xff, b[i] ^ 0x20, b[i] ^ 0x40, (b[i] + 1) & 0xff])
    elif kind == 'delete' and b:
        i = rng.randrange(len(b))
        del b[i:i + rng.choice([1, 1, 2])]
    elif kind == 'splice' and len(b) > 2:
        i, j = sorted(rng.randrange(len(b)) for _ in range(2))
        b = b[:i] + b[j:] + b[i:j]
    elif kind == 'dup' and len(b) > 4:
        # duplicate one inner TLV (a repeated component / element)
        spans = tlv_spans(bytes(b))
        if spans:
            i, j = rng.choice(spans)
            b = b[:j] + b[i:j] + b[j:]
            # keep a short-form outer length consistent so that the duplicate is inside the contents
            if len(b) > 1 and b[1] < 0x7f and b[1] + (j - i) < 0x80 and not (b[0] & 0x1f == 0x1f):
                b[1] += j - i
    elif kind == 'indef' and len(b) > 1:
        i = rng.randrange(1, len(b))
        b[i] = 0x80
        b += b'\x00\x00' * rng.choice([0, 1, 2])
    else:
        b = bytearray(rng.randrange(256) for _ in range(rng.randrange(0, 12)))
        kind = 'random'
    return kind, bytes(b)


def corr_decode(ctx, batch, cases, enc, n_mut, codec='der', cmod=cd, label='DER'):
    """library decode_with_length vs the model on encoder outputs, on encoder
    outputs followed by a tail, and on malformed relatives"""
    rng = ctx.rng
    for c, r in zip(cases, enc):
        if r[0] != 'ok':
            continue
        inputs = [('valid', r[1])]
        if rng.random() < .3:
            inputs.append(('tail', r[1] + bytes(rng.randrange(256) for _ in range(rng.choice([1, 2, 5])))))
        for _ in range(n_mut if len(r[1]) < 5000 else 0):
            inputs.append(mutate(rng, r[1]))
        add_decode_checks(ctx, batch, c, inputs, codec, cmod, label)


def add_decode_checks(ctx, batch, c, inputs, codec, cmod, label, extra_key=()):
    spec = lib.compile_string(c.text, codec, numeric_enums=c.numeric)
    rt_of = cb.Resolver(c.mod)
    env, ty, _ = terms(c)
    for kind, data in inputs:
        d = lib.attempt(spec.decode_with_length, c.tname, data)
        if d[0] == 'err' and d[1] == 'foreign:RecursionError':
            continue
        mx = cmod.model_decode_expr(env, ty, data, c.numeric)

        def report(mv, c=c, kind=kind, data=data, d=d):
            return ('%s decode of %s (%s input): library %s, model %s' % (
                label, data.hex()[:80], kind, repr(d)[:200], repr(mv)[:200] if mv else '(not shown)'),
                dict(kind='corr-%s-decode' % codec, spec=c.text, type=c.tname, data=data.hex(), numeric=c.numeric,
                     lib=repr(d)[:400], model=repr(mv)[:400]))
        batch.add(c, 'dec_agree %s %s' % (mx, to_coq(cb.outcome_term(d, rt_of, c.t, kind='dec'))), 'show_dec ' + mx,
                  report)
        good = kind in ('valid', 'tail', 'variant', 'variant+tail')
        ctx.case(('dec', shape_key(c), kind, d[0] if d[0] == 'ok' else d[1]) + tuple(extra_key),
                 dict(kind='%s-decode' % codec, spec=c.text, type=c.tname, data=data.hex()[:120], input=kind,
                      lib=repr(d)[:160]))
        ctx.count('corr:decode:%s:%s' % (kind if good else 'malformed', d[0] if d[0] == 'ok' else d[1]))


# ---------------------------------------------------------------------------
# the property on /repo

def addition_gap(rt_of, t, v):
    """the value has an extension addition present after an absent non-optional
    one somewhere (not a legal value: X690.der_encode is undefined)"""
    t = rt_of(t)
    k = t['k']
    if k in ('SEQUENCE', 'SET'):
        for m in gen_asn1.all_members(t):
            if m['name'] in v and addition_gap(rt_of, m['t'], v[m['name']]):
                return True
        ended = False
        for a in (t['ext'] or []):
            ms = a['group'] if 'group' in a else [a['member']]
            present = [m['name'] in v for m in ms]
            complete = all(p or m['opt'] is not None for p, m in zip(present, ms))
            if ended and any(present):
                return True
            if not complete:
                if any(present):
                    return True
                ended = True
        return False
    if k in ('SEQUENCE OF', 'SET OF'):
        return any(addition_gap(rt_of, t['elem'], x) for x in v)
    if k == 'CHOICE':
        m = {m['name']: m for m in cb.members_of(t)}[v[0]]
        return addition_gap(rt_of, m['t'], v[1])
    return False


def simple_der(rt, v, numeric):
    """DER contents octets of a value of one of the simple types a DEFAULT is given for"""
    k = rt['k']
    if k == 'BOOLEAN':
        return b'\xff' if v else b'\x00'
    if k in ('INTEGER', 'ENUMERATED'):
        n = dict(rt['root'] + (rt['ext'] or []))[v] if k == 'ENUMERATED' and not isinstance(v, int) else v
        ln = 1
        while not -(1 << (8 * ln - 1)) <= n < (1 << (8 * ln - 1)):
            ln += 1
        return (n % (1 << (8 * ln))).to_bytes(ln, 'big')
    if k == 'OCTET STRING':
        return bytes(v)
    if k == 'BIT STRING':
        data, n = gen_asn1.clean_bits(v, bool(rt.get('named')))
        return bytes([(-n) % 8]) + data
    if k == 'STRING':
        return v.encode('utf-8')
    return None


def default_violations(mod, tname, root):
    """components whose DER encoding equals that of their DEFAULT value"""
    rt_of = cb.Resolver(mod)
    out = []

    def go(t, tag, node, override=None):
        if tag is not None:
            if tag[2]:
                if node.constructed and len(node.children) == 1:
                    go(t, None, node.children[0])
                return
            return go(t, None, node, (cb.CLS[tag[0]], tag[1]))
        k = t['k']
        if k == 'REF':
            nt = rt_of.named(t['name'])
            return go(nt, cb.effective_tag(mod, rt_of, nt, nt), node, override)
        if k == 'CHOICE':
            for m, tg in cb.member_tags(mod, rt_of, t):
                if node.tag() in {(cb.CLS[c], n) for c, n in cb.outer_tags(mod, rt_of, m['t'], tg)}:
                    return go(m['t'], tg, node)
            return
        if k in ('SEQUENCE OF', 'SET OF') and node.constructed:
            for ch in node.children:
                go(t['elem'], None, ch)
        if k in ('SEQUENCE', 'SET') and node.constructed:
            for ch in node.children:
                for m, tg in cb.member_tags(mod, rt_of, t):
                    if ch.tag() in {(cb.CLS[c], n) for c, n in cb.outer_tags(mod, rt_of, m['t'], tg)}:
                        if m['opt'] not in (None, 'optional'):
                            inner = ch
                            if tg is not None and tg[2] and ch.constructed and len(ch.children) == 1:
                                inner = ch.children[0]
                            want = simple_der(rt_of(m['t']), m['opt'][1], False)
                            if want is not None and not inner.constructed and inner.content == want:
                                out.append('component %s is present with its DEFAULT value' % m['name'])
                        go(m['t'], tg, ch)
                        break
    nt = rt_of.named(tname)
    go(nt, cb.effective_tag(mod, rt_of, nt, nt), root)
    return out


def pt_der(ctx, batch, cases, enc):
    """/repo DER bytes vs X690.der_encode, and the structural re-read"""
    for c, r in zip(cases, enc):
        if r[0] != 'ok':
            continue
        rt_of = cb.Resolver(c.mod)
        data = r[1]
        env, ty, val = terms(c)
        gap = addition_gap(rt_of, c.t, c.v)
        ctx.count('pt:spec-%s' % ('undefined(addition gap)' if gap else 'defined'))
        sx = cd.spec_encode_expr(env, ty, val, c.numeric)
        if gap:
            check = 'match %s with Some a => zlist_eqb a %s | None => true end' % (sx, to_coq(data))
        else:
            check = 'opt_agree %s %s' % (sx, to_coq(data))

        def report(mv, c=c, data=data):
            sv = '(not shown)' if mv is None else 'undefined' if not isinstance(mv, C) or mv.name != 'Some' else \
                bytes(mv.args[0]).hex()
            return ('DER bytes differ from X.690: library %s, specification %s' % (data.hex()[:120], sv[:120]),
                    dict(kind='pt-der-spec', spec=c.text, type=c.tname, value=repr(api_value(c)),
                         numeric=c.numeric, lib=data.hex(), x690=sv))
        batch.add(c, check, sx, report)
        ctx.case(('pt', c.mod['tags'], shape_key(c), len(data) > 127))
        # structural re-read, independent of the library and of Coq
        try:
            root, end = cb.parse_strict(data, der=True)
            problems = [] if end == len(data) else ['trailing octets after the TLV']
        except cb.TlvError as e:
            root, problems = None, ['not a DER TLV: %s' % e]
        if root is not None:
            problems += cb.annotate(c.mod, c.tname, root, der_checks=True)
            problems += default_violations(c.mod, c.tname, root)
        for pb in problems[:1]:
            ctx.violation('DER output breaks a structural rule: %s; encoding %s' % (pb, data.hex()[:120]),
                          dict(kind='pt-der-structure', spec=c.text, type=c.tname, value=repr(api_value(c)),
                               numeric=c.numeric, data=data.hex(), problems=problems))


def run(ctx):
    if ctx.replay:
        return replay(ctx)
    ctx.rule = ('cases: (module tagging default, type shape incl. tags/optionality/additions, numeric_enums, outcome '
                'class); decode cases add the input kind (valid, valid+tail, 9 malformed kinds); distinct by those '
                'keys; non-trivial = type AST size >= 3 or encoding longer than 127 octets or malformed input')
    # helper layer regenerated from the source (translator/pyfun.py) BEFORE the theorems are checked against it
    import pyfun_tie
    _tie = pyfun_tie.run_tie(ctx, budget=400)
    ok = ctx.coq_props()
    pyfun_tie.report(ctx, _tie, functions=['encode_length_definite', 'encode_signed_integer', 'encode_tag', 'encode_object_identifier_subidentifier'])

    ctx.trusted_base += [
        'Ber/X690.v: my formalisation of X.690 / X.680 tagging from memory, pinned by the byte-for-byte comparison with /repo',
        'harness/codec_ber.py: independent tag calculator, TLV parser and DER structure checks',
        'Ber/X690SetOf.v: the literal comparison of X.690 11.6 (padded_le / setof_ascending), evaluated on the element '
        'encodings the harness TLV walk finds in the library output',
        'proposed_fixes/C03-*.diff, C04-*.diff: the model follows the repaired behaviour; on the unrepaired tree the check reports violations']
    known_findings(ctx)
    mods, cases = gen_cases(ctx, 45 if ctx.quick else 500, 3)
    n_general = len(cases)
    # round 5: SET OF over element types without one fixed tag (c03_setof.py); the same pipeline, the decoder
    # correspondence on the valid outputs only
    c03_setof.add_cases(ctx, Case, mods, cases, 30 if ctx.quick else 400, 2)
    ctx.log('%d modules, %d (type, value) cases (%d of them SET OF over multi-tag elements)' % (
        len(mods), len(cases), len(cases) - n_general))
    batch = Batch(ctx, mods)
    enc = corr_encode(ctx, batch, cases)
    corr_decode(ctx, batch, cases[:n_general], enc[:n_general], 2 if ctx.quick else 4)
    corr_decode(ctx, batch, cases[n_general:], enc[n_general:], 0 if ctx.quick else 1)
    pt_der(ctx, batch, cases, enc)
    pt_real_der(ctx, 100 if ctx.quick else 3000)
    # DER REAL canonical form: Coq model (Ber/Real.v, C03_der_real_canonical) vs ber.encode_real / decode_real
    import real_model
    ctx.extra['real_model'] = real_model.run_real(ctx, 120 if ctx.quick else 1500, 620 if ctx.quick else 1400)
    c03_setof.pt_setof_any(ctx, 60 if ctx.quick else 1500)
    c03_setof.ascending_checks(ctx, cases, enc)
    scope_checks(ctx, batch, cases, 'enc')
    batch.run()
    ctx.extra['open_theorems'] = OPEN
    if not ok:
        common.proof_broken(ctx)


OPEN = ['der_reencode (der_encode (norm v) = der_encode v)',
        'scope_enc.default_ok and compiles_der are fuel-indexed to the bottom: recursive types with DEFAULT components in the '
        'recursive part (resp. all recursive types for der_roundtrip) are outside those hypotheses (counted in scope:*)']


def x690_der_real(x):
    """Independent DER contents octets of a REAL (X.690 8.5 with the restrictions of 11.3: base 2, mantissa zero or
    odd, mantissa and exponent in the fewest octets), integer arithmetic only."""
    import math
    from fractions import Fraction
    if x != x:
        return b'\x42'
    if x == float('inf'):
        return b'\x40'
    if x == float('-inf'):
        return b'\x41'
    if x == 0:
        return b'\x43' if math.copysign(1.0, x) < 0 else b''
    f = Fraction(abs(x))
    m, e = f.numerator, 0
    d = f.denominator
    while d > 1:
        d //= 2
        e -= 1
    while m % 2 == 0:
        m //= 2
        e += 1
    n = 1
    while not (-(1 << (8 * n - 1)) <= e < (1 << (8 * n - 1))):
        n += 1
    eo = (e & ((1 << (8 * n)) - 1)).to_bytes(n, 'big')
    first = 0x80 | (0x40 if x < 0 else 0) | (n - 1 if n <= 3 else 3)
    head = bytes([first]) + (bytes([n]) if n > 3 else b'') + eo
    return head + m.to_bytes((m.bit_length() + 7) // 8, 'big')


def pt_real_der(ctx, n_random):
    """REAL is outside the Coq universe: the DER canonical form is compared with the independent encoder on /repo."""
    import c01
    spec = lib.compile_string('M DEFINITIONS AUTOMATIC TAGS ::= BEGIN R ::= REAL END', 'der')
    for x in c01.real_values(ctx.rng, n_random) + [255.0, 65535.0, 256.0, 257.0, -255.0, 3.0 * 2 ** 70, 255.0 * 2.0 ** -300]:
        if x == 0 and str(x) == '-0.0':
            continue                                  # known finding real-negative-zero (known_findings/C01.json)
        want = x690_der_real(x)
        want = b'\x09' + bytes([len(want)]) + want
        got = lib.attempt(spec.encode, 'R', x)
        ctx.case(('real-der', len(want), want[2:3].hex()), None)
        ctx.count('pt-real-der')
        if got != ('ok', want):
            ctx.violation('DER REAL %s: library %s, X.690 11.3 canonical form %s' % (
                x.hex(), got[1].hex() if got[0] == 'ok' else got[1:], want.hex()),
                dict(kind='real-der', spec='M DEFINITIONS AUTOMATIC TAGS ::= BEGIN R ::= REAL END', type='R',
                     value=x.hex(), expected=want.hex()))


def known_findings(ctx):
    for f in common.load_findings('C03'):
        w = f['witness']
        try:
            spec = lib.compile_string(w['spec'], 'der')
            got = lib.attempt(spec.encode, w['type'], eval(w['value'], {}))
        except Exception as e:  # noqa
            got = ('err', 'compile:' + type(e).__name__, str(e))
        still = (got[0] != 'ok') if w.get('expect') == 'encodes' else \
            (got[0] == 'ok' and got[1].hex() != w.get('x690'))
        if still:
            ctx.known_finding(f['id'], f['what'])


def replay(ctx):
    doc = json.load(open(ctx.replay))
    r = doc['replay']
    print(json.dumps({k: v for k, v in r.items() if k not in ('spec',)}, indent=1)[:1500])
    if 'spec' in r and 'type' in r:
        print(r['spec'])
        spec = lib.compile_string(r['spec'], 'der', numeric_enums=bool(r.get('numeric')))
        if 'value' in r:
            print('encode ->', lib.attempt(spec.encode, r['type'], eval(r['value'], {})))
        if 'data' in r:
            print('decode ->', lib.attempt(spec.decode_with_length, r['type'], bytes.fromhex(r['data'])))
