"""C05 round 5 — reference sites that share the compile layer's cache key.

Region (gen_asn1 never writes it: its component names are all fresh, its references carry no constraint
and its modules use AUTOMATIC TAGS): SEVERAL components / alternatives of different SEQUENCE / SET /
CHOICE types that reference the SAME named type under the SAME identifier (the compile layer caches the
compiled referenced type per (module, referenced type, component name)), each with its OWN per-site
decoration -- a PER-visible constraint written in place on the reference (SIZE on strings and lists, a
value range on INTEGER), OPTIONAL / DEFAULT, an explicit tag or none -- in modules with AUTOMATIC,
IMPLICIT and EXPLICIT tagging (only under AUTOMATIC TAGS does every component get a tag and with it a
private copy of the compiled type).  Alias chains (Id2 ::= Id1) between the site and the definition,
sites inside extension additions and sites surrounded by other components (bit offsets for aligned PER)
are part of the region.

The abstract module keeps every reference with its overlay ({'k': 'REF', 'name', 'over': {...}}, the
representation of c11c12_gen, whose renderer and `effective` are reused); what a site means is defined
in Coq (Per/RefSite.v: [elab_env] adds, for every constrained site, a derived definition
"Id.k ::= Id (constraint)" and the site becomes a plain reference to it), not by the library's compiler.

Exclusion predicates (each documented in notes/C05.md, Round 5):
  * a constraint is written on a reference only at component positions (SEQUENCE/SET member, CHOICE
    alternative) and only when the referenced type carries no constraint of that kind (known finding
    C19 size-on-element-reference; serial application);
  * in a module without AUTOMATIC TAGS every SEQUENCE / SET / CHOICE has at most one untagged component,
    which comes first in a SET / CHOICE, the others carry ascending context tags, and a SET with an
    untagged component has no other component: declaration order is then the canonical tag order of
    X.680 8.6 (the library orders CHOICE alternatives by declaration, candidate finding reported in the
    notes; known finding per-set-untagged-members);
  * in a module with AUTOMATIC TAGS no explicit tag is written (automatic tagging stays in force).
"""
import copy

import gen_asn1 as G
import c11c12_gen as R
import codec_common as CC
from common import C

SIZED = R.SIZED
DEFAULTABLE = ('BOOLEAN', 'INTEGER', 'ENUMERATED', 'OCTET STRING', 'BIT STRING', 'STRING')


# ---------------------------------------------------------------------------
# generation

def gen_base(g, rng):
    """A named type that sites refer to; mostly without a constraint of its own."""
    o = g.o
    k = rng.choice(['OCTET STRING', 'OCTET STRING', 'BIT STRING', 'STRING', 'STRING', 'SEQUENCE OF', 'SET OF',
                    'INTEGER', 'INTEGER', 'BOOLEAN', 'ENUMERATED'])
    own = rng.random() < .25
    if k == 'OCTET STRING':
        return {'k': k, 'size': g.size_constraint() if own else None}
    if k == 'BIT STRING':
        return {'k': k, 'size': g.size_constraint() if own else None, 'named': None}
    if k == 'STRING':
        return {'k': k, 'sk': rng.choice([s for s in o.str_kinds if s in G.KM_KINDS] or G.KM_KINDS),
                'size': g.size_constraint() if own else None, 'alpha': None}
    if k in ('SEQUENCE OF', 'SET OF'):
        return {'k': k, 'elem': g.gen_type(o.max_depth, allow_ref=False), 'size': g.size_constraint() if own else None}
    if k == 'INTEGER':
        return {'k': k, 'c': g.int_constraint() if own else None, 'named': None}
    if k == 'ENUMERATED':
        n = rng.choice([2, 3, 5])
        return {'k': k, 'root': [('e%d' % i, i) for i in range(n)], 'ext': None}
    return {'k': 'BOOLEAN'}


def gen_over(g, rng, base):
    """A constraint written in place on a reference to `base` (or none)."""
    k = base['k']
    if rng.random() < .3:
        return None
    if k in SIZED and base.get('size') is None:
        s = g.size_constraint()
        return {'size': s} if s is not None else None
    if k == 'INTEGER' and base.get('c') is None:
        c = g.int_constraint()
        return {'c': c} if c is not None else None
    return None


def apply_over(base, over):
    t = copy.deepcopy(base)
    for key in ('size', 'c'):
        if over and key in over:
            t[key] = dict(over[key])
    return t


def gen_opt(g, rng, eff_t, is_ref=True):
    """OPTIONAL / DEFAULT of a site whose effective type is eff_t (same exclusions as gen_asn1.gen_member)."""
    p = rng.random()
    if p < .5:
        return None
    if p < .75:
        return 'optional'
    if eff_t['k'] not in DEFAULTABLE:
        return 'optional'
    v = g.gen_value(eff_t, simple=True)
    if eff_t['k'] == 'STRING' and 'numeric_string_default' in g.o.avoid and G.looks_numeric(v):
        return None
    if is_ref and eff_t['k'] == 'BOOLEAN' and 'ref_bool_default' in g.o.avoid:
        return None
    if not g.default_renderable(eff_t, v):
        return None
    return ('default', v)


def gen_module(rng, opts, name='M'):
    """-> abstract module with decorated reference sites (see the module docstring)."""
    g = G.Gen(rng, opts)
    tags = rng.choice(['AUTOMATIC', 'IMPLICIT', 'EXPLICIT', 'EXPLICIT'])
    auto = tags == 'AUTOMATIC'
    types = []
    holders = []
    n_h = 0
    for b in range(rng.randrange(1, 3)):
        base = gen_base(g, rng)
        bname = 'Id%d' % b
        types.append((bname, base))
        target = bname
        if rng.random() < .2:
            # an alias between the sites and the definition
            target = 'Al%d' % b
            types.append((target, {'k': 'REF', 'name': bname}))
        shared = rng.choice(['id', 'id', 'val', 'item%d' % b])
        n_sites = rng.randrange(2, 4)
        overs = []
        for s in range(n_sites):
            over = gen_over(g, rng, base)
            if s and over is not None and rng.random() < .3:
                over = None                         # the unconstrained twin
            overs.append(over)
        if rng.random() < .5:
            rng.shuffle(overs)
        for s in range(n_sites):
            over = overs[s]
            ref = {'k': 'REF', 'name': target}
            if over:
                ref['over'] = over
            sname = shared if rng.random() < .85 else 'own%d' % n_h
            hk = rng.choice(['SEQUENCE', 'SEQUENCE', 'SEQUENCE', 'SET', 'CHOICE', 'CHOICE'])
            site = {'name': sname, 't': ref, 'opt': None, 'site': True}
            if hk != 'CHOICE':
                site['opt'] = gen_opt(g, rng, apply_over(base, over))
            holders.append(make_holder(g, rng, auto, hk, site, n_h))
            n_h += 1
    rng.shuffle(holders)
    top_members = []
    for i, (hn, _) in enumerate(holders):
        m = {'name': 'h%d' % i, 't': {'k': 'REF', 'name': hn}, 'opt': None}
        if not auto:
            m['tag'] = ('', i, '')
        top_members.append(m)
    top = ('Top', {'k': 'SEQUENCE', 'root': top_members, 'ext': None})
    # the position of the definitions relative to the sites is irrelevant to the meaning
    if rng.random() < .5:
        types = holders + types
    else:
        types = types + holders
    types.append(top)
    return {'name': name, 'tags': tags, 'ext_implied': False, 'types': types, 'values': []}, g


def make_holder(g, rng, auto, hk, site, idx):
    """A SEQUENCE / SET / CHOICE around one site: other components before and after it (bit offsets,
    presence bitmaps), the site possibly an extension addition; tags by the rules of the docstring."""
    o = g.o
    tagged_site = (not auto) and rng.random() < .25
    n_before = rng.randrange(0, 3)
    n_after = rng.randrange(0, 2)
    if not auto and not tagged_site:
        if hk == 'SET':
            n_before = n_after = 0
        elif hk == 'CHOICE':
            n_before = 0

    def filler():
        t = g.gen_type(o.max_depth, allow_ref=False)
        m = {'name': g.fresh('f'), 't': t, 'opt': None}
        if hk != 'CHOICE':
            m['opt'] = gen_opt(g, rng, t, is_ref=False) if rng.random() < .4 else None
        return m
    before = [filler() for _ in range(n_before)]
    after = [filler() for _ in range(n_after)]
    in_ext = o.extensible and rng.random() < .2
    root = before + ([] if in_ext else [site]) + (after if not in_ext else [])
    ext = None
    if in_ext:
        if hk == 'CHOICE':
            if not root:
                root = [filler()]
            ext = [site] + after
        else:
            ext = [{'member': m} for m in [site] + after]
    elif o.extensible and rng.random() < .15:
        ext = []
    if hk == 'CHOICE' and not root:
        root = [site]
        ext = None
    t = {'k': hk, 'root': root, 'ext': ext}
    if not auto:
        n = 0
        for m in G.all_members(t) if hk != 'CHOICE' else root + (ext or []):
            if m is site and not tagged_site:
                continue
            m['tag'] = ('', n, rng.choice(['', '', 'EXPLICIT', 'IMPLICIT']) if m is not site else '')
            n += rng.choice([1, 1, 2])
        if hk == 'CHOICE' and not tagged_site and root[0] is not site:
            # the untagged alternative must be the first in canonical order: keep the site alone in the root
            t['root'] = [site]
            t['ext'] = None
    return ('H%d' % idx, t)


# ---------------------------------------------------------------------------
# rendering (members with tags; types through c11c12_gen, which writes the constrained references)

def render_member(m, resolve):
    s = '%s %s%s' % (m['name'], G.render_tag(m.get('tag')), R.render_type(m['t'], resolve, 1))
    if m['opt'] == 'optional':
        s += ' OPTIONAL'
    elif m['opt'] is not None:
        s += ' DEFAULT ' + G.render_value(resolve(m['t']), m['opt'][1])
    return s


def render_holder(t, resolve):
    items = [render_member(m, resolve) for m in t['root']]
    if t['ext'] is not None:
        items.append('...')
        for a in t['ext']:
            items.append(render_member(a['member'] if 'member' in a else a, resolve))
    if not items:
        return '%s { }' % t['k']
    return '%s {\n  %s\n}' % (t['k'], ',\n  '.join(items))


def render_module(mod):
    resolve = G.make_resolver(mod)
    lines = ['%s DEFINITIONS %s TAGS ::= BEGIN' % (mod['name'], mod['tags'])]
    for n, t in mod['types']:
        if t['k'] in ('SEQUENCE', 'SET', 'CHOICE'):
            lines.append('%s ::= %s' % (n, render_holder(t, resolve)))
        else:
            lines.append('%s ::= %s' % (n, R.render_type(t, resolve)))
    lines.append('END')
    return '\n'.join(lines) + '\n'


# ---------------------------------------------------------------------------
# export of the surface module for Per/RefSite.v

def members_of(t):
    if t['k'] in ('SEQUENCE', 'SET'):
        return G.all_members(t)
    if t['k'] == 'CHOICE':
        return t['root'] + (t['ext'] or [])
    return []


def surface(mod):
    """-> (surface module, derived): every constrained site becomes a plain reference to a derived name
    'Id.k' (not an ASN.1 identifier, hence fresh) and derived lists (derived name, referenced name,
    overlay).  The surface module also carries the derived definitions (as the referenced type with the
    constraint, by `effective`) so that the Python exporters can resolve default values; the Coq
    environment is built from the ORIGINAL names only and the derived ones are computed by [elab_env]."""
    derived = []
    out = copy.deepcopy(mod)
    for _, t in out['types']:
        for m in members_of(t):
            r = m['t']
            if r['k'] == 'REF' and r.get('over'):
                dn = '%s.%d' % (r['name'], len(derived) + 1)
                derived.append((dn, r['name'], r['over']))
                m['t'] = {'k': 'REF', 'name': dn}
    originals = [n for n, _ in out['types']]
    defs = dict(mod['types'])
    for dn, bn, over in derived:
        # the referenced type behind aliases, with the constraint
        t = defs[bn]
        while t['k'] == 'REF':
            t = defs[t['name']]
        out['types'].append((dn, apply_over(t, over)))
    return out, originals, derived


def coq_over(over):
    if 'size' in over:
        return C('OvSize', G.coq_size(over['size']))
    c = over['c']
    opt = lambda x: None if x is None else C('Some', x)
    return C('OvRange', C('IcRange', opt(c['lo']), opt(c['hi']), bool(c['ext'])))


def coq_surface(mod, numeric):
    """-> (Coq term of the surface env (original names), Coq term of the derived list)"""
    sm, originals, derived = surface(mod)
    rt_of = G.make_resolver(sm)
    d = dict(sm['types'])
    env = [(n, G.coq_type(rt_of, d[n], numeric)) for n in originals]
    ds = [(dn, (bn, coq_over(over))) for dn, bn, over in derived]
    return env, ds


# ---------------------------------------------------------------------------
# cases

class SiteCase(CC.Case):
    """A case of codec_common whose module is the EFFECTIVE module (every constrained reference replaced
    by the referenced type with that constraint) and which remembers the abstract one."""
    __slots__ = ('amod',)


def gen_cases(ctx, opts, n_modules, values_per_type, numeric_choices=(False, True)):
    cases = []
    for _ in range(n_modules):
        amod, g = gen_module(ctx.rng, opts)
        text = render_module(amod)
        em = R.effective(amod)
        g.types = em['types']
        numeric = ctx.rng.choice(numeric_choices)
        nsites = sum(1 for _, t in amod['types'] for m in members_of(t) if m.get('site'))
        ctx.count('refsites:modules:%s' % amod['tags'])
        for tn, t in em['types']:
            if t['k'] not in ('SEQUENCE', 'SET', 'CHOICE'):
                continue
            for _ in range(values_per_type if tn != 'Top' else values_per_type + 1):
                v = g.gen_value(t)
                c = SiteCase(em, text, tn, t, v, numeric, g, meta={'sites': nsites})
                c.amod = amod
                cases.append(c)
    return cases
