"""Cross-codec property tests on /repo (C01 round-trip, C16 truncation, C07
extension interoperability, C08 hostile input) and the registry of codec
models available for correspondence."""
import importlib
import os

import common
import codec_common as CC
import gen_asn1 as G
import lib

ALL_BINARY = ['uper', 'per', 'oer', 'der', 'ber']
# codecs whose finding regions have been triaged (recorded witnesses + generator exclusions); the
# cross-codec checks run on these, the others are listed in the evidence as not yet covered
BINARY = ['uper', 'per']
TEXT = ['jer', 'xer']


def models():
    """codec name -> binding module, for every codec model that exists and builds."""
    out = {}
    for c in BINARY:
        try:
            out[c] = importlib.import_module('codec_%s' % c)
        except ImportError:
            pass
    return out


# Finding regions per codec that the shared generator must stay out of; each name is tied to a
# recorded witness in known_findings/ (C05 for per/uper, C06 for oer, C03/C04 for der/ber).
def avoid_for(codec, mods):
    if codec in mods and hasattr(mods[codec], 'AVOID'):
        return set(mods[codec].AVOID)
    if codec in ('per', 'uper'):
        import codec_uper
        return set(codec_uper.AVOID)
    return set()


def union_opts(codecs, mods, **kw):
    avoid = set()
    for c in codecs:
        avoid |= avoid_for(c, mods)
    o = dict(avoid=avoid, str_kinds=G.KM_KINDS + ['UTF8String'])
    o.update(kw)
    return G.Opts(**o)


def scope_ok(codec, mods, c):
    m = mods.get(codec)
    if m is None or not hasattr(m, 'in_scope'):
        return True
    try:
        return m.in_scope(c.mod, c.t, c.value)
    except Exception:
        return True


def pt_roundtrip(ctx, codec, c):
    """C01 on /repo.  Returns the encoding (bytes) when everything held, else None."""
    r = lib.attempt(lib.compile_string, c.text, codec, numeric_enums=c.numeric)
    if r[0] != 'ok':
        ctx.violation('%s: supported module does not compile: %s %s' % (codec, r[1], r[2][:160]),
                      c.replay(codec=codec, kind='compile'))
        return None
    spec = r[1]
    v = c.api_value()
    e = lib.attempt(spec.encode, c.tname, v, check_constraints=True)
    if e[0] != 'ok':
        ctx.violation('%s: a value that satisfies its constraints is not encodable: %s %s' % (codec, e[1], e[2][:160]),
                      c.replay(codec=codec, kind='encode'))
        return None
    d = lib.attempt(spec.decode, c.tname, e[1])
    if d[0] != 'ok':
        ctx.violation('%s: own encoding %s is not decodable: %s %s' % (codec, e[1].hex()[:60], d[1], d[2][:160]),
                      c.replay(codec=codec, kind='decode', data=e[1].hex()))
        return None
    try:
        same = G.norm(c.rt, c.t, d[1], c.numeric) == G.norm(c.rt, c.t, v, c.numeric)
    except Exception:
        same = False
    if not same:
        ctx.violation('%s: decode(encode(v)) is a different abstract value: %s' % (codec, repr(d[1])[:200]),
                      c.replay(codec=codec, kind='roundtrip', data=e[1].hex(), decoded=repr(d[1])[:600]))
        return None
    e2 = lib.attempt(spec.encode, c.tname, d[1], check_constraints=True)
    if e2[0] != 'ok':
        ctx.violation('%s: the decoded value is rejected by the encoder: %s %s' % (codec, e2[1], e2[2][:160]),
                      c.replay(codec=codec, kind='reencode-rejected', decoded=repr(d[1])[:600]))
        return None
    if codec != 'ber' and e2[1] != e[1]:
        ctx.violation('%s: re-encoding the decoded value gives different bytes: %s vs %s' % (
            codec, e[1].hex()[:60], e2[1].hex()[:60]),
            c.replay(codec=codec, kind='reencode-differs', first=e[1].hex(), second=e2[1].hex()))
        return None
    return e[1]


def pt_truncation(ctx, codec, c, enc, every=True):
    """C16 on /repo: every strict byte prefix must raise the library's DecodeError."""
    spec = lib.compile_string(c.text, codec, numeric_enums=c.numeric)
    ks = range(len(enc)) if every or len(enc) < 400 else \
        sorted(set(list(range(0, 64)) + [ctx.rng.randrange(len(enc)) for _ in range(64)] + [len(enc) - 1]))
    n = 0
    for k in ks:
        r = lib.attempt(spec.decode, c.tname, enc[:k])
        n += 1
        if r[0] == 'ok':
            ctx.violation('%s: %d-octet prefix of a %d-octet encoding decodes to a value %s' % (
                codec, k, len(enc), repr(r[1])[:120]),
                c.replay(codec=codec, kind='truncation-value', data=enc.hex(), k=k))
            return n
        if r[1] != 'decode':
            ctx.violation('%s: %d-octet prefix of a %d-octet encoding raises %s (%s), not the decode error' % (
                codec, k, len(enc), r[1], r[2][:100]),
                c.replay(codec=codec, kind='truncation-foreign', data=enc.hex(), k=k, error=r[1]))
            return n
    return n
