"""Cross-codec property tests on /repo (C01 round-trip, C16 truncation, C07
extension interoperability, C08 hostile input) and the registry of codec
models available for correspondence."""
import importlib
import os

import common
import codec_common as CC
import gen_asn1 as G
import lib

ALL_BINARY = ['uper', 'per', 'oer', 'der', 'ber']
# codecs covered by the cross-codec property tests (their finding regions are triaged: recorded
# witnesses in known_findings/ + scope predicates of their bindings)
BINARY = ['uper', 'per', 'oer', 'der', 'ber']
TEXT = ['jer', 'xer']


def binding(codec):
    try:
        return importlib.import_module('codec_%s' % codec)
    except ImportError:
        return None


def models():
    """codec name -> binding module usable by the GENERIC correspondence drivers of
    codec_common (uper, per).  The OER, DER and BER models have their own exporters (tags, OER
    normal form) and are compared with the library by their own checks (C06, C03, C04); the
    cross-codec checks run the property tests on /repo for them and re-export their theorems."""
    out = {}
    for c in BINARY:
        m = binding(c)
        if m is not None and getattr(m, 'GENERIC', False):
            out[c] = m
    return out


def avoid_for(codec, mods=None):
    import codec_uper
    m = binding(codec)
    if m is not None and hasattr(m, 'AVOID'):
        return set(m.AVOID)
    if codec in ('per', 'uper'):
        return set(codec_uper.AVOID)
    # shared generator regions that are findings of the compile layer / of several codecs
    if codec == 'der':
        # DER removes trailing zero bits of named-bit strings; the decoder does not pad the value back up to a
        # SIZE lower bound, so the decoded value fails the constraints check (known_findings/C01.json)
        return {'named_bits_with_size'}
    if codec == 'jer':
        # BIT STRING (SIZE (n, ...)) is written without its length (known_findings/C02.json, C02-jer-bits-fixed-size-ext)
        return {'bits_fixed_ext_outside'}
    return {'int_ext_open', 'alpha1', 'group_zero_width'} if codec == 'oer' else set()


def union_opts(codecs, mods, **kw):
    avoid = set()
    for c in codecs:
        avoid |= avoid_for(c, mods)
    o = dict(avoid=avoid, str_kinds=G.KM_KINDS + ['UTF8String'])
    o.update(kw)
    return G.Opts(**o)


def scope_ok(codec, mods, c):
    m = binding(codec)
    if m is None or not hasattr(m, 'in_scope'):
        return True
    try:
        return bool(m.in_scope(c.mod, c.t, c.value))
    except Exception:
        return True


def finding_region(codec, mod, t, v=None):
    """Name of the open known-finding region of another property this (module, type) lies in, or None."""
    m = binding(codec)
    if m is None or not hasattr(m, 'why_out_of_scope'):
        return None
    try:
        r = m.why_out_of_scope(mod, t, v)
    except Exception:
        return None
    return r if isinstance(r, str) and r.startswith('finding') else None


def pt_roundtrip(ctx, codec, c):
    """C01 on /repo.  Returns the encoding (bytes) when everything held, else None."""
    r = lib.attempt(lib.compile_string, c.text, codec, numeric_enums=c.numeric)
    if r[0] != 'ok':
        ctx.violation('%s: supported module does not compile: %s %s' % (codec, r[1], r[2][:160]),
                      c.replay(codec=codec, kind='compile'))
        return None
    spec = r[1]
    v = c.api_value()
    e = lib.attempt_timed(120, spec.encode, c.tname, v, check_constraints=True)
    if e[0] != 'ok':
        ctx.violation('%s: a value that satisfies its constraints is not encodable: %s %s' % (codec, e[1], e[2][:160]),
                      c.replay(codec=codec, kind='encode'))
        return None
    d = lib.attempt_timed(120, spec.decode, c.tname, e[1])
    if d[0] != 'ok':
        ctx.violation('%s: own encoding %s is not decodable: %s %s' % (codec, e[1].hex()[:60], d[1], d[2][:160]),
                      c.replay(codec=codec, kind='decode', data=e[1].hex()))
        return None
    try:
        same = G.norm(c.rt, c.t, d[1], c.numeric) == G.norm(c.rt, c.t, v, c.numeric)
    except Exception:
        same = False
    if not same:
        ctx.violation('%s: decode(encode(v)) is a different abstract value: %s' % (codec, repr(d[1])[:200]),
                      c.replay(codec=codec, kind='roundtrip', data=e[1].hex(), decoded=repr(d[1])[:600]))
        return None
    e2 = lib.attempt_timed(120, spec.encode, c.tname, d[1], check_constraints=True)
    if e2[0] != 'ok':
        ctx.violation('%s: the decoded value is rejected by the encoder: %s %s' % (codec, e2[1], e2[2][:160]),
                      c.replay(codec=codec, kind='reencode-rejected', decoded=repr(d[1])[:600]))
        return None
    if codec != 'ber' and e2[1] != e[1]:
        ctx.violation('%s: re-encoding the decoded value gives different bytes: %s vs %s' % (
            codec, e[1].hex()[:60], e2[1].hex()[:60]),
            c.replay(codec=codec, kind='reencode-differs', first=e[1].hex(), second=e2[1].hex()))
        return None
    return e[1]


def pt_truncation(ctx, codec, c, enc, every=True):
    """C16 on /repo: every strict byte prefix must raise the library's DecodeError."""
    spec = lib.compile_string(c.text, codec, numeric_enums=c.numeric)
    ks = range(len(enc)) if every or len(enc) < 400 else \
        sorted(set(list(range(0, 64)) + [ctx.rng.randrange(len(enc)) for _ in range(64)] + [len(enc) - 1]))
    n = 0
    for k in ks:
        r = lib.attempt(spec.decode, c.tname, enc[:k])
        n += 1
        if r[0] == 'ok':
            ctx.violation('%s: %d-octet prefix of a %d-octet encoding decodes to a value %s' % (
                codec, k, len(enc), repr(r[1])[:120]),
                c.replay(codec=codec, kind='truncation-value', data=enc.hex(), k=k))
            return n
        if r[1] != 'decode':
            ctx.violation('%s: %d-octet prefix of a %d-octet encoding raises %s (%s), not the decode error' % (
                codec, k, len(enc), r[1], r[2][:100]),
                c.replay(codec=codec, kind='truncation-foreign', data=enc.hex(), k=k, error=r[1]))
            return n
    return n
