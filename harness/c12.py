"""C12 — ill-typed or out-of-constraint components are rejected with the exact path.

  obligations : Props/C12.v (typecheck_complete, one_fault_path per corruption
                kind, the refuted statements with their witnesses)
  corr        : /repo spec.encode(name, corrupted, check_types=True,
                check_constraints=True) -> (error class, dotted path) on all 8
                codecs  vs  Check/Skeleton.v first_error (type checker, then
                constraints checker, then the codec's member/choice encoders)
                evaluated by vm_compute on the same (type, value, codec)
  PT          : the property itself: every component position x every applicable
                corruption kind x 8 codecs must raise EncodeError/ConstraintsError
                whose text starts with Type.member.member...: ; never bytes,
                never a foreign exception
"""
import json
import os

import common
import lib
import gen_asn1
import c11
import c11c12_gen as G
import c11c12_oracle as O
import c11c12_coq
from common import C, to_coq
from gen_asn1 import all_members

CODECS = O.CODECS
CLASS_OF = {'type': 'encode', 'choice': 'encode', 'enum': 'encode', 'missing': 'encode', 'constraint': 'constraints'}
CODE = {0: 'pass', 1: 'constraints', 2: 'encode', 3: 'foreign', 4: 'fuel', 5: 'unmodelled', 6: 'other'}


# ---------------------------------------------------------------------------
# walking a value together with its type, tracking reference cycles

def walk(defs, t, v, bt, path=(), names=(), tcnames=(), crossed=0):
    """Yield (path, names, tcnames, resolved type, value, crossed).  [names] are
    the member/alternative names along the path; [tcnames] additionally contain
    the type name the type checker inserts each time a recursive reference is
    crossed; [crossed] counts those."""
    n = 0
    while t['k'] == 'REF':
        nm = t['name']
        if nm in bt:
            crossed += 1
            tcnames = tcnames + (nm,)
            bt = (nm,)
        else:
            bt = bt + (nm,)
        t = defs[nm]
        n += 1
        assert n < 100
    yield path, names, tcnames, t, v, crossed
    k = t['k']
    if k in ('SEQUENCE', 'SET') and isinstance(v, dict):
        for m in all_members(t):
            if m['name'] in v:
                for x in walk(defs, m['t'], v[m['name']], bt, path + (m['name'],), names + (m['name'],),
                              tcnames + (m['name'],), crossed):
                    yield x
    elif k in ('SEQUENCE OF', 'SET OF') and isinstance(v, list):
        for i, x in enumerate(v):
            for y in walk(defs, t['elem'], x, bt, path + (i,), names, tcnames, crossed):
                yield y
    elif k == 'CHOICE' and isinstance(v, tuple):
        for m in t['root'] + (t['ext'] or []):
            if m['name'] == v[0]:
                for y in walk(defs, m['t'], v[1], bt, path + (1,), names + (m['name'],), tcnames + (m['name'],), crossed):
                    yield y


# ---------------------------------------------------------------------------
# which Python objects the type check is specified to reject (README "Types")

POOL = [None, True, 5, 'zz', b'by', (b'\x80', 1), [], {}, ('zz', 1), (1, 2), 1.5, (b'\x80', 9)]


NEAR = {
    'BOOLEAN': [5, None], 'NULL': [False, 'zz'], 'INTEGER': [1.5, b'by'], 'ENUMERATED': [5, b'by'],
    'OCTET STRING': ['zz', (b'\x80', 1)], 'BIT STRING': [b'by', (b'\x80', 9)], 'STRING': [b'by', 5],
    'OBJECT IDENTIFIER': [5, b'by'], 'SEQUENCE': [[], ('zz', 1)], 'SET': [[], None], 'SEQUENCE OF': [{}, ('zz', 1)],
    'SET OF': [{}, b'by'], 'CHOICE': [[], (1, 2)],
}


def py_accepts(t, v):
    k = t['k']
    if k == 'BOOLEAN':
        return isinstance(v, bool)
    if k == 'NULL':
        return v is None
    if k == 'INTEGER':
        return isinstance(v, (int, str))
    if k in ('ENUMERATED', 'STRING', 'OBJECT IDENTIFIER'):
        return isinstance(v, str)
    if k == 'OCTET STRING':
        return isinstance(v, (bytes, bytearray))
    if k == 'BIT STRING':
        return isinstance(v, tuple) and len(v) == 2 and isinstance(v[0], (bytes, bytearray)) and isinstance(v[1], int) \
            and 8 * len(v[0]) >= v[1]
    if k in ('SEQUENCE', 'SET'):
        return isinstance(v, dict)
    if k in ('SEQUENCE OF', 'SET OF'):
        return isinstance(v, list)
    if k == 'CHOICE':
        return isinstance(v, tuple) and len(v) == 2 and isinstance(v[0], str)
    raise AssertionError(k)


def modelled_shape(v):
    """Is the Python object expressible in the Coq value universe?"""
    if isinstance(v, float):
        return False
    if isinstance(v, tuple):
        return len(v) == 2 and (isinstance(v[0], str) or (isinstance(v[0], bytes) and isinstance(v[1], int)))
    return True


def corruptions(gen, rng, defs, rt, t, v):
    """[(kind, label, op, payload)] applicable at the component (t resolved, v)."""
    out = []
    k = t['k']
    rej = [x for x in POOL if not py_accepts(t, x)]
    # the objects most easily confused with the right type first, then a random one
    near = [x for x in NEAR.get(k, []) if not py_accepts(t, x)]
    rest = [x for x in rej if x not in near]
    for x in near[:2] + (rng.sample(rest, 1) if rest else []):
        out.append(('type', 'type:%s<-%s' % (k.split()[0], type(x).__name__), 'replace', x))
    if k == 'CHOICE':
        out.append(('choice', 'choice:unknown', 'replace', ('zz', v[1] if isinstance(v, tuple) else None)))
    if k == 'ENUMERATED':
        out.append(('enum', 'enum:unknown', 'replace', 'zz'))
    if k in ('SEQUENCE', 'SET'):
        cand = [m['name'] for m in t['root'] if m['opt'] is None and m['name'] in v]
        if cand:
            out.append(('missing', 'missing:%s' % k, 'remove', rng.choice(cand)))
    for label, new in O.boundary_mutants(gen, rng, rt, t, v):
        if not O.admits(rt, t, new):
            out.append(('constraint', 'constraint:' + label, 'replace', new))
    return out


# ---------------------------------------------------------------------------
# Python object -> Coq value, by type where the shape fits, by shape otherwise

def raw(v):
    if v is None:
        return C('VNone')
    if isinstance(v, bool):
        return C('VBool', v)
    if isinstance(v, int):
        return C('VInt', v)
    if isinstance(v, str):
        return C('VStr', [ord(c) for c in v])
    if isinstance(v, (bytes, bytearray)):
        return C('VBytes', bytes(v))
    if isinstance(v, list):
        return C('VList', [raw(x) for x in v])
    if isinstance(v, dict):
        return C('VSeq', [(n, raw(x)) for n, x in v.items()])
    if isinstance(v, tuple) and len(v) == 2:
        if isinstance(v[0], str):
            return C('VChoice', v[0], raw(v[1]))
        if isinstance(v[0], (bytes, bytearray)) and isinstance(v[1], int):
            return C('VBits', bytes(v[0]), v[1])
        if v[0] is None and v[1] is None:
            return C('VUnknownChoice')
    raise TypeError('not modelled: %r' % (v,))


def coq_val(rt, t, v):
    t = rt(t)
    k = t['k']
    if k == 'ENUMERATED' and isinstance(v, str):
        return C('VEnum', v)
    if k == 'OBJECT IDENTIFIER' and isinstance(v, str) and all(p.isdigit() for p in v.split('.')):
        return C('VOid', [int(p) for p in v.split('.')])
    if k in ('SEQUENCE', 'SET') and isinstance(v, dict):
        by = {m['name']: m for m in all_members(t)}
        return C('VSeq', [(n, coq_val(rt, by[n]['t'], x) if n in by else raw(x)) for n, x in v.items()])
    if k in ('SEQUENCE OF', 'SET OF') and isinstance(v, list):
        return C('VList', [coq_val(rt, t['elem'], x) for x in v])
    if k == 'CHOICE' and isinstance(v, tuple) and len(v) == 2 and isinstance(v[0], str):
        by = {m['name']: m for m in t['root'] + (t['ext'] or [])}
        return C('VChoice', v[0], coq_val(rt, by[v[0]]['t'], v[1]) if v[0] in by else raw(v[1]))
    return raw(v)


# ---------------------------------------------------------------------------

def normalise(gen, rng, rt, t, v):
    """Extension additions of a well-formed value are prefix closed: nothing is
    present after an absent mandatory addition (BER/PER/OER stop encoding
    additions there).  Fill the gap or drop what follows."""
    t = rt(t)
    k = t['k']
    if k in ('SEQUENCE', 'SET') and isinstance(v, dict):
        d = {n: normalise(gen, rng, rt, by['t'], v[n]) for n, by in ((m['name'], m) for m in all_members(t)) if n in v}
        if t['ext']:
            stopped = False
            for a in t['ext']:
                ms = a['group'] if 'group' in a else [a['member']]
                if stopped:
                    for m in ms:
                        d.pop(m['name'], None)
                    continue
                missing = [m for m in ms if m['opt'] is None and m['name'] not in d]
                if missing:
                    if rng.random() < .5:
                        for m in missing:
                            d[m['name']] = normalise(gen, rng, rt, m['t'], gen.gen_value(m['t'], depth=3))
                    else:
                        stopped = True
                        for m in ms:
                            d.pop(m['name'], None)
        return d
    if k in ('SEQUENCE OF', 'SET OF') and isinstance(v, list):
        return [normalise(gen, rng, rt, t['elem'], x) for x in v]
    if k == 'CHOICE' and isinstance(v, tuple):
        for m in t['root'] + (t['ext'] or []):
            if m['name'] == v[0]:
                return (v[0], normalise(gen, rng, rt, m['t'], v[1]))
    return v


def observe(spec, name, v):
    r = lib.attempt(spec.encode, name, v, check_types=True, check_constraints=True)
    if r[0] == 'ok':
        return ('bytes', '')
    if r[1] in ('encode', 'constraints'):
        return (r[1], r[2].split(':')[0])
    return (r[1], '')


def fixed_module():
    S = lambda lo, hi, ext=False: {'lo': lo, 'hi': hi, 'ext': ext}
    ref = lambda n: {'k': 'REF', 'name': n}
    mem = lambda n, t, opt=None: {'name': n, 't': t, 'opt': opt}
    E = lambda *names: {'k': 'ENUMERATED', 'root': [(n, i) for i, n in enumerate(names)], 'ext': None}
    I = lambda lo, hi: {'k': 'INTEGER', 'c': {'lo': lo, 'hi': hi, 'ext': False}, 'named': None}
    types = [
        ('E0', E('a', 'b')),
        # extensible ENUMERATED (with and without additions) in every position: member, element, addition, alternative
        ('E1', dict(E('a', 'b'), ext=[('c', 5)])),
        ('E2', dict(E('a', 'b', 'c'), ext=[])),
        ('G2', {'k': 'SEQUENCE', 'root': [mem('e', ref('E1')), mem('l', {'k': 'SEQUENCE OF', 'elem': ref('E2'), 'size': None}),
                                           mem('c', {'k': 'CHOICE', 'ext': [], 'root': [mem('x', ref('E1')), mem('n', {'k': 'NULL'})]})],
                'ext': [{'member': mem('z', ref('E2'), 'optional')}]}),
        ('G1', {'k': 'SEQUENCE', 'root': [mem('e', ref('E0')), mem('i', I(0, 7), 'optional')],
                'ext': [{'member': mem('x', E('c', 'd'), 'optional')},
                        {'member': mem('y', I(0, 3))},
                        {'group': [mem('g1', E('p', 'q')), mem('g2', {'k': 'BOOLEAN'}, 'optional')]}]}),
        ('C1', {'k': 'CHOICE', 'ext': None, 'root': [
            mem('leaf', I(0, 3)),
            mem('node', {'k': 'SEQUENCE', 'ext': None, 'root': [mem('l', ref('C1')), mem('e', ref('E0'))]})]}),
        ('R1', {'k': 'SEQUENCE', 'ext': None, 'root': [mem('v', I(0, 3)), mem('e', ref('E0')),
                                                       mem('next', ref('R1'), 'optional')]}),
        ('R2', {'k': 'SEQUENCE', 'ext': None, 'root': [
            mem('v', I(0, 3)), mem('kids', {'k': 'SEQUENCE OF', 'elem': ref('R2'), 'size': S(0, 2)})]}),
        ('N1', {'k': 'SEQUENCE', 'ext': [], 'root': [
            mem('l', {'k': 'SET OF', 'size': None, 'elem': {'k': 'CHOICE', 'ext': [], 'root': [
                mem('s', {'k': 'SET', 'ext': None, 'root': [mem('b', {'k': 'BIT STRING', 'named': None, 'size': S(1, 8)}),
                                                            mem('n', {'k': 'NULL'}),
                                                            mem('o', {'k': 'OBJECT IDENTIFIER'}, 'optional')]}),
                mem('t', {'k': 'STRING', 'sk': 'IA5String', 'size': S(1, 3), 'alpha': None})]}})]}),
    ]
    mod = {'name': 'M', 'tags': 'AUTOMATIC', 'ext_implied': False, 'types': types, 'values': []}
    values = {
        'E0': ['a'],
        'E1': ['c'],
        'G2': [{'e': 'a', 'l': ['a', 'c'], 'c': ('x', 'c'), 'z': 'b'}, {'e': 'c', 'l': [], 'c': ('n', None)}],
        'G1': [{'e': 'a', 'i': 3, 'x': 'c', 'y': 1, 'g1': 'p', 'g2': True}, {'e': 'b', 'x': 'd'}],
        'C1': [('node', {'l': ('node', {'l': ('leaf', 1), 'e': 'a'}), 'e': 'b'})],
        'R1': [{'v': 1, 'e': 'a', 'next': {'v': 2, 'e': 'b', 'next': {'v': 3, 'e': 'a', 'next': {'v': 0, 'e': 'a'}}}}],
        'R2': [{'v': 1, 'kids': [{'v': 2, 'kids': [{'v': 3, 'kids': []}]}, {'v': 0, 'kids': []}]}],
        'N1': [{'l': [('s', {'b': (b'\xa0', 3), 'n': None, 'o': '1.2.3'}), ('t', 'ab')]}],
    }
    return mod, values


class Batch(object):
    def __init__(self, em, text):
        self.em = em
        self.text = text
        self.rt = gen_asn1.make_resolver(em)
        self.cases = []      # (name, value, label, {codec: obs})

    def coq_chunks(self, chunk=40):
        return range(0, len(self.cases), chunk)

    def coq(self, i, chunk=40):
        env = c11c12_coq.cq(gen_asn1.coq_env(self.em))
        tys = dict(self.em['types'])
        out = []
        for j in range(0, len(self.cases), chunk):
            cs = [((n, coq_val(self.rt, tys[n], v)), [CODECS.index(c) for c in obs])
                  for n, v, _, obs in self.cases[j:j + chunk]]
            k = '%d_%d' % (i, j)
            out.append('Definition env%s : env := %s.\nDefinition cases%s : list (string * value * list Z) := %s.\n'
                       'Eval vm_compute in map (run_first Repaired env%s) cases%s.\n' % (k, env, k, c11c12_coq.cq(cs), k, k))
        return out


def known_recursive_tc(kind, crossed, got, tc_expected):
    return kind in ('type', 'choice') and crossed > 0 and got == tc_expected


def run_module(ctx, em, text, g, given_values, budget, batches, state):
    rng = ctx.rng
    rt = gen_asn1.make_resolver(em)
    defs = dict(em['types'])
    specs = c11.compile_all(ctx, text)
    if len(specs) < 8:
        ctx.count('module-skipped:compile')
        return
    b = Batch(em, text)
    jobs = []
    for name, t in em['types']:
        bases = list(given_values.get(name, [])) if given_values else \
            [x for x in (c11.small_value(g, rt, t, 120) for _ in range(2)) if x is not c11.NOVALUE]
        for base in bases:
            base = normalise(g, rng, rt, t, base)
            if not O.admits(rt, t, base):
                continue
            okc = [c for c in CODECS if observe(specs[c], name, base) == ('bytes', '')]
            ctx.count('base-encodable-on-%d-codecs' % len(okc))
            if not okc:
                continue
            b.cases.append((name, base, 'base', {c: ('bytes', '') for c in okc}))
            pos = list(walk(defs, {'k': 'REF', 'name': name}, base, ()))
            if len(pos) > 30:
                pos = [pos[0]] + rng.sample(pos[1:], 29)
            for path, names, tcnames, st, sv, crossed in pos:
                for kind, label, op, payload in corruptions(g, rng, defs, rt, st, sv):
                    jobs.append((name, base, okc, path, names, tcnames, crossed, kind, label, op, payload))
    if len(jobs) > budget:
        rng.shuffle(jobs)
        jobs = jobs[:budget]
    for name, base, okc, path, names, tcnames, crossed, kind, label, op, payload in jobs:
        if op == 'remove':
            bad = G.remove_at(base, path + (payload,))
        else:
            bad = G.replace_at(base, path, payload)
        exp = (CLASS_OF[kind], '.'.join((name,) + names))
        tc_exp = ('encode', '.'.join((name,) + tcnames))
        obs = {}
        for c in okc:
            got = observe(specs[c], name, bad)
            obs[c] = got
            ctx.evaluations += 1
            if got == exp:
                continue
            if known_recursive_tc(kind, crossed, got, tc_exp):
                state['tc_recursive'] += 1
                continue
            what = ('returned bytes' if got[0] == 'bytes' else 'raised a foreign exception (%s)' % got[0]
                    if got[0] not in ('encode', 'constraints') else 'reported %s %r' % got)
            c11.report(ctx, ('pt', kind, 'bytes' if got[0] == 'bytes' else 'class' if got[0] != exp[0] else 'path'),
                       '%s encode of a value with one fault (%s at %s in type %s) %s, expected %s with path %r'
                       % (c, label, '.'.join(names) or '<top>', name, what, exp[0], exp[1]),
                       dict(kind='pt', spec=text, codec=c, type=name, value=repr(bad), expected=list(exp), label=label))
        ctx.case(('fault', gen_asn1.shape(rt, rt({'k': 'REF', 'name': name}))[:30], label, len(names), crossed > 0),
                 dict(kind='fault', type=name, label=label, at='.'.join(names), value=repr(bad)[:120], expected=list(exp)))
        ctx.count('kind:' + kind)
        if modelled_value(bad):
            b.cases.append((name, bad, label, obs))
        if len(state['samples']) < 60 and okc:
            state['samples'].append((text, rng.choice(okc), name, bad))
    cap = state.get('model_cap', 10 ** 9)
    if len(b.cases) > cap:
        keep = b.cases[:1]
        rest = b.cases[1:]
        rng.shuffle(rest)
        b.cases = keep + rest[:cap - 1]
    batches.append(b)


def modelled_value(v):
    if isinstance(v, dict):
        return all(modelled_value(x) for x in v.values())
    if isinstance(v, list):
        return all(modelled_value(x) for x in v)
    if isinstance(v, tuple):
        return modelled_shape(v) and (isinstance(v[0], bytes) or modelled_value(v[1]))
    return modelled_shape(v)


def corr(ctx, batches):
    res = c11c12_coq.eval_batches(ctx, 'corr', ['Base.Prelude', 'Syntax.Asn1', 'Check.Location', 'Check.Skeleton', 'Check.Run'],
                                  [t for i, b in enumerate(batches) for t in b.coq(i)])
    it = iter(res)
    res = [[x for _ in b.coq_chunks() for x in next(it)] for b in batches]
    agree = 0
    for b, rs in zip(batches, res):
        assert len(rs) == len(b.cases)
        for (name, v, label, obs), ms in zip(b.cases, rs):
            for (c, got), (code, path) in zip(obs.items(), ms):
                model = ('bytes' if code == 0 else CODE[code], path)
                ctx.evaluations += 1
                got_n = got if got[0] in ('bytes', 'encode', 'constraints') else ('foreign', '')
                if model != got_n:
                    c11.report(ctx, ('corr', label.split(':')[0], c11.diff_kind(model, got_n)),
                               'model Check/Skeleton.v first_error and /repo disagree (%s, type %s, %s): model %r, /repo %r'
                               % (c, name, label, model, got),
                               dict(kind='corr', spec=b.text, codec=c, type=name, value=repr(v), model=list(model),
                                    impl=list(got)))
                else:
                    agree += 1
    ctx.extra['model_vs_impl_agreements'] = agree


class LocationRecorder(object):
    """Records, per exception object, the element given to the constructor and
    the sequence of add_location calls of the real ErrorWithLocation."""

    def __enter__(self):
        import asn1tools.codecs as K
        self.K = K
        self.orig = K.ErrorWithLocation.add_location
        self.traces = {}
        rec = self

        def add_location(exc, element):
            t = rec.traces.get(id(exc))
            if t is None:
                t = rec.traces[id(exc)] = {'init': list(exc.location), 'adds': []}
            t['adds'].append(element)
            return rec.orig(exc, element)
        K.ErrorWithLocation.add_location = add_location
        return self

    def __exit__(self, *a):
        self.K.ErrorWithLocation.add_location = self.orig

    def trace_of(self, exc):
        t = self.traces.get(id(exc), {'init': list(getattr(exc, 'location', [])), 'adds': []})
        ids = {}

        def key(el):
            return (ids.setdefault(id(el), len(ids)), el.name or '')
        return [key(e) for e in t['init']], [key(e) for e in t['adds']]


def corr_location(ctx, samples):
    """Check/Location.v against the real add_location on recorded call
    sequences: BER wrong-tag decode errors (the only errors constructed with
    location=...) in nested and recursive members, and a sample of the encode
    errors of this run."""
    text = ('M DEFINITIONS AUTOMATIC TAGS ::= BEGIN A ::= SEQUENCE { a SEQUENCE { b SEQUENCE { c INTEGER } } } '
            'R ::= SEQUENCE { v INTEGER, next R OPTIONAL } L ::= SEQUENCE OF SEQUENCE { x BOOLEAN } '
            'X ::= [5] EXPLICIT INTEGER Y ::= SEQUENCE { x [5] EXPLICIT INTEGER } END')
    runs = [(text, 'ber', 'decode', 'A', '3006a004a0020500'),
            (text, 'ber', 'decode', 'R', '3011800101a10c800102a107800103a1020500'),
            (text, 'ber', 'decode', 'R', '300c800101a107800102a1020500'),
            (text, 'ber', 'decode', 'L', '300430020500'),
            (text, 'der', 'decode', 'A', '3006a004a0020500'),
            # wrong tag of the top-level type: raised with location=type and re-added by CompiledType.decode
            (text, 'ber', 'decode', 'A', '0500'), (text, 'der', 'decode', 'L', '0500'),
            (text, 'ber', 'decode', 'X', 'a5020500'), (text, 'ber', 'decode', 'Y', '3004a5020500')]
    runs += [(t, c, 'encode', n, v) for t, c, n, v in samples]
    import asn1tools.codecs as K
    cases = []
    with LocationRecorder() as rec:
        for text_, codec, op, name, arg in runs:
            spec = lib.compile_string(text_, codec)
            rec.traces.clear()
            try:
                if op == 'decode':
                    spec.decode(name, bytes.fromhex(arg))
                else:
                    spec.encode(name, arg, check_types=True, check_constraints=True)
            except K.ErrorWithLocation as e:
                init, adds = rec.trace_of(e)
                cases.append(((init, adds), e.location_str, (codec, op, name, arg)))
            except Exception:
                pass
    ctx.count('location-traces', len(cases))
    if not cases:
        return
    (ms,) = ctx.coq_eval('loc', ['Base.Prelude', 'Check.Location', 'Check.Run'],
                         'Open Scope string_scope.\nEval vm_compute in map (run_location Repaired) %s.\n'
                         % to_coq([c[0] for c in cases]))
    for m, (trace, got, (codec, op, name, arg)) in zip(ms, cases):
        ctx.evaluations += 1
        if m != got:
            c11.report(ctx, ('corr', 'location', op),
                       'model Check/Location.v add_location and /repo disagree on a recorded call sequence '
                       '(%s %s %s): model %r, /repo %r' % (codec, op, name, m, got),
                       dict(kind='corr-location', codec=codec, op=op, type=name, arg=repr(arg), trace=repr(trace),
                            model=m, impl=got))


def replay_findings(ctx, findings):
    for f in findings:
        w = f['witness']
        spec = lib.compile_string(w['spec'], w['codec'])
        got = observe(spec, w['type'], eval(w['value']))
        if list(got) != w['expected']:
            ctx.known_finding(f['id'], f['what'] + ' (observed %r)' % (got,))
        else:
            print('known finding %s no longer reproduces' % f['id'])


WITNESS_SPEC = ('M DEFINITIONS AUTOMATIC TAGS ::= BEGIN\n'
                'R ::= SEQUENCE { v INTEGER (0..3), next R OPTIONAL }\n'
                'G ::= SEQUENCE { e ENUMERATED {a, b}, ..., x ENUMERATED {c, d} OPTIONAL, y INTEGER OPTIONAL }\n'
                'END\n')
# the witnesses of Props/C12.v C12_orig_*_refuted, with what the repaired model (and the property) say
WITNESSES = [
    ('recursive-path-constraint', 'R', {'v': 0, 'next': {'v': 0, 'next': {'v': 9}}}, ('constraints', 'R.next.next.v'), CODECS),
    ('recursive-path-missing', 'R', {'v': 0, 'next': {'v': 0, 'next': {}}}, ('encode', 'R.next.next'), CODECS),
    ('addition-enum-swallowed', 'G', {'e': 'a', 'x': 'zz', 'y': 5}, ('encode', 'G.x'), CODECS),
    ('enum-keyerror', 'G', {'e': 'zz'}, ('encode', 'G.e'), CODECS),
]


def replay_witnesses(ctx):
    for wid, name, v, exp, codecs in WITNESSES:
        for c in codecs:
            got = observe(lib.compile_string(WITNESS_SPEC, c), name, v)
            ctx.evaluations += 1
            if got != exp:
                c11.report(ctx, ('witness', wid),
                           'witness of Props/C12.v (%s) reproduces on this tree: %s gives %r, the property (and the '
                           'repaired model) require %r' % (wid, c, got, exp),
                           dict(kind='witness', spec=WITNESS_SPEC, codec=c, type=name, value=repr(v), expected=list(exp)))


def replay(ctx):
    doc = json.load(open(ctx.replay))
    r = doc['replay']
    print('replaying', r.get('kind'))
    if 'spec' in r and 'value' in r:
        spec = lib.compile_string(r['spec'], r.get('codec', 'ber'))
        print(r.get('codec', 'ber'), 'encode(check_types=True, check_constraints=True) ->',
              observe(spec, r['type'], eval(r['value'])), 'expected', r.get('expected') or r.get('model'))


def run(ctx):
    if ctx.replay:
        return replay(ctx)
    ctx.rule = ('case = (type shape, corruption kind and detail, depth of the corrupted position, recursive reference '
                'crossed?); each case runs on every codec that encodes the uncorrupted value (up to 8); non-trivial = '
                'every case (one fault inside a generated module value)')
    # C11C12_SKIP_PROOFS=1 is for the mutation self-test only (the obligations do not depend on /repo)
    ok = True if os.environ.get('C11C12_SKIP_PROOFS') else ctx.coq_props()
    ctx.log('obligations checked')
    replay_findings(ctx, common.load_findings('C12'))
    replay_witnesses(ctx)
    state = {'tc_recursive': 0, 'samples': [], 'model_cap': 30 if ctx.quick else 400}
    batches = []
    mod, values = fixed_module()
    em = G.effective(mod)
    g = gen_asn1.Gen(ctx.rng, gen_asn1.Opts())
    g.types = em['types']
    run_module(ctx, em, G.render_module(mod), g, values, 500, batches, state)
    mod, values = c11.fixed_module()
    em = G.effective(mod)
    g = gen_asn1.Gen(ctx.rng, gen_asn1.Opts())
    g.types = em['types']
    run_module(ctx, em, G.render_module(mod), g, values, 150, batches, state)
    nmod = 10 if ctx.quick else 140
    for i in range(nmod):
        opts = gen_asn1.Opts(max_depth=3, n_types=5, recursion=True,
                             str_kinds=list(gen_asn1.KM_KINDS) + ['UTF8String', 'BMPString'])
        mod, em, text, g = G.generate(ctx.rng, opts)
        run_module(ctx, em, text, g, None, 50 if ctx.quick else 120, batches, state)
    ctx.log('property test done, %d evaluations' % ctx.evaluations)
    corr(ctx, batches)
    corr_location(ctx, state['samples'])
    ctx.log('correspondence done')
    ctx.extra['typecheck_recursive_path_cases'] = state['tc_recursive']
    ctx.trusted_base += [
        'harness/gen_asn1.py + c11c12_gen.py generator and its two printers (ASN.1 text, Coq terms)',
        'Check/Skeleton.v abstracts every codec encoder to its member/choice/enumeration error behaviour; base values '
        'are required to encode on the codec under test',
    ]
    ctx.extra['not_modelled'] = ['REAL, time types, ANY/open types', 'numeric_enums=True', 'float as a rejected Python type '
                                 '(property test only)']
    if not ok:
        common.proof_broken(ctx)
