"""Resource-limited decode worker for C08: reads JSON lines, decodes hostile
inputs under a CPU/wall deadline and an address-space limit, then runs a
sentinel valid decode on the same compiled specification."""
import json
import resource
import signal
import sys
import time

sys.path.insert(0, sys.argv[1])
import asn1tools  # noqa


class Timeout(BaseException):
    pass


def on_alarm(signum, frame):
    raise Timeout()


def classify(e):
    if isinstance(e, asn1tools.DecodeError):
        return 'decode'
    if isinstance(e, asn1tools.Error):
        return 'error'
    return 'foreign:' + type(e).__name__


def main():
    resource.setrlimit(resource.RLIMIT_AS, (3 << 30, 3 << 30))
    signal.signal(signal.SIGALRM, on_alarm)
    specs = {}
    for line in sys.stdin:
        job = json.loads(line)
        key = (job['spec'], job['codec'], job['numeric'])
        if key not in specs:
            specs[key] = asn1tools.compile_string(job['spec'], job['codec'], numeric_enums=job['numeric'])
        spec = specs[key]
        data = bytes.fromhex(job['data'])
        rss0 = resource.getrusage(resource.RUSAGE_SELF).ru_maxrss
        t0 = time.time()
        signal.setitimer(signal.ITIMER_REAL, job['deadline'])
        try:
            v = spec.decode(job['type'], data)
            out = ['ok', repr(v)[:200]]
        except Timeout:
            out = ['timeout', '']
        except MemoryError:
            out = ['memory', '']
        except RecursionError:
            out = ['foreign:RecursionError', '']
        except Exception as e:  # noqa
            out = [classify(e), str(e)[:120]]
        finally:
            signal.setitimer(signal.ITIMER_REAL, 0)
        dt = time.time() - t0
        sent = None
        if job.get('sentinel'):
            try:
                sent = repr(spec.decode(job['type'], bytes.fromhex(job['sentinel'])))
            except Exception as e:  # noqa
                sent = 'EXC ' + classify(e) + ' ' + str(e)[:80]
        peak = resource.getrusage(resource.RUSAGE_SELF).ru_maxrss
        print(json.dumps({'id': job['id'], 'out': out, 'dt': dt, 'sentinel': sent, 'maxrss_kb': peak,
                          'rss_growth_kb': peak - rss0}), flush=True)


main()
