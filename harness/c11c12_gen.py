"""Generator layer of C11/C12 on top of gen_asn1.

Adds what C11 quantifies over and gen_asn1 does not write:
  * bounds written as MIN/MAX, named numbers, value references, single values;
  * constraints written on a type reference (member, alias, list element):
    x L (SIZE(1..2)),  B ::= A (0..5),  SEQUENCE OF N (FROM ("a".."c"));
  * FROM written with ranges.

The abstract module keeps numeric bounds (that is what the Coq terms and the
Python specification use); only the rendering differs.  `effective(mod)`
returns the module in which every constrained reference is replaced by the
referenced type with that constraint (what the constraint means), so that
gen_asn1.coq_env / coq_value and the admits oracle never see the library's
parse.

Serial application (round 5, `serial=True`, used by C11): a value-range or SIZE
constraint is also written on a reference to a type that already carries
constraints of that kind (on the built-in type and/or at earlier reference
sites of an alias chain): all four combinations of extensible / non-extensible
parent and child, one or more levels, as alias, member and list element.  The
constraints form a SERIES (outermost parent first); the effective constraint
keeps it under the key 'series' (meaning: Check/Serial.v admits_series; the
fields lo/hi/ext are the collapsed single constraint, Serial.v collapse).

Exclusion predicates (documented in notes/C11.md):
  * without `serial` (C12): a constraint is written on a reference only when the
    referenced type has no constraint of that kind itself;
  * with `serial`: the constraint written at the reference site is legal
    (X.680 50.9: within the root of its parent); a bound MIN / MAX is written
    on a side where the parent is bounded only when every earlier constraint
    of the series is non-extensible (else X.680 makes it the bound of the
    parent's ROOT, which the property's reading "extensible = admits
    everything" does not define);
  * never on a reference to a member of a reference cycle;
  * identifiers inf / nan / infinity are never used for named numbers or value
    references (known finding C11 named-bound-float).
"""
import copy

import gen_asn1
from gen_asn1 import ALPHABETS, KM_KINDS, all_members

SIZED = ('OCTET STRING', 'BIT STRING', 'STRING', 'SEQUENCE OF', 'SET OF')


def subtypes(t):
    k = t['k']
    if k in ('SEQUENCE', 'SET'):
        return [m['t'] for m in all_members(t)]
    if k == 'CHOICE':
        return [m['t'] for m in t['root'] + (t['ext'] or [])]
    if k in ('SEQUENCE OF', 'SET OF'):
        return [t['elem']]
    return []


def refs_of(t, acc):
    if t['k'] == 'REF':
        acc.add(t['name'])
    for s in subtypes(t):
        refs_of(s, acc)
    return acc


def cyclic_types(mod):
    d = dict(mod['types'])
    direct = {n: refs_of(t, set()) for n, t in d.items()}
    cyc = set()
    for n in d:
        seen, todo = set(), list(direct[n])
        while todo:
            x = todo.pop()
            if x in seen:
                continue
            seen.add(x)
            todo.extend(direct.get(x, ()))
        if n in seen:
            cyc.add(n)
    # a type that reaches a cyclic type is fine; only members of a cycle are excluded
    return cyc


def series_of(defs, t, kind):
    """The constraints of one kind ('c' value range, 'size') that apply in
    series to a component of type [t], outermost parent first: the constraint
    of the built-in type at the end of the alias chain, then the one written at
    every reference site on the way back."""
    n = 0
    stack = []
    while t['k'] == 'REF':
        o = (t.get('over') or {}).get(kind)
        if o is not None:
            stack.append(o)
        t = defs[t['name']]
        n += 1
        assert n < 100
    base = t.get('c' if kind == 'c' else 'size') if (t['k'] == 'INTEGER') == (kind == 'c') else None
    if base is not None:
        stack.append(base)
    return t, stack[::-1]


def root_of(series):
    """(lo, hi) of the root of the last constraint of the series (MIN / MAX
    standing for the parent's bound)."""
    lo = hi = None
    for c in series:
        lo = c['lo'] if c['lo'] is not None else lo
        hi = c['hi'] if c['hi'] is not None else hi
    return lo, hi


def collapse(series):
    """The single constraint a series amounts to (mirror of Serial.v collapse;
    compared with it on every run)."""
    if len(series) == 1:
        return dict(series[0])
    lo = hi = None
    ext = True
    for c in series:
        if c['ext']:
            continue
        ext = False
        lo = c['lo'] if c['lo'] is not None else lo
        hi = c['hi'] if c['hi'] is not None else hi
    out = {'lo': series[-1]['lo'], 'hi': series[-1]['hi'], 'ext': True} if ext else {'lo': lo, 'hi': hi, 'ext': False}
    out['series'] = [dict(c) for c in series]
    return out


class Decorator(object):
    def __init__(self, rng, mod, serial=False):
        self.rng = rng
        self.mod = mod
        self.n = 0
        self.cyc = cyclic_types(mod)
        self.defs = dict(mod['types'])
        self.serial = serial

    def fresh(self, p):
        self.n += 1
        return '%s%d' % (p, self.n)

    def bound_text(self, t, v, allow_named):
        """Choose how a numeric bound is written; may add a named number or a
        value assignment."""
        r = self.rng.random()
        if r < .55:
            return None                      # plain number
        if r < .8 or not allow_named:
            name = self.fresh('vr')
            self.mod['values'].append((name, v))
            return name
        name = self.fresh('nn')
        t['named'] = list(t.get('named') or []) + [(name, v)]
        return name

    def decorate_int(self, t, named_ok=True):
        c = t.get('c')
        if c is None:
            return
        c['lo_txt'] = None if c['lo'] is None else self.bound_text(t, c['lo'], named_ok)
        c['hi_txt'] = None if c['hi'] is None else self.bound_text(t, c['hi'], named_ok)
        if c['lo'] is not None and c['lo'] == c['hi'] and self.rng.random() < .7:
            c['single'] = True

    def decorate_size(self, s):
        if s is None:
            return
        if self.rng.random() < .3:
            name = self.fresh('vs')
            self.mod['values'].append((name, s['lo']))
            s['lo_txt'] = name
        if s['hi'] is not None and self.rng.random() < .3:
            name = self.fresh('vs')
            self.mod['values'].append((name, s['hi']))
            s['hi_txt'] = name

    def decorate(self, t):
        k = t['k']
        if k == 'INTEGER':
            self.decorate_int(t)
        elif k in SIZED:
            self.decorate_size(t.get('size'))
        if k == 'STRING' and t.get('alpha') and self.rng.random() < .5:
            t['alpha_ranges'] = True
        if k == 'REF':
            self.decorate_ref(t)
        if k in ('SEQUENCE', 'SET'):
            for m in all_members(t):
                # a DEFAULT value was generated for the unconstrained referenced type
                if m['t']['k'] == 'REF' and m['opt'] not in (None, 'optional'):
                    continue
                self.decorate(m['t'])
            return
        for s in subtypes(t):
            self.decorate(s)

    def decorate_ref(self, t):
        r = self.rng
        if t['name'] in self.cyc or r.random() < .35:
            return
        target = self.defs[t['name']]
        if self.serial:
            return self.decorate_ref_serial(t)
        if target['k'] == 'REF':
            return
        tk = target['k']
        over = {}
        g = gen_asn1.Gen(r, gen_asn1.Opts())
        if tk == 'INTEGER' and target.get('c') is None:
            self.fresh_int_over(g, target, over)
        elif tk in SIZED and target.get('size') is None:
            self.fresh_size_over(g, target, over)
        self.alpha_over(target, over)
        if over:
            t['over'] = over

    def fresh_int_over(self, g, target, over):
        r = self.rng
        c = g.int_constraint()
        if c is not None:
            over['c'] = c
            holder = {'named': None}
            c['lo_txt'] = None if c['lo'] is None else self.bound_text(holder, c['lo'], False)
            c['hi_txt'] = None if c['hi'] is None else self.bound_text(holder, c['hi'], False)
            # a bound may also be one of the referenced type's named numbers
            if target.get('named') and c['hi'] is not None and r.random() < .5:
                nm, nv = r.choice(target['named'])
                if c['lo'] is None or c['lo'] <= nv:
                    c['hi'], c['hi_txt'] = nv, nm

    def fresh_size_over(self, g, target, over):
        tk = target['k']
        s = g.size_constraint()
        if s is not None and not (tk == 'BIT STRING' and target.get('named') and s['hi'] is not None
                                  and s['hi'] <= target['named'][-1][1]):
            over['size'] = s
            self.decorate_size(s)

    def alpha_over(self, target, over):
        r = self.rng
        tk = target['k']
        if tk == 'STRING' and not target.get('alpha') and target['sk'] in KM_KINDS and r.random() < .5:
            pool = [c for c in ALPHABETS[target['sk']] if c.isalnum() or c == ' ']
            if target['sk'] == 'NumericString':
                pool = list(' 0123456789')
            n = r.choice([1, 2, 3, 5, 9])
            over['alpha'] = sorted(r.sample(pool, min(n, len(pool))))
            over['alpha_ranges'] = r.random() < .5

    # -- serial application ---------------------------------------------------
    def decorate_ref_serial(self, t):
        """A constraint at a reference site, whatever the referenced type (or
        the alias chain behind it) already carries."""
        r = self.rng
        g = gen_asn1.Gen(r, gen_asn1.Opts())
        ref0 = {'k': 'REF', 'name': t['name']}
        base, cser = series_of(self.defs, ref0, 'c')
        _, sser = series_of(self.defs, ref0, 'size')
        tk = base['k']
        over = {}
        if tk == 'INTEGER':
            if not cser:
                self.fresh_int_over(g, base, over)
            else:
                over['c'] = self.serial_child(cser, 'c')
        elif tk in SIZED:
            if not sser:
                self.fresh_size_over(g, base, over)
            elif not (tk == 'BIT STRING' and base.get('named')):
                over['size'] = self.serial_child(sser, 'size')
        if self.defs[t['name']]['k'] != 'REF':
            self.alpha_over(base, over)
        if over:
            t['over'] = over

    def serial_child(self, series, kind):
        """A legal constraint to apply on top of [series]: a sub-range of the
        parent's root (often sharing a bound with it, sometimes a single
        value), extensible or not; sometimes MIN / MAX where the whole series
        before it is non-extensible."""
        r = self.rng
        lo, hi = root_of(series)
        if kind == 'size' and lo is None:
            lo = 0
        if lo is not None and hi is not None:
            w = hi - lo
            a = lo + r.choice([0, 0, 1, w // 2, w // 3, w])
            if kind == 'size':
                # the lower bound of a SIZE stays near the parent's: every value of a list type has at least
                # that many elements, and lists nest
                a = min(a, lo + r.choice([0, 1, 2, 8]))
            a = min(max(a, lo), hi)
            b = r.choice([a, hi, hi, max(a, hi - 1), (a + hi) // 2])
        elif lo is not None:
            a = lo + r.choice([0, 0, 1, 5] if kind == 'c' else [0, 0, 1, 2])
            b = None if r.random() < .25 else a + r.choice([0, 1, 7, 300])
        elif hi is not None:
            b = hi - r.choice([0, 0, 1, 5])
            a = None if r.random() < .25 else b - r.choice([0, 1, 7, 300])
        else:
            a = r.choice([-5, 0, 1])
            b = a + r.choice([0, 1, 7, 300])
        c = {'lo': a, 'hi': b, 'ext': r.random() < .5}
        if all(not x['ext'] for x in series) and r.random() < .25:
            # MIN / MAX = the parent's bound (Serial.v: legal, not strictly legal when the parent is bounded there)
            side = r.choice(['lo', 'hi']) if kind == 'c' else 'hi'
            other = 'hi' if side == 'lo' else 'lo'
            if c[other] is not None:
                c[side] = None
        if kind == 'size' and c['hi'] is None:
            c['ext'] = False                 # gen_asn1.gen_len has no out-of-root length for SIZE(n..MAX, ...)
        if kind == 'c':
            holder = {'named': None}
            c['lo_txt'] = None if c['lo'] is None else self.bound_text(holder, c['lo'], False)
            c['hi_txt'] = None if c['hi'] is None else self.bound_text(holder, c['hi'], False)
            if c['lo'] is not None and c['lo'] == c['hi'] and r.random() < .5:
                c['single'] = True
        else:
            self.decorate_size(c)
        return c

    def add_serial_sites(self):
        """Every module gets reference sites with serially applied constraints:
        on a type of the module that already carries a value-range / SIZE
        constraint (if any) and on a fresh constrained INTEGER and a fresh sized
        type; as alias, SEQUENCE / SET / CHOICE member and list element; one or
        two levels of reference."""
        r = self.rng
        g = gen_asn1.Gen(r, gen_asn1.Opts())
        cands = []
        for n, t in self.mod['types']:
            if n in self.cyc:
                continue
            base, cser = series_of(self.defs, {'k': 'REF', 'name': n}, 'c')
            _, sser = series_of(self.defs, {'k': 'REF', 'name': n}, 'size')
            if (base['k'] == 'INTEGER' and cser) or (base['k'] in SIZED and sser
                                                     and not (base['k'] == 'BIT STRING' and base.get('named'))):
                cands.append(n)
        parents = r.sample(cands, 1) if cands else []

        def add(prefix, t):
            name = self.fresh(prefix)
            self.mod['types'].append((name, t))
            self.defs[name] = t
            return name
        # fresh parents: all four ext combinations come from the parent's and the child's ext flags
        lo, hi = g.bound_pair()
        if r.random() < .3:
            lo, hi = r.choice([(0, 10), (-3, 3), (1, 1), (0, 255), (0, 65535)])
        side = r.random()
        pc = {'lo': None if side < .1 else lo, 'hi': None if .1 <= side < .2 else hi, 'ext': r.random() < .4}
        parents.append(add('Sp', {'k': 'INTEGER', 'c': pc, 'named': None}))
        a = r.choice([0, 0, 1, 2, 5])
        ps = {'lo': a, 'hi': None if r.random() < .1 else a + r.choice([0, 1, 2, 3, 7, 15]), 'ext': r.random() < .4}
        if ps['hi'] is None:
            ps['ext'] = False
        kind = r.choice(['OCTET STRING', 'BIT STRING', 'STRING', 'STRING', 'SEQUENCE OF', 'SET OF'])
        if kind == 'STRING':
            pt = {'k': 'STRING', 'sk': r.choice(['IA5String', 'PrintableString', 'UTF8String', 'VisibleString']),
                  'size': ps, 'alpha': None}
        elif kind == 'BIT STRING':
            pt = {'k': 'BIT STRING', 'named': None, 'size': ps}
        elif kind == 'OCTET STRING':
            pt = {'k': 'OCTET STRING', 'size': ps}
        else:
            pt = {'k': kind, 'elem': r.choice([{'k': 'BOOLEAN'}, {'k': 'INTEGER', 'c': None, 'named': None}]), 'size': ps}
        parents.append(add('Sp', pt))
        for p in parents:
            ref = self.serial_ref(p)
            if ref is None:
                continue
            if r.random() < .6:
                # second level: an alias carrying the first constraint, the second one at the site
                alias = add('Sr', ref)
                ref2 = self.serial_ref(alias)
                if ref2 is not None:
                    ref = ref2
                    if r.random() < .3:
                        ref3 = self.serial_ref(add('Sr', ref))
                        ref = ref3 or {'k': 'REF', 'name': alias}
            # the same constrained reference at two kinds of site
            for how in r.sample(['alias', 'member', 'elem'], 2):
                ref = copy.deepcopy(ref)
                if how == 'alias':
                    add('Sr', ref)
                elif how == 'elem':
                    add('Sr', {'k': r.choice(['SEQUENCE OF', 'SET OF']), 'elem': ref, 'size': None})
                else:
                    k = r.choice(['SEQUENCE', 'SEQUENCE', 'SET', 'CHOICE'])
                    add('Sr', {'k': k, 'ext': None,
                               'root': [{'name': self.fresh('sm'), 't': ref,
                                         'opt': 'optional' if k != 'CHOICE' and r.random() < .3 else None}]})

    def serial_ref(self, name):
        base, ser = series_of(self.defs, {'k': 'REF', 'name': name}, 'c')
        kind = 'c'
        if base['k'] != 'INTEGER':
            base, ser = series_of(self.defs, {'k': 'REF', 'name': name}, 'size')
            kind = 'size'
        if not ser:
            return None
        return {'k': 'REF', 'name': name, 'over': {kind: self.serial_child(ser, kind)}}


def constrained_ref_sites(t, member_name, out):
    """(component name, referenced type) of every constrained reference: the
    key under which the library caches the compiled referenced type
    (compile_user_type: per module, referenced type and component name; a list
    element has the name '')."""
    k = t['k']
    if k == 'REF' and t.get('over') and member_name is not None:
        out.append((member_name, t['name']))
    if k in ('SEQUENCE', 'SET'):
        for m in all_members(t):
            constrained_ref_sites(m['t'], m['name'], out)
    elif k == 'CHOICE':
        for m in t['root'] + (t['ext'] or []):
            constrained_ref_sites(m['t'], m['name'], out)
    elif k in ('SEQUENCE OF', 'SET OF'):
        constrained_ref_sites(t['elem'], '', out)
    return out


def add_twins(rng, mod):
    """For every constrained reference add a second site that references the
    SAME type under the SAME component name WITHOUT the constraint (and, half
    of the time, a third one before it in the module): the compiled referenced
    type is shared between such sites, so a constraint applied to one reference
    in place would leak to the others."""
    sites = []
    for _, t in mod['types']:
        constrained_ref_sites(t, None, sites)
    n = 0
    for name, refname in sites[:6]:
        n += 1
        ref = {'k': 'REF', 'name': refname}
        if name == '':
            twin = {'k': 'SEQUENCE OF', 'elem': ref, 'size': None}
        else:
            twin = {'k': rng.choice(['SEQUENCE', 'SEQUENCE', 'SET']), 'ext': None,
                    'root': [{'name': name, 't': ref, 'opt': None}]}
            if rng.random() < .3:
                twin = {'k': 'CHOICE', 'ext': None, 'root': [{'name': name, 't': ref, 'opt': None}]}
        entry = ('Tw%d' % n, twin)
        if rng.random() < .5:
            mod['types'].append(entry)
        else:
            # before the constrained site (but after the referenced type itself: order is irrelevant
            # to the library, the referenced type only has to exist)
            mod['types'].insert(0, entry)
    return mod


def decorate(rng, mod, serial=False):
    mod['values'] = list(mod.get('values') or [])
    d = Decorator(rng, mod, serial)
    if not serial:
        for _, t in list(mod['types']):
            d.decorate(t)
    else:
        # aliases first, the referenced alias before the referring one: a constraint at a reference site is
        # chosen inside the root of the series the referenced type carries, which must be final by then
        done = set()

        def alias(n):
            if n in done:
                return
            done.add(n)
            t = d.defs[n]
            if t['k'] == 'REF':
                alias(t['name'])
                d.decorate(t)
        for n, t in list(mod['types']):
            if t['k'] == 'REF':
                alias(n)
        for _, t in list(mod['types']):
            if t['k'] != 'REF':
                d.decorate(t)
        d.add_serial_sites()
        mod['serial_dropped'] = drop_illegal(mod)
    add_twins(rng, mod)
    return mod


def legal_child(series, c):
    """The generator's legality predicate for a constraint [c] applied on top of
    [series] (X.680 50.9: inside the parent's root; MIN / MAX on a bounded side
    only when every earlier constraint is non-extensible).  Safety net:
    Serial.v legal_series is evaluated on every series of every run."""
    lo, hi = root_of(series)
    allnon = all(not x['ext'] for x in series)
    if c['lo'] is None:
        if lo is not None and not allnon:
            return False
    elif (lo is not None and c['lo'] < lo) or (hi is not None and c['lo'] > hi):
        return False
    if c['hi'] is None:
        if hi is not None and not allnon:
            return False
    elif (hi is not None and c['hi'] > hi) or (lo is not None and c['hi'] < lo):
        return False
    return c['lo'] is None or c['hi'] is None or c['lo'] <= c['hi']


def drop_illegal(mod):
    """Remove constraints at reference sites that are not legal on top of the
    series they are applied to (expected: none)."""
    defs = dict(mod['types'])
    dropped = 0

    def walk(t):
        n = 0
        if t['k'] == 'REF' and t.get('over'):
            for kind in ('c', 'size'):
                if kind in t['over']:
                    _, ser = series_of(defs, {'k': 'REF', 'name': t['name']}, kind)
                    if ser and not legal_child(ser, t['over'][kind]):
                        del t['over'][kind]
                        n += 1
        for s in subtypes(t):
            n += walk(s)
        return n
    while True:
        n = sum(walk(t) for _, t in mod['types'])
        dropped += n
        if n == 0:
            return dropped


# ---------------------------------------------------------------------------
# rendering

def r_bound(v, txt, inf):
    if v is None:
        return inf
    return txt if txt else '%d' % v


def r_int_constraint(c):
    if c is None:
        return ''
    if c.get('single'):
        body = r_bound(c['lo'], c.get('lo_txt'), 'MIN')
    else:
        body = '%s..%s' % (r_bound(c['lo'], c.get('lo_txt'), 'MIN'), r_bound(c['hi'], c.get('hi_txt'), 'MAX'))
    return ' (%s%s)' % (body, ', ...' if c['ext'] else '')


def r_size(s):
    if s is None:
        return ''
    lo = r_bound(s['lo'], s.get('lo_txt'), '0')
    if s['lo'] == s['hi'] and not s.get('hi_txt'):
        body = lo
    else:
        body = '%s..%s' % (lo, r_bound(s['hi'], s.get('hi_txt'), 'MAX'))
    return ' (SIZE(%s%s))' % (body, ', ...' if s['ext'] else '')


def r_from(alpha, ranges):
    if not alpha:
        return ''
    items = []
    if ranges:
        cs = sorted(alpha)
        i = 0
        while i < len(cs):
            j = i
            while j + 1 < len(cs) and ord(cs[j + 1]) == ord(cs[j]) + 1:
                j += 1
            items.append('"%s".."%s"' % (cs[i], cs[j]) if j > i else '"%s"' % cs[i])
            i = j + 1
    else:
        items = ['"%s"' % c for c in alpha]
    return ' (FROM (%s))' % ' | '.join(items)


def render_type(t, resolve, indent=0):
    k = t['k']
    pad = '  ' * (indent + 1)
    if k in ('BOOLEAN', 'NULL', 'OBJECT IDENTIFIER'):
        return k
    if k == 'REF':
        s = t['name']
        o = t.get('over') or {}
        if 'c' in o:
            s += r_int_constraint(o['c'])
        if 'size' in o:
            s += r_size(o['size'])
        if 'alpha' in o:
            s += r_from(o['alpha'], o.get('alpha_ranges'))
        return s
    if k == 'INTEGER':
        s = 'INTEGER'
        if t.get('named'):
            s += ' { %s }' % ', '.join('%s(%d)' % nv for nv in t['named'])
        return s + r_int_constraint(t['c'])
    if k == 'ENUMERATED':
        items = ['%s(%d)' % nv for nv in t['root']]
        if t['ext'] is not None:
            items.append('...')
            items += ['%s(%d)' % nv for nv in t['ext']]
        return 'ENUMERATED { %s }' % ', '.join(items)
    if k == 'OCTET STRING':
        return 'OCTET STRING' + r_size(t['size'])
    if k == 'BIT STRING':
        s = 'BIT STRING'
        if t.get('named'):
            s += ' { %s }' % ', '.join('%s(%d)' % nv for nv in t['named'])
        return s + r_size(t['size'])
    if k == 'STRING':
        return t['sk'] + r_size(t['size']) + r_from(t['alpha'], t.get('alpha_ranges'))
    if k in ('SEQUENCE OF', 'SET OF'):
        return '%s%s OF %s' % (k.split()[0], r_size(t['size']), render_type(t['elem'], resolve, indent))
    if k in ('SEQUENCE', 'SET', 'CHOICE'):
        items = [render_member(m, resolve, indent + 1) for m in t['root']]
        if t['ext'] is not None:
            items.append('...')
            for a in t['ext']:
                if isinstance(a, dict) and 'group' in a:
                    items.append('[[ %s ]]' % ', '.join(render_member(m, resolve, indent + 1) for m in a['group']))
                elif isinstance(a, dict) and 'member' in a:
                    items.append(render_member(a['member'], resolve, indent + 1))
                else:
                    items.append(render_member(a, resolve, indent + 1))
        if not items:
            return '%s { }' % k
        return '%s {\n%s%s\n%s}' % (k, pad, (',\n' + pad).join(items), '  ' * indent)
    raise AssertionError(k)


def render_member(m, resolve, indent):
    s = '%s %s' % (m['name'], render_type(m['t'], resolve, indent))
    if m['opt'] == 'optional':
        s += ' OPTIONAL'
    elif m['opt'] is not None:
        s += ' DEFAULT ' + gen_asn1.render_value(resolve(m['t']), m['opt'][1])
    return s


def render_module(mod):
    resolve = gen_asn1.make_resolver(mod)
    lines = ['%s DEFINITIONS %s TAGS %s::= BEGIN' % (mod['name'], mod['tags'],
                                                     'EXTENSIBILITY IMPLIED ' if mod.get('ext_implied') else '')]
    for n, v in mod.get('values', []):
        lines.append('%s INTEGER ::= %d' % (n, v))
    for n, t in mod['types']:
        lines.append('%s ::= %s' % (n, render_type(t, resolve)))
    lines.append('END')
    return '\n'.join(lines) + '\n'


# ---------------------------------------------------------------------------
# the meaning of a constrained reference

def effective(mod):
    """Module in which every constrained reference is replaced by the
    referenced type carrying that constraint.  A value-range / SIZE constraint
    on top of constraints the referenced type already carries is applied in
    series: the effective constraint is `collapse(series)` and keeps the series
    (its meaning) under the key 'series'."""
    defs = dict(mod['types'])

    def eff(t):
        t = dict(t)
        k = t['k']
        if k == 'REF' and t.get('over'):
            target = eff(copy.deepcopy(defs[t['name']]))
            n = 0
            while target['k'] == 'REF':          # plain alias in between
                target = eff(copy.deepcopy(defs[target['name']]))
                n += 1
                assert n < 100
            o = t['over']
            for kind, field in (('c', 'c'), ('size', 'size')):
                if kind in o and (target['k'] == 'INTEGER') == (kind == 'c'):
                    parent = target.get(field)
                    series = (parent.get('series') or [parent]) if parent else []
                    target[field] = collapse([dict(c) for c in series] + [dict(o[kind])])
            if 'alpha' in o:
                target['alpha'] = list(o['alpha'])
            return target
        if k in ('SEQUENCE', 'SET'):
            t['root'] = [dict(m, t=eff(m['t'])) for m in t['root']]
            if t['ext'] is not None:
                t['ext'] = [({'group': [dict(m, t=eff(m['t'])) for m in a['group']]} if 'group' in a
                             else {'member': dict(a['member'], t=eff(a['member']['t']))}) for a in t['ext']]
        elif k == 'CHOICE':
            t['root'] = [dict(m, t=eff(m['t'])) for m in t['root']]
            if t['ext'] is not None:
                t['ext'] = [dict(m, t=eff(m['t'])) for m in t['ext']]
        elif k in ('SEQUENCE OF', 'SET OF'):
            t['elem'] = eff(t['elem'])
        return t

    out = dict(mod)
    out['types'] = [(n, eff(t)) for n, t in mod['types']]
    return out


def serial_sites(em):
    """[(kind, series)] of every component of the effective module whose
    constraint is a series of two or more."""
    out = []

    def walk(t):
        for kind in ('c', 'size'):
            c = t.get(kind)
            if isinstance(c, dict) and c.get('series'):
                out.append((kind, t['k'], c['series']))
        for s in subtypes(t):
            walk(s)
    for _, t in em['types']:
        walk(t)
    return out


def generate(rng, opts=None, decorate_prob=1.0, serial=False):
    """-> (mod, eff_mod, text, gen) ; gen generates values for eff_mod types."""
    opts = opts or gen_asn1.Opts()
    mod, _, g = gen_asn1.generate(rng, opts)
    if rng.random() < decorate_prob:
        decorate(rng, mod, serial)
    em = effective(mod)
    g.types = em['types']
    text = render_module(mod)
    return mod, em, text, g


# ---------------------------------------------------------------------------
# positions inside a value

def children(rt_of, t, v):
    """[(step, member-name-or-None, subtype, subvalue)] of a well-shaped value."""
    t = rt_of(t)
    k = t['k']
    out = []
    if k in ('SEQUENCE', 'SET') and isinstance(v, dict):
        for m in all_members(t):
            if m['name'] in v:
                out.append((m['name'], m['name'], m['t'], v[m['name']]))
    elif k in ('SEQUENCE OF', 'SET OF') and isinstance(v, list):
        for i, x in enumerate(v):
            out.append((i, None, t['elem'], x))
    elif k == 'CHOICE' and isinstance(v, tuple) and len(v) == 2:
        for m in t['root'] + (t['ext'] or []):
            if m['name'] == v[0]:
                out.append((1, m['name'], m['t'], v[1]))
    return out


def positions(rt_of, t, v, path=(), names=(), crossed=0):
    """All component positions: (path, names along it, type, value, number of
    reference cycles... (not tracked here)."""
    yield path, names, t, v
    for step, name, st, sv in children(rt_of, t, v):
        for x in positions(rt_of, st, sv, path + (step,), names + ((name,) if name else ())):
            yield x


def replace_at(v, path, new):
    if not path:
        return new
    s = path[0]
    if isinstance(v, dict):
        d = dict(v)
        d[s] = replace_at(v[s], path[1:], new)
        return d
    if isinstance(v, list):
        l = list(v)
        l[s] = replace_at(v[s], path[1:], new)
        return l
    if isinstance(v, tuple):
        return (v[0], replace_at(v[1], path[1:], new))
    raise AssertionError((v, path))


def remove_at(v, path):
    """Remove the dict key at the end of the path."""
    if len(path) == 1:
        d = dict(v)
        del d[path[0]]
        return d
    return replace_at(v, path[:-1], remove_at_value(get_at(v, path[:-1]), path[-1]))


def remove_at_value(d, key):
    d = dict(d)
    del d[key]
    return d


def get_at(v, path):
    for s in path:
        v = v[1] if isinstance(v, tuple) else v[s]
    return v
