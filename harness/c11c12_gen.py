"""Generator layer of C11/C12 on top of gen_asn1.

Adds what C11 quantifies over and gen_asn1 does not write:
  * bounds written as MIN/MAX, named numbers, value references, single values;
  * constraints written on a type reference (member, alias, list element):
    x L (SIZE(1..2)),  B ::= A (0..5),  SEQUENCE OF N (FROM ("a".."c"));
  * FROM written with ranges.

The abstract module keeps numeric bounds (that is what the Coq terms and the
Python specification use); only the rendering differs.  `effective(mod)`
returns the module in which every constrained reference is replaced by the
referenced type with that constraint (what the constraint means), so that
gen_asn1.coq_env / coq_value and the admits oracle never see the library's
parse.

Exclusion predicates (documented in notes/C11.md):
  * a constraint is written on a reference only when the referenced type has no
    constraint of that kind itself (serial application = replacement) and is not
    part of a reference cycle;
  * identifiers inf / nan / infinity are never used for named numbers or value
    references (known finding C11 named-bound-float).
"""
import copy

import gen_asn1
from gen_asn1 import ALPHABETS, KM_KINDS, all_members

SIZED = ('OCTET STRING', 'BIT STRING', 'STRING', 'SEQUENCE OF', 'SET OF')


def subtypes(t):
    k = t['k']
    if k in ('SEQUENCE', 'SET'):
        return [m['t'] for m in all_members(t)]
    if k == 'CHOICE':
        return [m['t'] for m in t['root'] + (t['ext'] or [])]
    if k in ('SEQUENCE OF', 'SET OF'):
        return [t['elem']]
    return []


def refs_of(t, acc):
    if t['k'] == 'REF':
        acc.add(t['name'])
    for s in subtypes(t):
        refs_of(s, acc)
    return acc


def cyclic_types(mod):
    d = dict(mod['types'])
    direct = {n: refs_of(t, set()) for n, t in d.items()}
    cyc = set()
    for n in d:
        seen, todo = set(), list(direct[n])
        while todo:
            x = todo.pop()
            if x in seen:
                continue
            seen.add(x)
            todo.extend(direct.get(x, ()))
        if n in seen:
            cyc.add(n)
    # a type that reaches a cyclic type is fine; only members of a cycle are excluded
    return cyc


class Decorator(object):
    def __init__(self, rng, mod):
        self.rng = rng
        self.mod = mod
        self.n = 0
        self.cyc = cyclic_types(mod)
        self.defs = dict(mod['types'])

    def fresh(self, p):
        self.n += 1
        return '%s%d' % (p, self.n)

    def bound_text(self, t, v, allow_named):
        """Choose how a numeric bound is written; may add a named number or a
        value assignment."""
        r = self.rng.random()
        if r < .55:
            return None                      # plain number
        if r < .8 or not allow_named:
            name = self.fresh('vr')
            self.mod['values'].append((name, v))
            return name
        name = self.fresh('nn')
        t['named'] = list(t.get('named') or []) + [(name, v)]
        return name

    def decorate_int(self, t, named_ok=True):
        c = t.get('c')
        if c is None:
            return
        c['lo_txt'] = None if c['lo'] is None else self.bound_text(t, c['lo'], named_ok)
        c['hi_txt'] = None if c['hi'] is None else self.bound_text(t, c['hi'], named_ok)
        if c['lo'] is not None and c['lo'] == c['hi'] and self.rng.random() < .7:
            c['single'] = True

    def decorate_size(self, s):
        if s is None:
            return
        if self.rng.random() < .3:
            name = self.fresh('vs')
            self.mod['values'].append((name, s['lo']))
            s['lo_txt'] = name
        if s['hi'] is not None and self.rng.random() < .3:
            name = self.fresh('vs')
            self.mod['values'].append((name, s['hi']))
            s['hi_txt'] = name

    def decorate(self, t):
        k = t['k']
        if k == 'INTEGER':
            self.decorate_int(t)
        elif k in SIZED:
            self.decorate_size(t.get('size'))
        if k == 'STRING' and t.get('alpha') and self.rng.random() < .5:
            t['alpha_ranges'] = True
        if k == 'REF':
            self.decorate_ref(t)
        if k in ('SEQUENCE', 'SET'):
            for m in all_members(t):
                # a DEFAULT value was generated for the unconstrained referenced type
                if m['t']['k'] == 'REF' and m['opt'] not in (None, 'optional'):
                    continue
                self.decorate(m['t'])
            return
        for s in subtypes(t):
            self.decorate(s)

    def decorate_ref(self, t):
        r = self.rng
        if t['name'] in self.cyc or r.random() < .35:
            return
        target = self.defs[t['name']]
        if target['k'] == 'REF':
            return
        tk = target['k']
        over = {}
        g = gen_asn1.Gen(r, gen_asn1.Opts())
        if tk == 'INTEGER' and target.get('c') is None:
            c = g.int_constraint()
            if c is not None:
                over['c'] = c
                holder = {'named': None}
                c['lo_txt'] = None if c['lo'] is None else self.bound_text(holder, c['lo'], False)
                c['hi_txt'] = None if c['hi'] is None else self.bound_text(holder, c['hi'], False)
                # a bound may also be one of the referenced type's named numbers
                if target.get('named') and c['hi'] is not None and r.random() < .5:
                    nm, nv = r.choice(target['named'])
                    if c['lo'] is None or c['lo'] <= nv:
                        c['hi'], c['hi_txt'] = nv, nm
        elif tk in SIZED and target.get('size') is None:
            s = g.size_constraint()
            if s is not None and not (tk == 'BIT STRING' and target.get('named') and s['hi'] is not None
                                      and s['hi'] <= target['named'][-1][1]):
                over['size'] = s
                self.decorate_size(s)
        if tk == 'STRING' and not target.get('alpha') and target['sk'] in KM_KINDS and r.random() < .5:
            pool = [c for c in ALPHABETS[target['sk']] if c.isalnum() or c == ' ']
            if target['sk'] == 'NumericString':
                pool = list(' 0123456789')
            n = r.choice([1, 2, 3, 5, 9])
            over['alpha'] = sorted(r.sample(pool, min(n, len(pool))))
            over['alpha_ranges'] = r.random() < .5
        if over:
            t['over'] = over


def constrained_ref_sites(t, member_name, out):
    """(component name, referenced type) of every constrained reference: the
    key under which the library caches the compiled referenced type
    (compile_user_type: per module, referenced type and component name; a list
    element has the name '')."""
    k = t['k']
    if k == 'REF' and t.get('over') and member_name is not None:
        out.append((member_name, t['name']))
    if k in ('SEQUENCE', 'SET'):
        for m in all_members(t):
            constrained_ref_sites(m['t'], m['name'], out)
    elif k == 'CHOICE':
        for m in t['root'] + (t['ext'] or []):
            constrained_ref_sites(m['t'], m['name'], out)
    elif k in ('SEQUENCE OF', 'SET OF'):
        constrained_ref_sites(t['elem'], '', out)
    return out


def add_twins(rng, mod):
    """For every constrained reference add a second site that references the
    SAME type under the SAME component name WITHOUT the constraint (and, half
    of the time, a third one before it in the module): the compiled referenced
    type is shared between such sites, so a constraint applied to one reference
    in place would leak to the others."""
    sites = []
    for _, t in mod['types']:
        constrained_ref_sites(t, None, sites)
    n = 0
    for name, refname in sites[:6]:
        n += 1
        ref = {'k': 'REF', 'name': refname}
        if name == '':
            twin = {'k': 'SEQUENCE OF', 'elem': ref, 'size': None}
        else:
            twin = {'k': rng.choice(['SEQUENCE', 'SEQUENCE', 'SET']), 'ext': None,
                    'root': [{'name': name, 't': ref, 'opt': None}]}
            if rng.random() < .3:
                twin = {'k': 'CHOICE', 'ext': None, 'root': [{'name': name, 't': ref, 'opt': None}]}
        entry = ('Tw%d' % n, twin)
        if rng.random() < .5:
            mod['types'].append(entry)
        else:
            # before the constrained site (but after the referenced type itself: order is irrelevant
            # to the library, the referenced type only has to exist)
            mod['types'].insert(0, entry)
    return mod


def decorate(rng, mod):
    mod['values'] = list(mod.get('values') or [])
    d = Decorator(rng, mod)
    for _, t in mod['types']:
        d.decorate(t)
    add_twins(rng, mod)
    return mod


# ---------------------------------------------------------------------------
# rendering

def r_bound(v, txt, inf):
    if v is None:
        return inf
    return txt if txt else '%d' % v


def r_int_constraint(c):
    if c is None:
        return ''
    if c.get('single'):
        body = r_bound(c['lo'], c.get('lo_txt'), 'MIN')
    else:
        body = '%s..%s' % (r_bound(c['lo'], c.get('lo_txt'), 'MIN'), r_bound(c['hi'], c.get('hi_txt'), 'MAX'))
    return ' (%s%s)' % (body, ', ...' if c['ext'] else '')


def r_size(s):
    if s is None:
        return ''
    lo = r_bound(s['lo'], s.get('lo_txt'), '0')
    if s['lo'] == s['hi'] and not s.get('hi_txt'):
        body = lo
    else:
        body = '%s..%s' % (lo, r_bound(s['hi'], s.get('hi_txt'), 'MAX'))
    return ' (SIZE(%s%s))' % (body, ', ...' if s['ext'] else '')


def r_from(alpha, ranges):
    if not alpha:
        return ''
    items = []
    if ranges:
        cs = sorted(alpha)
        i = 0
        while i < len(cs):
            j = i
            while j + 1 < len(cs) and ord(cs[j + 1]) == ord(cs[j]) + 1:
                j += 1
            items.append('"%s".."%s"' % (cs[i], cs[j]) if j > i else '"%s"' % cs[i])
            i = j + 1
    else:
        items = ['"%s"' % c for c in alpha]
    return ' (FROM (%s))' % ' | '.join(items)


def render_type(t, resolve, indent=0):
    k = t['k']
    pad = '  ' * (indent + 1)
    if k in ('BOOLEAN', 'NULL', 'OBJECT IDENTIFIER'):
        return k
    if k == 'REF':
        s = t['name']
        o = t.get('over') or {}
        if 'c' in o:
            s += r_int_constraint(o['c'])
        if 'size' in o:
            s += r_size(o['size'])
        if 'alpha' in o:
            s += r_from(o['alpha'], o.get('alpha_ranges'))
        return s
    if k == 'INTEGER':
        s = 'INTEGER'
        if t.get('named'):
            s += ' { %s }' % ', '.join('%s(%d)' % nv for nv in t['named'])
        return s + r_int_constraint(t['c'])
    if k == 'ENUMERATED':
        items = ['%s(%d)' % nv for nv in t['root']]
        if t['ext'] is not None:
            items.append('...')
            items += ['%s(%d)' % nv for nv in t['ext']]
        return 'ENUMERATED { %s }' % ', '.join(items)
    if k == 'OCTET STRING':
        return 'OCTET STRING' + r_size(t['size'])
    if k == 'BIT STRING':
        s = 'BIT STRING'
        if t.get('named'):
            s += ' { %s }' % ', '.join('%s(%d)' % nv for nv in t['named'])
        return s + r_size(t['size'])
    if k == 'STRING':
        return t['sk'] + r_size(t['size']) + r_from(t['alpha'], t.get('alpha_ranges'))
    if k in ('SEQUENCE OF', 'SET OF'):
        return '%s%s OF %s' % (k.split()[0], r_size(t['size']), render_type(t['elem'], resolve, indent))
    if k in ('SEQUENCE', 'SET', 'CHOICE'):
        items = [render_member(m, resolve, indent + 1) for m in t['root']]
        if t['ext'] is not None:
            items.append('...')
            for a in t['ext']:
                if isinstance(a, dict) and 'group' in a:
                    items.append('[[ %s ]]' % ', '.join(render_member(m, resolve, indent + 1) for m in a['group']))
                elif isinstance(a, dict) and 'member' in a:
                    items.append(render_member(a['member'], resolve, indent + 1))
                else:
                    items.append(render_member(a, resolve, indent + 1))
        if not items:
            return '%s { }' % k
        return '%s {\n%s%s\n%s}' % (k, pad, (',\n' + pad).join(items), '  ' * indent)
    raise AssertionError(k)


def render_member(m, resolve, indent):
    s = '%s %s' % (m['name'], render_type(m['t'], resolve, indent))
    if m['opt'] == 'optional':
        s += ' OPTIONAL'
    elif m['opt'] is not None:
        s += ' DEFAULT ' + gen_asn1.render_value(resolve(m['t']), m['opt'][1])
    return s


def render_module(mod):
    resolve = gen_asn1.make_resolver(mod)
    lines = ['%s DEFINITIONS %s TAGS %s::= BEGIN' % (mod['name'], mod['tags'],
                                                     'EXTENSIBILITY IMPLIED ' if mod.get('ext_implied') else '')]
    for n, v in mod.get('values', []):
        lines.append('%s INTEGER ::= %d' % (n, v))
    for n, t in mod['types']:
        lines.append('%s ::= %s' % (n, render_type(t, resolve)))
    lines.append('END')
    return '\n'.join(lines) + '\n'


# ---------------------------------------------------------------------------
# the meaning of a constrained reference

def effective(mod):
    """Module in which every constrained reference is replaced by the
    referenced type carrying that constraint."""
    defs = dict(mod['types'])

    def eff(t):
        t = dict(t)
        k = t['k']
        if k == 'REF' and t.get('over'):
            target = copy.deepcopy(defs[t['name']])
            o = t['over']
            if 'c' in o:
                target['c'] = dict(o['c'])
            if 'size' in o:
                target['size'] = dict(o['size'])
            if 'alpha' in o:
                target['alpha'] = list(o['alpha'])
            return eff(target)
        if k in ('SEQUENCE', 'SET'):
            t['root'] = [dict(m, t=eff(m['t'])) for m in t['root']]
            if t['ext'] is not None:
                t['ext'] = [({'group': [dict(m, t=eff(m['t'])) for m in a['group']]} if 'group' in a
                             else {'member': dict(a['member'], t=eff(a['member']['t']))}) for a in t['ext']]
        elif k == 'CHOICE':
            t['root'] = [dict(m, t=eff(m['t'])) for m in t['root']]
            if t['ext'] is not None:
                t['ext'] = [dict(m, t=eff(m['t'])) for m in t['ext']]
        elif k in ('SEQUENCE OF', 'SET OF'):
            t['elem'] = eff(t['elem'])
        return t

    out = dict(mod)
    out['types'] = [(n, eff(t)) for n, t in mod['types']]
    return out


def generate(rng, opts=None, decorate_prob=1.0):
    """-> (mod, eff_mod, text, gen) ; gen generates values for eff_mod types."""
    opts = opts or gen_asn1.Opts()
    mod, _, g = gen_asn1.generate(rng, opts)
    if rng.random() < decorate_prob:
        decorate(rng, mod)
    em = effective(mod)
    g.types = em['types']
    text = render_module(mod)
    return mod, em, text, g


# ---------------------------------------------------------------------------
# positions inside a value

def children(rt_of, t, v):
    """[(step, member-name-or-None, subtype, subvalue)] of a well-shaped value."""
    t = rt_of(t)
    k = t['k']
    out = []
    if k in ('SEQUENCE', 'SET') and isinstance(v, dict):
        for m in all_members(t):
            if m['name'] in v:
                out.append((m['name'], m['name'], m['t'], v[m['name']]))
    elif k in ('SEQUENCE OF', 'SET OF') and isinstance(v, list):
        for i, x in enumerate(v):
            out.append((i, None, t['elem'], x))
    elif k == 'CHOICE' and isinstance(v, tuple) and len(v) == 2:
        for m in t['root'] + (t['ext'] or []):
            if m['name'] == v[0]:
                out.append((1, m['name'], m['t'], v[1]))
    return out


def positions(rt_of, t, v, path=(), names=(), crossed=0):
    """All component positions: (path, names along it, type, value, number of
    reference cycles... (not tracked here)."""
    yield path, names, t, v
    for step, name, st, sv in children(rt_of, t, v):
        for x in positions(rt_of, st, sv, path + (step,), names + ((name,) if name else ())):
            yield x


def replace_at(v, path, new):
    if not path:
        return new
    s = path[0]
    if isinstance(v, dict):
        d = dict(v)
        d[s] = replace_at(v[s], path[1:], new)
        return d
    if isinstance(v, list):
        l = list(v)
        l[s] = replace_at(v[s], path[1:], new)
        return l
    if isinstance(v, tuple):
        return (v[0], replace_at(v[1], path[1:], new))
    raise AssertionError((v, path))


def remove_at(v, path):
    """Remove the dict key at the end of the path."""
    if len(path) == 1:
        d = dict(v)
        del d[path[0]]
        return d
    return replace_at(v, path[:-1], remove_at_value(get_at(v, path[:-1]), path[-1]))


def remove_at_value(d, key):
    d = dict(d)
    del d[key]
    return d


def get_at(v, path):
    for s in path:
        v = v[1] if isinstance(v, tuple) else v[s]
    return v
