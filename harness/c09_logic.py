"""C09 — the arithmetic decision logic of the generator against its Coq model
(CGen/GenLogic.v, theorems in GenLogicProofs.v):

  * utils.Generator.type_length (which C integer type a range gets) is called
    directly on generated ranges and compared with BOTH models: the one of the
    tree as it is (proved unsound: type_length_signed_half_refuted) and the one
    with proposed_fixes/C09-int-signed-half.diff (proved sound).  The tree must
    agree with one of them everywhere.
  * uper.does_bits_match_range and per.integer_as_number_of_bits vs the model.
  * the range checks the generator emits in decoders (length of OCTET STRING /
    SEQUENCE OF, index of ENUMERATED) are located in the parsed generated C and
    their presence and bound are compared with what the theorems require
    (needed exactly when the field width over-covers the range).
"""
import common
from common import to_coq
import lib
import c09_cc
import c09_types as T
import c09_spine_a as A
from c09_driver import cparse

from asn1tools.source.c import utils as c_utils
from asn1tools.source.c import uper as c_uper
from asn1tools.codecs import per
import asn1tools


def py_type_length(lo, hi):
    try:
        return c_utils.Generator('ns').type_length(lo, hi)
    except asn1tools.errors.Error:
        return -1


def ranges(rng, n):
    out = list(T.INT_RANGES)
    edges = [0, 1, -1, 127, 128, 255, 256, -128, -129, 32767, 32768, 65535, 65536, -32768, -32769, 2 ** 31 - 1, 2 ** 31,
             2 ** 32 - 1, 2 ** 32, -2 ** 31, -2 ** 31 - 1, 2 ** 63 - 1, 2 ** 63, 2 ** 64 - 1, 2 ** 64, -2 ** 63, -2 ** 63 - 1]
    for _ in range(n):
        a, b = rng.choice(edges), rng.choice(edges)
        if rng.random() < .3:
            a += rng.randrange(-2, 3)
        if rng.random() < .3:
            b = rng.randrange(-2 ** 66, 2 ** 66)
        out.append((min(a, b), max(a, b)))
    return out


def find_checks(stmts, out):
    """('>' checks followed by an abort) in a decoder body: [(lhs text, bound)]"""
    for s in stmts:
        k = s[0]
        if k == 'if':
            c = s[1]
            if c[0] == 'bin' and c[1] == '>' and c[3][0] == 'num' and any(
                    x[0] == 'expr' and x[1][0] == 'call' and x[1][1] == 'decoder_abort' for x in s[2]):
                out.append((cparse.show(c[2]), c[3][1]))
            find_checks(s[2], out)
            if s[3]:
                find_checks(s[3], out)
        elif k == 'for':
            find_checks(s[4], out)
        elif k == 'switch':
            for _, b in s[2]:
                find_checks(b, out)
        elif k == 'block':
            find_checks(s[1], out)
    return out


def emitted_checks(rng, n, active):
    """[(kind, lo, hi | count, emitted bound or -1)] read out of generated decoders."""
    cases = []
    types = []
    sizes = list(T.SIZES) + [(rng.randrange(0, 50), rng.randrange(50, 400)) for _ in range(n)]
    for lo, hi in sizes:
        if lo == hi or hi == 0:
            continue
        types.append(('octets', lo, hi, T.TOctets(lo, hi)))
        types.append(('seqof', lo, hi, T.TSeqOf(lo, hi, T.TBool())))
    for cnt in list(range(1, 20)) + [31, 32, 33, 64, 100, 128, 255, 256, 257]:
        types.append(('enum', cnt, cnt, T.TEnum([('e%d' % i, i) for i in range(cnt)])))
    for start in range(0, len(types), 12):
        chunk = types[start:start + 12]
        spec = T.Spec([('M', [('T%d' % i, t[3]) for i, t in enumerate(chunk)])])
        g = A.generate(spec, 'uper')
        if g[0] != 'ok':
            raise cparse.CParseError('generation of the probe module failed: %r' % (g[1],))
        src = cparse.parse_source(g[2])
        for i, (kind, lo, hi, _) in enumerate(chunk):
            f = src.functions.get('ns_m_t%d_decode_inner' % i)
            if f is None:
                raise cparse.CParseError('ns_m_t%d_decode_inner not generated' % i)
            body = [s for s in f.body if s[0] != 'decl']
            found = find_checks(body, [])
            if len(found) > 1:
                raise cparse.CParseError('several range checks in the decoder of a single %s' % kind)
            bound = found[0][1] if found else -1
            if found and kind != 'enum':
                # a check placed before "length += minimum" compares the raw field: bound = maximum - minimum
                for st in body:
                    if st[0] == 'if':
                        bound += lo
                        break
                    if st[0] == 'expr' and st[1][0] == 'assign' and st[1][1] == '+=':
                        break
            cases.append((kind, lo, hi, bound))
    return cases


HELPER_KIND = {'non_negative_binary_integer': 0, 'uint8': 8, 'uint16': 16, 'uint32': 32, 'uint64': 64,
               'int8': -8, 'int16': -16, 'int32': -32, 'int64': -64}


def int_helper_ranges(rng, n):
    """Ranges for the integer fast path: every word minimum under every word
    width (and next to it), plus the generator's own list."""
    out = [r for r in T.INT_RANGES if r[0] != r[1]]
    for lo in (0, -128, -32768, -2 ** 31, -2 ** 63, -127, -129, 1, -32767):
        for w in (7, 8, 9, 15, 16, 17, 31, 32, 33, 63, 64):
            for hi in (lo + 2 ** w - 1, lo + 2 ** (w - 1), lo + 2 ** w - 2 - rng.randrange(0, 2 ** (w - 1) - 1)):
                out.append((lo, hi))
    for _ in range(n):
        lo, hi = rng.choice(out)
        out.append((lo + rng.choice([-1, 0, 0, 1]), hi))
    seen, res = set(), []
    for lo, hi in out:
        if lo < hi and (lo, hi) not in seen and py_type_length(lo, hi) != -1:
            seen.add((lo, hi))
            res.append((lo, hi))
    return res


def emitted_int_helpers(rng, n):
    """[((lo, hi), kind)]: which helper the generated encoder AND decoder call
    for INTEGER (lo..hi): 0 = generic non_negative_binary_integer pair,
    +-W = encoder_append_(u)intW / decoder_read_(u)intW."""
    import re
    cases = []
    rs = int_helper_ranges(rng, n)
    for start in range(0, len(rs), 25):
        chunk = rs[start:start + 25]
        spec = T.Spec([('M', [('T%d' % i, T.TInt(lo, hi)) for i, (lo, hi) in enumerate(chunk)])])
        g = A.generate(spec, 'uper')
        if g[0] != 'ok':
            raise cparse.CParseError('generation of the integer probe module failed: %r' % (g[1],))
        text = g[2]
        for i, r in enumerate(chunk):
            kinds = []
            for direction, pat in (('encode', r'encoder_append_(\w+)\('), ('decode', r'decoder_read_(\w+)\(')):
                m = re.search(r'ns_m_t%d_%s_inner\([^)]*\)\s*\{(.*?)\n\}' % (i, direction), text, flags=re.S)
                if not m:
                    raise cparse.CParseError('ns_m_t%d_%s_inner not generated' % (i, direction))
                calls = re.findall(pat, m.group(1))
                if len(calls) != 1 or calls[0] not in HELPER_KIND:
                    raise cparse.CParseError('INTEGER (%d..%d): unexpected helper calls %r in the %sr' % (r[0], r[1], calls, direction))
                kinds.append(HELPER_KIND[calls[0]])
            if kinds[0] != kinds[1]:
                raise cparse.CParseError('INTEGER (%d..%d): encoder and decoder use different helpers %r' % (r[0], r[1], kinds))
            cases.append((r, kinds[0]))
    return cases


def emitted_enum_mappings(rng, n):
    """[(numbers in X.691 order, 1 when the generated encoder and decoder map
    between index and number with a switch, 0 when they use the number as the
    index)] read out of generated code."""
    import re
    cases = []
    shapes = [[0], [0, 1], [1, 0], [0, 2], [-1, 0], [-1, 1], [-1, 1, 2], [-2, -1, 2], [-5, 0, 1, 3], [1, 2, 3], [0, 1, 3],
              [-3, -2, -1], [0, 1, 2, 3, 4, 5, 6, 7], [-1, 1, 2, 3, 4, 5, 6, 7], [3, 2, 1, 0], [0, 1, 2, 4], [-128, 1], [-129, 0, 2]]
    for _ in range(n):
        shapes.append(T.enum_numbers(rng, rng.choice([1, 2, 3, 4, 5, 8, 9])))
    for start in range(0, len(shapes), 20):
        chunk = shapes[start:start + 20]
        spec = T.Spec([('M', [('T%d' % i, T.TEnum([('e%d' % j, v) for j, v in enumerate(nums)]))
                              for i, nums in enumerate(chunk)])])
        g = A.generate(spec, 'uper')
        if g[0] != 'ok':
            raise cparse.CParseError('generation of the enumeration probe module failed: %r' % (g[1],))
        text = g[2]
        for i, nums in enumerate(chunk):
            sw = []
            for direction in ('encode', 'decode'):
                m = re.search(r'ns_m_t%d_%s_inner\([^)]*\)\s*\{(.*?)\n\}' % (i, direction), text, flags=re.S)
                if not m:
                    raise cparse.CParseError('ns_m_t%d_%s_inner not generated' % (i, direction))
                sw.append(1 if re.search(r'\bswitch\s*\(', m.group(1)) else 0)
            if sw[0] != sw[1]:
                raise cparse.CParseError('ENUMERATED %r: encoder and decoder disagree on the index mapping %r' % (nums, sw))
            cases.append((sorted(nums), sw[0]))
    return cases


def run(ctx, active, rng):
    rs = ranges(rng, 150 if ctx.quick else 2000)
    tl = [((lo, hi), py_type_length(lo, hi)) for lo, hi in rs]
    bm = []
    for _ in range(100 if ctx.quick else 1500):
        lo = rng.randrange(-300, 300)
        hi = lo + rng.choice([0, 1, 2, 3, 7, 8, 255, 256, rng.randrange(0, 70000)])
        bits = per.integer_as_number_of_bits(hi - lo)
        if rng.random() < .2:
            bits += rng.choice([-1, 1])
        if bits < 0:
            bits = 0
        bm.append(((bits, lo, hi), bool(c_uper.does_bits_match_range(bits, lo, hi))))
    nb = [(s, per.integer_as_number_of_bits(s)) for s in list(range(0, 70)) + [2 ** k + d for k in range(6, 66) for d in (-1, 0, 1)]]
    try:
        checks = emitted_checks(rng, 10 if ctx.quick else 80, active)
    except cparse.CParseError as e:
        ctx.violation('cannot locate the range checks in the generated decoders: %s' % e, dict(kind='logic-dialect', error=str(e)),
                      no_input=True)
        checks = []
    try:
        ih = emitted_int_helpers(rng, 40 if ctx.quick else 600)
    except cparse.CParseError as e:
        ctx.violation('cannot locate the integer helper calls in the generated code: %s' % e,
                      dict(kind='logic-dialect', error=str(e)), no_input=True)
        ih = []
    try:
        em = emitted_enum_mappings(rng, 30 if ctx.quick else 400)
    except cparse.CParseError as e:
        ctx.violation('cannot locate the enumeration mapping in the generated code: %s' % e,
                      dict(kind='logic-dialect', error=str(e)), no_input=True)
        em = []
    body = '''
Definition tl (c : Z * Z) : Z := match type_length (fst c) (snd c) with Some w => w | None => -1 end.
Definition tlf (c : Z * Z) : Z := match type_length_fixed (fst c) (snd c) with Some w => w | None => -1 end.
Definition tcases : list ((Z * Z) * Z) := %s.
Eval vm_compute in mismatches Z.eqb tl tcases.
Eval vm_compute in mismatches Z.eqb tlf tcases.
Definition bcases : list ((Z * Z * Z) * bool) := %s.
Eval vm_compute in mismatches Bool.eqb (fun c => let '(b, lo, hi) := c in bits_match_range b lo hi) bcases.
Definition ncases : list (Z * Z) := %s.
Eval vm_compute in mismatches Z.eqb nbits ncases.
(* expected bound of the emitted check, -1 when none is needed *)
Definition expect (c : Z * Z * Z) : Z :=
  let '(kind, lo, hi) := c in
  if kind =? 0 then (if bits_match_range (nbits (hi - lo)) lo hi then -1 else hi)
  else (if is_pow2 lo then -1 else lo - 1).
Definition ccases : list ((Z * Z * Z) * Z) := %s.
Eval vm_compute in mismatches Z.eqb expect ccases.
(* which helper the generated code calls for INTEGER (lo..hi): the repaired and the former decision *)
Definition icases : list ((Z * Z) * Z) := %s.
Eval vm_compute in mismatches Z.eqb (fun c => emit_kind fast_path (fst c) (snd c)) icases.
Eval vm_compute in mismatches Z.eqb (fun c => emit_kind fast_path_old (fst c) (snd c)) icases.
(* does the generated code map between index and number for these (sorted) enumeration numbers *)
Definition ecases : list (list Z * Z) := %s.
Eval vm_compute in mismatches Z.eqb (fun vs => if enum_mapping_required vs then 1 else 0) ecases.
''' % (to_coq(tl), to_coq(bm), to_coq(nb),
       to_coq([((0 if k != 'enum' else 1, lo, hi), b) for k, lo, hi, b in checks]), to_coq(ih), to_coq(em))
    bad_tl, bad_tlf, bad_bm, bad_nb, bad_ck, bad_ih, bad_iho, bad_em = ctx.coq_eval(
        'logic', ['Base.Prelude', 'Base.Corr', 'CGen.GenLogic', 'CGen.GenLogicInt'], body)
    ctx.count('logic:enum-mappings', len(em))
    ctx.evaluations += len(em)
    for i in bad_em[:3]:
        nums, sw = em[i]
        ctx.violation('ENUMERATED with numbers %r (X.691 indexes 0..%d): the generated code %s, but %s (theorem '
                      'C09_enum_no_mapping_sound needs every number to equal its index)' % (
                          nums, len(nums) - 1, 'maps index and number with a switch' if sw else 'uses the number as the index',
                          'every number equals its index' if sw else 'number %d has index %d' % next(
                              (v, k) for k, v in enumerate(nums) if v != k)),
                      dict(kind='logic-enum-mapping', numbers=nums, switch=sw))
    ctx.count('logic:int-helper-calls', len(ih))
    ctx.evaluations += len(ih)
    for i in bad_ih[:3]:
        (lo, hi), k = ih[i]
        name = {v: n for n, v in HELPER_KIND.items()}[k]
        ctx.violation('INTEGER (%d..%d) is a %d-bit field with lower bound %d, but the generated code calls %s: the bytes differ '
                      'from the Python UPER codec (theorem C09_int_fast_path_is_x691 holds for the decision "width is a word '
                      'width and the lower bound is 0 or the minimum of that width"; the tree %s)' % (
                          lo, hi, per.integer_as_number_of_bits(hi - lo), lo,
                          'encoder_append_' + name, 'takes the former decision (emit_fast_path_old_refuted)'
                          if i not in bad_iho else 'takes neither that decision nor the former one'),
                      dict(kind='logic-int-helper', range=[lo, hi], helper=name))
    ctx.evaluations += len(tl) + len(bm) + len(nb) + len(checks)
    ctx.count('logic:type_length', len(tl))
    ctx.count('logic:emitted-checks', len(checks))
    if bad_tl and bad_tlf:
        i = bad_tl[0] if bad_tl[0] in bad_tlf else bad_tlf[0]
        ctx.violation('utils.type_length%r = %r agrees neither with the model of the unrepaired tree nor with the repaired one' % (
            tl[i][0], tl[i][1]), dict(kind='logic-type-length', range=list(tl[i][0]), python=tl[i][1]))
    else:
        ctx.extra['type_length_variant'] = 'as in /repo at the time of writing (unsound for negative minima)' if not bad_tl \
            else 'repaired (sound: type_length_fixed_sound)'
        ctx.count('logic:type_length-variant:' + ('unrepaired' if not bad_tl else 'repaired'))
    for i in bad_bm:
        ctx.violation('uper.does_bits_match_range%r = %r differs from the model' % (bm[i][0], bm[i][1]),
                      dict(kind='logic-bits-match', args=list(bm[i][0]), python=bm[i][1]))
        break
    for i in bad_nb:
        ctx.violation('per.integer_as_number_of_bits(%d) = %d differs from the model' % nb[i],
                      dict(kind='logic-nbits', size=nb[i][0], python=nb[i][1]))
        break
    for i in bad_ck[:3]:
        k, lo, hi, b = checks[i]
        what = ('%s (SIZE(%d..%d))' % ('OCTET STRING' if k == 'octets' else 'SEQUENCE OF', lo, hi)) if k != 'enum' \
            else 'ENUMERATED with %d values' % lo
        ctx.violation('decoder of %s: %s, but the field width %s' % (
            what, 'no range check is emitted' if b < 0 else 'a check against %d is emitted' % b,
            'over-covers the range (theorems bits_mismatch_check_needed / enum_not_pow2_check_needed)' if b < 0
            else 'matches the range exactly or the bound is wrong'),
            dict(kind='logic-check', type=what, emitted=b))
