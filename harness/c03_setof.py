"""C03, round 5 — DER SET OF whose element encodings do not all begin with the
same identifier octets (X.690 11.6).

Region.  The elements of a DER SET OF are ordered by their *complete*
encodings compared as octet strings.  As long as every element carries the
same tag (SET OF INTEGER, SET OF SEQUENCE ...) the first octets compared are
equal and the length octets grow with the total length, so many different sort
keys (whole encoding, length first, tag then contents ...) give one and the
same order.  They come apart only when the element type has no single fixed
tag -- an untagged CHOICE, directly, through one or more type references, or
nested in another CHOICE (and ANY, outside the Coq universe) -- and one value
mixes alternatives such that the order of the identifier octets disagrees
with the order of some other plausible key (lengths, contents octets, tag
number without class / constructed bit, octets read as signed ...).  The random
module generator of the property reaches `SET OF <untagged CHOICE>` with such a
value only a handful of times per run.

This file adds

  * `corner_modules()`: a deterministic corpus of SET OF types over multi-tag
    element types (universal tags, automatic tags, explicit tags of every class,
    one- and many-octet identifiers, primitive and constructed alternatives,
    references, nested CHOICE, nested SET OF, SEQUENCE OF as the control that
    must keep its order) with values built so that every pair of alternatives
    occurs with (short, long) and (long, short) encodings;
  * `random_modules()`: a generator of the same family of modules with values
    steered to mix short and long encodings of different alternatives;
  * `discriminators()`: which alternative sort keys a multiset of element
    encodings tells apart from 11.6 (histogram `setof:discriminates:*`, with a
    floor that the run must reach);
  * `ascending_checks()`: the element encodings of every SET OF found in the
    library's output (located by the harness's own typed TLV walk) are checked
    by Coq against the *literal* comparison of 11.6 (`X690SetOf.setof_ascending`,
    shorter padded with 0-octets), independently of `X690.der_encode`;
  * `pt_setof_any()`: SET OF ANY (not in the Coq universe) against the same
    Coq predicate and a Python oracle.

All of these cases also run through the ordinary pipeline of c03.py
(correspondence with DerImpl, byte comparison with X690.der_encode, structural
re-read, decoder correspondence on the outputs and their malformed relatives).
"""
import copy

import codec_ber as cb
import gen_asn1
import lib
from common import to_coq

IMPORTS = ['Base.Prelude', 'Ber.X690', 'Ber.BerCorr', 'Ber.X690SetOf']

INT = {'k': 'INTEGER', 'c': None, 'named': None}
BOOL = {'k': 'BOOLEAN'}
NULL = {'k': 'NULL'}
OID = {'k': 'OBJECT IDENTIFIER'}
OCT = {'k': 'OCTET STRING', 'size': None}
BITS = {'k': 'BIT STRING', 'size': None, 'named': None}
UTF8 = {'k': 'STRING', 'sk': 'UTF8String', 'size': None, 'alpha': None}
IA5 = {'k': 'STRING', 'sk': 'IA5String', 'size': None, 'alpha': None}
PRT = {'k': 'STRING', 'sk': 'PrintableString', 'size': None, 'alpha': None}
ENUM = {'k': 'ENUMERATED', 'root': [('e0', 0), ('e1', 1), ('e2', 300)], 'ext': None}


def _m(name, t, tag=None):
    m = {'name': name, 't': copy.deepcopy(t), 'opt': None}
    if tag is not None:
        m['tag'] = tag
    return m


def _mod(tags, types):
    return {'name': 'M', 'tags': tags, 'ext_implied': False, 'types': types, 'values': []}


def _choice(members, ext=None):
    return {'k': 'CHOICE', 'root': members, 'ext': ext}


def _setof(elem):
    return {'k': 'SET OF', 'elem': elem, 'size': None}


def _seqof(elem):
    return {'k': 'SEQUENCE OF', 'elem': elem, 'size': None}


def _ref(n):
    return {'k': 'REF', 'name': n}


# short and long values of the simple types (the long ones cross the 127/128 length boundary sometimes)
SHORT_LONG = {
    'INTEGER': ([0, 1, -1, 127], [1000000, -2 ** 40, 2 ** 63, 2 ** 70 - 1]),
    'BOOLEAN': ([True, False], [True]),
    'NULL': ([None], [None]),
    'OCTET STRING': ([b'', b'\x00', b'\xff'], [bytes(9), b'\xff' * 12, bytes(range(130)), b'\x00\x00']),
    'BIT STRING': ([(b'', 0), (b'\x80', 1)], [(b'\xff' * 5, 40), (bytes(6) + b'\x80', 49)]),
    'STRING': (['', 'a', '0'], ['abcdefghijkl', 'z' * 12, '0' * 128, '00']),
    'OBJECT IDENTIFIER': (['0.0', '1.2'], ['1.2.840.113549.1.1.11', '2.999.4294967296.16384.1']),
    'ENUMERATED': (['e0', 'e1'], ['e2']),
}


def sized_simple(rng, rt, big):
    s, l = SHORT_LONG[rt['k']]
    return rng.choice(l if big else s)


# ---------------------------------------------------------------------------
# deterministic corpus

def _pairs_values(alts):
    """element lists in which every ordered pair of alternatives occurs as (long, short) and
    (short, long), plus one list mixing everything and one with duplicates; alts: [(name, resolved type)]"""
    out = []
    for i, (n1, t1) in enumerate(alts):
        for n2, t2 in alts[i + 1:]:
            for b1, b2, k in (((True, False, 0), (False, True, 0), (True, True, 1), (False, False, 1)) if i == 0 else
                              ((True, False, i), (False, True, i))):
                l1, l2 = SHORT_LONG[t1['k']][0 if not b1 else 1], SHORT_LONG[t2['k']][0 if not b2 else 1]
                out.append([(n2, l2[k % len(l2)]), (n1, l1[k % len(l1)])])
    everything = []
    for n, t in alts:
        s, l = SHORT_LONG[t['k']]
        everything += [(n, l[-1]), (n, s[0]), (n, l[0])]
    out.append(everything[::-1])
    out.append(everything[::2] + everything[::3])
    return out


def corner_modules():
    """[(module, [(type name, value)])]"""
    out = []
    leafs = [('number', INT), ('label', UTF8), ('flag', BOOL), ('blob', OCT), ('oid', OID), ('nothing', NULL),
             ('bits', BITS), ('kind', ENUM), ('text', IA5)]

    def family(tags, alts, how):
        """one module: E (the CHOICE), T0 SET OF E / T1 SET OF <inline CHOICE> / T2 through two references /
        T3 component of a SEQUENCE with a tagged SET OF / T4 SET OF SET OF / T5 SEQUENCE OF (order kept)"""
        ch = _choice([_m(n, t, tg) for n, t, tg in alts])
        inline = _choice([_m(n + 'I', t, tg) for n, t, tg in alts])
        seq = {'k': 'SEQUENCE', 'root': [_m('a', INT), _m('s', _setof(_ref('E')), ('APPLICATION', 3, how)),
                                         _m('z', BOOL)], 'ext': None}
        types = [('E', ch), ('F', _ref('E')), ('T0', _setof(_ref('E'))), ('T1', _setof(inline)),
                 ('T2', _setof(_ref('F'))), ('T3', seq), ('T4', _setof(_setof(_ref('E')))),
                 ('T5', _seqof(_ref('E')))]
        named = [(n, t) for n, t, _ in alts]
        vals = []
        lists = _pairs_values(named)
        for l in lists:
            vals.append(('T0', l))
        for l in lists[::6]:
            vals.append(('T1', [(n + 'I', v) for n, v in l]))
            vals.append(('T2', l))
        for l in lists[1::7]:
            vals.append(('T3', {'a': 1, 's': l, 'z': True}))
            vals.append(('T5', l))
        vals.append(('T4', [lists[-1], lists[0], lists[-2], lists[1], []]))
        out.append((_mod(tags, types), vals))

    # universal tags in an order that is not the declaration order
    family('IMPLICIT', [(n, t, None) for n, t in leafs[:4]], 'IMPLICIT')
    family('EXPLICIT', [(n, t, None) for n, t in leafs[4:]], 'EXPLICIT')
    # automatic tags [0] .. [n]
    family('AUTOMATIC', [(n, t, None) for n, t in (leafs[1], leafs[0], leafs[3], leafs[2])], '')
    # context tags around the one-octet / many-octet identifier boundary, declared in descending order
    nums = [16384, 128, 127, 31, 30]
    family('IMPLICIT', [(n, t, ('', k, '')) for (n, t), k in zip(leafs, nums)], 'IMPLICIT')
    # every class, low tag numbers on the later classes; EXPLICIT (constructed) alternatives with smaller
    # numbers than primitive ones
    family('IMPLICIT', [('number', INT, ('PRIVATE', 0, '')), ('label', UTF8, ('', 1, 'EXPLICIT')),
                        ('blob', OCT, ('APPLICATION', 2, '')), ('flag', BOOL, ('', 5, '')),
                        ('nothing', NULL, ('', 3, 'EXPLICIT'))], 'EXPLICIT')
    # first octets on both sides of 0x80 and equal first octets followed by different tag-number octets
    family('EXPLICIT', [('number', INT, ('APPLICATION', 31, 'IMPLICIT')), ('label', UTF8, ('APPLICATION', 200, 'IMPLICIT')),
                        ('blob', OCT, ('', 2 ** 21, 'IMPLICIT')), ('text', IA5, ('', 2 ** 21 - 1, 'IMPLICIT')),
                        ('flag', BOOL, None)], '')

    # alternatives that are themselves constructed / structured, and a nested untagged CHOICE
    inner = _choice([_m('i', INT), _m('o', OCT)])
    pair = {'k': 'SEQUENCE', 'root': [_m('x', INT), _m('y', UTF8)], 'ext': None}
    ch = _choice([_m('p', pair), _m('in', inner), _m('l', _seqof(BOOL), ('', 0, '')), _m('n', NULL)],
                 ext=[_m('later', UTF8)])
    types = [('E', ch), ('T0', _setof(_ref('E'))), ('T1', _setof(_setof(_ref('E'))))]
    l1 = [('later', 'a'), ('p', {'x': 2 ** 40, 'y': 'yy'}), ('in', ('o', b'')), ('in', ('i', 1000000)),
          ('l', [True] * 7), ('n', None), ('p', {'x': 0, 'y': ''}), ('l', []), ('in', ('o', bytes(11))), ('in', ('i', 0))]
    out.append((_mod('IMPLICIT', types),
                [('T0', l1), ('T0', l1[::-1]), ('T0', l1[::2]), ('T0', [l1[3], l1[0]]), ('T0', [l1[0], l1[3]]),
                 ('T0', [l1[2], l1[3]]), ('T0', [l1[8], l1[9], l1[8]]),
                 ('T1', [l1[:3], l1[3:6], [], l1[6:], l1[:1]])]))
    return out


# ---------------------------------------------------------------------------
# random modules of the same family

LEAF_POOL = [INT, INT, BOOL, NULL, OID, OCT, BITS, UTF8, IA5, PRT, ENUM]
DISTINCT_POOL = [INT, BOOL, NULL, OID, OCT, BITS, UTF8, IA5, PRT, ENUM]


def _random_alt_type(rng, depth=0):
    r = rng.random()
    if depth == 0 and r < .12:
        return {'k': 'SEQUENCE', 'root': [_m('x', rng.choice([INT, OCT, UTF8])), _m('y', rng.choice([BOOL, INT, IA5]))],
                'ext': None}
    if depth == 0 and r < .2:
        return rng.choice([_seqof, _setof])(copy.deepcopy(rng.choice([INT, OCT, BOOL])))
    return copy.deepcopy(rng.choice(LEAF_POOL))


def random_module(rng):
    """(module, names of the SET OF types) or None when the draw is not legal ASN.1 / not in scope"""
    tags = rng.choice(['AUTOMATIC', 'IMPLICIT', 'EXPLICIT'])
    n = rng.randrange(2, 6)
    style = rng.choice(['universal', 'universal', 'context', 'classes', 'partial'])
    alts = []
    if style in ('universal', 'partial') and tags != 'AUTOMATIC':
        # alternatives with different universal tags
        pool = rng.sample(DISTINCT_POOL, n)
        if rng.random() < .3:
            pool[0] = _random_alt_type(rng)
            if pool[0]['k'] in ('INTEGER', 'BOOLEAN', 'NULL', 'OBJECT IDENTIFIER', 'OCTET STRING', 'BIT STRING',
                                'STRING', 'ENUMERATED'):
                pool[0] = {'k': 'SEQUENCE', 'root': [_m('x', INT)], 'ext': None}
        rng.shuffle(pool)
        for i in range(n):
            alts.append(_m('c%d' % i, pool[i]))
    else:
        for i in range(n):
            alts.append(_m('c%d' % i, _random_alt_type(rng)))
    types = []
    if rng.random() < .3:
        # one alternative is an untagged CHOICE of its own (direct or by reference)
        sub = _choice([_m('s%d' % i, _random_alt_type(rng, 1)) for i in range(rng.randrange(2, 4))])
        if rng.random() < .5:
            types.append(('S', sub))
            sub = _ref('S')
        alts[rng.randrange(n)] = _m('sub', sub)
    rt_of = None
    ch = _choice(alts, ext=None)
    if rng.random() < .25:
        k = rng.randrange(1, n)
        ch = _choice(alts[:k], ext=alts[k:])
    types.append(('E', ch))
    mod = _mod(tags, types)
    rt_of = cb.Resolver(mod)

    def tag_members(ms, style):
        if style == 'universal':
            return
        nums = rng.sample(cb.TAG_NUMBERS[:12] + list(range(6, 30)), len(ms))
        for m, k in zip(ms, nums):
            if style == 'partial' and rng.random() < .5:
                continue
            cls = '' if style == 'context' else rng.choice(['', '', 'APPLICATION', 'PRIVATE'])
            forced = cb.library_forces_explicit(rt_of, m['t'])
            m['tag'] = (cls, k, rng.choice(['', 'EXPLICIT'] if forced else ['', '', 'IMPLICIT', 'EXPLICIT']))
    tag_members(cb.members_of(ch), style)
    for nm, t in types:
        if nm == 'S' and rng.random() < .5:
            tag_members(cb.members_of(t), rng.choice(['context', 'classes']))
    elem = _ref('E')
    if rng.random() < .3:
        types.append(('F', _ref('E')))
        elem = _ref('F')
    shape = rng.choice(['top', 'top', 'member', 'nested', 'tagged'])
    if shape == 'top':
        types.append(('T0', _setof(elem)))
    elif shape == 'tagged':
        t = _setof(elem)
        t['tag'] = (rng.choice(['', 'APPLICATION', 'PRIVATE']), rng.choice([0, 4, 31, 200]), rng.choice(['', 'IMPLICIT', 'EXPLICIT']))
        types.append(('T0', t))
    elif shape == 'nested':
        types.append(('T0', _setof(_setof(elem))))
    else:
        types.append(('T0', {'k': 'SEQUENCE', 'root': [_m('a', rng.choice([INT, BOOL])), _m('s', _setof(elem)),
                                                       _m('q', _seqof(elem))], 'ext': None}))
    if rng.random() < .3:
        # the inline form: the CHOICE written at the element position
        inline = copy.deepcopy(ch)
        for m in cb.members_of(inline):
            m['name'] += 'i'
        types.append(('T1', _setof(inline)))
    rt_of = cb.Resolver(mod)
    for _, t in types:
        for x in cb._constructed(t):
            if not cb.legal_components(mod, rt_of, x):
                return None
    return mod


def sized_value(rng, rt_of, t, big, depth=0):
    """a value of [t] with a short or a long encoding"""
    rt = rt_of(t)
    k = rt['k']
    if k in SHORT_LONG:
        v = sized_simple(rng, rt, big)
        if k == 'ENUMERATED':
            names = [n for n, _ in rt['root'] + (rt['ext'] or [])]
            v = v if v in names else names[-1 if big else 0]
        return v
    if k in ('SEQUENCE', 'SET'):
        return {m['name']: sized_value(rng, rt_of, m['t'], big and rng.random() < .7, depth + 1)
                for m in gen_asn1.all_members(rt)}
    if k == 'CHOICE':
        m = rng.choice(cb.members_of(rt))
        return (m['name'], sized_value(rng, rt_of, m['t'], big, depth + 1))
    if k in ('SEQUENCE OF', 'SET OF'):
        return elements(rng, rt_of, rt, depth + 1, big)
    raise AssertionError(k)


def elements(rng, rt_of, rt, depth=0, big=None):
    n = rng.choice([0, 1, 2, 2, 3, 4, 6]) if depth else rng.choice([2, 2, 3, 4, 5, 7])
    if depth > 1:
        n = min(n, 3)
    if big is False and depth:
        n = min(n, 1)
    out = [sized_value(rng, rt_of, rt['elem'], rng.random() < .5, depth) for _ in range(n)]
    if out and rng.random() < .15:
        out.append(copy.deepcopy(rng.choice(out)))          # equal elements
    return out


def random_value(rng, rt_of, t):
    rt = rt_of(t)
    if rt['k'] in ('SET OF', 'SEQUENCE OF'):
        return elements(rng, rt_of, rt)
    return sized_value(rng, rt_of, t, rng.random() < .5)


# ---------------------------------------------------------------------------
# cases

def add_cases(ctx, Case, mods, cases, n_random, per_type, codec='der'):
    """append the corpus and [n_random] random modules to (mods, cases); returns the new cases"""
    rng = ctx.rng
    new = []

    def add_module(mod, vals, corner):
        probs = cb.scope_problems(mod, codec)
        if probs:
            for p in set(probs):
                ctx.count('setof:excluded:' + p)
            return False
        text = gen_asn1.render_module(mod, gen_asn1.make_resolver(mod))
        try:
            lib.compile_string(text, codec)
        except Exception as e:  # noqa
            ctx.violation('SET OF module does not compile with %s: %s: %s' % (codec, type(e).__name__, e),
                          dict(kind='compile', spec=text, codec=codec))
            return False
        g = gen_asn1.Gen(rng, cb.default_opts())
        g.types = mod['types']
        g.pending = {}
        mi = len(mods)
        mods.append((mod, text))
        tmap = dict(mod['types'])
        has_enum = 'ENUMERATED' in text
        for tname, v in vals:
            c = Case()
            c.mi, c.mod, c.text, c.tname, c.t, c.gen = mi, mod, text, tname, tmap[tname], g
            c.v = v
            c.numeric = has_enum and rng.random() < .4
            c.corner = corner
            cases.append(c)
            new.append(c)
        return True

    for mod, vals in corner_modules():
        if add_module(mod, vals, True):
            ctx.count('setof:corner-modules')
    made = tries = 0
    while made < n_random and tries < n_random * 10:
        tries += 1
        mod = random_module(rng)
        if mod is None:
            ctx.count('setof:draw-not-legal')
            continue
        rt_of = cb.Resolver(mod)
        vals = [(tn, random_value(rng, rt_of, t)) for tn, t in mod['types'] if tn.startswith('T')
                for _ in range(per_type)]
        if add_module(mod, vals, False):
            made += 1
            ctx.count('setof:random-modules')
    return new


# ---------------------------------------------------------------------------
# what a multiset of element encodings tells apart

def _header(e):
    """(identifier octets, length octets, contents) of a DER TLV"""
    i = 1
    if e[0] & 0x1f == 0x1f:
        while e[i] & 0x80:
            i += 1
        i += 1
    j = i + 1 + (e[i] & 0x7f if e[i] & 0x80 else 0)
    return e[:i], e[i:j], e[j:]


def _tagnum(e):
    ident = _header(e)[0]
    if len(ident) == 1:
        return ident[0] & 0x1f
    n = 0
    for b in ident[1:]:
        n = (n << 7) | (b & 0x7f)
    return n


ALT_KEYS = {
    'length-first': lambda e: (len(e), e),
    'contents-only': lambda e: _header(e)[2],
    'tag-then-contents': lambda e: (_header(e)[0], _header(e)[2]),
    'class-and-number': lambda e: (e[0] & 0xc0, _tagnum(e)),
    'number-only': lambda e: _tagnum(e),
    'signed-octets': lambda e: [b - 256 if b > 127 else b for b in e],
    'descending': lambda e: [-b for b in e],
    'first-octet-only': lambda e: e[0],
    'without-constructed-bit': lambda e: bytes([e[0] & 0xdf]) + e[1:],
}


def discriminators(encs):
    """names of the alternative keys under which some pair of these encodings is in the opposite strict order
    (a < b as octet strings, key(a) > key(b)): an implementation sorting by that key emits a different order"""
    out = set()
    es = sorted(set(encs))
    for name, key in ALT_KEYS.items():
        ks = [key(e) for e in es]
        if any(ks[i] > ks[j] for i in range(len(es)) for j in range(i + 1, len(es))):
            out.add(name)
    return out


class SetOfWalk(cb.Walk):
    """the typed TLV walk of codec_ber, recording the nodes that encode SET OF / SEQUENCE OF values"""

    def __init__(self, mod):
        cb.Walk.__init__(self, mod, der_checks=False)
        self.setofs = []        # (node, element type has one fixed tag?)

    def visit(self, t, tag, node, override=None):
        if tag is None and t['k'] == 'SET OF' and node.constructed:
            tags = cb.outer_tags(self.mod, self.rt_of, t['elem'])
            self.setofs.append((node, len(tags) <= 1))
        return cb.Walk.visit(self, t, tag, node, override)


def setof_nodes(mod, tname, data):
    try:
        root, end = cb.parse_strict(data, der=False)
    except (cb.TlvError, IndexError):
        return []
    w = SetOfWalk(mod)
    try:
        w.named(tname, root)
    except Exception:  # noqa  (a malformed tree is reported by the structural re-read of c03.py)
        pass
    return w.setofs


MAX_REPORTED = 12
FLOOR = {'length-first': 40, 'contents-only': 40, 'class-and-number': 15, 'number-only': 15, 'signed-octets': 15,
         'without-constructed-bit': 8}


def ascending_checks(ctx, cases, enc):
    """Every SET OF in the library's output, as the list of its element encodings in the order emitted, against
    the literal comparison of X.690 11.6 evaluated by Coq (X690SetOf.setof_ascending)."""
    items, meta = [], []
    for c, r in zip(cases, enc):
        if r[0] != 'ok':
            continue
        for node, fixed in setof_nodes(c.mod, c.tname, r[1]):
            encs = [cb.write_der(k) for k in node.children]
            if len(encs) < 2:
                continue
            ctx.count('setof:nodes:%s' % ('one-tag elements' if fixed else 'multi-tag elements'))
            ds = discriminators(encs)
            for d in ds:
                ctx.count('setof:discriminates:' + d)
            if not fixed:
                ctx.case(('setof', c.mod['tags'], tuple(sorted(ds)), len(encs) > 3))
            items.append('setof_ascending %s' % to_coq([bytes(e) for e in encs]))
            meta.append((c, encs, r[1]))
    bad = cb.eval_shards(ctx, 'setof', IMPORTS, '', items, per_file=600) if items else []
    for i in bad[:MAX_REPORTED]:
        c, encs, data = meta[i]
        want = sorted(encs)
        ctx.violation('DER SET OF elements are not in the ascending order of X.690 11.6: emitted %s, required %s (whole '
                      'encoding %s)' % (' '.join(e.hex() for e in encs)[:200], ' '.join(e.hex() for e in want)[:200],
                                        data.hex()[:120]),
                      dict(kind='pt-der-setof-order', spec=c.text, type=c.tname, numeric=c.numeric,
                           value=repr(gen_asn1.to_numeric(cb.Resolver(c.mod), c.t, c.v) if c.numeric else c.v),
                           data=data.hex(), elements=[e.hex() for e in encs], required=[e.hex() for e in want]))
    ctx.log('%d SET OF nodes checked against X690SetOf.setof_ascending, %d not ascending (first %d reported)' % (
        len(items), len(bad), min(len(bad), MAX_REPORTED)))
    reach = {k: ctx.histogram.get('setof:discriminates:' + k, 0) for k in ALT_KEYS}
    ctx.extra['setof_region'] = dict(nodes=len(items), discriminating=reach, floor=FLOOR)
    short = {k: (reach[k], f) for k, f in FLOOR.items() if reach[k] < f}
    if short and not ctx.violations:
        ctx.violation('the SET OF generator did not reach its region (discriminating nodes below the floor): %r' % (short,),
                      dict(kind='setof-coverage-floor', reach=reach, floor=FLOOR), no_input=True)


# ---------------------------------------------------------------------------
# SET OF ANY (outside the Coq universe of types; the order predicate still applies)

ANY_SPEC = 'M DEFINITIONS IMPLICIT TAGS ::= BEGIN\nA ::= SET OF ANY\nB ::= SEQUENCE { n INTEGER, s [1] SET OF ANY }\nEND\n'


def random_tlv(rng, depth=0):
    cls = rng.choice([0, 0, 0x40, 0x80, 0x80, 0xc0])
    num = rng.choice([1, 2, 4, 5, 12, 16, 30, 31, 127, 128, 16384]) if rng.random() < .8 else rng.randrange(0, 40)
    if cls == 0 and num == 0:
        num = 4
    if depth < 2 and rng.random() < .25:
        return cb.Tlv(cls, True, num, children=[random_tlv(rng, depth + 1) for _ in range(rng.randrange(0, 3))])
    n = rng.choice([0, 1, 1, 2, 3, 9, 127, 128]) if rng.random() < .9 else rng.randrange(0, 300)
    return cb.Tlv(cls, False, num, content=bytes(rng.choice([0, 0, 0xff, rng.randrange(256)]) for _ in range(n)))


def pt_setof_any(ctx, n):
    rng = ctx.rng
    try:
        spec = lib.compile_string(ANY_SPEC, 'der')
    except Exception as e:  # noqa
        ctx.violation('SET OF ANY does not compile: %s' % e, dict(kind='compile', spec=ANY_SPEC, codec='der'))
        return
    items, meta, nbad = [], [], 0
    fixed = [[bytes.fromhex('0c0161'), bytes.fromhex('02030f4240')],
             [bytes.fromhex('0402ffff'), bytes.fromhex('040100'), bytes.fromhex('04820100') + bytes(256), bytes.fromhex('0500')],
             [bytes.fromhex('8101ff'), bytes.fromhex('a30405000500'), bytes.fromhex('9f1f00'), bytes.fromhex('4500')]]
    for i in range(n + len(fixed)):
        elems = fixed[i] if i < len(fixed) else [cb.write_der(random_tlv(rng)) for _ in range(rng.choice([2, 3, 4, 6]))]
        if rng.random() < .5:
            tname, value = 'A', elems
            body = b''.join(sorted(elems))
            want = b'\x31' + cb.length_octets(len(body)) + body
        else:
            tname, value = 'B', {'n': 5, 's': elems}
            body = b''.join(sorted(elems))
            body = b'\x02\x01\x05' + b'\xa1' + cb.length_octets(len(body)) + body
            want = b'\x30' + cb.length_octets(len(body)) + body
        got = lib.attempt(spec.encode, tname, value)
        ctx.count('setof:any')
        for d in discriminators(elems):
            ctx.count('setof:discriminates:' + d)
        ctx.case(('setof-any', tname, tuple(sorted(discriminators(elems)))))
        rep = dict(kind='pt-der-setof-any', spec=ANY_SPEC, type=tname, value=repr(value), expected=want.hex())
        if got != ('ok', want):
            nbad += 1
            if nbad > MAX_REPORTED // 2:
                continue
            ctx.violation('DER SET OF ANY: library %s, X.690 11.6 requires %s' % (
                got[1].hex()[:160] if got[0] == 'ok' else got[1:], want.hex()[:160]), rep)
            continue
        # the emitted order, by the literal comparison in Coq
        try:
            root, _ = cb.parse_strict(got[1], der=True)
            node = root if tname == 'A' else root.children[1]
            items.append('setof_ascending %s' % to_coq([cb.write_der(k) for k in node.children]))
            meta.append(rep)
        except (cb.TlvError, IndexError) as e:
            ctx.violation('DER SET OF ANY output is not DER: %s' % e, rep)
    bad = cb.eval_shards(ctx, 'setofany', IMPORTS, '', items, per_file=600) if items else []
    for i in bad:
        ctx.violation('DER SET OF ANY elements not ascending by X690SetOf.setof_ascending', meta[i])
