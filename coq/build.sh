#!/bin/bash
# Build (full .vo, never -vos) the given targets, or everything when none is given.
# Regenerates _CoqProject/Makefile.coq from the file listing so that new files need no registration.
set -e
cd "$(dirname "$0")"
ulimit -v 26000000 2>/dev/null || true
exec 9>.build.lock
flock 9
{
  echo "-Q theories Asn1V"
  echo "-Q gen Asn1Gen"
  echo "-arg -w -arg -notation-overridden,-deprecated-hint-without-locality,-deprecated-instance-without-locality"
  find theories gen -name '*.v' ! -name 'Tmp_goal_*' | sort
} > _CoqProject.new
if ! cmp -s _CoqProject.new _CoqProject; then
  mv _CoqProject.new _CoqProject
  coq_makefile -f _CoqProject -o Makefile.coq >/dev/null
else
  rm -f _CoqProject.new
fi
[ -f Makefile.coq ] || coq_makefile -f _CoqProject -o Makefile.coq >/dev/null
if [ $# -eq 0 ]; then
  timeout ${COQ_BUILD_TIMEOUT:-1500} make -f Makefile.coq -j${COQ_JOBS:-16} 2>&1
else
  timeout ${COQ_BUILD_TIMEOUT:-1500} make -f Makefile.coq -j${COQ_JOBS:-16} "$@" 2>&1
fi
