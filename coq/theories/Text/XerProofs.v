(** C02 — proofs about the XER model: tree-level round trip together with
    "the encoder only builds trees in the serialiser's domain", then the
    byte-level theorem over an abstract serialiser/parser pair. *)
From Asn1V Require Import Base.Prelude Syntax.Asn1 Text.Universe Text.Xml Text.XerImpl Text.TextLemmas.
From Coq Require Import DecimalString DecimalZ DecimalPos Decimal.
Open Scope string_scope.
Open Scope list_scope.
Open Scope Z_scope.

Lemma nodup_str_cons_inv n l : nodup_str (n :: l) = true -> ~ In n l /\ nodup_str l = true.
Proof.
  simpl. intros H. apply andb_prop in H as [H1 H2]. split; auto.
  intros I. apply mem_str_In in I. rewrite I in H1. discriminate.
Qed.

Lemma find_kid_app_notin n pre l : ~ In n (map x_tag pre) -> find_kid n (pre ++ l) = find_kid n l.
Proof.
  induction pre as [|k pre IH]; simpl; auto.
  intros H. destruct (String.eqb (x_tag k) n) eqn:E.
  - apply String.eqb_eq in E. subst. tauto.
  - apply IH. tauto.
Qed.

Lemma find_kid_notin n l : ~ In n (map x_tag l) -> find_kid n l = None.
Proof.
  induction l as [|k l IH]; simpl; auto.
  intros H. destruct (String.eqb (x_tag k) n) eqn:E.
  - apply String.eqb_eq in E. subst. tauto.
  - apply IH. tauto.
Qed.

(* text of the leaves is in the serialiser's domain *)
Lemma uint_chars_ok d : forallb xml_char_ok (codes (DecimalString.NilEmpty.string_of_uint d)) = true.
Proof. induction d; simpl; auto. Qed.

Lemma str_of_Z_chars_ok z : forallb xml_char_ok (str_of_Z z) = true.
Proof.
  unfold str_of_Z, NilZero.string_of_int, NilZero.string_of_uint.
  destruct (Z.to_int z) as [d|d]; destruct d; try reflexivity;
    try (apply (uint_chars_ok (D0 _)) || apply uint_chars_ok);
    cbn [codes forallb]; rewrite ?andb_true_l; try reflexivity; apply uint_chars_ok.
Qed.

Lemma str_of_Z_nonempty z : str_of_Z z <> [].
Proof. intros H. pose proof (Z_of_str_of_Z z) as R. rewrite H in R. discriminate. Qed.

Lemma text_ok_some s : s <> [] -> forallb xml_char_ok s = true -> text_ok (Some s) = true.
Proof. destruct s; [congruence|]. auto. Qed.

Lemma text_ok_nonempty s : forallb xml_char_ok s = true -> text_ok (nonempty s) = true.
Proof. destruct s; auto. Qed.

Lemma hexchar_xml_ok d : 0 <= d < 16 -> xml_char_ok (hexchar d) = true.
Proof. intros H. unfold xml_char_ok, hexchar. destruct (d <? 10); lia. Qed.

Lemma hex_upper_xml_ok bs : bytes_okb bs = true -> forallb xml_char_ok (hex_upper bs) = true.
Proof.
  induction bs; simpl; auto. intros H. apply andb_prop in H as [H1 H2].
  apply is_byteb_spec in H1.
  rewrite !hexchar_xml_ok, IHbs; auto.
  - apply Z.mod_pos_bound; lia.
  - split; [apply Z.div_pos; lia | apply Z.div_lt_upper_bound; lia].
Qed.

Lemma bitchars_xml_ok l : forallb xml_char_ok (map bitchar l) = true.
Proof. induction l as [|b l IH]; simpl; auto. rewrite IH. destruct b; reflexivity. Qed.

Lemma number_of_name_in n items k : number_of_name n items = Some k -> In n (map fst items).
Proof.
  induction items as [|[m j] r IH]; simpl; [discriminate|].
  destruct (String.eqb n m) eqn:E; [apply String.eqb_eq in E; auto | auto].
Qed.

Lemma wf_leaf n : name_ok n = true -> wf_xml (leaf n).
Proof. intros H. constructor; auto. Qed.

Lemma wf_set_tag n e : name_ok n = true -> wf_xml e -> wf_xml (set_tag n e).
Proof. intros H W. destruct W. simpl. constructor; auto. Qed.

Lemma wf_wrap ofm name k : name_ok name = true -> wf_xml k -> wf_xml (wrap ofm name k).
Proof. intros H W. destruct ofm; simpl; auto. constructor; auto. Qed.

Section Members.
Variable enc : string -> xty -> xvalue -> result xml.
Variable dec : xty -> xml -> result xvalue.
Variable nrm : xty -> xvalue -> xvalue.
Variable ok : xty -> xvalue -> bool.
Hypothesis IH : forall n t v, ok t v = true -> name_ok n = true ->
  exists e, enc n t v = Ok e /\ x_tag e = n /\ wf_xml e /\ dec t e = Ok (nrm t v).

Lemma xmembers_roundtrip ms fs :
  nodup_str (member_names ms) = true ->
  forallb name_ok (member_names ms) = true ->
  xok_members ok ms fs = true ->
  exists kids,
    xenc_members enc ms fs = Ok kids /\
    (forall k, In k (map x_tag kids) -> In k (member_names ms)) /\
    Forall wf_xml kids /\
    forall pre, (forall k, In k (map x_tag pre) -> ~ In k (member_names ms)) ->
      xdec_members dec ms (pre ++ kids) = Ok (xnorm_members nrm ms fs).
Proof.
  induction ms as [|[[n t] o] ms' IHms]; intros Hnd Hnm Hok.
  - exists []. simpl. repeat split; auto.
  - unfold member_names in Hnd, Hnm. cbn [map fst] in Hnd, Hnm.
    fold (member_names ms') in Hnd, Hnm.
    apply nodup_str_cons_inv in Hnd as [Hn Hnd].
    cbn [forallb] in Hnm. apply andb_prop in Hnm as [Hnn Hnm].
    cbn [xok_members] in Hok. cbn [xenc_members xnorm_members].
    destruct (lookup n fs) as [x|] eqn:L.
    + apply andb_prop in Hok as [Hx Hok].
      destruct (IH n _ _ Hx Hnn) as (e & E1 & T1 & W1 & D1).
      destruct (IHms Hnd Hnm Hok) as (kids & E2 & K2 & W2 & D2).
      exists (e :: kids). rewrite E1, E2. cbn [bind].
      split; [reflexivity|]. split; [|split].
      * intros k [Hk|Hk]; [left; rewrite <- T1; exact Hk | right; apply K2; exact Hk].
      * constructor; auto.
      * intros pre Hpre. cbn [xdec_members].
        rewrite find_kid_app_notin by (intros I; apply (Hpre _ I); left; reflexivity).
        cbn [find_kid]. rewrite T1, String.eqb_refl. rewrite D1. cbn [bind].
        change (pre ++ e :: kids) with (pre ++ [e] ++ kids). rewrite app_assoc.
        rewrite D2; [reflexivity|].
        intros k I. rewrite map_app in I. apply in_app_or in I as [I|I].
        -- intros I2. apply (Hpre _ I). right. exact I2.
        -- cbn in I. destruct I as [I|[]]. rewrite <- I, T1. exact Hn.
    + assert (xok_members ok ms' fs = true) as Hok' by (destruct o; [discriminate | exact Hok | exact Hok]).
      destruct (IHms Hnd Hnm Hok') as (kids & E2 & K2 & W2 & D2).
      exists kids. split; [destruct o; [discriminate| exact E2 | exact E2]|].
      split; [|split]; auto.
      * intros k Hk. right. apply K2. exact Hk.
      * intros pre Hpre. cbn [xdec_members].
        assert (find_kid n (pre ++ kids) = None) as Ln.
        { apply find_kid_notin. rewrite map_app. intros I. apply in_app_or in I as [I|I].
          - apply (Hpre _ I). left. reflexivity.
          - apply Hn. apply K2. exact I. }
        rewrite Ln. rewrite D2 by (intros k I I2; apply (Hpre _ I); right; exact I2).
        cbn [bind]. destruct o; reflexivity.
Qed.
End Members.

Section Lists.
Variable enc : xvalue -> result xml.
Variable dec : xml -> result xvalue.
Variable nrm : xvalue -> xvalue.
Variable ok : xvalue -> bool.
Hypothesis IH : forall v, ok v = true ->
  exists e, enc v = Ok e /\ wf_xml e /\ dec e = Ok (nrm v).

Lemma xlist_roundtrip vs : forallb ok vs = true ->
  exists es, map_result enc vs = Ok es /\ Forall wf_xml es /\ map_result dec es = Ok (map nrm vs).
Proof.
  induction vs as [|v vs IHvs]; simpl; intros H.
  - exists []. auto.
  - apply andb_prop in H as [H1 H2].
    destruct (IH _ H1) as (j & E & W & D). destruct (IHvs H2) as (js & E2 & W2 & D2).
    exists (j :: js). rewrite E, E2. simpl. rewrite D, D2. simpl. auto.
Qed.
End Lists.

Section Main.
Variable env : xenv.

(** decode() never reads the tag of the element it is given *)
Lemma xdec_set_tag : forall fuel bt t nm e,
  xdec env fuel false bt t (set_tag nm e) = xdec env fuel false bt t e.
Proof.
  induction fuel as [|f IHf]; intros bt t nm e; [reflexivity|].
  destruct e as [tg tx ks]. cbn [xdec set_tag x_kids x_text].
  destruct t; try reflexivity.
  destruct (lookup n env); [|reflexivity].
  destruct (mem_str n bt);
    [exact (IHf [n] x nm (XE tg tx ks)) | exact (IHf (n :: bt) x nm (XE tg tx ks))].
Qed.

Lemma xenum_roundtrip items numeric v :
  xenum_has items numeric v = true -> nodup_str (map fst items) = true ->
  exists n, xenum_name items numeric v = Ok n /\ In n (map fst items) /\
            xenum_value items numeric n = Some v.
Proof.
  unfold xenum_has, xenum_name, xenum_value. destruct v; try discriminate; intros H Hnd.
  - apply andb_prop in H as [H1 H2]. subst numeric.
    destruct (name_of_number z items) as [n|] eqn:E; [|discriminate].
    exists n. pose proof (number_of_name_of_number _ _ _ Hnd E) as R. rewrite R.
    repeat split; auto. eapply number_of_name_in; eauto.
  - apply andb_prop in H as [H1 H2]. apply negb_true_iff in H1. subst numeric.
    destruct (number_of_name n items) eqn:E; [|discriminate].
    exists n. rewrite E. repeat split; auto. eapply number_of_name_in; eauto.
Qed.

Lemma lookup_in_fst {A} n (l : list (string * A)) a : lookup n l = Some a -> In n (map fst l).
Proof.
  induction l as [|[k b] l IH]; simpl; [discriminate|].
  destruct (String.eqb n k) eqn:E; [apply String.eqb_eq in E; auto | auto].
Qed.

Theorem xer_tree_roundtrip : forall fuel ofm bt name t v,
  xok env fuel t v = true -> name_ok name = true ->
  exists e, xenc env fuel ofm bt name t v = Ok e /\
            (ofm = false -> x_tag e = name) /\
            wf_xml e /\
            xdec env fuel ofm bt t e = Ok (xnorm env fuel t v).
Proof.
  induction fuel as [|f IHf]; intros ofm bt name t v H Hname; [discriminate|].
  cbn [xok] in H. cbn [xenc xdec xnorm].
  destruct t.
  - (* BOOLEAN *) destruct v; try discriminate.
    eexists. split; [reflexivity|]. split; [intros ->; reflexivity|]. split.
    + apply wf_wrap; auto. apply wf_leaf. destruct b; reflexivity.
    + destruct ofm, b; reflexivity.
  - (* NULL *) destruct v; try discriminate.
    eexists. split; [reflexivity|]. split; [reflexivity|]. split; [constructor; auto | reflexivity].
  - (* INTEGER *) destruct v; try discriminate.
    eexists. split; [reflexivity|]. split; [reflexivity|]. split.
    + constructor; auto. apply text_ok_some; [apply str_of_Z_nonempty | apply str_of_Z_chars_ok].
    + cbn [x_text]. rewrite Z_of_str_of_Z. reflexivity.
  - (* REAL *) destruct v; try discriminate. destruct r; try discriminate.
    all: eexists; (split; [reflexivity|]); (split; [reflexivity|]); split;
      [constructor; auto; repeat constructor | reflexivity].
  - (* ENUMERATED *)
    apply andb_prop in H as [H Hnm]. apply andb_prop in H as [H Hnd].
    destruct (xenum_roundtrip items numeric v H Hnd) as (n & E & I & D).
    rewrite E. cbn [bind]. eexists. split; [reflexivity|].
    split; [intros ->; reflexivity|]. split.
    + apply wf_wrap; auto. apply wf_leaf. rewrite forallb_forall in Hnm. auto.
    + destruct ofm; cbn [wrap leaf x_tag x_kids]; rewrite D; destruct v; reflexivity.
  - (* BIT STRING *) destruct v; try discriminate. cbn [xenc_bits].
    destruct (bits_canonb_pos _ _ H) as (P1 & P2 & P3).
    destruct (0 <? n) eqn:E.
    + destruct bs as [|b0 bs']; [exfalso; apply P2; [lia | reflexivity]|].
      destruct (pack_firstn_unpack _ _ H) as [Q1 Q2].
      eexists. split; [reflexivity|]. split; [reflexivity|]. split.
      * constructor; auto. apply text_ok_some; [|apply bitchars_xml_ok].
        intros C. apply map_eq_nil in C. rewrite C in Q2. simpl in Q2. lia.
      * unfold xdec_bits. cbn [x_text]. rewrite parse_bits_bitchar.
        destruct (firstn (Z.to_nat n) (unpack (b0 :: bs'))) eqn:F; [simpl in Q2; lia|].
        rewrite Q1, Q2. reflexivity.
    + assert (n = 0) by lia. subst. rewrite (P3 eq_refl).
      eexists. split; [reflexivity|]. split; [reflexivity|]. split; [constructor; auto | reflexivity].
  - (* OCTET STRING *) destruct v; try discriminate.
    eexists. split; [reflexivity|]. split; [reflexivity|]. split.
    + constructor; auto. apply text_ok_nonempty. apply hex_upper_xml_ok; assumption.
    + unfold xdec_octets. cbn [x_text]. destruct bs as [|b0 bs']; [reflexivity|].
      change (nonempty (hex_upper (b0 :: bs'))) with (Some (hex_upper (b0 :: bs'))).
      cbv iota beta. rewrite hex_upper_even. rewrite unhex_hex_upper by assumption. reflexivity.
  - (* character strings *) destruct v; try discriminate.
    eexists. split; [reflexivity|]. split; [reflexivity|]. split.
    + constructor; auto. apply text_ok_nonempty; assumption.
    + destruct cps; reflexivity.
  - (* OBJECT IDENTIFIER *) destruct v; try discriminate.
    apply andb_prop in H as [H1 H2].
    eexists. split; [reflexivity|]. split; [reflexivity|]. split.
    + constructor; auto. apply text_ok_nonempty; assumption.
    + destruct cps; [discriminate | reflexivity].
  - (* SEQUENCE / SET *) destruct v; try discriminate.
    apply andb_prop in H as [H H3]. apply andb_prop in H as [H1 H2].
    destruct (xmembers_roundtrip (xenc env f false bt) (xdec env f false bt) (xnorm env f) (xok env f)
                (fun n t v Hk Hn =>
                   match IHf false bt n t v Hk Hn with
                   | ex_intro _ e (conj A (conj B (conj C D))) =>
                     ex_intro _ e (conj A (conj (B eq_refl) (conj C D)))
                   end) ms fs H1 H2 H3)
      as (kids & E & K & W & D).
    exists (XE name None kids). rewrite E. cbn [bind]. split; [reflexivity|].
    split; [reflexivity|]. split; [constructor; auto|].
    pose proof (D [] (fun k I => False_ind _ I)) as D0. change ([] ++ kids) with kids in D0.
    cbn [x_kids]. rewrite D0. reflexivity.
  - (* SEQUENCE OF / SET OF *) destruct v; try discriminate.
    apply andb_prop in H as [H1 H2].
    destruct (xlist_roundtrip (xenc env f true bt (type_name t) t) (xdec env f true bt t) (xnorm env f t)
                (xok env f t)
                (fun v Hk =>
                   match IHf true bt (type_name t) t v Hk H1 with
                   | ex_intro _ e (conj A (conj B (conj C D))) => ex_intro _ e (conj A (conj C D))
                   end) vs H2)
      as (es & E & W & D).
    exists (XE name None es). rewrite E. cbn [bind]. split; [reflexivity|].
    split; [reflexivity|]. split; [constructor; auto|].
    cbn [x_kids]. rewrite D. reflexivity.
  - (* CHOICE *) destruct v; try discriminate.
    apply andb_prop in H as [Ha H].
    destruct (lookup alt alts) as [ta|] eqn:L; [|discriminate].
    destruct (IHf false bt alt ta v H Ha) as (k & E & T & W & D).
    rewrite E. cbn [bind]. specialize (T eq_refl).
    exists (wrap ofm name k). split; [reflexivity|].
    split; [intros ->; reflexivity|]. split; [apply wf_wrap; auto|].
    destruct ofm; cbn [wrap x_kids]; rewrite T, L, D; reflexivity.
  - (* type reference *)
    apply andb_prop in H as [Hn H].
    destruct (lookup n env) as [t'|] eqn:L; [|discriminate].
    destruct (mem_str n bt).
    + destruct (IHf false [n] n t' v H Hn) as (e & E & T & W & D).
      rewrite E. cbn [bind]. exists (set_tag name e). split; [reflexivity|].
      split; [intros _; destruct e; reflexivity|]. split; [apply wf_set_tag; auto|].
      rewrite xdec_set_tag. exact D.
    + destruct (IHf ofm (n :: bt) name t' v H Hname) as (e & E & T & W & D).
      exists e. auto.
Qed.
End Main.

(** * Byte level *)
Section Bytes.
Variable ser : option Z -> xml -> list Z.
Variable par : list Z -> option xml.
Hypothesis par_ser : forall indent e, wf_xml e -> par (ser indent e) = Some e.
Variable env : xenv.

Theorem xer_roundtrip_bytes : forall indent fuel name t v,
  xok env fuel t v = true -> name_ok name = true ->
  exists bs, xer_encode ser env indent fuel name t v = Ok bs /\
             xer_decode par env fuel name t bs = Ok (xnorm env fuel t v).
Proof.
  intros indent fuel name t v H Hn.
  destruct (xer_tree_roundtrip env fuel false [name] name t v H Hn) as (e & E & T & W & D).
  exists (ser indent e). unfold xer_encode, xer_decode. rewrite E. cbn [bind].
  rewrite par_ser by exact W. auto.
Qed.
End Bytes.

(** * The unrepaired REAL encoder (xer.py before proposed_fixes/C02-xer-real-format.diff) *)
Lemma xer_real_inf_old_refuted : forall fuel, old_real_loop fuel RInf = OldLoops.
Proof. induction fuel; simpl; auto. Qed.

Lemma xer_real_nan_old_refuted : forall fuel, old_real_loop (S fuel) RNaN = OldText "nanE0".
Proof. reflexivity. Qed.
