(** C02 — proofs about the JER model: tree-level round trip, then the
    byte-level theorem over an abstract serialiser/parser pair. *)
From Asn1V Require Import Base.Prelude Syntax.Asn1 Text.Universe Text.Json Text.JerImpl Text.TextLemmas.
Open Scope string_scope.
Open Scope list_scope.
Open Scope Z_scope.

Lemma lookup_app_notin {A} n (pre l : list (string * A)) :
  ~ In n (map fst pre) -> lookup n (pre ++ l) = lookup n l.
Proof.
  induction pre as [|[k a] pre IH]; simpl; auto.
  intros H. destruct (String.eqb n k) eqn:E.
  - apply String.eqb_eq in E. subst. tauto.
  - apply IH. tauto.
Qed.

Lemma nodup_str_cons_inv n l : nodup_str (n :: l) = true -> ~ In n l /\ nodup_str l = true.
Proof.
  simpl. intros H. apply andb_prop in H as [H1 H2]. split; auto.
  intros I. apply mem_str_In in I. rewrite I in H1. discriminate.
Qed.

Lemma nodup_str_cons n l : ~ In n l -> nodup_str l = true -> nodup_str (n :: l) = true.
Proof.
  intros H1 H2. simpl. rewrite H2, andb_true_r. apply negb_true_iff.
  destruct (mem_str n l) eqn:E; auto. apply mem_str_In in E. contradiction.
Qed.

Section Members.
Variable enc : xty -> xvalue -> result json.
Variable dec : xty -> json -> result xvalue.
Variable nrm : xty -> xvalue -> xvalue.
Variable ok : xty -> xvalue -> bool.
Hypothesis IH : forall t v, ok t v = true ->
  exists j, enc t v = Ok j /\ wf_json j /\ dec t j = Ok (nrm t v).

Lemma members_roundtrip ms fs :
  nodup_str (member_names ms) = true ->
  jok_members ok ms fs = true ->
  exists kvs,
    jenc_members enc ms fs = Ok kvs /\
    (forall k, In k (map fst kvs) -> In k (member_names ms)) /\
    nodup_str (map fst kvs) = true /\
    Forall (fun kv => wf_json (snd kv)) kvs /\
    forall pre, (forall k, In k (map fst pre) -> ~ In k (member_names ms)) ->
      jdec_members dec ms (pre ++ kvs) = Ok (norm_members nrm ms fs).
Proof.
  induction ms as [|[[n t] o] ms' IHms]; intros Hnd Hok.
  - exists []. simpl. repeat split; auto.
  - unfold member_names in Hnd. cbn [map fst] in Hnd. fold (member_names ms') in Hnd.
    apply nodup_str_cons_inv in Hnd as [Hn Hnd].
    cbn [jok_members] in Hok. cbn [jenc_members norm_members].
    destruct (lookup n fs) as [x|] eqn:L.
    + apply andb_prop in Hok as [Hx Hok].
      destruct (IH _ _ Hx) as (j & E1 & W1 & D1).
      destruct (IHms Hnd Hok) as (kvs & E2 & K2 & N2 & W2 & D2).
      exists ((n, j) :: kvs). rewrite E1, E2. cbn [bind].
      split; [reflexivity|]. split; [|split; [|split]].
      * intros k [Hk|Hk]; [left; exact Hk | right; apply K2; exact Hk].
      * cbn [map fst]. apply nodup_str_cons; auto.
      * constructor; auto.
      * intros pre Hpre. cbn [jdec_members].
        rewrite lookup_app_notin by (intros I; apply (Hpre _ I); left; reflexivity).
        cbn [lookup]. rewrite String.eqb_refl. rewrite D1. cbn [bind].
        change (pre ++ (n, j) :: kvs) with (pre ++ [(n, j)] ++ kvs). rewrite app_assoc.
        rewrite D2; [reflexivity|].
        intros k I. rewrite map_app in I. apply in_app_or in I as [I|I].
        -- intros I2. apply (Hpre _ I). right. exact I2.
        -- cbn in I. destruct I as [I|[]]. subst. exact Hn.
    + assert (jok_members ok ms' fs = true) as Hok' by (destruct o; [discriminate | exact Hok | exact Hok]).
      destruct (IHms Hnd Hok') as (kvs & E2 & K2 & N2 & W2 & D2).
      exists kvs. split; [destruct o; [discriminate| exact E2 | exact E2]|].
      split; [|split; [|split]]; auto.
      * intros k Hk. right. apply K2. exact Hk.
      * intros pre Hpre. cbn [jdec_members].
        assert (lookup n (pre ++ kvs) = None) as Ln.
        { apply lookup_notin. rewrite map_app. intros I. apply in_app_or in I as [I|I].
          - apply (Hpre _ I). left. reflexivity.
          - apply Hn. apply K2. exact I. }
        rewrite Ln. rewrite D2 by (intros k I I2; apply (Hpre _ I); right; exact I2).
        cbn [bind]. destruct o; reflexivity.
Qed.
End Members.

Section Lists.
Variable enc : xvalue -> result json.
Variable dec : json -> result xvalue.
Variable nrm : xvalue -> xvalue.
Variable ok : xvalue -> bool.
Hypothesis IH : forall v, ok v = true ->
  exists j, enc v = Ok j /\ wf_json j /\ dec j = Ok (nrm v).

Lemma list_roundtrip vs : forallb ok vs = true ->
  exists js, map_result enc vs = Ok js /\ Forall wf_json js /\ map_result dec js = Ok (map nrm vs).
Proof.
  induction vs as [|v vs IHvs]; simpl; intros H.
  - exists []. auto.
  - apply andb_prop in H as [H1 H2].
    destruct (IH _ H1) as (j & E & W & D). destruct (IHvs H2) as (js & E2 & W2 & D2).
    exists (j :: js). rewrite E, E2. simpl. rewrite D, D2. simpl. auto.
Qed.
End Lists.

Lemma codes_cp_ok n : forallb cp_ok (codes n) = true.
Proof.
  induction n; simpl; auto. rewrite IHn, andb_true_r.
  pose proof (N_ascii_bounded a). unfold cp_ok. lia.
Qed.

Lemma hexchar_cp_ok d : 0 <= d < 16 -> cp_ok (hexchar d) = true.
Proof. intros H. unfold cp_ok, hexchar. destruct (d <? 10); lia. Qed.

Lemma hex_upper_cp_ok bs : bytes_okb bs = true -> forallb cp_ok (hex_upper bs) = true.
Proof.
  induction bs; simpl; auto. intros H. apply andb_prop in H as [H1 H2].
  apply is_byteb_spec in H1.
  rewrite !hexchar_cp_ok, IHbs; auto.
  - apply Z.mod_pos_bound; lia.
  - split; [apply Z.div_pos; lia | apply Z.div_lt_upper_bound; lia].
Qed.

Section Main.
Variable env : xenv.

Lemma enum_roundtrip items ext numeric v :
  enum_has items numeric v = true ->
  exists j, jenc_enum items numeric v = Ok j /\ wf_json j /\ jdec_enum items ext numeric j = Ok v.
Proof.
  unfold enum_has, jenc_enum, jdec_enum. destruct v; try discriminate; intros H.
  - apply andb_prop in H as [H1 H2]. subst numeric.
    destruct (name_of_number z items) eqn:E; [|discriminate].
    exists (JInt z). rewrite E. repeat split; constructor.
  - apply andb_prop in H as [H1 H2]. apply negb_true_iff in H1. subst numeric.
    destruct (number_of_name n items) eqn:E; [|discriminate].
    exists (JStr (codes n)). rewrite (item_of_codes_name _ _ _ E). repeat split.
    constructor. apply codes_cp_ok.
Qed.

Theorem jer_tree_roundtrip : forall fuel t v,
  jok env fuel t v = true ->
  exists j, jenc env fuel t v = Ok j /\ wf_json j /\ jdec env fuel t j = Ok (jnorm env fuel t v).
Proof.
  induction fuel as [|f IHf]; intros t v H; [discriminate|].
  cbn [jok] in H. cbn [jenc jdec jnorm].
  destruct t.
  - (* BOOLEAN *) destruct v; try discriminate. eexists; repeat split; constructor.
  - (* NULL *) destruct v; try discriminate. eexists; repeat split; constructor.
  - (* INTEGER *) destruct v; try discriminate. eexists; repeat split; constructor.
  - (* REAL *) destruct v; try discriminate.
    destruct r; cbn; eexists; repeat split; try (constructor; reflexivity).
  - (* ENUMERATED *)
    destruct (enum_roundtrip items ext numeric v H) as (j & E & W & D).
    exists j. auto.
  - (* BIT STRING *) destruct v; try discriminate.
    apply andb_prop in H as [H1 H2]. cbn [jenc_bits jdec_bits].
    destruct fixed as [k|].
    + apply Z.eqb_eq in H2. subst. eexists. split; [reflexivity|]. split.
      * constructor. apply hex_upper_cp_ok; assumption.
      * unfold jdec_bits, junhex. rewrite unhex_hex_upper by assumption. reflexivity.
    + eexists. split; [reflexivity|]. split.
      * constructor; [reflexivity|]. repeat constructor. apply hex_upper_cp_ok; assumption.
      * unfold jdec_bits, junhex. cbn [lookup String.eqb Ascii.eqb Bool.eqb]. rewrite unhex_hex_upper by assumption. reflexivity.
  - (* OCTET STRING *) destruct v; try discriminate.
    eexists. split; [reflexivity|]. split.
    + constructor. apply hex_upper_cp_ok; assumption.
    + cbn [junhex]. rewrite unhex_hex_upper by assumption. reflexivity.
  - (* character strings *) destruct v; try discriminate.
    eexists. split; [reflexivity|]. split; [constructor; assumption | reflexivity].
  - (* OBJECT IDENTIFIER *) destruct v; try discriminate.
    eexists. split; [reflexivity|]. split; [constructor; assumption | reflexivity].
  - (* SEQUENCE / SET *) destruct v; try discriminate.
    apply andb_prop in H as [H1 H2].
    destruct (members_roundtrip (jenc env f) (jdec env f) (jnorm env f) (jok env f) (IHf) ms fs H1 H2)
      as (kvs & E & K & N & W & D).
    exists (JObj kvs). rewrite E. cbn [bind]. split; [reflexivity|]. split; [constructor; assumption|].
    specialize (D [] (fun k I => False_ind _ I)). cbn [app] in D. rewrite D. reflexivity.
  - (* SEQUENCE OF / SET OF *) destruct v; try discriminate.
    destruct (list_roundtrip (jenc env f t) (jdec env f t) (jnorm env f t) (jok env f t) (IHf t) vs H)
      as (js & E & W & D).
    exists (JArr js). rewrite E. cbn [bind]. split; [reflexivity|]. split; [constructor; assumption|].
    rewrite D. reflexivity.
  - (* CHOICE *) destruct v; try discriminate.
    destruct (lookup alt alts) as [ta|] eqn:L; [|discriminate].
    destruct (IHf _ _ H) as (j & E & W & D).
    exists (JObj [(alt, j)]). rewrite E. cbn [bind]. split; [reflexivity|]. split.
    + constructor; [reflexivity|]. repeat constructor. exact W.
    + rewrite L, D. reflexivity.
  - (* type reference *)
    destruct (lookup n env) as [t'|] eqn:L; [|discriminate].
    destruct (IHf _ _ H) as (j & E & W & D). exists j. auto.
Qed.
End Main.

(** * Byte level: the serialiser law is the only assumption *)
Section Bytes.
Variable ser : option Z -> json -> list Z.
Variable par : list Z -> option json.
Hypothesis par_ser : forall indent j, wf_json j -> par (ser indent j) = Some j.
Variable env : xenv.

Theorem jer_roundtrip_bytes : forall indent fuel t v,
  jok env fuel t v = true ->
  exists bs, jer_encode ser env indent fuel t v = Ok bs /\
             jer_decode par env fuel t bs = Ok (jnorm env fuel t v).
Proof.
  intros indent fuel t v H.
  destruct (jer_tree_roundtrip env fuel t v H) as (j & E & W & D).
  exists (ser indent j). unfold jer_encode, jer_decode. rewrite E. cbn [bind].
  rewrite par_ser by exact W. auto.
Qed.
End Bytes.

(** * Refutations (known findings, replayed on /repo by harness/c02.py) *)

(** REAL given as an int (the type checker accepts it): encoded as a JSON
    integer, which Real.decode looks up in its table of special strings. *)
Lemma jer_real_int_refuted :
  exists z j, jenc [] 1 XTReal (XInt z) = Ok j /\ jdec [] 1 XTReal j = Err (EForeign "KeyError").
Proof. exists 1, (JInt 1). split; reflexivity. Qed.

(** BIT STRING (SIZE (4, ...)): the constraint is extensible, a 6-bit value
    satisfies it, JER writes only the hex digits and reads the length back
    from the type. *)
Lemma jer_bits_fixed_ext_refuted :
  exists v v' j, jenc [] 1 (XTBits (Some 4)) v = Ok j /\ jdec [] 1 (XTBits (Some 4)) j = Ok v' /\
                 xvalue_eqb v v' = false.
Proof. exists (XBits [252] 6), (XBits [252] 4), (JStr (hex_upper [252])). repeat split. Qed.
