(** C02 — what the decoded value v' = [jnorm]/[xnorm] is, stated on the
    dictionaries themselves: read as a Python dict, a normalised SEQUENCE/SET
    value has exactly the keys of the members that are present or have a
    DEFAULT, each present member carrying the normalised member value and
    each absent DEFAULT member its default; nothing else changes.  JER and
    XER normalise identically. *)
From Asn1V Require Import Base.Prelude Syntax.Asn1 Text.Universe Text.Json Text.Xml
     Text.JerImpl Text.XerImpl Text.TextLemmas.
Open Scope string_scope.
Open Scope list_scope.
Open Scope Z_scope.

Section Spec.
Variable nrm : xty -> xvalue -> xvalue.

Lemma norm_members_keys ms fs k :
  In k (map fst (norm_members nrm ms fs)) -> In k (member_names ms).
Proof.
  induction ms as [|[[n t] o] ms IH]; simpl; auto.
  destruct (lookup n fs); [simpl; intros [H|H]; auto|].
  destruct o; simpl; auto. intros [H|H]; auto.
Qed.

Lemma norm_members_spec ms fs :
  nodup_str (member_names ms) = true ->
  forall n t o, In (n, t, o) ms ->
    lookup n (norm_members nrm ms fs) =
    match lookup n fs with
    | Some x => Some (nrm t x)
    | None => match o with XDefault d => Some d | _ => None end
    end.
Proof.
  induction ms as [|[[m tm] om] ms IH]; intros Hnd n t o Hin; [destruct Hin|].
  unfold member_names in Hnd. cbn [map fst] in Hnd. fold (member_names ms) in Hnd.
  simpl in Hnd. apply andb_prop in Hnd as [Hm Hnd]. apply negb_true_iff in Hm.
  assert (~ In m (member_names ms)) as Hm'.
  { intros I. apply mem_str_In in I. congruence. }
  destruct Hin as [Heq|Hin].
  - injection Heq as -> -> ->. cbn [norm_members].
    destruct (lookup n fs) as [x|].
    + cbn [lookup]. rewrite String.eqb_refl. reflexivity.
    + destruct o; cbn [lookup]; rewrite ?String.eqb_refl; try reflexivity;
        apply lookup_notin; intros I; apply Hm'; eapply norm_members_keys; eauto.
  - assert (n <> m) as Hne.
    { intros ->. apply Hm'. unfold member_names. apply in_map_iff. exists (m, t, o). auto. }
    assert (String.eqb n m = false) as E by (apply String.eqb_neq; exact Hne).
    cbn [norm_members]. specialize (IH Hnd n t o Hin).
    destruct (lookup m fs); [cbn [lookup]; rewrite E; exact IH|].
    destruct om; try exact IH. cbn [lookup]. rewrite E. exact IH.
Qed.
End Spec.

(** [xnorm] and [jnorm] are the same function (the two definitions are
    convertible). *)
Lemma xnorm_jnorm env : forall fuel t v, xnorm env fuel t v = jnorm env fuel t v.
Proof. intros. reflexivity. Qed.

(** Values without SEQUENCE/SET inside are returned unchanged. *)
Definition flat (v : xvalue) : bool :=
  match v with
  | XSeq _ | XList _ | XChoice _ _ => false
  | _ => true
  end.

Lemma jnorm_flat env fuel t v : flat v = true -> jnorm env fuel t v = v.
Proof.
  revert t. induction fuel as [|f IH]; intros t H; [reflexivity|].
  cbn [jnorm]. destruct t; try reflexivity; destruct v; try reflexivity; try discriminate;
    destruct (lookup n env); auto.
Qed.
