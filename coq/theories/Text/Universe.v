(** C02 — the universe of the text codecs (JER, XER).

    [xty] is what jer.py / xer.py keep of a type after compilation: no tags,
    no constraints (except the fixed SIZE of a BIT STRING, which JER uses),
    SEQUENCE/SET members flattened over extension additions and groups
    (compiler.compile_members), ENUMERATED as the flat (name, number) list
    with the numeric_enums option, plus REAL, which the shared universe
    Syntax/Asn1.v does not have.  [of_ty] is that erasure from the shared
    [ty]; the harness hands the shared [ty] (with REAL written as the
    reserved word [TRef "REAL"]) to the models through [of_ty].

    [xvalue] is the Python-shaped value of the shared universe plus floats.
    A float is one of the five special values or a finite double written
    exactly as sign * mantissa * 2^exponent (from float.hex()); no floating
    point arithmetic happens in Coq. *)
From Asn1V Require Import Base.Prelude Syntax.Asn1.
From Coq Require Import DecimalString DecimalZ DecimalPos Decimal.
Open Scope string_scope.
Open Scope list_scope.
Open Scope Z_scope.

Inductive real : Type :=
| RZero | RNegZero | RInf | RNegInf | RNaN
| RFin (neg : bool) (m e : Z).          (* (-1)^neg * m * 2^e, m odd, m > 0 *)

Definition real_eqb (a b : real) : bool :=
  match a, b with
  | RZero, RZero | RNegZero, RNegZero | RInf, RInf | RNegInf, RNegInf | RNaN, RNaN => true
  | RFin s m e, RFin s' m' e' => Bool.eqb s s' && (m =? m') && (e =? e')
  | _, _ => false
  end.

Definition real_is_finite (r : real) : bool :=
  match r with RInf | RNegInf | RNaN => false | _ => true end.

(** Python values.  [XEnum], [XStr] are both Python [str] (an enumeration
    name is ASCII and kept as a Coq string; other strings are code point
    lists); an OBJECT IDENTIFIER value is the dotted [str], i.e. an [XStr]. *)
Inductive xvalue : Type :=
| XBool (b : bool)
| XInt (z : Z)
| XNone
| XEnum (n : string)
| XBits (bs : list Z) (n : Z)
| XBytes (bs : list Z)
| XStr (cps : list Z)
| XReal (r : real)
| XSeq (fs : list (string * xvalue))
| XList (vs : list xvalue)
| XChoice (alt : string) (v : xvalue)
| XUnknownChoice.

Inductive xopt : Type := XMandatory | XOptional | XDefault (v : xvalue).

Inductive xty : Type :=
| XTBool | XTNull | XTInt | XTReal
| XTEnum (items : list (string * Z)) (ext numeric : bool)
| XTBits (fixed : option Z)
| XTOctets
| XTStr (k : strkind)
| XTOid
| XTSeq (isset : bool) (ms : list (string * xty * xopt))
| XTSeqOf (isset : bool) (elem : xty)
| XTChoice (alts : list (string * xty)) (ext : bool)
| XTRef (n : string).

Definition xenv : Type := list (string * xty).

(* ------------------------------------------------------------------ *)
(** * Strings as code point lists *)

Fixpoint codes (s : string) : list Z :=
  match s with
  | EmptyString => []
  | String a r => Z.of_N (N_of_ascii a) :: codes r
  end.

Definition uncode1 (c : Z) : option ascii :=
  if (0 <=? c) && (c <? 256) then Some (ascii_of_N (Z.to_N c)) else None.

Fixpoint uncodes (cs : list Z) : option string :=
  match cs with
  | [] => Some EmptyString
  | c :: r =>
    match uncode1 c, uncodes r with
    | Some a, Some s => Some (String a s)
    | _, _ => None
    end
  end.

(** Python [str(int)] and the canonical part of [int(str)]: optional '-'
    followed by decimal digits.  (Python's [int()] also accepts surrounding
    white space, '+', '_' separators: [None] here means "not canonical", which
    the codec models turn into ValueError; the encoders only emit canonical
    text.) *)
Definition str_of_Z (z : Z) : list Z := codes (NilZero.string_of_int (Z.to_int z)).

Definition Z_of_str (cs : list Z) : option Z :=
  match uncodes cs with
  | Some s =>
    match NilZero.int_of_string s with
    | Some d => Some (Z.of_int d)
    | None => None
    end
  | None => None
  end.

(** Upper-case hex text: [format_bytes(data).upper()] and [binascii.unhexlify]. *)
Definition hexchar (d : Z) : Z := if d <? 10 then 48 + d else 55 + d.

Fixpoint hex_upper (bs : list Z) : list Z :=
  match bs with
  | [] => []
  | b :: r => hexchar (b / 16) :: hexchar (b mod 16) :: hex_upper r
  end.

Definition hexval (c : Z) : option Z :=
  if (48 <=? c) && (c <=? 57) then Some (c - 48)
  else if (65 <=? c) && (c <=? 70) then Some (c - 55)
  else if (97 <=? c) && (c <=? 102) then Some (c - 87)
  else None.

(** [None]: odd length or a non-hex digit (binascii.Error). *)
Fixpoint unhex (cs : list Z) : option (list Z) :=
  match cs with
  | [] => Some []
  | a :: b :: r =>
    match hexval a, hexval b, unhex r with
    | Some x, Some y, Some l => Some (x * 16 + y :: l)
    | _, _, _ => None
    end
  | [_] => None
  end.

(** Bits, most significant first. *)
Definition byte_bits (b : Z) : list bool :=
  [Z.testbit b 7; Z.testbit b 6; Z.testbit b 5; Z.testbit b 4;
   Z.testbit b 3; Z.testbit b 2; Z.testbit b 1; Z.testbit b 0].

Definition unpack (bs : list Z) : list bool := flat_map byte_bits bs.

Definition b2z (b : bool) : Z := if b then 1 else 0.

Definition pack8 (b7 b6 b5 b4 b3 b2 b1 b0 : bool) : Z :=
  128 * b2z b7 + 64 * b2z b6 + 32 * b2z b5 + 16 * b2z b4
  + 8 * b2z b3 + 4 * b2z b2 + 2 * b2z b1 + b2z b0.

Definition nthb (i : nat) (l : list bool) : bool := nth i l false.

(** Bits to bytes, the last byte padded with zero bits. *)
Fixpoint pack (l : list bool) : list Z :=
  match l with
  | b7 :: b6 :: b5 :: b4 :: b3 :: b2 :: b1 :: b0 :: r =>
    pack8 b7 b6 b5 b4 b3 b2 b1 b0 :: pack r
  | [] => []
  | b7 :: r =>
    [pack8 b7 (nthb 0 r) (nthb 1 r) (nthb 2 r) (nthb 3 r) (nthb 4 r) (nthb 5 r) (nthb 6 r)]
  end.

Definition bitchar (b : bool) : Z := if b then 49 else 48.

Fixpoint parse_bits (cs : list Z) : option (list bool) :=
  match cs with
  | [] => Some []
  | c :: r =>
    match parse_bits r with
    | Some l => if c =? 48 then Some (false :: l) else if c =? 49 then Some (true :: l) else None
    | None => None
    end
  end.

(** A BIT STRING value in the form every decoder returns it: exactly the
    bytes needed for [n] bits and zero unused bits. *)
Fixpoint bits_canonb (bs : list Z) (n : Z) : bool :=
  match bs with
  | [] => n =? 0
  | b :: r =>
    is_byteb b &&
    (if 8 <=? n then bits_canonb r (n - 8)
     else (0 <? n) && (match r with [] => true | _ => false end) && (b mod 2 ^ (8 - n) =? 0))
  end.

Definition bytes_okb (bs : list Z) : bool := forallb is_byteb bs.

(* ------------------------------------------------------------------ *)
(** * Association lists (Python dicts with distinct keys) *)

Fixpoint mem_str (n : string) (l : list string) : bool :=
  match l with [] => false | k :: r => String.eqb n k || mem_str n r end.

Fixpoint nodup_str (l : list string) : bool :=
  match l with [] => true | k :: r => negb (mem_str k r) && nodup_str r end.

Fixpoint map_result {A B} (f : A -> result B) (l : list A) : result (list B) :=
  match l with
  | [] => Ok []
  | a :: r => let* b := f a in let* bs := map_result f r in Ok (b :: bs)
  end.

(** ENUMERATED tables.  enum_values_as_dict builds {number: name}; the
    models read the item list front to back (the library's dict keeps the
    last of several equal keys: ASN.1 forbids duplicates and [enum_ok]
    below rules them out). *)
Fixpoint name_of_number (z : Z) (items : list (string * Z)) : option string :=
  match items with
  | [] => None
  | (n, k) :: r => if z =? k then Some n else name_of_number z r
  end.

Fixpoint number_of_name (n : string) (items : list (string * Z)) : option Z :=
  match items with
  | [] => None
  | (m, k) :: r => if String.eqb n m then Some k else number_of_name n r
  end.

(** the item whose name has the given code points *)
Fixpoint item_of_codes (cs : list Z) (items : list (string * Z)) : option (string * Z) :=
  match items with
  | [] => None
  | (m, k) :: r => if zlist_eqb cs (codes m) then Some (m, k) else item_of_codes cs r
  end.

Definition member_names (ms : list (string * xty * xopt)) : list string :=
  map (fun m => fst (fst m)) ms.

(** The name xer.py gives to the elements of a SEQUENCE OF / SET OF:
    [element['type']] with ' ' replaced by '_' (Type.__init__). *)
Definition strkind_name (k : strkind) : string :=
  match k with
  | SkIA5 => "IA5String" | SkVisible => "VisibleString" | SkNumeric => "NumericString"
  | SkPrintable => "PrintableString" | SkUTF8 => "UTF8String" | SkBMP => "BMPString"
  | SkGeneral => "GeneralString" | SkGraphic => "GraphicString" | SkTeletex => "TeletexString"
  | SkUniversal => "UniversalString" | SkObjectDescriptor => "ObjectDescriptor"
  end.

Definition type_name (t : xty) : string :=
  match t with
  | XTBool => "BOOLEAN" | XTNull => "NULL" | XTInt => "INTEGER" | XTReal => "REAL"
  | XTEnum _ _ _ => "ENUMERATED" | XTBits _ => "BIT_STRING" | XTOctets => "OCTET_STRING"
  | XTStr k => strkind_name k | XTOid => "OBJECT_IDENTIFIER"
  | XTSeq s _ => if s then "SET" else "SEQUENCE"
  | XTSeqOf s _ => if s then "SET_OF" else "SEQUENCE_OF"
  | XTChoice _ _ => "CHOICE"
  | XTRef n => n
  end.

(* ------------------------------------------------------------------ *)
(** * Boolean equality (Python [==] on the modelled shapes; NaN equals NaN
      here, the harness compares floats by float.hex() as well) *)

Fixpoint xvalue_eqb (a b : xvalue) {struct a} : bool :=
  match a, b with
  | XBool x, XBool y => Bool.eqb x y
  | XInt x, XInt y => x =? y
  | XNone, XNone => true
  | XEnum x, XEnum y => String.eqb x y
  | XBits x n, XBits y m => zlist_eqb x y && (n =? m)
  | XBytes x, XBytes y => zlist_eqb x y
  | XStr x, XStr y => zlist_eqb x y
  | XReal x, XReal y => real_eqb x y
  | XSeq x, XSeq y =>
    (fix go (x y : list (string * xvalue)) : bool :=
       match x, y with
       | [], [] => true
       | (n, v) :: x', (m, w) :: y' => String.eqb n m && xvalue_eqb v w && go x' y'
       | _, _ => false
       end) x y
  | XList x, XList y =>
    (fix go (x y : list xvalue) : bool :=
       match x, y with
       | [], [] => true
       | v :: x', w :: y' => xvalue_eqb v w && go x' y'
       | _, _ => false
       end) x y
  | XChoice n v, XChoice m w => String.eqb n m && xvalue_eqb v w
  | XUnknownChoice, XUnknownChoice => true
  | _, _ => false
  end.

Definition err_eqb (a b : err) : bool :=
  match a, b with
  | EDecode, EDecode | EOutOfData, EOutOfData | EEncode, EEncode
  | EConstraints, EConstraints | EFuel, EFuel | EUnmodelled, EUnmodelled => true
  | EMissing a b, EMissing c d => (a =? c) && (b =? d)
  | EForeign x, EForeign y => String.eqb x y
  | _, _ => false
  end.

Definition result_eqb {A} (eqb : A -> A -> bool) (a b : result A) : bool :=
  match a, b with
  | Ok x, Ok y => eqb x y
  | Err x, Err y => err_eqb x y
  | _, _ => false
  end.

(* ------------------------------------------------------------------ *)
(** * Erasure from the shared universe (what Compiler.compile_type keeps) *)

Definition dotted (arcs : list Z) : list Z :=
  match arcs with
  | [] => []
  | a :: r => str_of_Z a ++ flat_map (fun x => 46 :: str_of_Z x) r
  end.

Fixpoint of_value (v : value) : xvalue :=
  match v with
  | VBool b => XBool b
  | VInt z => XInt z
  | VNone => XNone
  | VEnum n => XEnum n
  | VBits bs n => XBits bs n
  | VBytes bs => XBytes bs
  | VStr s => XStr s
  | VOid arcs => XStr (dotted arcs)
  | VSeq fs => XSeq ((fix go (l : list (string * value)) : list (string * xvalue) :=
                        match l with [] => [] | (n, x) :: r => (n, of_value x) :: go r end) fs)
  | VList vs => XList ((fix go (l : list value) : list xvalue :=
                          match l with [] => [] | x :: r => of_value x :: go r end) vs)
  | VChoice a x => XChoice a (of_value x)
  | VUnknownChoice => XUnknownChoice
  end.

Definition of_opt (o : optionality) : xopt :=
  match o with
  | Mandatory => XMandatory
  | Optional => XOptional
  | Default v => XDefault (of_value v)
  end.

Definition fixed_size (sz : size) : option Z :=
  match sz with
  | SzRange lo (Some hi) _ => if lo =? hi then Some lo else None
  | _ => None
  end.

Fixpoint of_ty (numeric : bool) (t : ty) : xty :=
  let members := fix go (l : list (member_of ty)) : list (string * xty * xopt) :=
                   match l with
                   | [] => []
                   | (n, mt, o) :: r => (n, of_ty numeric mt, of_opt o) :: go r
                   end in
  match t with
  | TBool => XTBool
  | TNull => XTNull
  | TInt _ => XTInt
  | TEnum root ext =>
    XTEnum (root ++ match ext with Some l => l | None => [] end)
           (match ext with Some _ => true | None => false end) numeric
  | TBits _ sz => XTBits (fixed_size sz)
  | TOctets _ => XTOctets
  | TStr k _ _ => XTStr k
  | TOid => XTOid
  | TSeq isset root ext =>
    XTSeq isset
          (members root ++
           match ext with
           | None => []
           | Some adds =>
             (fix goa (l : list (addition_of ty)) : list (string * xty * xopt) :=
                match l with
                | [] => []
                | (_, ms) :: r => members ms ++ goa r
                end) adds
           end)
  | TSeqOf isset e _ => XTSeqOf isset (of_ty numeric e)
  | TChoice root ext =>
    let alts := fix go (l : list (member_of ty)) : list (string * xty) :=
                  match l with
                  | [] => []
                  | (n, mt, _) :: r => (n, of_ty numeric mt) :: go r
                  end in
    XTChoice (alts root ++ match ext with Some l => alts l | None => [] end)
             (match ext with Some _ => true | None => false end)
  | TRef n => if String.eqb n "REAL" then XTReal else XTRef n
  | TTag _ t' => of_ty numeric t'
  end.

Definition of_env (numeric : bool) (e : env) : xenv :=
  map (fun nt => (fst nt, of_ty numeric (snd nt))) e.
