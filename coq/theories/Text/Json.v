(** C02 — JSON trees: the Python object jer.py hands to [json.dumps] and
    receives from [json.loads] (dict = association list in insertion order,
    list, str as code points, int, float, True/False, None). *)
From Asn1V Require Import Base.Prelude Syntax.Asn1 Text.Universe.
Open Scope string_scope.
Open Scope list_scope.
Open Scope Z_scope.

Inductive json : Type :=
| JNull
| JBool (b : bool)
| JInt (z : Z)
| JFloat (r : real)
| JStr (s : list Z)
| JArr (l : list json)
| JObj (kvs : list (string * json)).

Fixpoint json_eqb (a b : json) {struct a} : bool :=
  match a, b with
  | JNull, JNull => true
  | JBool x, JBool y => Bool.eqb x y
  | JInt x, JInt y => x =? y
  | JFloat x, JFloat y => real_eqb x y
  | JStr x, JStr y => zlist_eqb x y
  | JArr x, JArr y =>
    (fix go (x y : list json) : bool :=
       match x, y with
       | [], [] => true
       | v :: x', w :: y' => json_eqb v w && go x' y'
       | _, _ => false
       end) x y
  | JObj x, JObj y =>
    (fix go (x y : list (string * json)) : bool :=
       match x, y with
       | [], [] => true
       | (n, v) :: x', (m, w) :: y' => String.eqb n m && json_eqb v w && go x' y'
       | _, _ => false
       end) x y
  | _, _ => false
  end.

(** Unicode scalar values and lone surrogates: what a Python str can hold. *)
Definition cp_ok (c : Z) : bool := (0 <=? c) && (c <=? 1114111).

(** The domain on which [json.loads (json.dumps t) = t] is assumed
    (Section hypothesis of the round-trip theorems): object keys pairwise
    distinct (a Python dict cannot hold anything else), floats finite (an
    infinite float is written as the non-JSON token Infinity), strings made
    of code points. *)
Inductive wf_json : json -> Prop :=
| wf_JNull : wf_json JNull
| wf_JBool b : wf_json (JBool b)
| wf_JInt z : wf_json (JInt z)
| wf_JFloat r : real_is_finite r = true -> wf_json (JFloat r)
| wf_JStr s : forallb cp_ok s = true -> wf_json (JStr s)
| wf_JArr l : Forall wf_json l -> wf_json (JArr l)
| wf_JObj kvs : nodup_str (map fst kvs) = true ->
                Forall (fun kv => wf_json (snd kv)) kvs -> wf_json (JObj kvs).
