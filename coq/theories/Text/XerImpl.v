(** C02 — implementation model of asn1tools/codecs/xer.py at the level of
    ElementTree elements (with the REAL formatting repair of
    proposed_fixes/C02-xer-real-format.diff: special values as the X.693
    empty elements, finite values through repr()).

    Every compiled XER type carries the tag [name] of the element it
    produces: the member name, the type name for a top-level type, and for
    the elements of a SEQUENCE OF / SET OF the name of the element type
    ([type_name]).  [ofm = true] selects the encode_of / decode_of methods
    used for list elements (BOOLEAN, ENUMERATED and CHOICE drop the wrapper
    element there).  [bt] is Compiler.types_backtrace: a reference to a type
    under compilation becomes a [Recursive] node, whose encode() is the
    encode() of the top-level compiled type with the tag replaced and whose
    encode_of() is its encode() (so BOOLEAN/ENUMERATED/CHOICE keep their
    wrapper when reached through a recursive reference).

    Not modelled: the (type name, element name) cache of compile_user_type,
    which can hand out a node compiled under another backtrace when types
    are mutually recursive (the generator only produces self recursion). *)
From Asn1V Require Import Base.Prelude Syntax.Asn1 Text.Universe Text.Xml.
Open Scope string_scope.
Open Scope list_scope.
Open Scope Z_scope.

Definition leaf (n : string) : xml := XE n None [].
Definition wrap (ofm : bool) (name : string) (k : xml) : xml :=
  if ofm then k else XE name None [k].
Definition nonempty (s : list Z) : option (list Z) :=
  match s with [] => None | _ => Some s end.

(** Real.encode (repaired).  The text of a finite non-zero double is
    CPython's repr() with the decimal point moved: not modelled. *)
Definition xenc_real (name : string) (v : xvalue) : result xml :=
  match v with
  | XReal RNaN => Ok (XE name None [leaf "NOT-A-NUMBER"])
  | XReal RInf => Ok (XE name None [leaf "PLUS-INFINITY"])
  | XReal RNegInf => Ok (XE name None [leaf "MINUS-INFINITY"])
  | XReal RZero => Ok (XE name (Some (codes "0.0E0")) [])
  | XReal RNegZero => Ok (XE name (Some (codes "-0.0E0")) [])
  | XReal (RFin _ _ _) => Err EUnmodelled
  | XInt z => if z =? 0 then Ok (XE name (Some (codes "0.0E0")) []) else Err EUnmodelled
  | _ => Err EUnmodelled
  end.

Definition xdec_real (e : xml) : result xvalue :=
  match x_kids e with
  | k :: _ =>
    let t := x_tag k in
    if String.eqb t "PLUS-INFINITY" then Ok (XReal RInf)
    else if String.eqb t "MINUS-INFINITY" then Ok (XReal RNegInf)
    else if String.eqb t "NOT-A-NUMBER" then Ok (XReal RNaN)
    else Err EDecode
  | [] =>
    match x_text e with
    | None => Err (EForeign "TypeError")           (* float(None) *)
    | Some s =>
      if zlist_eqb s (codes "0.0E0") then Ok (XReal RZero)
      else if zlist_eqb s (codes "-0.0E0") then Ok (XReal RNegZero)
      else Err EUnmodelled                          (* float(text) *)
    end
  end.

(** BitString.encode: bin(int(hexlify(data),16) | 0x80 << 8*len)[10:10+n] *)
Definition xenc_bits (name : string) (v : xvalue) : result xml :=
  match v with
  | XBits bs n =>
    if 0 <? n then
      match bs with
      | [] => Err (EForeign "ValueError")         (* int('', 16) *)
      | _ => Ok (XE name (Some (map bitchar (firstn (Z.to_nat n) (unpack bs)))) [])
      end
    else Ok (XE name None [])
  | _ => Err EUnmodelled
  end.

Definition xdec_bits (e : xml) : result xvalue :=
  match x_text e with
  | None => Ok (XBits [] 0)
  | Some s =>
    match parse_bits s with
    | Some [] => Err (EForeign "ValueError")      (* int('', 2) *)
    | Some l => Ok (XBits (pack l) (Z.of_nat (length l)))
    | None => Err (EForeign "ValueError")          (* canonical '0'/'1' text only *)
    end
  end.

Definition xdec_octets (e : xml) : result xvalue :=
  match x_text e with
  | None => Ok (XBytes [])
  | Some s =>
    let s' := if Nat.even (length s) then s else 48 :: s in     (* zfill *)
    match unhex s' with
    | Some bs => Ok (XBytes bs)
    | None => Err (EForeign "Error")
    end
  end.

(** Enumerated: data_to_value / value_to_data *)
Definition xenum_name (items : list (string * Z)) (numeric : bool) (v : xvalue) : result string :=
  if numeric then
    match v with
    | XInt z => match name_of_number z items with Some n => Ok n | None => Err EEncode end
    | XEnum _ | XStr _ | XNone => Err EEncode
    | _ => Err EUnmodelled
    end
  else
    match v with
    | XEnum n => match number_of_name n items with Some _ => Ok n | None => Err EEncode end
    | XInt _ | XNone => Err EEncode
    | _ => Err EUnmodelled
    end.

Definition xenum_value (items : list (string * Z)) (numeric : bool) (tag : string) : option xvalue :=
  match number_of_name tag items with
  | Some k => Some (if numeric then XInt k else XEnum tag)
  | None => None
  end.

Section Xer.
Variable env : xenv.

Section Members.
Variable enc : string -> xty -> xvalue -> result xml.
Variable dec : xty -> xml -> result xvalue.
Variable nrm : xty -> xvalue -> xvalue.

Fixpoint xenc_members (ms : list (string * xty * xopt)) (fs : list (string * xvalue))
  : result (list xml) :=
  match ms with
  | [] => Ok []
  | (n, t, o) :: ms' =>
    match lookup n fs with
    | Some x =>
      let* e := enc n t x in
      let* r := xenc_members ms' fs in
      Ok (e :: r)
    | None =>
      match o with
      | XMandatory => Err EEncode
      | _ => xenc_members ms' fs
      end
    end
  end.

(** MembersType.decode: element.find(name) per member *)
Fixpoint xdec_members (ms : list (string * xty * xopt)) (kids : list xml)
  : result (list (string * xvalue)) :=
  match ms with
  | [] => Ok []
  | (n, t, o) :: ms' =>
    match find_kid n kids with
    | Some k =>
      let* x := dec t k in
      let* r := xdec_members ms' kids in
      Ok ((n, x) :: r)
    | None =>
      let* r := xdec_members ms' kids in
      match o with
      | XDefault d => Ok ((n, d) :: r)
      | _ => Ok r
      end
    end
  end.

Fixpoint xnorm_members (ms : list (string * xty * xopt)) (fs : list (string * xvalue))
  : list (string * xvalue) :=
  match ms with
  | [] => []
  | (n, t, o) :: ms' =>
    match lookup n fs with
    | Some x => (n, nrm t x) :: xnorm_members ms' fs
    | None =>
      match o with
      | XDefault d => (n, d) :: xnorm_members ms' fs
      | _ => xnorm_members ms' fs
      end
    end
  end.
End Members.

Fixpoint xenc (fuel : nat) (ofm : bool) (bt : list string) (name : string) (t : xty) (v : xvalue)
         {struct fuel} : result xml :=
  match fuel with
  | O => Err EFuel
  | S f =>
    match t with
    | XTBool =>
      match v with
      | XBool b => Ok (wrap ofm name (leaf (if b then "true" else "false")))
      | _ => Err EUnmodelled
      end
    | XTNull => Ok (XE name None [])
    | XTInt =>
      match v with
      | XInt z => Ok (XE name (Some (str_of_Z z)) [])
      | _ => Err EUnmodelled
      end
    | XTReal => xenc_real name v
    | XTEnum items _ numeric =>
      let* n := xenum_name items numeric v in Ok (wrap ofm name (leaf n))
    | XTBits _ => xenc_bits name v
    | XTOctets =>
      match v with
      | XBytes bs => Ok (XE name (nonempty (hex_upper bs)) [])
      | _ => Err EUnmodelled
      end
    | XTStr _ | XTOid =>
      match v with
      | XStr s => Ok (XE name (nonempty s) [])
      | XEnum n => Ok (XE name (nonempty (codes n)) [])
      | _ => Err EUnmodelled
      end
    | XTSeq _ ms =>
      match v with
      | XSeq fs =>
        let* kids := xenc_members (xenc f false bt) ms fs in Ok (XE name None kids)
      | _ => Err EUnmodelled
      end
    | XTSeqOf _ e =>
      match v with
      | XList vs =>
        let* kids := map_result (xenc f true bt (type_name e) e) vs in Ok (XE name None kids)
      | _ => Err EUnmodelled
      end
    | XTChoice alts _ =>
      match v with
      | XChoice a x =>
        match lookup a alts with
        | Some ta => let* k := xenc f false bt a ta x in Ok (wrap ofm name k)
        | None => Err EEncode
        end
      | XUnknownChoice => Err EEncode
      | _ => Err EUnmodelled
      end
    | XTRef n =>
      match lookup n env with
      | None => Err EUnmodelled
      | Some t' =>
        if mem_str n bt then
          (* Recursive: inner = the top-level compiled type n *)
          let* e := xenc f false [n] n t' v in Ok (set_tag name e)
        else xenc f ofm (n :: bt) name t' v
      end
    end
  end.

Fixpoint xdec (fuel : nat) (ofm : bool) (bt : list string) (t : xty) (e : xml)
         {struct fuel} : result xvalue :=
  match fuel with
  | O => Err EFuel
  | S f =>
    match t with
    | XTBool =>
      if ofm then Ok (XBool (String.eqb (x_tag e) "true"))
      else Ok (XBool (match find_kid "true" (x_kids e) with Some _ => true | None => false end))
    | XTNull => Ok XNone
    | XTInt =>
      match x_text e with
      | None => Err (EForeign "TypeError")
      | Some s => match Z_of_str s with Some z => Ok (XInt z) | None => Err (EForeign "ValueError") end
      end
    | XTReal => xdec_real e
    | XTEnum items ext numeric =>
      if ofm then
        match xenum_value items numeric (x_tag e) with
        | Some v => Ok v
        | None => if ext then Ok XNone else Err EDecode      (* decode_of (repaired, 3c3d4be) *)
        end
      else
        match x_kids e with
        | [] => Err (EForeign "IndexError")
        | k :: _ =>
          match xenum_value items numeric (x_tag k) with
          | Some v => Ok v
          | None => if ext then Ok XNone else Err EDecode
          end
        end
    | XTBits _ => xdec_bits e
    | XTOctets => xdec_octets e
    | XTStr _ => match x_text e with None => Ok (XStr []) | Some s => Ok (XStr s) end
    | XTOid => match x_text e with None => Err EDecode | Some s => Ok (XStr s) end
    | XTSeq _ ms =>
      let* fs := xdec_members (xdec f false bt) ms (x_kids e) in Ok (XSeq fs)
    | XTSeqOf _ el =>
      let* vs := map_result (xdec f true bt el) (x_kids e) in Ok (XList vs)
    | XTChoice alts ext =>
      if ofm then
        match lookup (x_tag e) alts with
        | Some ta => let* v := xdec f false bt ta e in Ok (XChoice (x_tag e) v)
        | None => if ext then Ok XUnknownChoice else Err EDecode
        end
      else
        match x_kids e with
        | [] => Err (EForeign "IndexError")
        | k :: _ =>
          match lookup (x_tag k) alts with
          | Some ta => let* v := xdec f false bt ta k in Ok (XChoice (x_tag k) v)
          | None => if ext then Ok XUnknownChoice else Err EDecode
          end
        end
    | XTRef n =>
      match lookup n env with
      | None => Err EUnmodelled
      | Some t' =>
        if mem_str n bt then xdec f false [n] t' e
        else xdec f ofm (n :: bt) t' e
      end
    end
  end.

(** v' of the XER round-trip theorem: as for JER. *)
Fixpoint xnorm (fuel : nat) (t : xty) (v : xvalue) {struct fuel} : xvalue :=
  match fuel with
  | O => v
  | S f =>
    match t, v with
    | XTSeq _ ms, XSeq fs => XSeq (xnorm_members (xnorm f) ms fs)
    | XTSeqOf _ e, XList vs => XList (map (xnorm f e) vs)
    | XTChoice alts _, XChoice a x =>
      match lookup a alts with Some ta => XChoice a (xnorm f ta x) | None => v end
    | XTRef n, _ => match lookup n env with Some t' => xnorm f t' v | None => v end
    | _, _ => v
    end
  end.

(** Scope of the XER round-trip theorem: value of the shape of the type;
    names of members / alternatives / enumeration items are XML names and
    pairwise distinct; strings made of XML characters other than CR
    (finding C02-xer-cr); BIT STRING in canonical form (exactly the bytes
    for its bits, unused bits zero); OBJECT IDENTIFIER text non-empty;
    REAL one of the five special values (finite non-zero values go through
    repr()/float(): property test only). *)
Section Ok.
Variable ok : xty -> xvalue -> bool.
Fixpoint xok_members (ms : list (string * xty * xopt)) (fs : list (string * xvalue)) : bool :=
  match ms with
  | [] => true
  | (n, t, o) :: ms' =>
    match lookup n fs with
    | Some x => ok t x && xok_members ms' fs
    | None => match o with XMandatory => false | _ => xok_members ms' fs end
    end
  end.
End Ok.

Definition xenum_has (items : list (string * Z)) (numeric : bool) (v : xvalue) : bool :=
  match v with
  | XInt z => numeric && match name_of_number z items with Some _ => true | None => false end
  | XEnum n => negb numeric && match number_of_name n items with Some _ => true | None => false end
  | _ => false
  end.

Fixpoint xok (fuel : nat) (t : xty) (v : xvalue) {struct fuel} : bool :=
  match fuel with
  | O => false
  | S f =>
    match t, v with
    | XTBool, XBool _ => true
    | XTNull, XNone => true
    | XTInt, XInt _ => true
    | XTStr _, XStr s => forallb xml_char_ok s
    | XTOid, XStr s => forallb xml_char_ok s && match s with [] => false | _ => true end
    | XTReal, XReal r => match r with RFin _ _ _ => false | _ => true end
    | XTEnum items _ numeric, _ =>
      xenum_has items numeric v && nodup_str (map fst items) && forallb name_ok (map fst items)
    | XTBits _, XBits bs n => bits_canonb bs n
    | XTOctets, XBytes bs => bytes_okb bs
    | XTSeq _ ms, XSeq fs =>
      nodup_str (member_names ms) && forallb name_ok (member_names ms) && xok_members (xok f) ms fs
    | XTSeqOf _ e, XList vs => name_ok (type_name e) && forallb (xok f e) vs
    | XTChoice alts _, XChoice a x =>
      name_ok a && match lookup a alts with Some ta => xok f ta x | None => false end
    | XTRef n, _ => name_ok n && match lookup n env with Some t' => xok f t' v | None => false end
    | _, _ => false
    end
  end.

End Xer.

(** The unrepaired Real.encode on the special values (xer.py before the
    repair): [while abs(data) >= 10: data /= 10] with inf / 10 = inf, and
    '{}E{}'.format(nan, 0) = 'nanE0', which float() rejects. *)
Inductive old_real_outcome : Type := OldText (s : string) | OldLoops.
Fixpoint old_real_loop (fuel : nat) (r : real) : old_real_outcome :=
  match fuel with
  | O => OldLoops
  | S f =>
    match r with
    | RInf | RNegInf => old_real_loop f r        (* abs(inf) >= 10, inf / 10 = inf *)
    | RNaN => OldText "nanE0"                      (* nan >= 10 is False *)
    | RZero => OldText "0.0E0"
    | RNegZero => OldText "-0.0E0"
    | RFin _ _ _ => OldText "?"
    end
  end.

(** The codec on bytes. *)
Section XerBytes.
Variable ser : option Z -> xml -> list Z.      (* indent -> tree -> bytes *)
Variable par : list Z -> option xml.
Variable env : xenv.

(** Specification.encode(name, v): the top-level type [name] is compiled
    with backtrace [name] and element tag [name]. *)
Definition xer_encode (indent : option Z) (fuel : nat) (name : string) (t : xty) (v : xvalue)
  : result (list Z) :=
  let* e := xenc env fuel false [name] name t v in Ok (ser indent e).

Definition xer_decode (fuel : nat) (name : string) (t : xty) (bs : list Z) : result xvalue :=
  match par bs with
  | Some e => xdec env fuel false [name] t e
  | None => Err (EForeign "ParseError")
  end.
End XerBytes.
