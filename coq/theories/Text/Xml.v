(** C02 — XML element trees: what xer.py builds with ElementTree.Element /
    SubElement / .text and reads back with .tag / .text / find / indexing.
    Attributes and tails are never produced nor read by xer.py; the
    indentation inserted by [indent_xml] lives in tails and in the text of
    elements that have children, which no decoder reads, so it belongs to the
    serialiser and not to the tree. *)
From Asn1V Require Import Base.Prelude Syntax.Asn1 Text.Universe.
Open Scope string_scope.
Open Scope list_scope.
Open Scope Z_scope.

Inductive xml : Type :=
| XE (tag : string) (text : option (list Z)) (kids : list xml).

Definition x_tag (e : xml) : string := match e with XE t _ _ => t end.
Definition x_text (e : xml) : option (list Z) := match e with XE _ t _ => t end.
Definition x_kids (e : xml) : list xml := match e with XE _ _ k => k end.
Definition set_tag (n : string) (e : xml) : xml := match e with XE _ t k => XE n t k end.

Definition otext_eqb (a b : option (list Z)) : bool :=
  match a, b with
  | None, None => true
  | Some x, Some y => zlist_eqb x y
  | _, _ => false
  end.

Fixpoint xml_eqb (a b : xml) {struct a} : bool :=
  match a, b with
  | XE t x k, XE t' x' k' =>
    String.eqb t t' && otext_eqb x x' &&
    (fix go (x y : list xml) : bool :=
       match x, y with
       | [], [] => true
       | v :: x', w :: y' => xml_eqb v w && go x' y'
       | _, _ => false
       end) k k'
  end.

(** [element.find(name)]: the first child with that tag. *)
Fixpoint find_kid (n : string) (kids : list xml) : option xml :=
  match kids with
  | [] => None
  | k :: r => if String.eqb (x_tag k) n then Some k else find_kid n r
  end.

(** XML 1.0 Char without CARRIAGE RETURN: ElementTree.tostring writes a CR
    in character data raw and every XML parser turns it into LINE FEED
    (known finding C02-xer-cr), so CR is outside the domain of the
    serialiser law. *)
Definition xml_char_ok (c : Z) : bool :=
  (c =? 9) || (c =? 10) || ((32 <=? c) && (c <=? 55295)) ||
  ((57344 <=? c) && (c <=? 65533)) || ((65536 <=? c) && (c <=? 1114111)).

(** ASCII XML names: ASN.1 identifiers/type references and the keywords
    with '_' for ' '. *)
Definition name_start_ok (c : Z) : bool :=
  ((65 <=? c) && (c <=? 90)) || ((97 <=? c) && (c <=? 122)) || (c =? 95).
Definition name_char_ok (c : Z) : bool :=
  name_start_ok c || ((48 <=? c) && (c <=? 57)) || (c =? 45) || (c =? 46).
Definition name_ok (n : string) : bool :=
  match codes n with
  | [] => false
  | c :: r => name_start_ok c && forallb name_char_ok r
  end.

Definition text_ok (t : option (list Z)) : bool :=
  match t with
  | None => true
  | Some [] => false
  | Some s => forallb xml_char_ok s
  end.

(** The domain on which [fromstring (tostring t) = t] is assumed. *)
Inductive wf_xml : xml -> Prop :=
| wf_XE tag text kids :
    name_ok tag = true -> text_ok text = true ->
    (kids = [] \/ text = None) ->
    Forall wf_xml kids ->
    wf_xml (XE tag text kids).
