(** C02 — a non-trivial instance used by the [Example]s of Props/C02.v: a
    module with a self-recursive CHOICE, an extensible SEQUENCE with DEFAULT,
    OPTIONAL, an extension addition group, SEQUENCE OF BOOLEAN / ENUMERATED /
    CHOICE (the XER list-element forms), BIT STRING, OCTET STRING, REAL. *)
From Asn1V Require Import Base.Prelude Syntax.Asn1 Text.Universe Text.Json Text.Xml Text.JerImpl Text.XerImpl.
Open Scope string_scope.
Open Scope list_scope.
Open Scope Z_scope.

Definition ex_env_shared : env :=
  [("Tree", TChoice [("leaf", TInt IcNone, Mandatory);
                     ("node", TSeqOf false (TRef "Tree") SzNone, Mandatory)] None);
   ("Col", TEnum [("red", 0); ("green", 1)] (Some [("blue", 5)]));
   ("Rec", TSeq false
      [("id", TInt (IcRange (Some 0) (Some 255) false), Mandatory);
       ("flag", TBool, Default (VBool true));
       ("cols", TSeqOf false (TRef "Col") SzNone, Mandatory);
       ("flags", TSeqOf false TBool SzNone, Optional);
       ("bits", TBits None (SzRange 4 (Some 4) false), Mandatory);
       ("raw", TOctets SzNone, Mandatory);
       ("name", TStr SkUTF8 SzNone None, Mandatory);
       ("x", TRef "REAL", Mandatory);
       ("tree", TRef "Tree", Mandatory)]
      (Some [(false, [("more", TSeqOf false (TRef "Tree") SzNone, Optional)]);
             (true, [("g1", TInt IcNone, Mandatory); ("g2", TNull, Optional)])]))].

Definition ex_env (numeric : bool) : xenv := of_env numeric ex_env_shared.
Definition ex_ty : xty := XTRef "Rec".

Definition ex_value (x : real) : xvalue :=
  XSeq [("junk", XInt 7);                                     (* not a member: ignored *)
        ("tree", XChoice "node" (XList [XChoice "leaf" (XInt (-5));
                                        XChoice "node" (XList [])]));
        ("id", XInt 200);
        ("cols", XList [XEnum "blue"; XEnum "red"]);
        ("flags", XList [XBool true; XBool false]);
        ("bits", XBits [160] 4);
        ("raw", XBytes [0; 171; 255]);
        ("name", XStr [60; 38; 233; 8364; 128512]);
        ("x", XReal x);
        ("more", XList [XChoice "leaf" (XInt 1)]);
        ("g1", XInt 12345678901234567890)].
