(** C02 — implementation model of asn1tools/codecs/jer.py at the level of
    the Python object handed to json.dumps / returned by json.loads.

    One Gallina clause per [encode]/[decode] method of jer.py.  Recursion is
    on [fuel] (one unit per nesting level of the type, type references
    included); [Err EFuel] is a distinct outcome.  Shapes of values the type
    checker of the library would reject are [Err EUnmodelled] unless the
    codec's reaction is part of the property (unknown names, missing
    members, an int given for a REAL). *)
From Asn1V Require Import Base.Prelude Syntax.Asn1 Text.Universe Text.Json.
Open Scope string_scope.
Open Scope list_scope.
Open Scope Z_scope.

(** [return data]: the scalar Python objects json can serialise. *)
Definition json_of_py (v : xvalue) : result json :=
  match v with
  | XBool b => Ok (JBool b)
  | XInt z => Ok (JInt z)
  | XNone => Ok JNull
  | XStr s => Ok (JStr s)
  | XEnum n => Ok (JStr (codes n))
  | XReal r => Ok (JFloat r)
  | _ => Err EUnmodelled
  end.

Definition py_of_json (j : json) : result xvalue :=
  match j with
  | JBool b => Ok (XBool b)
  | JInt z => Ok (XInt z)
  | JNull => Ok XNone
  | JStr s => Ok (XStr s)
  | JFloat r => Ok (XReal r)
  | _ => Err EUnmodelled
  end.

(** Real.encode / Real.decode *)
Definition jenc_real (v : xvalue) : result json :=
  match v with
  | XReal RInf => Ok (JStr (codes "INF"))
  | XReal RNegInf => Ok (JStr (codes "-INF"))
  | XReal RNaN => Ok (JStr (codes "NaN"))
  | XReal r => Ok (JFloat r)
  | XInt z => Ok (JInt z)               (* an int passes the three float tests *)
  | _ => Err EUnmodelled
  end.

Definition jdec_real (j : json) : result xvalue :=
  match j with
  | JFloat r => Ok (XReal r)
  | JStr s =>
    if zlist_eqb s (codes "INF") then Ok (XReal RInf)
    else if zlist_eqb s (codes "-INF") then Ok (XReal RNegInf)
    else if zlist_eqb s (codes "NaN") then Ok (XReal RNaN)
    else if zlist_eqb s (codes "0") then Ok (XReal RZero)
    else if zlist_eqb s (codes "-0") then Ok (XReal RZero)
    else Err (EForeign "KeyError")
  | JInt _ | JNull => Err (EForeign "KeyError")   (* not a float: dict lookup *)
  | JBool _ => Err (EForeign "KeyError")
  | JArr _ | JObj _ => Err (EForeign "TypeError")  (* unhashable *)
  end.

(** Enumerated.encode / decode: [self.values] is {name: name}, or
    {number: number} with numeric_enums. *)
Definition jenc_enum (items : list (string * Z)) (numeric : bool) (v : xvalue) : result json :=
  if numeric then
    match v with
    | XInt z => match name_of_number z items with Some _ => Ok (JInt z) | None => Err EEncode end
    | XEnum _ | XStr _ | XNone => Err EEncode
    | _ => Err EUnmodelled
    end
  else
    match v with
    | XEnum n => match number_of_name n items with Some _ => Ok (JStr (codes n)) | None => Err EEncode end
    | XStr s => match item_of_codes s items with Some _ => Ok (JStr s) | None => Err EEncode end
    | XInt _ | XNone => Err EEncode
    | _ => Err EUnmodelled
    end.

Definition jdec_enum (items : list (string * Z)) (ext numeric : bool) (j : json) : result xvalue :=
  let unknown := if ext then Ok XNone else Err EDecode in
  match j with
  | JArr _ | JObj _ => Err (EForeign "TypeError")
  | JBool _ | JFloat _ => if numeric then Err EUnmodelled (* True == 1, 1.0 == 1 *) else unknown
  | JInt z =>
    if numeric then match name_of_number z items with Some _ => Ok (XInt z) | None => unknown end
    else unknown
  | JStr s =>
    if numeric then unknown
    else match item_of_codes s items with Some (n, _) => Ok (XEnum n) | None => unknown end
  | JNull => unknown
  end.

(** BitString: {"value": HEX, "length": n}, or only HEX when SIZE is fixed *)
Definition jenc_bits (fixed : option Z) (v : xvalue) : result json :=
  match v with
  | XBits bs n =>
    match fixed with
    | None => Ok (JObj [("value", JStr (hex_upper bs)); ("length", JInt n)])
    | Some _ => Ok (JStr (hex_upper bs))
    end
  | _ => Err EUnmodelled
  end.

Definition junhex (j : json) : result (list Z) :=
  match j with
  | JStr s => match unhex s with Some bs => Ok bs | None => Err (EForeign "Error") end
  | _ => Err (EForeign "TypeError")
  end.

Definition jdec_bits (fixed : option Z) (j : json) : result xvalue :=
  match fixed with
  | None =>
    match j with
    | JObj kvs =>
      match lookup "value" kvs with
      | None => Err (EForeign "KeyError")
      | Some h =>
        let* bs := junhex h in
        match lookup "length" kvs with
        | None => Err (EForeign "KeyError")
        | Some (JInt n) => Ok (XBits bs n)
        | Some _ => Err EUnmodelled
        end
      end
    | _ => Err (EForeign "TypeError")
    end
  | Some k => let* bs := junhex j in Ok (XBits bs k)
  end.

Section Jer.
Variable env : xenv.

Section Members.
Variable enc : xty -> xvalue -> result json.
Variable dec : xty -> json -> result xvalue.
Variable nrm : xty -> xvalue -> xvalue.

(** MembersType.encode: members in declaration order; a member absent from
    the dict is skipped when OPTIONAL/DEFAULT and an EncodeError otherwise;
    keys of the dict that are no member are never looked at. *)
Fixpoint jenc_members (ms : list (string * xty * xopt)) (fs : list (string * xvalue))
  : result (list (string * json)) :=
  match ms with
  | [] => Ok []
  | (n, t, o) :: ms' =>
    match lookup n fs with
    | Some x =>
      let* j := enc t x in
      let* r := jenc_members ms' fs in
      Ok ((n, j) :: r)
    | None =>
      match o with
      | XMandatory => Err EEncode
      | _ => jenc_members ms' fs
      end
    end
  end.

(** MembersType.decode: unknown keys ignored, DEFAULT restored, an absent
    mandatory member silently left out. *)
Fixpoint jdec_members (ms : list (string * xty * xopt)) (kvs : list (string * json))
  : result (list (string * xvalue)) :=
  match ms with
  | [] => Ok []
  | (n, t, o) :: ms' =>
    match lookup n kvs with
    | Some j =>
      let* x := dec t j in
      let* r := jdec_members ms' kvs in
      Ok ((n, x) :: r)
    | None =>
      let* r := jdec_members ms' kvs in
      match o with
      | XDefault d => Ok ((n, d) :: r)
      | _ => Ok r
      end
    end
  end.

(** The value a decoder returns for an encoded dict: members in declaration
    order, unknown keys dropped, absent DEFAULT members filled in. *)
Fixpoint norm_members (ms : list (string * xty * xopt)) (fs : list (string * xvalue))
  : list (string * xvalue) :=
  match ms with
  | [] => []
  | (n, t, o) :: ms' =>
    match lookup n fs with
    | Some x => (n, nrm t x) :: norm_members ms' fs
    | None =>
      match o with
      | XDefault d => (n, d) :: norm_members ms' fs
      | _ => norm_members ms' fs
      end
    end
  end.
End Members.

Fixpoint jenc (fuel : nat) (t : xty) (v : xvalue) {struct fuel} : result json :=
  match fuel with
  | O => Err EFuel
  | S f =>
    match t with
    | XTBool | XTNull | XTInt | XTStr _ | XTOid => json_of_py v
    | XTReal => jenc_real v
    | XTEnum items _ numeric => jenc_enum items numeric v
    | XTBits fixed => jenc_bits fixed v
    | XTOctets => match v with XBytes bs => Ok (JStr (hex_upper bs)) | _ => Err EUnmodelled end
    | XTSeq _ ms =>
      match v with
      | XSeq fs => let* kvs := jenc_members (jenc f) ms fs in Ok (JObj kvs)
      | _ => Err EUnmodelled
      end
    | XTSeqOf _ e =>
      match v with
      | XList vs => let* js := map_result (jenc f e) vs in Ok (JArr js)
      | _ => Err EUnmodelled
      end
    | XTChoice alts _ =>
      match v with
      | XChoice a x =>
        match lookup a alts with
        | Some ta => let* j := jenc f ta x in Ok (JObj [(a, j)])
        | None => Err EEncode
        end
      | XUnknownChoice => Err EEncode           (* name_to_member[None] *)
      | _ => Err EUnmodelled
      end
    | XTRef n =>
      match lookup n env with
      | Some t' => jenc f t' v
      | None => Err EUnmodelled
      end
    end
  end.

Fixpoint jdec (fuel : nat) (t : xty) (j : json) {struct fuel} : result xvalue :=
  match fuel with
  | O => Err EFuel
  | S f =>
    match t with
    | XTBool | XTNull | XTInt | XTStr _ => py_of_json j
    | XTOid => match j with JStr s => Ok (XStr s) | _ => Err EUnmodelled end   (* str(data) *)
    | XTReal => jdec_real j
    | XTEnum items ext numeric => jdec_enum items ext numeric j
    | XTBits fixed => jdec_bits fixed j
    | XTOctets => let* bs := junhex j in Ok (XBytes bs)
    | XTSeq _ ms =>
      match j with
      | JObj kvs => let* fs := jdec_members (jdec f) ms kvs in Ok (XSeq fs)
      | _ => Err EUnmodelled
      end
    | XTSeqOf _ e =>
      match j with
      | JArr js => let* vs := map_result (jdec f e) js in Ok (XList vs)
      | _ => Err EUnmodelled
      end
    | XTChoice alts ext =>
      match j with
      | JObj [] => Err (EForeign "IndexError")
      | JObj ((k, x) :: _) =>
        match lookup k alts with
        | Some ta => let* v := jdec f ta x in Ok (XChoice k v)
        | None => if ext then Ok XUnknownChoice else Err EDecode
        end
      | _ => Err EUnmodelled
      end
    | XTRef n =>
      match lookup n env with
      | Some t' => jdec f t' j
      | None => Err EUnmodelled
      end
    end
  end.

(** v' of the round-trip theorem. *)
Fixpoint jnorm (fuel : nat) (t : xty) (v : xvalue) {struct fuel} : xvalue :=
  match fuel with
  | O => v
  | S f =>
    match t, v with
    | XTSeq _ ms, XSeq fs => XSeq (norm_members (jnorm f) ms fs)
    | XTSeqOf _ e, XList vs => XList (map (jnorm f e) vs)
    | XTChoice alts _, XChoice a x =>
      match lookup a alts with Some ta => XChoice a (jnorm f ta x) | None => v end
    | XTRef n, _ => match lookup n env with Some t' => jnorm f t' v | None => v end
    | _, _ => v
    end
  end.

(** The scope of the JER round-trip theorem: the value has the shape the
    type asks for (what the library's type checker accepts), with
      - member / alternative names of a type pairwise distinct,
      - bytes in 0..255,
      - a BIT STRING under a fixed SIZE having exactly that many bits
        (finding C02-jer-bits-fixed-size-ext refutes the rest),
      - a REAL given as a float (finding C02-jer-real-int refutes int). *)
Section Ok.
Variable ok : xty -> xvalue -> bool.
Fixpoint jok_members (ms : list (string * xty * xopt)) (fs : list (string * xvalue)) : bool :=
  match ms with
  | [] => true
  | (n, t, o) :: ms' =>
    match lookup n fs with
    | Some x => ok t x && jok_members ms' fs
    | None => match o with XMandatory => false | _ => jok_members ms' fs end
    end
  end.
End Ok.

Definition enum_has (items : list (string * Z)) (numeric : bool) (v : xvalue) : bool :=
  match v with
  | XInt z => numeric && match name_of_number z items with Some _ => true | None => false end
  | XEnum n => negb numeric && match number_of_name n items with Some _ => true | None => false end
  | _ => false
  end.

Fixpoint jok (fuel : nat) (t : xty) (v : xvalue) {struct fuel} : bool :=
  match fuel with
  | O => false
  | S f =>
    match t, v with
    | XTBool, XBool _ => true
    | XTNull, XNone => true
    | XTInt, XInt _ => true
    | XTStr _, XStr s => forallb cp_ok s
    | XTOid, XStr s => forallb cp_ok s
    | XTReal, XReal _ => true
    | XTEnum items _ numeric, _ => enum_has items numeric v
    | XTBits fixed, XBits bs n =>
      bytes_okb bs && match fixed with Some k => n =? k | None => true end
    | XTOctets, XBytes bs => bytes_okb bs
    | XTSeq _ ms, XSeq fs => nodup_str (member_names ms) && jok_members (jok f) ms fs
    | XTSeqOf _ e, XList vs => forallb (jok f e) vs
    | XTChoice alts _, XChoice a x =>
      match lookup a alts with Some ta => jok f ta x | None => false end
    | XTRef n, _ => match lookup n env with Some t' => jok f t' v | None => false end
    | _, _ => false
    end
  end.

End Jer.

(** The codec on bytes: CompiledType.encode / decode with the serialiser
    [json.dumps(..., separators / indent)] + utf-8 and the parser
    [json.loads] as parameters. *)
Section JerBytes.
Variable ser : option Z -> json -> list Z.      (* indent -> tree -> bytes *)
Variable par : list Z -> option json.
Variable env : xenv.

Definition jer_encode (indent : option Z) (fuel : nat) (t : xty) (v : xvalue) : result (list Z) :=
  let* j := jenc env fuel t v in Ok (ser indent j).

Definition jer_decode (fuel : nat) (t : xty) (bs : list Z) : result xvalue :=
  match par bs with
  | Some j => jdec env fuel t j
  | None => Err (EForeign "JSONDecodeError")
  end.
End JerBytes.
