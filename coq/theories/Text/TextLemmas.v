(** C02 — lemmas about the text helpers of Universe.v: decimal, hex and bit
    text round trips. *)
From Asn1V Require Import Base.Prelude Syntax.Asn1 Text.Universe.
From Coq Require Import DecimalString DecimalZ DecimalPos Decimal.
Open Scope string_scope.
Open Scope list_scope.
Open Scope Z_scope.

Lemma zlist_eqb_refl l : zlist_eqb l l = true.
Proof. induction l; simpl; auto. rewrite Z.eqb_refl; auto. Qed.

Lemma zlist_eqb_eq a b : zlist_eqb a b = true -> a = b.
Proof.
  revert b; induction a; destruct b; simpl; intros H; try discriminate; auto.
  apply andb_prop in H as [H1 H2]. apply Z.eqb_eq in H1. f_equal; auto.
Qed.

Lemma zlist_eqb_neq a b : a <> b -> zlist_eqb a b = false.
Proof.
  intros H. destruct (zlist_eqb a b) eqn:E; auto. apply zlist_eqb_eq in E. contradiction.
Qed.

Lemma codes_inj a b : codes a = codes b -> a = b.
Proof.
  revert b; induction a; destruct b; simpl; intros H; try discriminate; auto.
  injection H as H1 H2. apply N2Z.inj in H1.
  f_equal; auto.
  rewrite <- (ascii_N_embedding a), <- (ascii_N_embedding a1). congruence.
Qed.

Lemma uncodes_codes s : uncodes (codes s) = Some s.
Proof.
  induction s; simpl; auto.
  unfold uncode1.
  pose proof (N_ascii_bounded a) as Hb.
  assert (0 <= Z.of_N (N_of_ascii a) < 256) as Hr by lia.
  destruct (0 <=? Z.of_N (N_of_ascii a)) eqn:E1; [|lia].
  destruct (Z.of_N (N_of_ascii a) <? 256) eqn:E2; [|lia].
  simpl. rewrite N2Z.id, ascii_N_embedding, IHs. reflexivity.
Qed.

Lemma Z_of_str_of_Z z : Z_of_str (str_of_Z z) = Some z.
Proof.
  unfold Z_of_str, str_of_Z. rewrite uncodes_codes.
  rewrite NilZero.isi.
  - rewrite DecimalZ.of_to. reflexivity.
  - destruct z; simpl; try discriminate. intros H; injection H as H.
    exact (Unsigned.to_uint_nonnil _ H).
  - destruct z; simpl; try discriminate. intros H; injection H as H.
    exact (Unsigned.to_uint_nonnil _ H).
Qed.

(* hex *)
Lemma hexval_hexchar d : 0 <= d < 16 -> hexval (hexchar d) = Some d.
Proof.
  intros H. unfold hexval, hexchar.
  destruct (d <? 10) eqn:E.
  - destruct (48 <=? 48 + d) eqn:E1; [|lia]. destruct (48 + d <=? 57) eqn:E2; [|lia].
    cbn [andb]. f_equal. lia.
  - destruct (48 <=? 55 + d) eqn:E1; [|lia]. destruct (55 + d <=? 57) eqn:E2; [lia|].
    cbn [andb]. destruct (65 <=? 55 + d) eqn:E3; [|lia]. destruct (55 + d <=? 70) eqn:E4; [|lia].
    cbn [andb]. f_equal. lia.
Qed.

Lemma is_byteb_spec b : is_byteb b = true -> 0 <= b < 256.
Proof. unfold is_byteb. lia. Qed.

Lemma unhex_hex_upper bs : bytes_okb bs = true -> unhex (hex_upper bs) = Some bs.
Proof.
  induction bs; simpl; intros H; auto.
  apply andb_prop in H as [H1 H2]. apply is_byteb_spec in H1.
  assert (0 <= a / 16 < 16) by (split; [apply Z.div_pos; lia | apply Z.div_lt_upper_bound; lia]).
  assert (0 <= a mod 16 < 16) by (apply Z.mod_pos_bound; lia).
  rewrite !hexval_hexchar by assumption. rewrite IHbs by assumption.
  f_equal. f_equal. pose proof (Z.div_mod a 16). lia.
Qed.

Lemma hex_upper_nonempty bs : bs <> [] -> hex_upper bs <> [].
Proof. destruct bs; simpl; congruence. Qed.

Lemma hex_upper_even bs : Nat.even (length (hex_upper bs)) = true.
Proof. induction bs; simpl; auto. Qed.

(* bits *)
Lemma parse_bits_bitchar l : parse_bits (map bitchar l) = Some l.
Proof. induction l as [|b l IH]; simpl; auto. rewrite IH. destruct b; reflexivity. Qed.

Fixpoint zrange (n : nat) : list Z :=
  match n with O => [] | S k => zrange k ++ [Z.of_nat k] end.

Lemma zrange_in n b : 0 <= b < Z.of_nat n -> In b (zrange n).
Proof.
  induction n; intros H; [lia|].
  simpl. apply in_or_app.
  destruct (Z.eq_dec b (Z.of_nat n)); [right; left; auto | left; apply IHn; lia].
Qed.

Lemma pack8_byte_bits b : 0 <= b < 256 ->
  pack8 (Z.testbit b 7) (Z.testbit b 6) (Z.testbit b 5) (Z.testbit b 4)
        (Z.testbit b 3) (Z.testbit b 2) (Z.testbit b 1) (Z.testbit b 0) = b.
Proof.
  intros H.
  assert (forallb (fun b => pack8 (Z.testbit b 7) (Z.testbit b 6) (Z.testbit b 5) (Z.testbit b 4)
        (Z.testbit b 3) (Z.testbit b 2) (Z.testbit b 1) (Z.testbit b 0) =? b) (zrange 256) = true) as A
      by (vm_compute; reflexivity).
  rewrite forallb_forall in A. apply Z.eqb_eq. apply A. apply zrange_in. simpl. lia.
Qed.

Lemma pack_byte_bits_app b r : 0 <= b < 256 -> pack (byte_bits b ++ r) = b :: pack r.
Proof.
  intros H.
  replace (pack (byte_bits b ++ r)) with
      (pack8 (Z.testbit b 7) (Z.testbit b 6) (Z.testbit b 5) (Z.testbit b 4)
             (Z.testbit b 3) (Z.testbit b 2) (Z.testbit b 1) (Z.testbit b 0) :: pack r) by reflexivity.
  rewrite pack8_byte_bits by assumption. reflexivity.
Qed.

Lemma pack_partial b n : 0 <= b < 256 -> 0 < n < 8 -> b mod 2 ^ (8 - n) = 0 ->
  pack (firstn (Z.to_nat n) (byte_bits b)) = [b].
Proof.
  intros Hb Hn Hm.
  assert (forallb (fun n => forallb (fun b =>
            implb ((0 <? n) && (b mod 2 ^ (8 - n) =? 0))
                  (zlist_eqb (pack (firstn (Z.to_nat n) (byte_bits b))) [b]))
            (zrange 256)) (zrange 8) = true) as A by (vm_compute; reflexivity).
  rewrite forallb_forall in A.
  specialize (A n (zrange_in 8 n ltac:(simpl; lia))).
  rewrite forallb_forall in A.
  specialize (A b (zrange_in 256 b ltac:(simpl; lia))).
  apply Z.eqb_eq in Hm. rewrite Hm in A.
  replace (0 <? n) with true in A by lia. simpl in A. apply zlist_eqb_eq in A. exact A.
Qed.

Lemma length_byte_bits b : length (byte_bits b) = 8%nat.
Proof. reflexivity. Qed.

(** XER BIT STRING text: the first n bits, re-packed with zero padding, are
    the value itself when it is canonical. *)
Lemma pack_firstn_unpack bs : forall n, bits_canonb bs n = true ->
  pack (firstn (Z.to_nat n) (unpack bs)) = bs /\
  Z.of_nat (length (firstn (Z.to_nat n) (unpack bs))) = n.
Proof.
  induction bs as [|b r IH]; intros n H; cbn [bits_canonb] in H.
  - apply Z.eqb_eq in H. subst. simpl. auto.
  - apply andb_prop in H as [Hb H]. apply is_byteb_spec in Hb.
    unfold unpack. cbn [flat_map]. fold (unpack r).
    destruct (8 <=? n) eqn:E.
    + destruct (IH _ H) as [I1 I2].
      replace (Z.to_nat n) with (8 + Z.to_nat (n - 8))%nat by lia.
      rewrite firstn_app_2 with (l1 := byte_bits b) (n := Z.to_nat (n - 8)).
      split.
      * rewrite pack_byte_bits_app by assumption. rewrite I1. reflexivity.
      * rewrite app_length. rewrite length_byte_bits. lia.
    + apply andb_prop in H as [H H3]. apply andb_prop in H as [H1 H2].
      destruct r; [|discriminate]. simpl (unpack []). rewrite app_nil_r.
      apply Z.eqb_eq in H3.
      split.
      * apply pack_partial; lia.
      * rewrite firstn_length. rewrite length_byte_bits. lia.
Qed.

Lemma bits_canonb_pos bs n : bits_canonb bs n = true -> 0 <= n /\ (0 < n -> bs <> []) /\ (n = 0 -> bs = []).
Proof.
  revert n; induction bs as [|b r IH]; cbn [bits_canonb]; intros n H.
  - apply Z.eqb_eq in H. subst. repeat split; auto; lia.
  - apply andb_prop in H as [_ H]. destruct (8 <=? n) eqn:E.
    + destruct (IH _ H) as [I _]. repeat split; try lia; congruence.
    + repeat split; try lia; congruence.
Qed.

(* association lists *)
Lemma mem_str_In n l : mem_str n l = true <-> In n l.
Proof.
  induction l; simpl; [split; [discriminate | tauto]|].
  rewrite orb_true_iff, IHl. rewrite String.eqb_eq. split; intros [H|H]; auto.
Qed.

Lemma lookup_none_notin {A} n (l : list (string * A)) :
  lookup n l = None -> ~ In n (map fst l).
Proof.
  induction l as [|[k a] l IH]; simpl; auto.
  destruct (String.eqb n k) eqn:E; [discriminate|].
  intros H [H1|H1]; [subst; rewrite String.eqb_refl in E; discriminate | exact (IH H H1)].
Qed.

Lemma lookup_notin {A} n (l : list (string * A)) :
  ~ In n (map fst l) -> lookup n l = None.
Proof.
  induction l as [|[k a] l IH]; simpl; auto.
  intros H. destruct (String.eqb n k) eqn:E.
  - apply String.eqb_eq in E. subst. tauto.
  - apply IH. tauto.
Qed.

(* enumerations *)
Lemma item_of_codes_name n items k :
  number_of_name n items = Some k -> item_of_codes (codes n) items = Some (n, k).
Proof.
  induction items as [|[m j] r IH]; simpl; [discriminate|].
  destruct (String.eqb n m) eqn:E.
  - apply String.eqb_eq in E. subst. rewrite zlist_eqb_refl. congruence.
  - intros H. rewrite zlist_eqb_neq; auto.
    intros C. apply codes_inj in C. subst. rewrite String.eqb_refl in E. discriminate.
Qed.

(** number -> name -> number comes back when the names are distinct. *)
Lemma number_of_name_of_number z items n :
  nodup_str (map fst items) = true ->
  name_of_number z items = Some n -> number_of_name n items = Some z.
Proof.
  induction items as [|[m j] r IH]; simpl; [discriminate|].
  intros H. apply andb_prop in H as [H1 H2].
  destruct (z =? j) eqn:E.
  - intros I; injection I as I; subst. rewrite String.eqb_refl. f_equal. lia.
  - intros I. destruct (String.eqb n m) eqn:E2.
    + apply String.eqb_eq in E2. subst.
      exfalso. apply negb_true_iff in H1.
      assert (In m (map fst r)).
      { clear - I. induction r as [|[a b] r IH]; simpl in *; [discriminate|].
        destruct (z =? b); [injection I as I; auto | auto]. }
      apply mem_str_In in H. congruence.
    + auto.
Qed.
