(** C13, round 5 — proofs about Compile/HistoryCheckers.v.

    [stateful_history_independent]: when compile_dict keeps no memo ([MNone],
    what /repo does) or a memo keyed by (object identity, numeric_enums)
    ([MIdentityOptions]), then after EVERY stateful history (compilations of
    the same object with any codecs / options, copies, compilations of other
    dictionaries in between, from any consistent starting memo) one more
    compile_dict(c, o) returns exactly the dictionary and the triple
    (codec, type checkers, constraints checkers) that the pure compile_dict of
    Compile/Preprocess.v returns on the dictionary as parsed — or the same
    failure.  Induction over histories with an invariant on the memo, on top of
    [preprocess_idempotent] and [history_independent].

    [stateful_collect_independent]: every object compiled DURING such a history
    is the triple of a fresh compile with that step's codec and option.

    [memo_identity_refuted]: a memo keyed by the object identity alone breaks
    it: compile_dict(d, ber) then compile_dict(d, uper, numeric_enums=True)
    hands out type checkers compiled for numeric_enums=False. *)
From Asn1V Require Import Base.Prelude Compile.Descr Compile.Preprocess Compile.PreprocessProofs
  Compile.HistoryCheckers.
Local Open Scope nat_scope.

Lemma Forall2_imp {A B} (P Q : A -> B -> Prop) l1 l2 :
  (forall a b, P a b -> Q a b) -> Forall2 P l1 l2 -> Forall2 Q l1 l2.
Proof. intros H F. induction F; constructor; auto. Qed.

Section Proofs.
  Context {R : Type}.
  Variable fuel : nat.
  Variable var : variant.
  Hypothesis Hvar : v_numeric_in_dict var = false.
  Variable process : compiler_id -> bool -> dict -> R.
  Variable policy : memo_policy.
  Hypothesis Hpol : policy <> MIdentity.

  Notation compile_obj := (compile_obj fuel var process policy).
  Notation wstep_run := (wstep_run fuel var process policy).
  Notation wrun := (wrun fuel var process policy).
  Notation pure_compile := (compile_dict fuel var process).

  (** The memo, when it is about the object [i], holds the checkers of [i]'s
      content for the remembered option. *)
  Definition memo_ok (next i : oid) (d : dict) (m : option (memo (R := R))) : Prop :=
    match m with
    | None => True
    | Some mm =>
      mo_id mm < next /\
      (mo_id mm = i ->
       exists d1, preprocess fuel var (mo_numeric mm) d = Ok d1 /\
                  mo_types mm = process CTypeChecker (mo_numeric mm) d1 /\
                  mo_constraints mm = process CConstraintsChecker (mo_numeric mm) d1)
    end.

  Definition inv (w : world (R := R)) : Prop :=
    w_id w < w_next w /\ memo_ok (w_next w) (w_id w) (w_dict w) (w_memo w).

  Lemma reuse_sound i n (m : option (memo (R := R))) r2 r3 :
    reuse policy i n m = Some (r2, r3) ->
    exists mm, m = Some mm /\ mo_id mm = i /\ mo_numeric mm = n /\ r2 = mo_types mm /\ r3 = mo_constraints mm.
  Proof.
    unfold reuse. destruct m as [mm|]; [|discriminate].
    destruct policy; [discriminate|congruence|].
    destruct (Nat.eqb (mo_id mm) i) eqn:E1; [|discriminate].
    destruct (Bool.eqb (mo_numeric mm) n) eqn:E2; [|discriminate].
    simpl. intros H. injection H as <- <-.
    apply Nat.eqb_eq in E1. apply Bool.eqb_prop in E2.
    exists mm. repeat split; assumption.
  Qed.

  (** One compile of an object whose memo is consistent: the pure result, and
      a consistent memo afterwards. *)
  Lemma compile_obj_spec c n next i d m :
    i < next -> memo_ok next i d m ->
    match compile_obj c n i d m with
    | Ok (d', res, m') =>
      pure_compile c n d = Ok (d', res) /\ preprocess fuel var n d = Ok d' /\ memo_ok next i d' m' /\
      (m' = m \/ exists r2 r3, m' = Some (Memo i n r2 r3))
    | Err e => pure_compile c n d = Err e
    end.
  Proof.
    intros Hi Hm. unfold HistoryCheckers.compile_obj.
    destruct (preprocess fuel var n d) as [d1|e] eqn:P; simpl.
    2:{ rewrite (compile_dict_err fuel var process c n d e P). reflexivity. }
    pose proof (preprocess_idempotent fuel var n n d d1 Hvar P) as I.
    rewrite (compile_dict_ok fuel var Hvar process c n d d1 P).
    destruct (reuse policy i n m) as [[r2 r3]|] eqn:Ru.
    - destruct (reuse_sound _ _ _ _ _ Ru) as (mm & -> & Hid & Hn & -> & ->).
      simpl in Hm. destruct Hm as [Hlt Hc]. destruct (Hc Hid) as (dm & Pm & Ht & Hcs).
      rewrite Hn in Pm, Ht, Hcs. rewrite P in Pm. injection Pm as <-.
      split; [rewrite Ht, Hcs; reflexivity|]. split; [reflexivity|]. split; [|left; reflexivity].
      simpl. split; [exact Hlt|]. intros _. exists d1. rewrite Hn. repeat split; assumption.
    - rewrite I. simpl. rewrite I. simpl.
      split; [reflexivity|]. split; [reflexivity|]. split; [|right; eauto].
      simpl. split; [exact Hi|]. intros _. exists d1. repeat split. exact I.
  Qed.

  Lemma memo_ok_other next i j d d' m :
    memo_ok next i d m -> (forall mm, m = Some mm -> mo_id mm <> j) -> memo_ok next j d' m.
  Proof.
    destruct m as [mm|]; simpl; [|trivial].
    intros [Hlt _] Hne. split; [exact Hlt|]. intros E. exfalso. exact (Hne mm eq_refl E).
  Qed.

  Lemma memo_ok_mono next next' i d m : next <= next' -> memo_ok next i d m -> memo_ok next' i d m.
  Proof.
    destruct m as [mm|]; simpl; [|trivial]. intros L [Hlt H]. split; [lia|exact H].
  Qed.

  Lemma inv_World next i d m : i < next -> memo_ok next i d m -> inv (World next i d m).
  Proof. intros H1 H2. split; assumption. Qed.

  Lemma memo_id_lt next i d mm : memo_ok next i d (Some mm) -> mo_id mm < next.
  Proof. simpl. intros [H _]. exact H. Qed.

  Lemma wstep_inv s w w' :
    inv w -> wstep_run s w = Ok w' ->
    inv w' /\ run fuel var process (erase [s]) (w_dict w) = Ok (w_dict w').
  Proof.
    intros [Hi Hm] E.
    assert (Hfresh : forall d2, memo_ok (S (w_next w)) (w_next w) d2 (w_memo w)).
    { intros d2. apply memo_ok_mono with (next := w_next w); [lia|].
      apply memo_ok_other with (i := w_id w) (d := w_dict w); [exact Hm|].
      intros mm Em. rewrite Em in Hm. apply memo_id_lt in Hm. unfold oid in *. lia. }
    assert (Hkeep : memo_ok (S (w_next w)) (w_id w) (w_dict w) (w_memo w)).
    { apply memo_ok_mono with (next := w_next w); [lia|exact Hm]. }
    destruct s as [c n| |d2 c n]; simpl in E.
    - pose proof (compile_obj_spec c n _ _ _ _ Hi Hm) as S.
      destruct (compile_obj c n (w_id w) (w_dict w) (w_memo w)) as [[[d' res] m']|e]; simpl in E; [|discriminate].
      injection E as <-. destruct S as (Hp & _ & Hm' & _). simpl.
      split; [apply inv_World; assumption|]. rewrite Hp. reflexivity.
    - injection E as <-. simpl. split; [|reflexivity]. apply inv_World; [lia|apply Hfresh].
    - (* the foreign object is new: its identity is w_next w, no memo is about it *)
      pose proof (compile_obj_spec c n (S (w_next w)) (w_next w) d2 (w_memo w) (Nat.lt_succ_diag_r _) (Hfresh d2)) as S.
      destruct (compile_obj c n (w_next w) d2 (w_memo w)) as [[[d' res] m']|e]; injection E as <-; simpl.
      + split; [|reflexivity]. apply inv_World; [unfold oid in *; lia|].
        destruct S as (_ & _ & Hm' & [->|(r2 & r3 & ->)]).
        * exact Hkeep.
        * simpl. split; [lia|]. intros E. unfold oid in *. lia.
      + split; [|reflexivity]. apply inv_World; [unfold oid in *; lia|exact Hkeep].
  Qed.

  Lemma run_app h1 : forall h2 d d1 d2,
    run fuel var process h1 d = Ok d1 -> run fuel var process h2 d1 = Ok d2 ->
    run fuel var process (h1 ++ h2) d = Ok d2.
  Proof.
    induction h1 as [|s r IH]; intros h2 d d1 d2 E1 E2; simpl in *.
    - injection E1 as <-. exact E2.
    - destruct s as [c n| |]; try (eapply IH; eassumption).
      destruct (compile_dict fuel var process c n d) as [x|]; simpl in *; [|discriminate].
      eapply IH; eassumption.
  Qed.

  Lemma wrun_inv h : forall w w',
    inv w -> wrun h w = Ok w' -> inv w' /\ run fuel var process (erase h) (w_dict w) = Ok (w_dict w').
  Proof.
    induction h as [|s r IH]; intros w w' Hw E; simpl in E.
    - injection E as <-. split; [exact Hw|reflexivity].
    - destruct (wstep_run s w) as [w1|] eqn:E1; simpl in E; [|discriminate].
      destruct (wstep_inv _ _ _ Hw E1) as [Hw1 R1]. destruct (IH _ _ Hw1 E) as [Hw' R2].
      split; [exact Hw'|]. change (s :: r) with ([s] ++ r).
      replace (erase ([s] ++ r)) with (erase [s] ++ erase r) by (destruct s; reflexivity).
      eapply run_app; eassumption.
  Qed.

  Lemma inv_init d : inv (init d).
  Proof. unfold inv, init. simpl. split; [lia|trivial]. Qed.

  (** * History independence of the compiled triple *)
  Theorem stateful_history_independent h c o w w' :
    inv w -> wrun h w = Ok w' ->
    compile_in fuel var process policy c o w' = pure_compile c o (w_dict w).
  Proof.
    intros Hw E. destruct (wrun_inv _ _ _ Hw E) as [[Hi Hm] Rn].
    rewrite <- (history_independent fuel var Hvar process (erase h) c o (w_dict w) (w_dict w') Rn).
    unfold compile_in. pose proof (compile_obj_spec c o _ _ _ _ Hi Hm) as S.
    destruct (compile_obj c o (w_id w') (w_dict w') (w_memo w')) as [[[d' res] m']|e]; simpl.
    - destruct S as (Hp & _). symmetry. exact Hp.
    - symmetry. exact S.
  Qed.

  Corollary stateful_history_independent_init h c o d w' :
    wrun h (init d) = Ok w' ->
    compile_in fuel var process policy c o w' = pure_compile c o d.
  Proof. intros E. exact (stateful_history_independent h c o (init d) w' (inv_init d) E). Qed.

  (** Every object compiled during the history is what a fresh compile with
      that step's codec and option returns. *)
  Fixpoint compiles_of (h : list wstep) : list (codec * bool) :=
    match h with
    | [] => []
    | WCompile c n :: r => (c, n) :: compiles_of r
    | _ :: r => compiles_of r
    end.

  Theorem stateful_collect_independent h : forall w l,
    inv w -> wrun_collect fuel var process policy h w = Ok l ->
    Forall2 (fun cn res => exists d', pure_compile (fst cn) (snd cn) (w_dict w) = Ok (d', res)) (compiles_of h) l.
  Proof.
    induction h as [|s r IH]; intros w l Hw E; simpl in E.
    - injection E as <-. constructor.
    - destruct (wstep_run s w) as [w1|] eqn:E1; simpl in E; [|discriminate].
      destruct (wrun_collect fuel var process policy r w1) as [rest|] eqn:E2; simpl in E; [|discriminate].
      destruct (wstep_inv _ _ _ Hw E1) as [Hw1 R1].
      pose proof (IH _ _ Hw1 E2) as F.
      assert (F' : Forall2 (fun cn res => exists d', pure_compile (fst cn) (snd cn) (w_dict w) = Ok (d', res))
                           (compiles_of r) rest).
      { eapply Forall2_imp; [|exact F]. intros [c n] res (d' & Hd). simpl in *.
        rewrite (history_independent fuel var Hvar process (erase [s]) c n (w_dict w) (w_dict w1) R1) in Hd.
        eauto. }
      destruct s as [c n| |d2 c n]; simpl; try (injection E as <-; exact F').
      destruct Hw as [Hi Hm]. pose proof (compile_obj_spec c n _ _ _ _ Hi Hm) as S.
      destruct (compile_obj c n (w_id w) (w_dict w) (w_memo w)) as [[[d' res] m']|e]; simpl in E; [|discriminate].
      injection E as <-. constructor; [|exact F']. simpl. destruct S as (Hp & _). eauto.
  Qed.
End Proofs.

(** * A memo keyed by the object identity alone refutes it *)
Theorem memo_identity_refuted :
  exists h c o d w',
    wrun 8 repaired flag_view MIdentity h (init d) = Ok w' /\
    compile_in 8 repaired flag_view MIdentity c o w' <> compile_dict 8 repaired flag_view c o d /\
    option_map snd (match compile_in 8 repaired flag_view MIdentity c o w' with Ok x => Some x | Err _ => None end)
    = Some (true, false, false) /\
    option_map snd (match compile_dict 8 repaired flag_view c o d with Ok x => Some x | Err _ => None end)
    = Some (true, true, true).
Proof.
  exists [WCompile Ber false], Uper, true, witness_dict.
  eexists. split; [vm_compute; reflexivity|].
  split; [vm_compute; intros H; discriminate H|].
  split; vm_compute; reflexivity.
Qed.

(** The same history without a memo and with the (identity, option) memo;
    with another dictionary compiled in between the identity memo is flushed
    and the defect does not show (why a check that compiles its reference
    object after every step cannot see it). *)
Example memo_witness_sound :
  observe_flags 8 repaired MNone [WCompile Ber false; WCompile Uper true] witness_dict
  = Ok [(false, false, false); (true, true, true)] /\
  observe_flags 8 repaired MIdentityOptions [WCompile Ber false; WCompile Uper true; WCompile Der true] witness_dict
  = Ok [(false, false, false); (true, true, true); (true, true, true)] /\
  observe_flags 8 repaired MIdentity [WCompile Ber false; WCompile Uper true] witness_dict
  = Ok [(false, false, false); (true, false, false)] /\
  observe_flags 8 repaired MIdentity [WCompile Ber false; WForeign witness_dict Ber false; WCompile Uper true] witness_dict
  = Ok [(false, false, false); (true, true, true)].
Proof. repeat split; vm_compute; reflexivity. Qed.

Print Assumptions stateful_history_independent.
Print Assumptions stateful_history_independent_init.
Print Assumptions stateful_collect_independent.
Print Assumptions memo_identity_refuted.
Print Assumptions memo_witness_sound.
