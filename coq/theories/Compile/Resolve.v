(** C19 — specifications as written (a small source language: what the
    generator of harness/c13c19_gen.py produces, minus named bits / numbers,
    groups and tags on assignments) and the resolution of references:
    a type or value name is looked up in the own module, then through IMPORTS
    (asn1tools/codecs/compiler.py lookup_in_modules 1024-1066; the generic
    [lookup] of Compile/Preprocess.v is reused on the tables of this
    environment).

    No proofs in this file. *)
From Asn1V Require Import Base.Prelude Compile.Descr Compile.Preprocess.
Open Scope string_scope.
Open Scope list_scope.
Open Scope Z_scope.

(** A bound of a SIZE / value-range constraint as written. *)
Inductive bound : Type := BNum (z : Z) | BVal (name : string) | BMin | BMax.
(** ( lo .. hi [, ...] ) *)
Inductive cons : Type := Cons (lo hi : bound) (ext : bool).

(** A DEFAULT value as written (a token). *)
Inductive dtext : Type :=
| TTrue | TFalse
| TNum (z : Z)
| TIdent (s : string)      (* an identifier: enumeration item / value reference *)
| TBin (s : string)        (* '0101'B : the binary digits *)
| THex (s : string).       (* 'AB'H   : the hexadecimal digits *)

Inductive sopt : Type := SMandatory | SOptional | SDefault (d : dtext).

(** [n] / [APPLICATION n] with an optional IMPLICIT / EXPLICIT *)
Inductive stag : Type := STag (class : string) (number : Z) (kind : option string).

Inductive sty : Type :=
| SBool
| SNull
| SInt (c : option cons)
| SEnum (items : list (string * Z)) (extensible : bool)
| SBits (size : option cons)
| SOctets (size : option cons)
| SStr (size : option cons)                       (* IA5String *)
| SSeq (isset : bool) (root : list (string * option stag * sty * sopt))
       (ext : option (list (string * option stag * sty * sopt)))
| SSeqOf (isset : bool) (elem : sty) (size : option cons)
| SChoice (root : list (string * option stag * sty * sopt))
          (ext : option (list (string * option stag * sty * sopt)))
| SRef (name : string) (size : option cons) (range : option cons).  (* T, T (SIZE(..)), T (lo..hi) *)

Definition smember : Type := (string * option stag * sty * sopt)%type.
Definition sm_name (m : smember) : string := fst (fst (fst m)).
Definition sm_tag (m : smember) : option stag := snd (fst (fst m)).
Definition sm_ty (m : smember) : sty := snd (fst m).
Definition sm_opt (m : smember) : sopt := snd m.

Inductive smodule : Type :=
  SModule (name : string) (tags : string) (ext_implied : bool)
          (imports : list (string * list string))
          (types : list (string * sty)) (values : list (string * Z)).
Definition smod_name (m : smodule) := let 'SModule n _ _ _ _ _ := m in n.
Definition smod_tags (m : smodule) := let 'SModule _ t _ _ _ _ := m in t.
Definition smod_ext (m : smodule) := let 'SModule _ _ e _ _ _ := m in e.
Definition smod_imports (m : smodule) := let 'SModule _ _ _ i _ _ := m in i.
Definition smod_types (m : smodule) := let 'SModule _ _ _ _ t _ := m in t.
Definition smod_values (m : smodule) := let 'SModule _ _ _ _ _ v := m in v.

Definition senv : Type := list smodule.

Definition types_table (env : senv) : table sty :=
  map (fun m => (smod_name m, (smod_imports m, smod_types m))) env.
Definition values_table (env : senv) : table Z :=
  map (fun m => (smod_name m, (smod_imports m, smod_values m))) env.

(** the tagging default and EXTENSIBILITY IMPLIED of the module [mn] *)
Definition flags_table (env : senv) : list (string * (string * bool)) :=
  map (fun m => (smod_name m, (smod_tags m, smod_ext m))) env.

Definition lookup_type (fuel : nat) (env : senv) (mn name : string) : result (sty * string) :=
  lookup fuel (types_table env) mn name.
Definition lookup_value (fuel : nat) (env : senv) (mn name : string) : result Z :=
  let* r := lookup fuel (values_table env) mn name in Ok (fst r).

(** A resolved bound: a number, MIN or MAX. *)
Inductive fbound : Type := FNum (z : Z) | FMin | FMax.
Inductive fcons : Type := FCons (lo hi : fbound) (ext : bool).

Definition resolve_bound (fuel : nat) (env : senv) (mn : string) (b : bound) : result fbound :=
  match b with
  | BNum z => Ok (FNum z)
  | BMin => Ok FMin
  | BMax => Ok FMax
  | BVal v => let* z := lookup_value fuel env mn v in Ok (FNum z)
  end.

Definition resolve_cons (fuel : nat) (env : senv) (mn : string) (c : option cons)
  : result (option fcons) :=
  match c with
  | None => Ok None
  | Some (Cons lo hi e) =>
    let* l := resolve_bound fuel env mn lo in
    let* h := resolve_bound fuel env mn hi in
    Ok (Some (FCons l h e))
  end.
