(** C19 (round 5) — the OPTIONAL / DEFAULT status and the DEFAULT value of the
    components of a type depend on what is written on THAT component only.

    Two components with the same identifier that refer to the same named type
    ("twin" components: [level Level (0..7) DEFAULT 3] in one SEQUENCE and
    [level Level] in another) share one compiled object in the library
    (compiler.py compile_user_type: the cache is keyed by module, referenced
    type and component name), and compile_member sets OPTIONAL / DEFAULT / SIZE
    on a copy of it.  In the models ([unfold], the meaning of a type, and
    [compile_per], the library's compile as a pure function) that sharing is
    not visible; what it must not disturb is stated here:

    - [attrs f]: identifier and OPTIONAL / DEFAULT status of every component of
      the unfolded type [f], in depth (components of components, elements of
      SEQUENCE OF).  harness/c19_twins.py evaluates it on [flatten] of generated
      specifications and compares it with the attributes of the objects all
      eight codecs of /repo compile (member.optional / member.default).
    - [unfold_components_as_written] / [compile_components_as_written]: the
      components of the unfolding (of the compiled type) of a SEQUENCE / SET /
      CHOICE carry, in order, the identifiers and the OPTIONAL / DEFAULT status
      written on them, for EVERY environment: nothing written on a component
      of another type (or of the same type at another depth) can change them,
      and replacing a reference by its definition in the component's type
      cannot either.  Together with [C19_inline_ref_flatten] (the component's
      type unfolds alike) this is what the twin-component test of the harness
      exercises on /repo. *)
From Asn1V Require Import Base.Prelude Compile.Descr Compile.Preprocess Compile.Resolve Compile.Flatten
     Compile.FlattenProofs.
Open Scope string_scope.
Open Scope list_scope.

Inductive okind : Type := KMandatory | KOptional | KDefault.

Definition skind (o : sopt) : okind :=
  match o with SMandatory => KMandatory | SOptional => KOptional | SDefault _ => KDefault end.
Definition fkind (o : fopt) : okind :=
  match o with FMandatory => KMandatory | FOptional => KOptional | FDefault _ => KDefault end.

Definition opt_list {A} (o : option (list A)) : list A := match o with Some l => l | None => [] end.

(** components as written / of the unfolding (root, then additions) *)
Definition written_components (t : sty) : list smember :=
  match t with
  | SSeq _ root ext => root ++ opt_list ext
  | SChoice root ext => root ++ opt_list ext
  | _ => []
  end.
Definition components (f : fty) : list fmember :=
  match f with
  | FSeq _ _ _ root ext => root ++ opt_list ext
  | FChoice _ _ root ext => root ++ opt_list ext
  | _ => []
  end.

Definition fm_name (m : fmember) : string := fst (fst (fst m)).
Definition fm_opt (m : fmember) : fopt := snd m.

(** identifier and status of every component, in depth (pre-order) *)
Fixpoint attrs (f : fty) : list (string * fopt) :=
  let ms := fix ms (l : list fmember) : list (string * fopt) :=
              match l with
              | [] => []
              | (n, _, g, o) :: r => (n, o) :: attrs g ++ ms r
              end in
  match f with
  | FSeq _ _ _ root ext => ms root ++ match ext with Some e => ms e | None => [] end
  | FChoice _ _ root ext => ms root ++ match ext with Some e => ms e | None => [] end
  | FSeqOf _ e _ => attrs e
  | _ => []
  end.

Definition attrs_of (r : result fty) : result (list (string * fopt)) :=
  let* f := r in Ok (attrs f).

(** ------------------------------------------------------------------ *)

Lemma fkind_fopt_of interp f o : fkind (fopt_of interp f o) = skind o.
Proof. destruct o; reflexivity. Qed.

Definition written_status (m : smember) : string * okind := (sm_name m, skind (sm_opt m)).
Definition status (m : fmember) : string * okind := (fm_name m, fkind (fm_opt m)).

Lemma mapM_member_with_status U l : forall l',
  mapM (member_with U) l = Ok l' -> map status l' = map written_status l.
Proof.
  induction l as [|m r IH]; intros l' H; cbn in H.
  - inversion H; reflexivity.
  - unfold member_with at 1 in H. destruct (U (sm_ty m)) as [f|e] eqn:E; cbn in H; [|discriminate].
    destruct (mapM (member_with U) r) as [r'|e] eqn:R; cbn in H; [|discriminate].
    inversion H; subst; clear H. cbn [map]. rewrite (IH r' eq_refl).
    f_equal. unfold status, written_status, fm_name, fm_opt; cbn. now rewrite fkind_fopt_of.
Qed.

Lemma mapM_lib_member_status cv C l : forall l',
  mapM (lib_member cv C) l = Ok l' -> map status l' = map written_status l.
Proof.
  induction l as [|m r IH]; intros l' H; cbn in H.
  - inversion H; reflexivity.
  - unfold lib_member at 1 in H. destruct (C (sm_ty m)) as [f|e] eqn:E; cbn in H; [|discriminate].
    destruct (mapM (lib_member cv C) r) as [r'|e] eqn:R; cbn in H; [|discriminate].
    inversion H; subst; clear H. cbn [map]. rewrite (IH r' eq_refl).
    f_equal. unfold status, written_status, fm_name, fm_opt; cbn. now rewrite fkind_fopt_of.
Qed.

Lemma optM_status (W : list smember -> result (list fmember)) (ext : option (list smember)) ext' :
  (forall l l', W l = Ok l' -> map status l' = map written_status l) ->
  optM W ext = Ok ext' -> map status (opt_list ext') = map written_status (opt_list ext).
Proof.
  intros HW H. destruct ext as [l|]; cbn in H.
  - destruct (W l) as [l'|e] eqn:E; cbn in H; [|discriminate]. inversion H; subst. cbn. now apply HW.
  - inversion H; reflexivity.
Qed.

(** The components of the unfolding of a SEQUENCE / SET / CHOICE written in
    module [mn] carry the identifiers and the OPTIONAL / DEFAULT status written
    on them — in every environment [env], at every depth and fuel. *)
Theorem unfold_components_as_written lf K env n k mn t f :
  unfold lf K env (S n) k mn t = Ok f ->
  match t with SSeq _ _ _ | SChoice _ _ => True | _ => False end ->
  map status (components f) = map written_status (written_components t).
Proof.
  intros H Ht. rewrite unfold_eq in H. destruct t; try contradiction; clear Ht.
  - destruct (flags env mn) as [fl|e]; cbn in H; [|discriminate].
    destruct (mapM (member_with (unfold lf K env n K mn)) root) as [root'|e] eqn:R; cbn in H; [|discriminate].
    destruct (optM (mapM (member_with (unfold lf K env n K mn))) ext) as [ext'|e] eqn:X; cbn in H; [|discriminate].
    inversion H; subst; clear H. cbn [components written_components]. rewrite !map_app.
    f_equal; [exact (mapM_member_with_status _ _ _ R) | exact (optM_status _ _ _ (mapM_member_with_status _) X)].
  - destruct (flags env mn) as [fl|e]; cbn in H; [|discriminate].
    destruct (mapM (member_with (unfold lf K env n K mn)) root) as [root'|e] eqn:R; cbn in H; [|discriminate].
    destruct (optM (mapM (member_with (unfold lf K env n K mn))) ext) as [ext'|e] eqn:X; cbn in H; [|discriminate].
    inversion H; subst; clear H. cbn [components written_components]. rewrite !map_app.
    f_equal; [exact (mapM_member_with_status _ _ _ R) | exact (optM_status _ _ _ (mapM_member_with_status _) X)].
Qed.

(** The same for the library's compile (every variant). *)
Theorem compile_components_as_written cv lf K env n k pos mn t f :
  compile_per cv lf K env (S n) k pos mn t = Ok f ->
  match t with SSeq _ _ _ | SChoice _ _ => True | _ => False end ->
  map status (components f) = map written_status (written_components t).
Proof.
  intros H Ht. rewrite compile_per_eq in H. destruct t; try contradiction; clear Ht.
  - destruct (flags env mn) as [fl|e]; cbn in H; [|discriminate].
    destruct (mapM (lib_member cv (compile_per cv lf K env n K true mn)) root) as [root'|e] eqn:R; cbn in H; [|discriminate].
    destruct (optM (mapM (lib_member cv (compile_per cv lf K env n K true mn))) ext) as [ext'|e] eqn:X; cbn in H; [|discriminate].
    inversion H; subst; clear H. cbn [components written_components]. rewrite !map_app.
    f_equal; [exact (mapM_lib_member_status _ _ _ _ R) | exact (optM_status _ _ _ (mapM_lib_member_status _ _) X)].
  - destruct (flags env mn) as [fl|e]; cbn in H; [|discriminate].
    destruct (mapM (lib_member cv (compile_per cv lf K env n K true mn)) root) as [root'|e] eqn:R; cbn in H; [|discriminate].
    destruct (optM (mapM (lib_member cv (compile_per cv lf K env n K true mn))) ext) as [ext'|e] eqn:X; cbn in H; [|discriminate].
    inversion H; subst; clear H. cbn [components written_components]. rewrite !map_app.
    f_equal; [exact (mapM_lib_member_status _ _ _ _ R) | exact (optM_status _ _ _ (mapM_lib_member_status _ _) X)].
Qed.

(** Twin components: two environments (e.g. one with, one without another
    type that has a component of the same identifier and referenced type,
    carrying whatever attributes) give the components of [t] the same status
    whenever [t] unfolds in both. *)
Corollary twin_components_independent lf K env1 env2 n k1 k2 mn1 mn2 t f1 f2 :
  unfold lf K env1 (S n) k1 mn1 t = Ok f1 ->
  unfold lf K env2 (S n) k2 mn2 t = Ok f2 ->
  match t with SSeq _ _ _ | SChoice _ _ => True | _ => False end ->
  map status (components f1) = map status (components f2).
Proof.
  intros H1 H2 Ht.
  rewrite (unfold_components_as_written _ _ _ _ _ _ _ _ H1 Ht).
  now rewrite (unfold_components_as_written _ _ _ _ _ _ _ _ H2 Ht).
Qed.

(** Non-trivial instance: [level Level (0..7) DEFAULT 3] in one SEQUENCE and a
    plain [level Level] in another, untagged, EXPLICIT TAGS. *)
Definition ex_twin : senv :=
  [SModule "M" "EXPLICIT" false []
     [("Level", SInt None);
      ("Config", SSeq false [("level", None, SRef "Level" None (Some (Cons (BNum 0) (BNum 7) false)), SDefault (TNum 3));
                             ("ok", None, SBool, SMandatory)] None);
      ("Report", SSeq false [("level", None, SRef "Level" None None, SMandatory);
                             ("ok", None, SBool, SMandatory)] None)] []].

Example ex_twin_attrs :
  attrs_of (flatten 8 8 ex_twin 4 "M" "Config") = Ok [("level", FDefault (VI 3)); ("ok", FMandatory)] /\
  attrs_of (flatten 8 8 ex_twin 4 "M" "Report") = Ok [("level", FMandatory); ("ok", FMandatory)].
Proof. split; vm_compute; reflexivity. Qed.

Print Assumptions unfold_components_as_written.
Print Assumptions compile_components_as_written.
Print Assumptions twin_components_independent.
Print Assumptions ex_twin_attrs.
