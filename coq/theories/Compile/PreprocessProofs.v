(** C13 — proofs about Compile/Preprocess.v: a second pre_process of an
    already pre-processed dictionary changes nothing ([preprocess_idempotent]),
    whatever options the two runs use when numeric_enums does not rewrite the
    dictionary ([preprocess_absorbs]); compiling after any history equals
    compiling the fresh dictionary ([history_independent]); the upstream
    numeric_enums rewrite refutes it ([history_independent_refuted]). *)
From Asn1V Require Import Base.Prelude Compile.Descr Compile.Preprocess.
Open Scope string_scope.
Open Scope list_scope.
Open Scope Z_scope.

(** * Induction over descriptors *)
Section NodeInd.
  Variable P : node -> Prop.
  Hypothesis Hm : P NMarker.
  Hypothesis Hc : forall n, P (NCompOf n).
  Hypothesis Hg : forall g, Forall P g -> P (NGroup g).
  Hypothesis Ht : forall a ms el,
      match ms return Prop with Some l => Forall P l | None => True end ->
      match el return Prop with Some e => P e | None => True end ->
      P (NType a ms el).
  Fixpoint node_ind' (n : node) : P n :=
    match n with
    | NMarker => Hm
    | NCompOf c => Hc c
    | NGroup g =>
      Hg g ((fix go (l : list node) : Forall P l :=
               match l with
               | [] => Forall_nil _
               | x :: r => Forall_cons _ (node_ind' x) (go r)
               end) g)
    | NType a ms el =>
      Ht a ms el
         (match ms as o return match o return Prop with Some l => Forall P l | None => True end with
          | Some l => (fix go (l : list node) : Forall P l :=
                         match l with
                         | [] => Forall_nil _
                         | x :: r => Forall_cons _ (node_ind' x) (go r)
                         end) l
          | None => I
          end)
         (match el as o return match o return Prop with Some e => P e | None => True end with
          | Some e => node_ind' e
          | None => I
          end)
    end.
End NodeInd.

(** * The result monad *)
Definition rmap {A B} (f : A -> B) (r : result A) : result B :=
  match r with Ok x => Ok (f x) | Err e => Err e end.

Lemma bind_ok {A B} (r : result A) (f : A -> result B) y :
  bind r f = Ok y -> exists x, r = Ok x /\ f x = Ok y.
Proof. destruct r; simpl; intros H; [eauto | discriminate]. Qed.

Ltac inv_ok :=
  repeat match goal with
         | H : bind _ _ = Ok _ |- _ =>
           let x := fresh "x" in let E := fresh "E" in
           apply bind_ok in H; destruct H as (x & E & H)
         | H : Ok _ = Ok _ |- _ => injection H as H; try subst
         | H : Err _ = Ok _ |- _ => discriminate H
         end.

(** * mapM *)
Lemma mapM_nil {A B} (f : A -> result B) : mapM f [] = Ok [].
Proof. reflexivity. Qed.
Lemma mapM_cons {A B} (f : A -> result B) x r :
  mapM f (x :: r) = (let* y := f x in let* r' := mapM f r in Ok (y :: r')).
Proof. reflexivity. Qed.

Lemma mapM_id {A} (f : A -> result A) l :
  Forall (fun x => f x = Ok x) l -> mapM f l = Ok l.
Proof.
  induction 1; [reflexivity|]. rewrite mapM_cons, H, IHForall. reflexivity.
Qed.

Lemma mapM_idem {A} (f : A -> result A) l l' :
  Forall (fun x => forall y, f x = Ok y -> f y = Ok y) l ->
  mapM f l = Ok l' -> mapM f l' = Ok l'.
Proof.
  intros H; revert l'; induction H; intros l' E.
  - simpl in E. inv_ok. reflexivity.
  - rewrite mapM_cons in E. inv_ok. rewrite mapM_cons, (H _ E0), (IHForall _ E1). reflexivity.
Qed.

Lemma mapM_commute {A B A' B'} (F : A -> result B) (F' : A' -> result B') (g : A -> A') (h : B -> B') l :
  Forall (fun x => F' (g x) = rmap h (F x)) l ->
  mapM F' (map g l) = rmap (map h) (mapM F l).
Proof.
  induction 1; [reflexivity|]. simpl map. rewrite !mapM_cons, H, IHForall.
  destruct (F x); simpl; [|reflexivity]. destruct (mapM F l); reflexivity.
Qed.

Lemma mapM_pres {A C} (f : A -> result A) (h : A -> C) l l' :
  Forall (fun x => forall y, f x = Ok y -> h y = h x) l ->
  mapM f l = Ok l' -> map h l' = map h l.
Proof.
  intros H; revert l'; induction H; intros l' E.
  - simpl in E. inv_ok. reflexivity.
  - rewrite mapM_cons in E. inv_ok. simpl. rewrite (H _ E0), (IHForall _ E1). reflexivity.
Qed.

Lemma mapM_ext {A B} (f g : A -> result B) l :
  Forall (fun x => f x = g x) l -> mapM f l = mapM g l.
Proof. induction 1; [reflexivity|]. rewrite !mapM_cons, H, IHForall. reflexivity. Qed.

Lemma mapM_length {A B} (f : A -> result B) l l' : mapM f l = Ok l' -> length l' = length l.
Proof.
  revert l'; induction l; intros l' E; simpl in E; inv_ok; [reflexivity|].
  simpl. f_equal. eauto.
Qed.

Lemma optM_idem {A} (f : A -> result A) o o' :
  match o with Some x => forall y, f x = Ok y -> f y = Ok y | None => True end ->
  optM f o = Ok o' -> optM f o' = Ok o'.
Proof.
  destruct o; simpl; intros H E; inv_ok; [|reflexivity]. simpl. rewrite (H _ E0). reflexivity.
Qed.

(** * Attribute maps *)
Fixpoint map_attrs (f : attrs -> attrs) (n : node) : node :=
  match n with
  | NMarker => NMarker
  | NCompOf c => NCompOf c
  | NGroup g => NGroup (map (map_attrs f) g)
  | NType a ms el => NType (f a) (option_map (map (map_attrs f)) ms) (option_map (map_attrs f) el)
  end.

Definition clr_tag (a : attrs) : attrs := set_tag a None.
Definition clr_def (a : attrs) : attrs := set_default a None.

Lemma map_eq_Forall {A B} (f g : A -> B) l : Forall (fun x => f x = g x) l -> map f l = map g l.
Proof. induction 1; simpl; congruence. Qed.

Lemma is_marker_map f x : is_marker (map_attrs f x) = is_marker x.
Proof. destruct x; reflexivity. Qed.

Lemma existsb_marker_map f l : existsb is_marker (map (map_attrs f) l) = existsb is_marker l.
Proof. induction l; simpl; [reflexivity|]. rewrite is_marker_map, IHl. reflexivity. Qed.

Lemma add_marker_map f l : add_marker (map (map_attrs f) l) = map (map_attrs f) (add_marker l).
Proof.
  unfold add_marker. rewrite existsb_marker_map. destruct (existsb is_marker l); [reflexivity|].
  rewrite map_app. reflexivity.
Qed.

(** Induction where the hypothesis for an item of a 'members' list already
    looks through one level of [[ ]] group. *)
Definition memP (P : node -> Prop) (x : node) : Prop :=
  match x with NGroup g => Forall P g | _ => P x end.

Lemma node_ind2 (P : node -> Prop) :
  P NMarker -> (forall c, P (NCompOf c)) -> (forall g, Forall P g -> P (NGroup g)) ->
  (forall a ms el,
      match ms return Prop with Some l => Forall (memP P) l | None => True end ->
      match el return Prop with Some e => P e | None => True end -> P (NType a ms el)) ->
  forall n, P n.
Proof.
  intros Hm Hc Hg Ht n.
  assert (Q : P n /\ memP P n); [|exact (proj1 Q)].
  induction n using node_ind'.
  - split; [exact Hm | exact Hm].
  - split; [apply Hc | apply Hc].
  - assert (F : Forall P g) by (eapply Forall_impl; [|exact H]; intros x Hx; exact (proj1 Hx)).
    split; [apply Hg; exact F | exact F].
  - assert (X : P (NType a ms el)).
    { apply Ht.
      - destruct ms; [|exact I]. eapply Forall_impl; [|exact H]. intros x Hx; exact (proj2 Hx).
      - destruct el; [exact (proj1 H0) | exact I]. }
    split; exact X.
Qed.

Lemma memP_impl (P Q : node -> Prop) x : (forall y, P y -> Q y) -> memP P x -> memP Q x.
Proof.
  intros H. destruct x; simpl; auto. intros F. eapply Forall_impl; [|exact F]. auto.
Qed.

(** * EXTENSIBILITY IMPLIED *)
Lemma mapM_app {A B} (f : A -> result B) l1 l2 :
  mapM f (l1 ++ l2) =
  (let* a := mapM f l1 in let* b := mapM f l2 in Ok (a ++ b)).
Proof.
  induction l1; simpl app.
  - simpl. destruct (mapM f l2); reflexivity.
  - rewrite !mapM_cons, IHl1. destruct (f a); simpl; [|reflexivity].
    destruct (mapM f l1); simpl; [|reflexivity]. destruct (mapM f l2); reflexivity.
Qed.

Lemma add_marker_idem l : add_marker (add_marker l) = add_marker l.
Proof.
  unfold add_marker. destruct (existsb is_marker l) eqn:E; [rewrite E; reflexivity|].
  rewrite existsb_app. simpl. rewrite orb_true_r. reflexivity.
Qed.

Lemma ext_node_NType var a ms el y :
  ext_node var (NType a ms el) = Ok y -> exists ms' el', y = NType a ms' el'.
Proof.
  simpl. intros H. inv_ok. destruct ms; inv_ok; eauto.
Qed.

Lemma optM_commute {A A'} (F : A -> result A) (F' : A' -> result A') (g : A -> A') o :
  match o with Some x => F' (g x) = rmap g (F x) | None => True end ->
  optM F' (option_map g o) = rmap (option_map g) (optM F o).
Proof.
  destruct o; simpl; intros H; [|reflexivity]. rewrite H. destruct (F a); reflexivity.
Qed.

Lemma ext_member_map var f x :
  memP (fun n => ext_node var (map_attrs f n) = rmap (map_attrs f) (ext_node var n)) x ->
  ext_member (ext_node var) (map_attrs f x) = rmap (map_attrs f) (ext_member (ext_node var) x).
Proof.
  destruct x; simpl; intros H; try exact H; try reflexivity.
  rewrite (mapM_commute (ext_node var) (ext_node var) (map_attrs f) (map_attrs f) g H).
  destruct (mapM (ext_node var) g); reflexivity.
Qed.

Lemma ext_map var f n :
  ext_node var (map_attrs f n) = rmap (map_attrs f) (ext_node var n).
Proof.
  induction n using node_ind2; try reflexivity.
  cbn [map_attrs ext_node].
  assert (Eel : (if v_ext_elem var then optM (ext_node var) (option_map (map_attrs f) el)
                 else Ok (option_map (map_attrs f) el)) =
                rmap (option_map (map_attrs f))
                     (if v_ext_elem var then optM (ext_node var) el else Ok el)).
  { destruct (v_ext_elem var); [|reflexivity]. apply optM_commute. destruct el; auto. }
  rewrite Eel. destruct (if v_ext_elem var then optM (ext_node var) el else Ok el) as [el'|e]; simpl; [|reflexivity].
  destruct ms as [l|]; simpl; [|reflexivity].
  rewrite (mapM_commute (ext_member (ext_node var)) (ext_member (ext_node var))
                        (map_attrs f) (map_attrs f) l).
  - destruct (mapM (ext_member (ext_node var)) l); simpl; [|reflexivity].
    rewrite add_marker_map. reflexivity.
  - eapply Forall_impl; [|exact H]. intros x Hx. apply ext_member_map. exact Hx.
Qed.

Lemma ext_member_idem var x y :
  memP (fun n => forall n', ext_node var n = Ok n' -> ext_node var n' = Ok n') x ->
  ext_member (ext_node var) x = Ok y -> ext_member (ext_node var) y = Ok y.
Proof.
  destruct x; simpl; intros H E.
  - inv_ok. reflexivity.
  - inv_ok. reflexivity.
  - inv_ok. simpl. rewrite (mapM_idem _ _ _ H E0). reflexivity.
  - pose proof (ext_node_NType _ _ _ _ _ E) as (ms' & el' & ->).
    simpl. apply (H _ E).
Qed.

Lemma ext_idem var n n' : ext_node var n = Ok n' -> ext_node var n' = Ok n'.
Proof.
  revert n'. induction n using node_ind2; intros n' E; simpl in E; inv_ok; try reflexivity.
  assert (Eel : (if v_ext_elem var then optM (ext_node var) x else Ok x) = Ok x).
  { destruct (v_ext_elem var); [|reflexivity]. eapply optM_idem; [|exact E0]. destruct el; auto. }
  destruct ms as [l|]; inv_ok.
  - simpl. rewrite Eel. simpl.
    assert (M : mapM (ext_member (ext_node var)) x0 = Ok x0).
    { eapply mapM_idem; [|exact E1]. eapply Forall_impl; [|exact H].
      intros y Hy z. apply ext_member_idem. exact Hy. }
    assert (M2 : mapM (ext_member (ext_node var)) (add_marker x0) = Ok (add_marker x0)).
    { unfold add_marker. destruct (existsb is_marker x0); [exact M|].
      rewrite mapM_app, M. reflexivity. }
    rewrite M2. simpl. rewrite add_marker_idem. reflexivity.
  - simpl. rewrite Eel. reflexivity.
Qed.

Lemma add_marker_length_eq l : length (add_marker l) = length l -> add_marker l = l.
Proof.
  unfold add_marker. destruct (existsb is_marker l); [reflexivity|].
  rewrite app_length. simpl. lia.
Qed.

Lemma mapM_inj {A C} (f : A -> result A) (h : A -> C) l l' :
  Forall (fun x => forall y, f x = Ok y -> h y = h x -> y = x) l ->
  mapM f l = Ok l' -> map h l' = map h l -> l' = l.
Proof.
  intros H; revert l'; induction H; intros l' E M.
  - simpl in E. inv_ok. reflexivity.
  - rewrite mapM_cons in E. inv_ok. simpl in M. injection M as M1 M2.
    f_equal; [apply H; assumption | apply IHForall; assumption].
Qed.

Lemma ext_member_inj var f x y :
  memP (fun n => forall n', ext_node var n = Ok n' -> map_attrs f n' = map_attrs f n -> n' = n) x ->
  ext_member (ext_node var) x = Ok y -> map_attrs f y = map_attrs f x -> y = x.
Proof.
  destruct x; simpl; intros H E M.
  - inv_ok. reflexivity.
  - inv_ok. reflexivity.
  - inv_ok. simpl in M. injection M as M. f_equal. eapply mapM_inj; eauto.
  - apply H; assumption.
Qed.

(** ext_node only appends markers: when the result has the shape of the
    argument it is the argument. *)
Lemma ext_inj var f n n' :
  ext_node var n = Ok n' -> map_attrs f n' = map_attrs f n -> n' = n.
Proof.
  revert n'. induction n using node_ind2; intros n' E M; simpl in E; inv_ok; try reflexivity.
  assert (Eel : option_map (map_attrs f) x = option_map (map_attrs f) el -> x = el).
  { intros Mx. destruct (v_ext_elem var); inv_ok; [|reflexivity].
    destruct el; simpl in E0; inv_ok; [|reflexivity].
    simpl in Mx. injection Mx as Mx. f_equal. apply H0; assumption. }
  destruct ms as [l|]; inv_ok; simpl in M.
  - injection M as M1 M2. rewrite (Eel M2). f_equal. f_equal.
    assert (L : length (add_marker x0) = length l).
    { apply (f_equal (@length _)) in M1. rewrite !map_length in M1. exact M1. }
    pose proof (mapM_length _ _ _ E1) as L2.
    assert (AM : add_marker x0 = x0) by (apply add_marker_length_eq; lia).
    rewrite AM in *.
    eapply mapM_inj; [|exact E1|exact M1].
    eapply Forall_impl; [|exact H]. intros y Hy z. apply ext_member_inj. exact Hy.
  - injection M as M1. rewrite (Eel M1). reflexivity.
Qed.

Lemma ext_fixed_map var f n :
  ext_node var (map_attrs f n) = Ok (map_attrs f n) -> ext_node var n = Ok n.
Proof.
  rewrite ext_map. destruct (ext_node var n) as [n'|] eqn:E; simpl; intros H; inv_ok.
  f_equal. eapply ext_inj; eauto.
Qed.

Lemma ext_fixed_of_map var f n :
  ext_node var n = Ok n -> ext_node var (map_attrs f n) = Ok (map_attrs f n).
Proof. intros H. rewrite ext_map, H. reflexivity. Qed.

(** E-fixedness is transported along any rewrite that only touches attributes. *)
Lemma ext_fixed_transfer var f n m :
  map_attrs f m = map_attrs f n -> ext_node var n = Ok n -> ext_node var m = Ok m.
Proof.
  intros M H. apply (ext_fixed_map var f). rewrite M. apply ext_fixed_of_map. exact H.
Qed.

(** * Tags *)
Lemma thread_nil F k : thread F k [] = Ok ([], k).
Proof. reflexivity. Qed.
Lemma thread_cons F k x r :
  thread F k (x :: r) =
  match x with
  | NMarker => let* r' := thread F k r in Ok (NMarker :: fst r', snd r')
  | _ => let* x' := F k x in let* r' := thread F (next k) r in Ok (x' :: fst r', snd r')
  end.
Proof. destruct x; reflexivity. Qed.
Lemma thread_top_nil F k : thread_top F k [] = Ok ([], k).
Proof. reflexivity. Qed.
Lemma thread_top_cons F k x r :
  thread_top F k (x :: r) =
  match x with
  | NMarker => let* r' := thread_top F k r in Ok (NMarker :: fst r', snd r')
  | NGroup g => let* g' := thread F k g in
                let* r' := thread_top F (snd g') r in Ok (NGroup (fst g') :: fst r', snd r')
  | _ => let* x' := F k x in let* r' := thread_top F (next k) r in Ok (x' :: fst r', snd r')
  end.
Proof. destruct x; reflexivity. Qed.

Definition mapfst (f : list node -> list node) (p : list node * option Z) := (f (fst p), snd p).

Lemma thread_commute F f l : forall k,
  Forall (fun x => forall k, F k (map_attrs f x) = rmap (map_attrs f) (F k x)) l ->
  thread F k (map (map_attrs f) l) = rmap (mapfst (map (map_attrs f))) (thread F k l).
Proof.
  induction l as [|x r IH]; intros k H; [reflexivity|].
  inversion H as [|? ? Hx Hr]; subst. simpl map. rewrite !thread_cons.
  destruct x; cbn [map_attrs]; simpl in Hx.
  - rewrite (IH _ Hr); destruct (thread F k r) as [[? ?]|]; reflexivity.
  - pose proof (Hx k) as Hk. destruct (F k (NCompOf n)) as [y|]; simpl in *; [|reflexivity].
    injection Hk as Hk.
    rewrite (IH _ Hr); destruct (thread F (next k) r) as [[? ?]|]; simpl; [|reflexivity].
    unfold mapfst; simpl. rewrite <- Hk. reflexivity.
  - rewrite Hx; destruct (F k (NGroup g)); simpl; [|reflexivity].
    rewrite (IH _ Hr); destruct (thread F (next k) r) as [[? ?]|]; reflexivity.
  - rewrite Hx; destruct (F k (NType a members element)); simpl; [|reflexivity].
    rewrite (IH _ Hr); destruct (thread F (next k) r) as [[? ?]|]; reflexivity.
Qed.

Lemma thread_top_commute F f l : forall k,
  Forall (memP (fun x => forall k, F k (map_attrs f x) = rmap (map_attrs f) (F k x))) l ->
  thread_top F k (map (map_attrs f) l) = rmap (mapfst (map (map_attrs f))) (thread_top F k l).
Proof.
  induction l as [|x r IH]; intros k H; [reflexivity|].
  inversion H as [|? ? Hx Hr]; subst. simpl map. rewrite !thread_top_cons.
  destruct x; cbn [map_attrs]; simpl in Hx.
  - rewrite (IH _ Hr); destruct (thread_top F k r) as [[? ?]|]; reflexivity.
  - pose proof (Hx k) as Hk. destruct (F k (NCompOf n)) as [y|]; simpl in *; [|reflexivity].
    injection Hk as Hk.
    rewrite (IH _ Hr); destruct (thread_top F (next k) r) as [[? ?]|]; simpl; [|reflexivity].
    unfold mapfst; simpl. rewrite <- Hk. reflexivity.
  - rewrite (thread_commute F f g k Hx). destruct (thread F k g) as [[g1 k1]|]; simpl; [|reflexivity].
    rewrite (IH _ Hr); destruct (thread_top F k1 r) as [[? ?]|]; reflexivity.
  - rewrite Hx; destruct (F k (NType a members element)); simpl; [|reflexivity].
    rewrite (IH _ Hr); destruct (thread_top F (next k) r) as [[? ?]|]; reflexivity.
Qed.

Lemma thread_pres {C} F (h : node -> C) l : forall k l' k',
  Forall (fun x => forall k y, F k x = Ok y -> h y = h x) l ->
  thread F k l = Ok (l', k') -> map h l' = map h l.
Proof.
  induction l as [|x r IH]; intros k l' k' H E.
  - simpl in E. inv_ok. reflexivity.
  - inversion H as [|? ? Hx Hr]; subst. rewrite thread_cons in E.
    destruct x; inv_ok; simpl; f_equal;
      try (eapply Hx; eassumption);
      match goal with X : thread F _ r = Ok ?p |- _ => destruct p; eapply IH; eauto end.
Qed.

Lemma thread_top_pres F f l : forall k l' k',
  Forall (memP (fun x => forall k y, F k x = Ok y -> map_attrs f y = map_attrs f x)) l ->
  thread_top F k l = Ok (l', k') -> map (map_attrs f) l' = map (map_attrs f) l.
Proof.
  induction l as [|x r IH]; intros k l' k' H E.
  - simpl in E. inv_ok. reflexivity.
  - inversion H as [|? ? Hx Hr]; subst. rewrite thread_top_cons in E. simpl in Hx.
    destruct x; inv_ok; simpl; f_equal;
      try (eapply Hx; eassumption);
      try match goal with X : thread_top F _ r = Ok ?p |- _ => destruct p; eapply IH; eauto end.
    f_equal. destruct x. eapply thread_pres; eauto.
Qed.

(** attributes *)
Lemma a_tag_set_tag a t : a_tag (set_tag a t) = t.
Proof. destruct a; reflexivity. Qed.
Lemma a_type_set_tag a t : a_type (set_tag a t) = a_type a.
Proof. destruct a; reflexivity. Qed.
Lemma a_type_set_default a t : a_type (set_default a t) = a_type a.
Proof. destruct a; reflexivity. Qed.
Lemma a_tag_set_default a t : a_tag (set_default a t) = a_tag a.
Proof. destruct a; reflexivity. Qed.
Lemma set_tag_set_tag a t u : set_tag (set_tag a t) u = set_tag a u.
Proof. destruct a; reflexivity. Qed.
Lemma set_tag_same a : set_tag a (a_tag a) = a.
Proof. destruct a; reflexivity. Qed.
Lemma set_tag_set_default a t d : set_tag (set_default a d) t = set_default (set_tag a t) d.
Proof. destruct a; reflexivity. Qed.

Lemma apply_number_clr_def k a : apply_number k (clr_def a) = clr_def (apply_number k a).
Proof.
  unfold apply_number, clr_def. destruct k; [|reflexivity].
  rewrite a_tag_set_default. destruct (a_tag a) as [[? ? ?]|]; apply set_tag_set_default.
Qed.

Lemma clr_tag_apply_number k a : clr_tag (apply_number k a) = clr_tag a.
Proof.
  unfold apply_number, clr_tag. destruct k; [|reflexivity].
  destruct (a_tag a) as [[? ? ?]|]; apply set_tag_set_tag.
Qed.

Lemma set_kind_clr_def fuel sk mn mtags a :
  set_kind fuel sk mn mtags (clr_def a) = rmap clr_def (set_kind fuel sk mn mtags a).
Proof.
  unfold set_kind, clr_def. rewrite a_tag_set_default, a_type_set_default.
  destruct (a_tag a) as [[num c kd]|]; [|reflexivity].
  destruct (resolve_name fuel sk mn (a_type a)); simpl; [|reflexivity].
  destruct kd; simpl; [reflexivity|]. rewrite set_tag_set_default. reflexivity.
Qed.

Lemma set_kind_pres fuel sk mn mtags a a' :
  set_kind fuel sk mn mtags a = Ok a' -> clr_tag a' = clr_tag a.
Proof.
  unfold set_kind. destruct (a_tag a) as [[num c kd]|]; intros H; inv_ok; [|reflexivity].
  destruct kd; inv_ok; [reflexivity|]. unfold clr_tag. apply set_tag_set_tag.
Qed.

Lemma set_kind_type fuel sk mn mtags a a' :
  set_kind fuel sk mn mtags a = Ok a' -> a_type a' = a_type a.
Proof.
  intros H. apply set_kind_pres in H. apply (f_equal a_type) in H.
  unfold clr_tag in H. rewrite !a_type_set_tag in H. exact H.
Qed.

Lemma set_kind_idem fuel sk mn mtags a a' :
  set_kind fuel sk mn mtags a = Ok a' -> set_kind fuel sk mn mtags a' = Ok a'.
Proof.
  intros H. pose proof (set_kind_type _ _ _ _ _ _ H) as Ty. revert H. unfold set_kind.
  destruct (a_tag a) as [[num c kd]|] eqn:Ta; intros H; inv_ok.
  - destruct kd; inv_ok.
    + rewrite Ta, E. reflexivity.
    + rewrite a_tag_set_tag. rewrite a_type_set_tag in *. rewrite E. reflexivity.
  - rewrite Ta. reflexivity.
Qed.

Lemma set_kind_has_tag fuel sk mn mtags a a' :
  set_kind fuel sk mn mtags a = Ok a' ->
  (match a_tag a' with Some _ => true | None => false end) =
  (match a_tag a with Some _ => true | None => false end).
Proof.
  unfold set_kind. destruct (a_tag a) as [[num c kd]|] eqn:Ta; intros H; inv_ok.
  - destruct kd; inv_ok; [rewrite Ta; reflexivity|]. rewrite a_tag_set_tag. reflexivity.
  - rewrite Ta. reflexivity.
Qed.

Lemma apply_number_None a : apply_number None a = a.
Proof. reflexivity. Qed.

Lemma apply_number_has_tag z a :
  match a_tag (apply_number (Some z) a) with Some _ => true | None => false end = true.
Proof.
  unfold apply_number. destruct (a_tag a) as [[? ? ?]|]; rewrite a_tag_set_tag; reflexivity.
Qed.

Lemma apply_number_keeps_tag k a :
  match a_tag a with Some _ => true | None => false end = true ->
  match a_tag (apply_number k a) with Some _ => true | None => false end = true.
Proof.
  destruct k; [intros _; apply apply_number_has_tag | auto].
Qed.

Section Tag.
  Variable fuel : nat.
  Variable sk : table (option head).
  Variable mn mtags : string.
  Notation T := (tag_node fuel sk mn mtags).

  Lemma tag_node_NType k x y :
    T k x = Ok y ->
    exists a ms el a' ms' el',
      x = NType a ms el /\ y = NType a' ms' el' /\
      set_kind fuel sk mn mtags (apply_number k a) = Ok a'.
  Proof.
    destruct x; simpl; intros H; try discriminate. inv_ok.
    do 6 eexists. split; [reflexivity|]. split; [reflexivity|]. exact E.
  Qed.

  Lemma has_tag_clr_def x : has_tag (map_attrs clr_def x) = has_tag x.
  Proof. destruct x; simpl; try reflexivity. unfold clr_def. rewrite a_tag_set_default. reflexivity. Qed.

  Lemma any_tagged_clr_def l : any_tagged (map (map_attrs clr_def) l) = any_tagged l.
  Proof.
    unfold any_tagged. induction l as [|x r IH]; [reflexivity|]. simpl. rewrite IH. f_equal.
    destruct x; simpl; try reflexivity.
    - induction g as [|y g IHg]; [reflexivity|]. simpl. rewrite has_tag_clr_def, IHg. reflexivity.
    - unfold clr_def. rewrite a_tag_set_default. reflexivity.
  Qed.

  Lemma tag_map k n : T k (map_attrs clr_def n) = rmap (map_attrs clr_def) (T k n).
  Proof.
    revert k. induction n using node_ind2; intros k; try reflexivity.
    cbn [map_attrs tag_node].
    rewrite apply_number_clr_def, set_kind_clr_def.
    destruct (set_kind fuel sk mn mtags (apply_number k a)) as [a'|]; simpl; [|reflexivity].
    assert (Ems :
      match option_map (map (map_attrs clr_def)) ms with
      | Some l => let* r := thread_top T (auto_start mtags l) l in Ok (Some (fst r))
      | None => Ok None
      end =
      rmap (option_map (map (map_attrs clr_def)))
           (match ms with
            | Some l => let* r := thread_top T (auto_start mtags l) l in Ok (Some (fst r))
            | None => Ok None
            end)).
    { destruct ms as [l|]; [|reflexivity]. simpl option_map. cbv iota beta.
      unfold auto_start. rewrite any_tagged_clr_def.
      rewrite thread_top_commute by exact H.
      destruct (thread_top T _ l) as [[? ?]|]; reflexivity. }
    rewrite Ems.
    destruct (match ms with
              | Some l => let* r := thread_top T (auto_start mtags l) l in Ok (Some (fst r))
              | None => Ok None
              end) as [ms'|]; simpl; [|reflexivity].
    rewrite (optM_commute (T None) (T None) (map_attrs clr_def) el)
      by (destruct el; auto).
    destruct (optM (T None) el); reflexivity.
  Qed.

  Lemma tag_pres k n n' : T k n = Ok n' -> map_attrs clr_tag n' = map_attrs clr_tag n.
  Proof.
    revert k n'. induction n using node_ind2; intros k n' E; simpl in E; try discriminate.
    inv_ok. simpl. f_equal.
    - apply set_kind_pres in E0. rewrite E0. apply clr_tag_apply_number.
    - destruct ms as [l|]; inv_ok; [|reflexivity]. simpl. f_equal.
      match goal with X : thread_top _ _ l = Ok ?p |- _ =>
        destruct p as [l' k']; simpl; eapply thread_top_pres; [|exact X]; exact H end.
    - match goal with X : optM _ el = Ok _ |- _ => rename X into Eel end.
      destruct el as [e|]; simpl in Eel; inv_ok; [|reflexivity]. simpl. f_equal. eapply H0; eauto.
  Qed.
End Tag.

Definition tagged_or_marker (y : node) : bool := is_marker y || has_tag y.
Definition item_tagged (y : node) : bool :=
  match y with
  | NMarker => true
  | NGroup g => forallb tagged_or_marker g
  | _ => has_tag y
  end.
Definition inert (l : list node) : bool :=
  forallb (fun x => match x with NMarker => true | NGroup g => forallb is_marker g | _ => false end) l.

Lemma thread_markers F k g : forallb is_marker g = true -> thread F k g = Ok (g, k).
Proof.
  induction g as [|x r IH]; [reflexivity|]. intros H. simpl in H. apply andb_prop in H as [Hx Hr].
  destruct x; try discriminate. rewrite thread_cons, (IH Hr). reflexivity.
Qed.

Lemma thread_top_inert F l : forall k, inert l = true -> thread_top F k l = Ok (l, k).
Proof.
  induction l as [|x r IH]; intros k; [reflexivity|]. intros H. simpl in H. apply andb_prop in H as [Hx Hr].
  destruct x; try discriminate; rewrite thread_top_cons.
  - rewrite (IH _ Hr). reflexivity.
  - rewrite (thread_markers F k g Hx). simpl. rewrite (IH _ Hr). reflexivity.
Qed.

Section TagIdem.
  Variable fuel : nat.
  Variable sk : table (option head).
  Variable mn mtags : string.
  Notation T := (tag_node fuel sk mn mtags).

  Lemma tag_has_tag_some z x y : T (Some z) x = Ok y -> has_tag y = true.
  Proof.
    intros H. apply tag_node_NType in H as (a & ms & el & a' & ms' & el' & -> & -> & S).
    simpl. rewrite (set_kind_has_tag _ _ _ _ _ _ S). apply apply_number_has_tag.
  Qed.

  Lemma tag_keeps_tag k x y : T k x = Ok y -> has_tag x = true -> has_tag y = true.
  Proof.
    intros H. apply tag_node_NType in H as (a & ms & el & a' & ms' & el' & -> & -> & S).
    simpl. rewrite (set_kind_has_tag _ _ _ _ _ _ S). apply apply_number_keeps_tag.
  Qed.

  Lemma next_some z : next (Some z) = Some (Z.succ z).
  Proof. reflexivity. Qed.

  Lemma thread_all_tagged g : forall z g' k',
    thread T (Some z) g = Ok (g', k') ->
    forallb tagged_or_marker g' = true /\ exists z', k' = Some z'.
  Proof.
    induction g as [|x r IH]; intros z g' k' E.
    - simpl in E. inv_ok. split; [reflexivity|eauto].
    - rewrite thread_cons in E.
      destruct x; inv_ok;
        match goal with X : thread _ _ r = Ok ?p |- _ => destruct p as [r1 k1] end; simpl fst; simpl snd;
        try rewrite next_some in *;
        match goal with X : thread _ (Some _) r = Ok _ |- _ => destruct (IH _ _ _ X) as [A B] end;
        (split; [|exact B]); simpl; rewrite A; try reflexivity;
        match goal with X : T (Some _) _ = Ok _ |- _ => apply tag_has_tag_some in X end;
        unfold tagged_or_marker;
        match goal with X : has_tag _ = true |- _ => rewrite X end; rewrite orb_true_r; reflexivity.
  Qed.

  Lemma thread_top_all_tagged l : forall z l' k',
    thread_top T (Some z) l = Ok (l', k') -> forallb item_tagged l' = true.
  Proof.
    induction l as [|x r IH]; intros z l' k' E.
    - simpl in E. inv_ok. reflexivity.
    - rewrite thread_top_cons in E. destruct x; inv_ok.
      + match goal with X : thread_top _ _ r = Ok ?p |- _ => destruct p as [r1 k1]; simpl; eapply IH; eauto end.
      + match goal with X : thread_top _ _ r = Ok ?p |- _ => destruct p as [r1 k1] end. simpl.
        rewrite next_some in *.
        match goal with X : T (Some _) _ = Ok _ |- _ => pose proof (tag_has_tag_some _ _ _ X) as Ht end.
        match goal with X : T (Some _) _ = Ok _ |- _ =>
          apply tag_node_NType in X as (a & ms & el & a' & ms' & el' & ? & -> & S) end.
        simpl in *. rewrite Ht. simpl. eapply IH; eauto.
      + match goal with X : thread _ _ g = Ok ?p |- _ => destruct p as [g1 kg] end.
        match goal with X : thread_top _ _ r = Ok ?p |- _ => destruct p as [r1 k1] end. simpl in *.
        match goal with X : thread _ (Some _) g = Ok _ |- _ => destruct (thread_all_tagged _ _ _ _ X) as [A [z' ->]] end.
        rewrite A. simpl. eapply IH; eauto.
      + match goal with X : thread_top _ _ r = Ok ?p |- _ => destruct p as [r1 k1] end. simpl.
        rewrite next_some in *.
        match goal with X : T (Some _) _ = Ok _ |- _ => pose proof (tag_has_tag_some _ _ _ X) as Ht end.
        match goal with X : T (Some _) _ = Ok _ |- _ =>
          apply tag_node_NType in X as (a' & ms & el & a'' & ms' & el' & ? & -> & S) end.
        simpl in *. rewrite Ht. simpl. eapply IH; eauto.
  Qed.

  Lemma all_tagged_untagged_inert l :
    forallb item_tagged l = true -> any_tagged l = false -> inert l = true.
  Proof.
    unfold any_tagged, inert. induction l as [|x r IH]; [reflexivity|]. simpl. intros A B.
    apply andb_prop in A as [Ax Ar]. apply orb_false_elim in B as [Bx Br].
    rewrite (IH Ar Br), andb_true_r. destruct x; simpl in *; try reflexivity; try congruence.
    clear -Ax Bx. induction g as [|y g IHg]; [reflexivity|]. simpl in *.
    apply andb_prop in Ax as [A1 A2]. apply orb_false_elim in Bx as [B1 B2].
    rewrite (IHg A2 B2), andb_true_r. unfold tagged_or_marker in A1. rewrite B1, orb_false_r in A1. exact A1.
  Qed.

  Lemma thread_keeps_tagged g : forall k g' k',
    thread T k g = Ok (g', k') -> existsb has_tag g = true -> existsb has_tag g' = true.
  Proof.
    induction g as [|x r IH]; intros k g' k' E H; [discriminate|].
    rewrite thread_cons in E. simpl in H.
    assert (G : forall k y r1 k1, T k x = Ok y -> thread T (next k) r = Ok (r1, k1) ->
                                  existsb has_tag (y :: r1) = true).
    { intros k0 y r1 k1 Ty Tr. simpl. apply orb_true_iff. apply orb_true_iff in H as [H|H].
      - left. eapply tag_keeps_tag; eauto.
      - right. eapply IH; eauto. }
    destruct x; inv_ok;
      match goal with X : thread _ _ r = Ok ?p |- _ => destruct p as [r1 k1] end; simpl fst.
    - simpl. eapply IH; eauto.
    - eapply G; eauto.
    - eapply G; eauto.
    - eapply G; eauto.
  Qed.

  Lemma thread_top_keeps_tagged l : forall k l' k',
    thread_top T k l = Ok (l', k') -> any_tagged l = true -> any_tagged l' = true.
  Proof.
    unfold any_tagged. induction l as [|x r IH]; intros k l' k' E H; [discriminate|].
    rewrite thread_top_cons in E. simpl in H.
    destruct x; inv_ok;
      try match goal with X : thread _ _ g = Ok ?p |- _ => destruct p as [g1 kg] end;
      match goal with X : thread_top _ _ r = Ok ?p |- _ => destruct p as [r1 k1] end; simpl fst; simpl in H.
    - simpl. eapply IH; eauto.
    - simpl. apply orb_true_iff; apply orb_true_iff in H as [H|H]; [discriminate|right; eapply IH; eauto].
    - simpl. apply orb_true_iff; apply orb_true_iff in H as [H|H]; [left|right; eapply IH; eauto].
      eapply thread_keeps_tagged; eauto.
    - apply orb_true_iff in H as [H|H].
      + match goal with X : T _ _ = Ok ?y |- _ => pose proof (tag_keeps_tag _ _ _ X H) as Hy;
          apply tag_node_NType in X as (a' & ms & el & a'' & ms' & el' & ? & -> & S) end.
        simpl in *. rewrite Hy. reflexivity.
      + simpl. apply orb_true_iff. right. eapply IH; eauto.
  Qed.

  Definition tag_idem_at (x : node) : Prop := forall k y, T k x = Ok y -> T None y = Ok y.

  Lemma thread_None_idem g : forall k g' k',
    Forall tag_idem_at g -> thread T k g = Ok (g', k') -> thread T None g' = Ok (g', None).
  Proof.
    induction g as [|x r IH]; intros k g' k' H E.
    - simpl in E. inv_ok. reflexivity.
    - inversion H as [|? ? Hx Hr]; subst. rewrite thread_cons in E.
      destruct x; inv_ok;
        match goal with X : thread _ _ r = Ok ?p |- _ => destruct p as [r1 k1]; pose proof (IH _ _ _ Hr X) as R end;
        simpl fst; rewrite thread_cons;
        try (rewrite R; reflexivity);
        match goal with X : T _ _ = Ok ?y |- _ => pose proof (Hx _ _ X) as Hy;
          apply tag_node_NType in X as (a' & ms & el & a'' & ms' & el' & ? & -> & S) end;
        rewrite Hy; simpl; rewrite R; reflexivity.
  Qed.

  Lemma thread_top_None_idem l : forall k l' k',
    Forall (memP tag_idem_at) l -> thread_top T k l = Ok (l', k') ->
    thread_top T None l' = Ok (l', None).
  Proof.
    induction l as [|x r IH]; intros k l' k' H E.
    - simpl in E. inv_ok. reflexivity.
    - inversion H as [|? ? Hx Hr]; subst. rewrite thread_top_cons in E. simpl in Hx.
      destruct x; inv_ok;
        try match goal with X : thread _ _ g = Ok ?p |- _ => destruct p as [g1 kg] end;
        match goal with X : thread_top _ _ r = Ok ?p |- _ => destruct p as [r1 k1]; pose proof (IH _ _ _ Hr X) as R end;
        simpl fst; rewrite thread_top_cons.
      + rewrite R. reflexivity.
      + match goal with X : T _ _ = Ok ?y |- _ => apply tag_node_NType in X as (a' & ms & el & a'' & ms' & el' & ? & -> & S) end.
        discriminate.
      + match goal with X : thread _ _ g = Ok _ |- _ => rewrite (thread_None_idem _ _ _ _ Hx X) end.
        simpl. rewrite R. reflexivity.
      + match goal with X : T _ _ = Ok ?y |- _ => pose proof (Hx _ _ X) as Hy;
          apply tag_node_NType in X as (a' & ms & el & a'' & ms' & el' & ? & -> & S) end.
        rewrite Hy. simpl. rewrite R. reflexivity.
  Qed.

  Lemma tag_idem n : tag_idem_at n.
  Proof.
    induction n using node_ind2; intros k y E; simpl in E; try discriminate.
    inv_ok. simpl. rewrite (set_kind_idem _ _ _ _ _ _ E0). simpl.
    assert (Ems :
      match x0 with
      | Some l => let* r := thread_top T (auto_start mtags l) l in Ok (Some (fst r))
      | None => Ok None
      end = Ok x0).
    { destruct ms as [l|]; inv_ok; [|reflexivity].
      match goal with X : thread_top _ _ l = Ok ?p |- _ => destruct p as [l' k']; rename X into X1 end.
      simpl fst.
      destruct (auto_start mtags l') eqn:A1.
      - unfold auto_start in A1.
        destruct (String.eqb mtags "AUTOMATIC") eqn:Em; simpl in A1; [|discriminate].
        destruct (any_tagged l') eqn:At; simpl in A1; [discriminate|]. injection A1 as <-.
        assert (I : inert l' = true).
        { unfold auto_start in X1. rewrite Em in X1. simpl in X1.
          destruct (any_tagged l) eqn:At0; simpl in X1.
          - rewrite (thread_top_keeps_tagged _ _ _ _ X1 At0) in At. discriminate.
          - apply all_tagged_untagged_inert; [|exact At]. eapply thread_top_all_tagged; eauto. }
        rewrite (thread_top_inert _ _ _ I). reflexivity.
      - rewrite (thread_top_None_idem _ _ _ _ H X1). reflexivity. }
    rewrite Ems. simpl.
    match goal with X : optM _ el = Ok _ |- _ => rename X into Eel end.
    assert (Eel2 : optM (T None) x1 = Ok x1).
    { eapply optM_idem; [|exact Eel]. destruct el; auto. }
    rewrite Eel2. reflexivity.
  Qed.
End TagIdem.
