(** C13 — proofs about Compile/Preprocess.v: a second pre_process of an
    already pre-processed dictionary changes nothing ([preprocess_idempotent]),
    whatever options the two runs use when numeric_enums does not rewrite the
    dictionary ([preprocess_absorbs]); compiling after any history equals
    compiling the fresh dictionary ([history_independent]); the upstream
    numeric_enums rewrite refutes it ([history_independent_refuted]). *)
From Asn1V Require Import Base.Prelude Compile.Descr Compile.Preprocess.
Open Scope string_scope.
Open Scope list_scope.
Open Scope Z_scope.

(** * Induction over descriptors *)
Section NodeInd.
  Variable P : node -> Prop.
  Hypothesis Hm : P NMarker.
  Hypothesis Hc : forall n, P (NCompOf n).
  Hypothesis Hg : forall g, Forall P g -> P (NGroup g).
  Hypothesis Ht : forall a ms el,
      match ms return Prop with Some l => Forall P l | None => True end ->
      match el return Prop with Some e => P e | None => True end ->
      P (NType a ms el).
  Fixpoint node_ind' (n : node) : P n :=
    match n with
    | NMarker => Hm
    | NCompOf c => Hc c
    | NGroup g =>
      Hg g ((fix go (l : list node) : Forall P l :=
               match l with
               | [] => Forall_nil _
               | x :: r => Forall_cons _ (node_ind' x) (go r)
               end) g)
    | NType a ms el =>
      Ht a ms el
         (match ms as o return match o return Prop with Some l => Forall P l | None => True end with
          | Some l => (fix go (l : list node) : Forall P l :=
                         match l with
                         | [] => Forall_nil _
                         | x :: r => Forall_cons _ (node_ind' x) (go r)
                         end) l
          | None => I
          end)
         (match el as o return match o return Prop with Some e => P e | None => True end with
          | Some e => node_ind' e
          | None => I
          end)
    end.
End NodeInd.

(** * The result monad *)
Definition rmap {A B} (f : A -> B) (r : result A) : result B :=
  match r with Ok x => Ok (f x) | Err e => Err e end.

Lemma bind_ok {A B} (r : result A) (f : A -> result B) y :
  bind r f = Ok y -> exists x, r = Ok x /\ f x = Ok y.
Proof. destruct r; simpl; intros H; [eauto | discriminate]. Qed.

Ltac inv_ok :=
  repeat match goal with
         | H : bind _ _ = Ok _ |- _ =>
           let x := fresh "x" in let E := fresh "E" in
           apply bind_ok in H; destruct H as (x & E & H)
         | H : Ok _ = Ok _ |- _ => injection H as H; try subst
         | H : Err _ = Ok _ |- _ => discriminate H
         end.

(** * mapM *)
Lemma mapM_nil {A B} (f : A -> result B) : mapM f [] = Ok [].
Proof. reflexivity. Qed.
Lemma mapM_cons {A B} (f : A -> result B) x r :
  mapM f (x :: r) = (let* y := f x in let* r' := mapM f r in Ok (y :: r')).
Proof. reflexivity. Qed.

Lemma mapM_id {A} (f : A -> result A) l :
  Forall (fun x => f x = Ok x) l -> mapM f l = Ok l.
Proof.
  induction 1; [reflexivity|]. rewrite mapM_cons, H, IHForall. reflexivity.
Qed.

Lemma mapM_idem {A} (f : A -> result A) l l' :
  Forall (fun x => forall y, f x = Ok y -> f y = Ok y) l ->
  mapM f l = Ok l' -> mapM f l' = Ok l'.
Proof.
  intros H; revert l'; induction H; intros l' E.
  - simpl in E. inv_ok. reflexivity.
  - rewrite mapM_cons in E. inv_ok. rewrite mapM_cons, (H _ E0), (IHForall _ E1). reflexivity.
Qed.

Lemma mapM_commute {A B A' B'} (F : A -> result B) (F' : A' -> result B') (g : A -> A') (h : B -> B') l :
  Forall (fun x => F' (g x) = rmap h (F x)) l ->
  mapM F' (map g l) = rmap (map h) (mapM F l).
Proof.
  induction 1; [reflexivity|]. simpl map. rewrite !mapM_cons, H, IHForall.
  destruct (F x); simpl; [|reflexivity]. destruct (mapM F l); reflexivity.
Qed.

Lemma mapM_pres {A C} (f : A -> result A) (h : A -> C) l l' :
  Forall (fun x => forall y, f x = Ok y -> h y = h x) l ->
  mapM f l = Ok l' -> map h l' = map h l.
Proof.
  intros H; revert l'; induction H; intros l' E.
  - simpl in E. inv_ok. reflexivity.
  - rewrite mapM_cons in E. inv_ok. simpl. rewrite (H _ E0), (IHForall _ E1). reflexivity.
Qed.

Lemma mapM_ext {A B} (f g : A -> result B) l :
  Forall (fun x => f x = g x) l -> mapM f l = mapM g l.
Proof. induction 1; [reflexivity|]. rewrite !mapM_cons, H, IHForall. reflexivity. Qed.

Lemma mapM_length {A B} (f : A -> result B) l l' : mapM f l = Ok l' -> length l' = length l.
Proof.
  revert l'; induction l; intros l' E; simpl in E; inv_ok; [reflexivity|].
  simpl. f_equal. eauto.
Qed.

Lemma optM_idem {A} (f : A -> result A) o o' :
  match o with Some x => forall y, f x = Ok y -> f y = Ok y | None => True end ->
  optM f o = Ok o' -> optM f o' = Ok o'.
Proof.
  destruct o; simpl; intros H E; inv_ok; [|reflexivity]. simpl. rewrite (H _ E0). reflexivity.
Qed.

(** * Attribute maps *)
Fixpoint map_attrs (f : attrs -> attrs) (n : node) : node :=
  match n with
  | NMarker => NMarker
  | NCompOf c => NCompOf c
  | NGroup g => NGroup (map (map_attrs f) g)
  | NType a ms el => NType (f a) (option_map (map (map_attrs f)) ms) (option_map (map_attrs f) el)
  end.

Definition clr_tag (a : attrs) : attrs := set_tag a None.
Definition clr_def (a : attrs) : attrs := set_default a None.

Lemma map_eq_Forall {A B} (f g : A -> B) l : Forall (fun x => f x = g x) l -> map f l = map g l.
Proof. induction 1; simpl; congruence. Qed.

Lemma is_marker_map f x : is_marker (map_attrs f x) = is_marker x.
Proof. destruct x; reflexivity. Qed.

Lemma existsb_marker_map f l : existsb is_marker (map (map_attrs f) l) = existsb is_marker l.
Proof. induction l; simpl; [reflexivity|]. rewrite is_marker_map, IHl. reflexivity. Qed.

Lemma add_marker_map f l : add_marker (map (map_attrs f) l) = map (map_attrs f) (add_marker l).
Proof.
  unfold add_marker. rewrite existsb_marker_map. destruct (existsb is_marker l); [reflexivity|].
  rewrite map_app. reflexivity.
Qed.

(** Induction where the hypothesis for an item of a 'members' list already
    looks through one level of [[ ]] group. *)
Definition memP (P : node -> Prop) (x : node) : Prop :=
  match x with NGroup g => Forall P g | _ => P x end.

Lemma node_ind2 (P : node -> Prop) :
  P NMarker -> (forall c, P (NCompOf c)) -> (forall g, Forall P g -> P (NGroup g)) ->
  (forall a ms el,
      match ms return Prop with Some l => Forall (memP P) l | None => True end ->
      match el return Prop with Some e => P e | None => True end -> P (NType a ms el)) ->
  forall n, P n.
Proof.
  intros Hm Hc Hg Ht n.
  assert (Q : P n /\ memP P n); [|exact (proj1 Q)].
  induction n using node_ind'.
  - split; [exact Hm | exact Hm].
  - split; [apply Hc | apply Hc].
  - assert (F : Forall P g) by (eapply Forall_impl; [|exact H]; intros x Hx; exact (proj1 Hx)).
    split; [apply Hg; exact F | exact F].
  - assert (X : P (NType a ms el)).
    { apply Ht.
      - destruct ms; [|exact I]. eapply Forall_impl; [|exact H]. intros x Hx; exact (proj2 Hx).
      - destruct el; [exact (proj1 H0) | exact I]. }
    split; exact X.
Qed.

Lemma memP_impl (P Q : node -> Prop) x : (forall y, P y -> Q y) -> memP P x -> memP Q x.
Proof.
  intros H. destruct x; simpl; auto. intros F. eapply Forall_impl; [|exact F]. auto.
Qed.

(** * EXTENSIBILITY IMPLIED *)
Lemma mapM_app {A B} (f : A -> result B) l1 l2 :
  mapM f (l1 ++ l2) =
  (let* a := mapM f l1 in let* b := mapM f l2 in Ok (a ++ b)).
Proof.
  induction l1; simpl app.
  - simpl. destruct (mapM f l2); reflexivity.
  - rewrite !mapM_cons, IHl1. destruct (f a); simpl; [|reflexivity].
    destruct (mapM f l1); simpl; [|reflexivity]. destruct (mapM f l2); reflexivity.
Qed.

Lemma add_marker_idem l : add_marker (add_marker l) = add_marker l.
Proof.
  unfold add_marker. destruct (existsb is_marker l) eqn:E; [rewrite E; reflexivity|].
  rewrite existsb_app. simpl. rewrite orb_true_r. reflexivity.
Qed.

Lemma ext_node_NType var a ms el y :
  ext_node var (NType a ms el) = Ok y -> exists ms' el', y = NType a ms' el'.
Proof.
  simpl. intros H. inv_ok. destruct ms; inv_ok; eauto.
Qed.

Lemma optM_commute {A A'} (F : A -> result A) (F' : A' -> result A') (g : A -> A') o :
  match o with Some x => F' (g x) = rmap g (F x) | None => True end ->
  optM F' (option_map g o) = rmap (option_map g) (optM F o).
Proof.
  destruct o; simpl; intros H; [|reflexivity]. rewrite H. destruct (F a); reflexivity.
Qed.

Lemma ext_member_map var f x :
  memP (fun n => ext_node var (map_attrs f n) = rmap (map_attrs f) (ext_node var n)) x ->
  ext_member (ext_node var) (map_attrs f x) = rmap (map_attrs f) (ext_member (ext_node var) x).
Proof.
  destruct x; simpl; intros H; try exact H; try reflexivity.
  rewrite (mapM_commute (ext_node var) (ext_node var) (map_attrs f) (map_attrs f) g H).
  destruct (mapM (ext_node var) g); reflexivity.
Qed.

Lemma ext_map var f n :
  ext_node var (map_attrs f n) = rmap (map_attrs f) (ext_node var n).
Proof.
  induction n using node_ind2; try reflexivity.
  cbn [map_attrs ext_node].
  assert (Eel : (if v_ext_elem var then optM (ext_node var) (option_map (map_attrs f) el)
                 else Ok (option_map (map_attrs f) el)) =
                rmap (option_map (map_attrs f))
                     (if v_ext_elem var then optM (ext_node var) el else Ok el)).
  { destruct (v_ext_elem var); [|reflexivity]. apply optM_commute. destruct el; auto. }
  rewrite Eel. destruct (if v_ext_elem var then optM (ext_node var) el else Ok el) as [el'|e]; simpl; [|reflexivity].
  destruct ms as [l|]; simpl; [|reflexivity].
  rewrite (mapM_commute (ext_member (ext_node var)) (ext_member (ext_node var))
                        (map_attrs f) (map_attrs f) l).
  - destruct (mapM (ext_member (ext_node var)) l); simpl; [|reflexivity].
    rewrite add_marker_map. reflexivity.
  - eapply Forall_impl; [|exact H]. intros x Hx. apply ext_member_map. exact Hx.
Qed.

Lemma ext_member_idem var x y :
  memP (fun n => forall n', ext_node var n = Ok n' -> ext_node var n' = Ok n') x ->
  ext_member (ext_node var) x = Ok y -> ext_member (ext_node var) y = Ok y.
Proof.
  destruct x; simpl; intros H E.
  - inv_ok. reflexivity.
  - inv_ok. reflexivity.
  - inv_ok. simpl. rewrite (mapM_idem _ _ _ H E0). reflexivity.
  - pose proof (ext_node_NType _ _ _ _ _ E) as (ms' & el' & ->).
    simpl. apply (H _ E).
Qed.

Lemma ext_idem var n n' : ext_node var n = Ok n' -> ext_node var n' = Ok n'.
Proof.
  revert n'. induction n using node_ind2; intros n' E; simpl in E; inv_ok; try reflexivity.
  assert (Eel : (if v_ext_elem var then optM (ext_node var) x else Ok x) = Ok x).
  { destruct (v_ext_elem var); [|reflexivity]. eapply optM_idem; [|exact E0]. destruct el; auto. }
  destruct ms as [l|]; inv_ok.
  - simpl. rewrite Eel. simpl.
    assert (M : mapM (ext_member (ext_node var)) x0 = Ok x0).
    { eapply mapM_idem; [|exact E1]. eapply Forall_impl; [|exact H].
      intros y Hy z. apply ext_member_idem. exact Hy. }
    assert (M2 : mapM (ext_member (ext_node var)) (add_marker x0) = Ok (add_marker x0)).
    { unfold add_marker. destruct (existsb is_marker x0); [exact M|].
      rewrite mapM_app, M. reflexivity. }
    rewrite M2. simpl. rewrite add_marker_idem. reflexivity.
  - simpl. rewrite Eel. reflexivity.
Qed.

Lemma add_marker_length_eq l : length (add_marker l) = length l -> add_marker l = l.
Proof.
  unfold add_marker. destruct (existsb is_marker l); [reflexivity|].
  rewrite app_length. simpl. lia.
Qed.

Lemma mapM_inj {A C} (f : A -> result A) (h : A -> C) l l' :
  Forall (fun x => forall y, f x = Ok y -> h y = h x -> y = x) l ->
  mapM f l = Ok l' -> map h l' = map h l -> l' = l.
Proof.
  intros H; revert l'; induction H; intros l' E M.
  - simpl in E. inv_ok. reflexivity.
  - rewrite mapM_cons in E. inv_ok. simpl in M. injection M as M1 M2.
    f_equal; [apply H; assumption | apply IHForall; assumption].
Qed.

Lemma ext_member_inj var f x y :
  memP (fun n => forall n', ext_node var n = Ok n' -> map_attrs f n' = map_attrs f n -> n' = n) x ->
  ext_member (ext_node var) x = Ok y -> map_attrs f y = map_attrs f x -> y = x.
Proof.
  destruct x; simpl; intros H E M.
  - inv_ok. reflexivity.
  - inv_ok. reflexivity.
  - inv_ok. simpl in M. injection M as M. f_equal. eapply mapM_inj; eauto.
  - apply H; assumption.
Qed.

(** ext_node only appends markers: when the result has the shape of the
    argument it is the argument. *)
Lemma ext_inj var f n n' :
  ext_node var n = Ok n' -> map_attrs f n' = map_attrs f n -> n' = n.
Proof.
  revert n'. induction n using node_ind2; intros n' E M; simpl in E; inv_ok; try reflexivity.
  assert (Eel : option_map (map_attrs f) x = option_map (map_attrs f) el -> x = el).
  { intros Mx. destruct (v_ext_elem var); inv_ok; [|reflexivity].
    destruct el; simpl in E0; inv_ok; [|reflexivity].
    simpl in Mx. injection Mx as Mx. f_equal. apply H0; assumption. }
  destruct ms as [l|]; inv_ok; simpl in M.
  - injection M as M1 M2. rewrite (Eel M2). f_equal. f_equal.
    assert (L : length (add_marker x0) = length l).
    { apply (f_equal (@length _)) in M1. rewrite !map_length in M1. exact M1. }
    pose proof (mapM_length _ _ _ E1) as L2.
    assert (AM : add_marker x0 = x0) by (apply add_marker_length_eq; lia).
    rewrite AM in *.
    eapply mapM_inj; [|exact E1|exact M1].
    eapply Forall_impl; [|exact H]. intros y Hy z. apply ext_member_inj. exact Hy.
  - injection M as M1. rewrite (Eel M1). reflexivity.
Qed.

Lemma ext_fixed_map var f n :
  ext_node var (map_attrs f n) = Ok (map_attrs f n) -> ext_node var n = Ok n.
Proof.
  rewrite ext_map. destruct (ext_node var n) as [n'|] eqn:E; simpl; intros H; inv_ok.
  f_equal. eapply ext_inj; eauto.
Qed.

Lemma ext_fixed_of_map var f n :
  ext_node var n = Ok n -> ext_node var (map_attrs f n) = Ok (map_attrs f n).
Proof. intros H. rewrite ext_map, H. reflexivity. Qed.

(** E-fixedness is transported along any rewrite that only touches attributes. *)
Lemma ext_fixed_transfer var f n m :
  map_attrs f m = map_attrs f n -> ext_node var n = Ok n -> ext_node var m = Ok m.
Proof.
  intros M H. apply (ext_fixed_map var f). rewrite M. apply ext_fixed_of_map. exact H.
Qed.

(** * Tags *)
Lemma thread_nil F k : thread F k [] = Ok ([], k).
Proof. reflexivity. Qed.
Lemma thread_cons F k x r :
  thread F k (x :: r) =
  match x with
  | NMarker => let* r' := thread F k r in Ok (NMarker :: fst r', snd r')
  | _ => let* x' := F k x in let* r' := thread F (next k) r in Ok (x' :: fst r', snd r')
  end.
Proof. destruct x; reflexivity. Qed.
Lemma thread_top_nil F k : thread_top F k [] = Ok ([], k).
Proof. reflexivity. Qed.
Lemma thread_top_cons F k x r :
  thread_top F k (x :: r) =
  match x with
  | NMarker => let* r' := thread_top F k r in Ok (NMarker :: fst r', snd r')
  | NGroup g => let* g' := thread F k g in
                let* r' := thread_top F (snd g') r in Ok (NGroup (fst g') :: fst r', snd r')
  | _ => let* x' := F k x in let* r' := thread_top F (next k) r in Ok (x' :: fst r', snd r')
  end.
Proof. destruct x; reflexivity. Qed.

Definition mapfst (f : list node -> list node) (p : list node * option Z) := (f (fst p), snd p).

Lemma thread_commute F f l : forall k,
  Forall (fun x => forall k, F k (map_attrs f x) = rmap (map_attrs f) (F k x)) l ->
  thread F k (map (map_attrs f) l) = rmap (mapfst (map (map_attrs f))) (thread F k l).
Proof.
  induction l as [|x r IH]; intros k H; [reflexivity|].
  inversion H as [|? ? Hx Hr]; subst. simpl map. rewrite !thread_cons.
  destruct x; cbn [map_attrs]; simpl in Hx.
  - rewrite (IH _ Hr); destruct (thread F k r) as [[? ?]|]; reflexivity.
  - pose proof (Hx k) as Hk. destruct (F k (NCompOf n)) as [y|]; simpl in *; [|reflexivity].
    injection Hk as Hk.
    rewrite (IH _ Hr); destruct (thread F (next k) r) as [[? ?]|]; simpl; [|reflexivity].
    unfold mapfst; simpl. rewrite <- Hk. reflexivity.
  - rewrite Hx; destruct (F k (NGroup g)); simpl; [|reflexivity].
    rewrite (IH _ Hr); destruct (thread F (next k) r) as [[? ?]|]; reflexivity.
  - rewrite Hx; destruct (F k (NType a members element)); simpl; [|reflexivity].
    rewrite (IH _ Hr); destruct (thread F (next k) r) as [[? ?]|]; reflexivity.
Qed.

Lemma thread_top_commute F f l : forall k,
  Forall (memP (fun x => forall k, F k (map_attrs f x) = rmap (map_attrs f) (F k x))) l ->
  thread_top F k (map (map_attrs f) l) = rmap (mapfst (map (map_attrs f))) (thread_top F k l).
Proof.
  induction l as [|x r IH]; intros k H; [reflexivity|].
  inversion H as [|? ? Hx Hr]; subst. simpl map. rewrite !thread_top_cons.
  destruct x; cbn [map_attrs]; simpl in Hx.
  - rewrite (IH _ Hr); destruct (thread_top F k r) as [[? ?]|]; reflexivity.
  - pose proof (Hx k) as Hk. destruct (F k (NCompOf n)) as [y|]; simpl in *; [|reflexivity].
    injection Hk as Hk.
    rewrite (IH _ Hr); destruct (thread_top F (next k) r) as [[? ?]|]; simpl; [|reflexivity].
    unfold mapfst; simpl. rewrite <- Hk. reflexivity.
  - rewrite (thread_commute F f g k Hx). destruct (thread F k g) as [[g1 k1]|]; simpl; [|reflexivity].
    rewrite (IH _ Hr); destruct (thread_top F k1 r) as [[? ?]|]; reflexivity.
  - rewrite Hx; destruct (F k (NType a members element)); simpl; [|reflexivity].
    rewrite (IH _ Hr); destruct (thread_top F (next k) r) as [[? ?]|]; reflexivity.
Qed.

Lemma thread_pres {C} F (h : node -> C) l : forall k l' k',
  Forall (fun x => forall k y, F k x = Ok y -> h y = h x) l ->
  thread F k l = Ok (l', k') -> map h l' = map h l.
Proof.
  induction l as [|x r IH]; intros k l' k' H E.
  - simpl in E. inv_ok. reflexivity.
  - inversion H as [|? ? Hx Hr]; subst. rewrite thread_cons in E.
    destruct x; inv_ok; simpl; f_equal;
      try (eapply Hx; eassumption);
      match goal with X : thread F _ r = Ok ?p |- _ => destruct p; eapply IH; eauto end.
Qed.

Lemma thread_top_pres F f l : forall k l' k',
  Forall (memP (fun x => forall k y, F k x = Ok y -> map_attrs f y = map_attrs f x)) l ->
  thread_top F k l = Ok (l', k') -> map (map_attrs f) l' = map (map_attrs f) l.
Proof.
  induction l as [|x r IH]; intros k l' k' H E.
  - simpl in E. inv_ok. reflexivity.
  - inversion H as [|? ? Hx Hr]; subst. rewrite thread_top_cons in E. simpl in Hx.
    destruct x; inv_ok; simpl; f_equal;
      try (eapply Hx; eassumption);
      try match goal with X : thread_top F _ r = Ok ?p |- _ => destruct p; eapply IH; eauto end.
    f_equal. destruct x. eapply thread_pres; eauto.
Qed.

(** attributes *)
Lemma a_tag_set_tag a t : a_tag (set_tag a t) = t.
Proof. destruct a; reflexivity. Qed.
Lemma a_type_set_tag a t : a_type (set_tag a t) = a_type a.
Proof. destruct a; reflexivity. Qed.
Lemma a_type_set_default a t : a_type (set_default a t) = a_type a.
Proof. destruct a; reflexivity. Qed.
Lemma a_tag_set_default a t : a_tag (set_default a t) = a_tag a.
Proof. destruct a; reflexivity. Qed.
Lemma set_tag_set_tag a t u : set_tag (set_tag a t) u = set_tag a u.
Proof. destruct a; reflexivity. Qed.
Lemma set_tag_same a : set_tag a (a_tag a) = a.
Proof. destruct a; reflexivity. Qed.
Lemma set_tag_set_default a t d : set_tag (set_default a d) t = set_default (set_tag a t) d.
Proof. destruct a; reflexivity. Qed.

Lemma apply_number_clr_def k a : apply_number k (clr_def a) = clr_def (apply_number k a).
Proof.
  unfold apply_number, clr_def. destruct k; [|reflexivity].
  rewrite a_tag_set_default. destruct (a_tag a) as [[? ? ?]|]; apply set_tag_set_default.
Qed.

Lemma clr_tag_apply_number k a : clr_tag (apply_number k a) = clr_tag a.
Proof.
  unfold apply_number, clr_tag. destruct k; [|reflexivity].
  destruct (a_tag a) as [[? ? ?]|]; apply set_tag_set_tag.
Qed.

Lemma set_kind_clr_def fuel sk mn mtags a :
  set_kind fuel sk mn mtags (clr_def a) = rmap clr_def (set_kind fuel sk mn mtags a).
Proof.
  unfold set_kind, clr_def. rewrite a_tag_set_default, a_type_set_default.
  destruct (a_tag a) as [[num c kd]|]; [|reflexivity].
  destruct (resolve_name fuel sk mn (a_type a)); simpl; [|reflexivity].
  destruct kd; simpl; [reflexivity|]. rewrite set_tag_set_default. reflexivity.
Qed.

Lemma set_kind_pres fuel sk mn mtags a a' :
  set_kind fuel sk mn mtags a = Ok a' -> clr_tag a' = clr_tag a.
Proof.
  unfold set_kind. destruct (a_tag a) as [[num c kd]|]; intros H; inv_ok; [|reflexivity].
  destruct kd; inv_ok; [reflexivity|]. unfold clr_tag. apply set_tag_set_tag.
Qed.

Lemma set_kind_type fuel sk mn mtags a a' :
  set_kind fuel sk mn mtags a = Ok a' -> a_type a' = a_type a.
Proof.
  intros H. apply set_kind_pres in H. apply (f_equal a_type) in H.
  unfold clr_tag in H. rewrite !a_type_set_tag in H. exact H.
Qed.

Lemma set_kind_idem fuel sk mn mtags a a' :
  set_kind fuel sk mn mtags a = Ok a' -> set_kind fuel sk mn mtags a' = Ok a'.
Proof.
  intros H. pose proof (set_kind_type _ _ _ _ _ _ H) as Ty. revert H. unfold set_kind.
  destruct (a_tag a) as [[num c kd]|] eqn:Ta; intros H; inv_ok.
  - destruct kd; inv_ok.
    + rewrite Ta, E. reflexivity.
    + rewrite a_tag_set_tag. rewrite a_type_set_tag in *. rewrite E. reflexivity.
  - rewrite Ta. reflexivity.
Qed.

Lemma set_kind_has_tag fuel sk mn mtags a a' :
  set_kind fuel sk mn mtags a = Ok a' ->
  (match a_tag a' with Some _ => true | None => false end) =
  (match a_tag a with Some _ => true | None => false end).
Proof.
  unfold set_kind. destruct (a_tag a) as [[num c kd]|] eqn:Ta; intros H; inv_ok.
  - destruct kd; inv_ok; [rewrite Ta; reflexivity|]. rewrite a_tag_set_tag. reflexivity.
  - rewrite Ta. reflexivity.
Qed.

Lemma apply_number_None a : apply_number None a = a.
Proof. reflexivity. Qed.

Lemma apply_number_has_tag z a :
  match a_tag (apply_number (Some z) a) with Some _ => true | None => false end = true.
Proof.
  unfold apply_number. destruct (a_tag a) as [[? ? ?]|]; rewrite a_tag_set_tag; reflexivity.
Qed.

Lemma apply_number_keeps_tag k a :
  match a_tag a with Some _ => true | None => false end = true ->
  match a_tag (apply_number k a) with Some _ => true | None => false end = true.
Proof.
  destruct k; [intros _; apply apply_number_has_tag | auto].
Qed.

Section Tag.
  Variable fuel : nat.
  Variable sk : table (option head).
  Variable mn mtags : string.
  Notation T := (tag_node fuel sk mn mtags).

  Lemma tag_node_NType k x y :
    T k x = Ok y ->
    exists a ms el a' ms' el',
      x = NType a ms el /\ y = NType a' ms' el' /\
      set_kind fuel sk mn mtags (apply_number k a) = Ok a'.
  Proof.
    destruct x; simpl; intros H; try discriminate. inv_ok.
    do 6 eexists. split; [reflexivity|]. split; [reflexivity|]. exact E.
  Qed.

  Lemma has_tag_clr_def x : has_tag (map_attrs clr_def x) = has_tag x.
  Proof. destruct x; simpl; try reflexivity. unfold clr_def. rewrite a_tag_set_default. reflexivity. Qed.

  Lemma any_tagged_clr_def l : any_tagged (map (map_attrs clr_def) l) = any_tagged l.
  Proof.
    unfold any_tagged. induction l as [|x r IH]; [reflexivity|]. simpl. rewrite IH. f_equal.
    destruct x; simpl; try reflexivity.
    - induction g as [|y g IHg]; [reflexivity|]. simpl. rewrite has_tag_clr_def, IHg. reflexivity.
    - unfold clr_def. rewrite a_tag_set_default. reflexivity.
  Qed.

  Lemma tag_map k n : T k (map_attrs clr_def n) = rmap (map_attrs clr_def) (T k n).
  Proof.
    revert k. induction n using node_ind2; intros k; try reflexivity.
    cbn [map_attrs tag_node].
    rewrite apply_number_clr_def, set_kind_clr_def.
    destruct (set_kind fuel sk mn mtags (apply_number k a)) as [a'|]; simpl; [|reflexivity].
    assert (Ems :
      match option_map (map (map_attrs clr_def)) ms with
      | Some l => let* r := thread_top T (auto_start mtags l) l in Ok (Some (fst r))
      | None => Ok None
      end =
      rmap (option_map (map (map_attrs clr_def)))
           (match ms with
            | Some l => let* r := thread_top T (auto_start mtags l) l in Ok (Some (fst r))
            | None => Ok None
            end)).
    { destruct ms as [l|]; [|reflexivity]. simpl option_map. cbv iota beta.
      unfold auto_start. rewrite any_tagged_clr_def.
      rewrite thread_top_commute by exact H.
      destruct (thread_top T _ l) as [[? ?]|]; reflexivity. }
    rewrite Ems.
    destruct (match ms with
              | Some l => let* r := thread_top T (auto_start mtags l) l in Ok (Some (fst r))
              | None => Ok None
              end) as [ms'|]; simpl; [|reflexivity].
    rewrite (optM_commute (T None) (T None) (map_attrs clr_def) el)
      by (destruct el; auto).
    destruct (optM (T None) el); reflexivity.
  Qed.

  Lemma tag_pres k n n' : T k n = Ok n' -> map_attrs clr_tag n' = map_attrs clr_tag n.
  Proof.
    revert k n'. induction n using node_ind2; intros k n' E; simpl in E; try discriminate.
    inv_ok. simpl. f_equal.
    - apply set_kind_pres in E0. rewrite E0. apply clr_tag_apply_number.
    - destruct ms as [l|]; inv_ok; [|reflexivity]. simpl. f_equal.
      match goal with X : thread_top _ _ l = Ok ?p |- _ =>
        destruct p as [l' k']; simpl; eapply thread_top_pres; [|exact X]; exact H end.
    - match goal with X : optM _ el = Ok _ |- _ => rename X into Eel end.
      destruct el as [e|]; simpl in Eel; inv_ok; [|reflexivity]. simpl. f_equal. eapply H0; eauto.
  Qed.
End Tag.

Definition tagged_or_marker (y : node) : bool := is_marker y || has_tag y.
Definition item_tagged (y : node) : bool :=
  match y with
  | NMarker => true
  | NGroup g => forallb tagged_or_marker g
  | _ => has_tag y
  end.
Definition inert (l : list node) : bool :=
  forallb (fun x => match x with NMarker => true | NGroup g => forallb is_marker g | _ => false end) l.

Lemma thread_markers F k g : forallb is_marker g = true -> thread F k g = Ok (g, k).
Proof.
  induction g as [|x r IH]; [reflexivity|]. intros H. simpl in H. apply andb_prop in H as [Hx Hr].
  destruct x; try discriminate. rewrite thread_cons, (IH Hr). reflexivity.
Qed.

Lemma thread_top_inert F l : forall k, inert l = true -> thread_top F k l = Ok (l, k).
Proof.
  induction l as [|x r IH]; intros k; [reflexivity|]. intros H. simpl in H. apply andb_prop in H as [Hx Hr].
  destruct x; try discriminate; rewrite thread_top_cons.
  - rewrite (IH _ Hr). reflexivity.
  - rewrite (thread_markers F k g Hx). simpl. rewrite (IH _ Hr). reflexivity.
Qed.

Section TagIdem.
  Variable fuel : nat.
  Variable sk : table (option head).
  Variable mn mtags : string.
  Notation T := (tag_node fuel sk mn mtags).

  Lemma tag_has_tag_some z x y : T (Some z) x = Ok y -> has_tag y = true.
  Proof.
    intros H. apply tag_node_NType in H as (a & ms & el & a' & ms' & el' & -> & -> & S).
    simpl. rewrite (set_kind_has_tag _ _ _ _ _ _ S). apply apply_number_has_tag.
  Qed.

  Lemma tag_keeps_tag k x y : T k x = Ok y -> has_tag x = true -> has_tag y = true.
  Proof.
    intros H. apply tag_node_NType in H as (a & ms & el & a' & ms' & el' & -> & -> & S).
    simpl. rewrite (set_kind_has_tag _ _ _ _ _ _ S). apply apply_number_keeps_tag.
  Qed.

  Lemma next_some z : next (Some z) = Some (Z.succ z).
  Proof. reflexivity. Qed.

  Lemma thread_all_tagged g : forall z g' k',
    thread T (Some z) g = Ok (g', k') ->
    forallb tagged_or_marker g' = true /\ exists z', k' = Some z'.
  Proof.
    induction g as [|x r IH]; intros z g' k' E.
    - simpl in E. inv_ok. split; [reflexivity|eauto].
    - rewrite thread_cons in E.
      destruct x; inv_ok;
        match goal with X : thread _ _ r = Ok ?p |- _ => destruct p as [r1 k1] end; simpl fst; simpl snd;
        try rewrite next_some in *;
        match goal with X : thread _ (Some _) r = Ok _ |- _ => destruct (IH _ _ _ X) as [A B] end;
        (split; [|exact B]); simpl; rewrite A; try reflexivity;
        match goal with X : T (Some _) _ = Ok _ |- _ => apply tag_has_tag_some in X end;
        unfold tagged_or_marker;
        match goal with X : has_tag _ = true |- _ => rewrite X end; rewrite orb_true_r; reflexivity.
  Qed.

  Lemma thread_top_all_tagged l : forall z l' k',
    thread_top T (Some z) l = Ok (l', k') -> forallb item_tagged l' = true.
  Proof.
    induction l as [|x r IH]; intros z l' k' E.
    - simpl in E. inv_ok. reflexivity.
    - rewrite thread_top_cons in E. destruct x; inv_ok.
      + match goal with X : thread_top _ _ r = Ok ?p |- _ => destruct p as [r1 k1]; simpl; eapply IH; eauto end.
      + match goal with X : thread_top _ _ r = Ok ?p |- _ => destruct p as [r1 k1] end. simpl.
        rewrite next_some in *.
        match goal with X : T (Some _) _ = Ok _ |- _ => pose proof (tag_has_tag_some _ _ _ X) as Ht end.
        match goal with X : T (Some _) _ = Ok _ |- _ =>
          apply tag_node_NType in X as (a & ms & el & a' & ms' & el' & ? & -> & S) end.
        simpl in *. rewrite Ht. simpl. eapply IH; eauto.
      + match goal with X : thread _ _ g = Ok ?p |- _ => destruct p as [g1 kg] end.
        match goal with X : thread_top _ _ r = Ok ?p |- _ => destruct p as [r1 k1] end. simpl in *.
        match goal with X : thread _ (Some _) g = Ok _ |- _ => destruct (thread_all_tagged _ _ _ _ X) as [A [z' ->]] end.
        rewrite A. simpl. eapply IH; eauto.
      + match goal with X : thread_top _ _ r = Ok ?p |- _ => destruct p as [r1 k1] end. simpl.
        rewrite next_some in *.
        match goal with X : T (Some _) _ = Ok _ |- _ => pose proof (tag_has_tag_some _ _ _ X) as Ht end.
        match goal with X : T (Some _) _ = Ok _ |- _ =>
          apply tag_node_NType in X as (a' & ms & el & a'' & ms' & el' & ? & -> & S) end.
        simpl in *. rewrite Ht. simpl. eapply IH; eauto.
  Qed.

  Lemma all_tagged_untagged_inert l :
    forallb item_tagged l = true -> any_tagged l = false -> inert l = true.
  Proof.
    unfold any_tagged, inert. induction l as [|x r IH]; [reflexivity|]. simpl. intros A B.
    apply andb_prop in A as [Ax Ar]. apply orb_false_elim in B as [Bx Br].
    rewrite (IH Ar Br), andb_true_r. destruct x; simpl in *; try reflexivity; try congruence.
    clear -Ax Bx. induction g as [|y g IHg]; [reflexivity|]. simpl in *.
    apply andb_prop in Ax as [A1 A2]. apply orb_false_elim in Bx as [B1 B2].
    rewrite (IHg A2 B2), andb_true_r. unfold tagged_or_marker in A1. rewrite B1, orb_false_r in A1. exact A1.
  Qed.

  Lemma thread_keeps_tagged g : forall k g' k',
    thread T k g = Ok (g', k') -> existsb has_tag g = true -> existsb has_tag g' = true.
  Proof.
    induction g as [|x r IH]; intros k g' k' E H; [discriminate|].
    rewrite thread_cons in E. simpl in H.
    assert (G : forall k y r1 k1, T k x = Ok y -> thread T (next k) r = Ok (r1, k1) ->
                                  existsb has_tag (y :: r1) = true).
    { intros k0 y r1 k1 Ty Tr. simpl. apply orb_true_iff. apply orb_true_iff in H as [H|H].
      - left. eapply tag_keeps_tag; eauto.
      - right. eapply IH; eauto. }
    destruct x; inv_ok;
      match goal with X : thread _ _ r = Ok ?p |- _ => destruct p as [r1 k1] end; simpl fst.
    - simpl. eapply IH; eauto.
    - eapply G; eauto.
    - eapply G; eauto.
    - eapply G; eauto.
  Qed.

  Lemma thread_top_keeps_tagged l : forall k l' k',
    thread_top T k l = Ok (l', k') -> any_tagged l = true -> any_tagged l' = true.
  Proof.
    unfold any_tagged. induction l as [|x r IH]; intros k l' k' E H; [discriminate|].
    rewrite thread_top_cons in E. simpl in H.
    destruct x; inv_ok;
      try match goal with X : thread _ _ _ = Ok ?p |- _ => destruct p as [g1 kg] end;
      match goal with X : thread_top _ _ r = Ok ?p |- _ => destruct p as [r1 k1] end; simpl fst.
    - simpl. eapply IH; eauto.
    - match goal with X : T _ (NCompOf _) = Ok _ |- _ => simpl in X; discriminate end.
    - simpl. apply orb_true_iff; apply orb_true_iff in H as [H|H]; [left|right; eapply IH; eauto].
      eapply thread_keeps_tagged; eauto.
    - apply orb_true_iff in H as [H|H].
      + match goal with X : T _ _ = Ok ?y |- _ => pose proof (tag_keeps_tag _ _ _ X H) as Hy;
          apply tag_node_NType in X as (a' & ms & el & a'' & ms' & el' & ? & -> & S) end.
        simpl in *. rewrite Hy. reflexivity.
      + match goal with X : T _ _ = Ok ?y |- _ =>
          apply tag_node_NType in X as (a' & ms & el & a'' & ms' & el' & ? & -> & S) end.
        simpl. apply orb_true_iff. right. eapply IH; eauto.
  Qed.

  Definition tag_idem_at (x : node) : Prop := forall k y, T k x = Ok y -> T None y = Ok y.

  Lemma thread_None_idem g : forall k g' k',
    Forall tag_idem_at g -> thread T k g = Ok (g', k') -> thread T None g' = Ok (g', None).
  Proof.
    induction g as [|x r IH]; intros k g' k' H E.
    - simpl in E. inv_ok. reflexivity.
    - inversion H as [|? ? Hx Hr]; subst. rewrite thread_cons in E.
      destruct x; inv_ok;
        match goal with X : thread _ _ r = Ok ?p |- _ => destruct p as [r1 k1]; pose proof (IH _ _ _ Hr X) as R end;
        simpl fst; rewrite thread_cons;
        try (rewrite R; reflexivity);
        match goal with X : T _ _ = Ok ?y |- _ => pose proof (Hx _ _ X) as Hy;
          apply tag_node_NType in X as (a' & ms & el & a'' & ms' & el' & ? & -> & S) end;
        rewrite Hy; simpl; rewrite R; reflexivity.
  Qed.

  Lemma thread_top_None_idem l : forall k l' k',
    Forall (memP tag_idem_at) l -> thread_top T k l = Ok (l', k') ->
    thread_top T None l' = Ok (l', None).
  Proof.
    induction l as [|x r IH]; intros k l' k' H E.
    - simpl in E. inv_ok. reflexivity.
    - inversion H as [|? ? Hx Hr]; subst. rewrite thread_top_cons in E. simpl in Hx.
      destruct x; inv_ok;
        try match goal with X : thread _ _ _ = Ok ?p |- _ => destruct p as [g1 kg] end;
        match goal with X : thread_top _ _ r = Ok ?p |- _ => destruct p as [r1 k1]; pose proof (IH _ _ _ Hr X) as R end;
        simpl fst; rewrite thread_top_cons.
      + rewrite R. reflexivity.
      + match goal with X : T _ _ = Ok ?y |- _ => apply tag_node_NType in X as (a' & ms & el & a'' & ms' & el' & ? & -> & S) end.
        discriminate.
      + match goal with X : thread _ _ g = Ok _ |- _ => rewrite (thread_None_idem _ _ _ _ Hx X) end.
        simpl. rewrite R. reflexivity.
      + match goal with X : T _ _ = Ok ?y |- _ => pose proof (Hx _ _ X) as Hy;
          apply tag_node_NType in X as (a' & ms & el & a'' & ms' & el' & ? & -> & S) end.
        rewrite Hy. simpl. rewrite R. reflexivity.
  Qed.

  Lemma tag_idem n : tag_idem_at n.
  Proof.
    induction n using node_ind2; intros k y E; simpl in E; try discriminate.
    inv_ok. simpl. rewrite (set_kind_idem _ _ _ _ _ _ E0). simpl.
    assert (Ems :
      match x0 with
      | Some l => let* r := thread_top T (auto_start mtags l) l in Ok (Some (fst r))
      | None => Ok None
      end = Ok x0).
    { destruct ms as [l|]; inv_ok; [|reflexivity].
      match goal with X : thread_top _ _ l = Ok ?p |- _ => destruct p as [l' k']; rename X into X1 end.
      simpl fst.
      destruct (auto_start mtags l') eqn:A1.
      - unfold auto_start in A1.
        destruct (String.eqb mtags "AUTOMATIC") eqn:Em; simpl in A1; [|discriminate].
        destruct (any_tagged l') eqn:At; simpl in A1; [discriminate|]. injection A1 as <-.
        assert (I : inert l' = true).
        { unfold auto_start in X1. rewrite Em in X1. simpl in X1.
          destruct (any_tagged l) eqn:At0; simpl in X1.
          - rewrite (thread_top_keeps_tagged _ _ _ _ X1 At0) in At. discriminate.
          - apply all_tagged_untagged_inert; [|exact At]. eapply thread_top_all_tagged; eauto. }
        rewrite (thread_top_inert _ _ _ I). reflexivity.
      - rewrite (thread_top_None_idem _ _ _ _ H X1). reflexivity. }
    rewrite Ems. simpl.
    match goal with X : optM _ el = Ok _ |- _ => rename X into Eel end.
    assert (Eel2 : optM (T None) x1 = Ok x1).
    { eapply optM_idem; [|exact Eel]. destruct el; [intros y; apply H0 | exact I]. }
    rewrite Eel2. reflexivity.
  Qed.
End TagIdem.

(** * DEFAULT clean-up *)
Lemma set_default_set_default a d e : set_default (set_default a d) e = set_default a e.
Proof. destruct a; reflexivity. Qed.
Lemma a_default_set_default a d : a_default (set_default a d) = d.
Proof. destruct a; reflexivity. Qed.
Lemma head_set_default a d : head_of_attrs (set_default a d) = head_of_attrs a.
Proof. destruct a; reflexivity. Qed.
Lemma head_set_tag a t : head_of_attrs (set_tag a t) = head_of_attrs a.
Proof. destruct a; reflexivity. Qed.
Lemma set_default_same a : set_default a (a_default a) = a.
Proof. destruct a; reflexivity. Qed.

Lemma conv_bits_idem nb dv dv' : conv_bits nb dv = Ok dv' -> conv_bits nb dv' = Ok dv'.
Proof.
  destruct dv; simpl; intros H; inv_ok; try reflexivity.
  - destruct (String.eqb (prefix2 s) "0x").
    + destruct (hex_bits _); inv_ok. reflexivity.
    + destruct (String.eqb s "0b"); inv_ok; [reflexivity|].
      destruct (String.eqb (prefix2 s) "0b"); inv_ok.
      destruct (bin_bits _); inv_ok. reflexivity.
  - destruct nb; inv_ok. reflexivity.
Qed.

Lemma conv_octets_idem dv dv' : conv_octets dv = Ok dv' -> conv_octets dv' = Ok dv'.
Proof.
  destruct dv; simpl; intros H; inv_ok; try reflexivity.
  destruct (String.eqb (prefix2 s) "0b") eqn:E1.
  - destruct (bin_bits _); inv_ok. reflexivity.
  - destruct (String.eqb (prefix2 s) "0x") eqn:E2.
    + destruct (hex_bits _); inv_ok. reflexivity.
    + inv_ok. simpl. rewrite E1, E2. reflexivity.
Qed.

Lemma conv_bool_idem dv : conv_bool (conv_bool dv) = conv_bool dv.
Proof.
  destruct dv; try reflexivity. simpl.
  destruct (String.eqb s "TRUE") eqn:E1; [reflexivity|].
  destruct (String.eqb s "FALSE") eqn:E2; [reflexivity|]. simpl. rewrite E1, E2. reflexivity.
Qed.

Section Def.
  Variable fuel : nat.
  Variable var : variant.
  Variable sk : table (option head).
  Variable mn : string.
  Hypothesis Hvar : v_numeric_in_dict var = false.

  Lemma conv_default_numeric n1 n2 a :
    conv_default fuel var n1 sk mn a = conv_default fuel var n2 sk mn a.
  Proof.
    unfold conv_default. destruct (a_default a); [|reflexivity].
    destruct (resolve_descr fuel sk mn (head_of_attrs a)) as [h|]; simpl; [|reflexivity].
    rewrite Hvar, !andb_false_r. reflexivity.
  Qed.

  Lemma conv_default_pres numeric a a' :
    conv_default fuel var numeric sk mn a = Ok a' -> clr_def a' = clr_def a.
  Proof.
    unfold conv_default, clr_def. destruct (a_default a); intros H; inv_ok; [|reflexivity].
    repeat match type of H with
           | (if ?c then _ else _) = _ => destruct c
           | match ?c with _ => _ end = _ => destruct c
           end; inv_ok; try reflexivity; apply set_default_set_default.
  Qed.

  Lemma conv_default_head numeric a a' :
    conv_default fuel var numeric sk mn a = Ok a' -> head_of_attrs a' = head_of_attrs a.
  Proof.
    intros H. apply conv_default_pres in H. apply (f_equal head_of_attrs) in H.
    unfold clr_def in H. rewrite !head_set_default in H. exact H.
  Qed.

  Lemma conv_default_idem numeric a a' :
    conv_default fuel var numeric sk mn a = Ok a' -> conv_default fuel var numeric sk mn a' = Ok a'.
  Proof.
    intros H. pose proof (conv_default_head _ _ _ H) as Hh. revert H. unfold conv_default.
    rewrite Hh.
    destruct (a_default a) as [dv|] eqn:Da; intros H; [|inv_ok; rewrite Da; reflexivity].
    inv_ok. rewrite Hvar, !andb_false_r in H.
    assert (G : forall dv', a' = set_default a (Some dv') ->
                            (let rt := fst (fst x) in
                             if String.eqb rt "BIT STRING" then
                               let* dv'' := conv_bits (snd x) dv' in Ok (set_default a' (Some dv''))
                             else if String.eqb rt "OCTET STRING" then
                               let* dv'' := conv_octets dv' in Ok (set_default a' (Some dv''))
                             else if String.eqb rt "BOOLEAN" && v_bool_default var then
                               Ok (set_default a' (Some (conv_bool dv')))
                             else Ok a') = Ok a' ->
            match a_default a' with
            | Some dv0 =>
              let* h := Ok x in
              let rt := fst (fst h) in
              if String.eqb rt "BIT STRING" then
                let* dv'' := conv_bits (snd h) dv0 in Ok (set_default a' (Some dv''))
              else if String.eqb rt "OCTET STRING" then
                let* dv'' := conv_octets dv0 in Ok (set_default a' (Some dv''))
              else if String.eqb rt "BOOLEAN" && v_bool_default var then
                Ok (set_default a' (Some (conv_bool dv0)))
              else if String.eqb rt "ENUMERATED" && numeric && v_numeric_in_dict var then
                match snd (fst h) with
                | Some vals => Ok (set_default a' (Some (conv_enum vals dv0)))
                | None => Err EKey
                end
              else Ok a'
            | None => Ok a'
            end = Ok a').
    { intros dv' -> G. rewrite a_default_set_default. simpl. simpl in G.
      rewrite Hvar, !andb_false_r. exact G. }
    rewrite E.
    destruct (String.eqb (fst (fst x)) "BIT STRING") eqn:C1.
    { inv_ok. apply (G x0 eq_refl). simpl. rewrite C1, (conv_bits_idem _ _ _ E0). simpl.
      rewrite set_default_set_default. reflexivity. }
    destruct (String.eqb (fst (fst x)) "OCTET STRING") eqn:C2.
    { inv_ok. apply (G x0 eq_refl). simpl. rewrite C1, C2, (conv_octets_idem _ _ E0). simpl.
      rewrite set_default_set_default. reflexivity. }
    destruct (String.eqb (fst (fst x)) "BOOLEAN" && v_bool_default var) eqn:C3.
    { inv_ok. apply (G (conv_bool dv) eq_refl). simpl. rewrite C1, C2, C3.
      rewrite conv_bool_idem, set_default_set_default. reflexivity. }
    inv_ok. apply (G dv).
    - rewrite <- Da. symmetry. apply set_default_same.
    - simpl. rewrite C1, C2, C3. reflexivity.
  Qed.

  Notation D numeric := (def_node fuel var numeric sk mn).

  Lemma def_node_NType numeric cv x y :
    D numeric cv x = Ok y ->
    exists a ms el a' ms' el', x = NType a ms el /\ y = NType a' ms' el' /\
                               (if cv then conv_default fuel var numeric sk mn a else Ok a) = Ok a'.
  Proof.
    destruct x; simpl; intros H; try discriminate. inv_ok.
    do 6 eexists. split; [reflexivity|]. split; [reflexivity|]. exact E.
  Qed.

  Lemma is_seq_or_set_head a a' : head_of_attrs a' = head_of_attrs a -> is_seq_or_set a' = is_seq_or_set a.
  Proof.
    unfold is_seq_or_set, head_of_attrs. intros H. injection H as H1 H2 H3. rewrite H1. reflexivity.
  Qed.

  Lemma on_member_idem numeric cm cg x y :
    memP (fun n => forall cv y, D numeric cv n = Ok y -> D numeric cv y = Ok y) x ->
    on_member (D numeric) cm cg x = Ok y -> on_member (D numeric) cm cg y = Ok y.
  Proof.
    destruct x; cbn [on_member memP]; intros H E.
    - inv_ok. reflexivity.
    - simpl in E. discriminate.
    - inv_ok. simpl. erewrite mapM_idem; [reflexivity| |exact E0].
      eapply Forall_impl; [|exact H]. intros z Hz w. apply Hz.
    - pose proof (H _ _ E) as Hy.
      apply def_node_NType in E as (a0 & ms & el & a' & ms' & el' & ? & -> & ?). exact Hy.
  Qed.

  Lemma def_idem numeric n : forall cv y, D numeric cv n = Ok y -> D numeric cv y = Ok y.
  Proof.
    induction n using node_ind2; intros cv y E; simpl in E; try discriminate.
    inv_ok. simpl.
    assert (Ea : (if cv then conv_default fuel var numeric sk mn x else Ok x) = Ok x).
    { destruct cv; [|reflexivity]. eapply conv_default_idem; eauto. }
    assert (Hh : is_seq_or_set x = is_seq_or_set a).
    { apply is_seq_or_set_head. destruct cv; inv_ok; [|reflexivity]. eapply conv_default_head; eauto. }
    rewrite Ea, Hh. simpl.
    assert (Ems :
      match x0 with
      | Some l => let* l' := mapM (on_member (D numeric) (is_seq_or_set a)
                                             (is_seq_or_set a && v_group_defaults var)) l in Ok (Some l')
      | None => if is_seq_or_set a then Err EKey else Ok None
      end = Ok x0).
    { destruct ms as [l|]; inv_ok.
      - erewrite mapM_idem; [reflexivity| |eassumption].
        eapply Forall_impl; [|exact H]. intros z Hz w. apply on_member_idem. exact Hz.
      - destruct (is_seq_or_set a); inv_ok. reflexivity. }
    rewrite Ems. simpl.
    match goal with X : optM _ el = Ok _ |- _ => rename X into Eel end.
    erewrite optM_idem; [reflexivity| |exact Eel]. destruct el; [intros z; apply H0 | exact I].
  Qed.

  Lemma on_member_pres numeric cm cg x y :
    memP (fun n => forall cv y, D numeric cv n = Ok y -> map_attrs clr_def y = map_attrs clr_def n) x ->
    on_member (D numeric) cm cg x = Ok y -> map_attrs clr_def y = map_attrs clr_def x.
  Proof.
    destruct x; cbn [on_member memP]; intros H E.
    - inv_ok. reflexivity.
    - simpl in E. discriminate.
    - inv_ok. simpl. f_equal. eapply mapM_pres; [|exact E0].
      eapply Forall_impl; [|exact H]. intros z Hz w. apply Hz.
    - eapply H; eauto.
  Qed.

  Lemma def_pres numeric n : forall cv y,
    D numeric cv n = Ok y -> map_attrs clr_def y = map_attrs clr_def n.
  Proof.
    induction n using node_ind2; intros cv y E; simpl in E; try discriminate.
    inv_ok. simpl. f_equal.
    - destruct cv; inv_ok; [|reflexivity]. eapply conv_default_pres; eauto.
    - destruct ms as [l|]; inv_ok.
      + simpl. f_equal. eapply mapM_pres; [|eassumption].
        eapply Forall_impl; [|exact H]. intros z Hz w. apply on_member_pres. exact Hz.
      + destruct (is_seq_or_set a); inv_ok. reflexivity.
    - match goal with X : optM _ el = Ok _ |- _ => rename X into Eel end.
      destruct el; simpl in Eel; inv_ok; [|reflexivity]. simpl. f_equal. eapply H0; eauto.
  Qed.

  Lemma def_numeric n1 n2 n : forall cv, D n1 cv n = D n2 cv n.
  Proof.
    induction n using node_ind2; intros cv; try reflexivity.
    simpl. rewrite (conv_default_numeric n1 n2).
    destruct (if cv then conv_default fuel var n2 sk mn a else Ok a); simpl; [|reflexivity].
    assert (Ems :
      match ms with
      | Some l => let* l' := mapM (on_member (D n1) (is_seq_or_set a)
                                             (is_seq_or_set a && v_group_defaults var)) l in Ok (Some l')
      | None => if is_seq_or_set a then Err EKey else Ok None
      end =
      match ms with
      | Some l => let* l' := mapM (on_member (D n2) (is_seq_or_set a)
                                             (is_seq_or_set a && v_group_defaults var)) l in Ok (Some l')
      | None => if is_seq_or_set a then Err EKey else Ok None
      end).
    { destruct ms as [l|]; [|reflexivity].
      rewrite (mapM_ext (on_member (D n1) (is_seq_or_set a) (is_seq_or_set a && v_group_defaults var))
                        (on_member (D n2) (is_seq_or_set a) (is_seq_or_set a && v_group_defaults var)) l);
        [reflexivity|].
      eapply Forall_impl; [|exact H]. intros z Hz. destruct z; simpl in *; auto.
      rewrite (mapM_ext (D n1 (is_seq_or_set a && v_group_defaults var))
                        (D n2 (is_seq_or_set a && v_group_defaults var)) g); [reflexivity|].
      eapply Forall_impl; [|exact Hz]. intros w Hw. apply Hw. }
    rewrite Ems.
    assert (Eel : optM (D n1 false) el = optM (D n2 false) el).
    { destruct el as [e|]; simpl; [|reflexivity]. rewrite H0. reflexivity. }
    rewrite Eel. reflexivity.
  Qed.
End Def.

(** * A descriptor is determined by its tag-erased and DEFAULT-erased copies *)
Lemma recon_attrs a b : clr_tag a = clr_tag b -> clr_def a = clr_def b -> a = b.
Proof.
  destruct a, b; unfold clr_tag, clr_def; simpl; intros H1 H2.
  injection H1 as -> -> -> -> -> -> ->. injection H2 as ->. reflexivity.
Qed.

Lemma map_recon {A B C} (f : A -> B) (g : A -> C) l : forall l',
  Forall (fun x => forall y, f x = f y -> g x = g y -> x = y) l ->
  map f l = map f l' -> map g l = map g l' -> l = l'.
Proof.
  induction l as [|x r IH]; intros [|y r'] H M1 M2; try discriminate; [reflexivity|].
  inversion H; subst. simpl in *. injection M1 as M1 M1'. injection M2 as M2 M2'.
  f_equal; auto.
Qed.

Lemma recon a : forall b,
  map_attrs clr_tag a = map_attrs clr_tag b -> map_attrs clr_def a = map_attrs clr_def b -> a = b.
Proof.
  induction a using node_ind'; intros b H1 H2; destruct b; simpl in *; try discriminate; try congruence.
  - injection H1 as H1. injection H2 as H2. f_equal. eapply map_recon; eauto.
  - injection H1 as A1 M1 E1. injection H2 as A2 M2 E2. f_equal.
    + apply recon_attrs; assumption.
    + destruct ms as [l|], members as [l'|]; simpl in *; try discriminate; [|reflexivity].
      injection M1 as M1. injection M2 as M2. f_equal. eapply map_recon; eauto.
    + destruct el as [e|], element as [e'|]; simpl in *; try discriminate; [|reflexivity].
      injection E1 as E1. injection E2 as E2. f_equal. apply H0; assumption.
Qed.

(** T-fixedness is transported along the DEFAULT pass. *)
Lemma tag_fixed_transfer fuel sk mn mtags z w :
  map_attrs clr_def w = map_attrs clr_def z ->
  tag_node fuel sk mn mtags None z = Ok z -> tag_node fuel sk mn mtags None w = Ok w.
Proof.
  intros M Hz.
  pose proof (tag_map fuel sk mn mtags None w) as Hw. rewrite M, tag_map, Hz in Hw. simpl in Hw.
  destruct (tag_node fuel sk mn mtags None w) as [w'|] eqn:E; simpl in Hw; [|discriminate].
  injection Hw as Hw. f_equal. apply recon.
  - eapply tag_pres; eauto.
  - rewrite <- Hw. symmetry. exact M.
Qed.

(** * COMPONENTS OF *)
Definition is_compof (x : node) : bool := match x with NCompOf _ => true | _ => false end.
Definition no_compof (l : list node) : bool := forallb (fun x => negb (is_compof x)) l.
Definition top_nocompof (n : node) : bool :=
  match n with NType _ (Some l) _ => no_compof l | _ => true end.

Lemma expand_cons fuel tbl mn x r :
  expand_members fuel tbl mn (x :: r) =
  match x with
  | NCompOf n =>
    match fuel with
    | O => Err EFuel
    | S f =>
      let* tm := lookup (S f) tbl mn n in
      match fst tm with
      | NType _ (Some ims) _ =>
        let* inner := expand_members f tbl (snd tm) ims in
        let* r' := expand_members fuel tbl mn r in
        Ok (until_marker inner ++ r')
      | NType _ None _ | NCompOf _ => Err EKey
      | NMarker | NGroup _ => Err EType
      end
    end
  | _ => let* r' := expand_members fuel tbl mn r in Ok (x :: r')
  end.
Proof. destruct fuel; destruct x; reflexivity. Qed.

Lemma expand_nil fuel tbl mn : expand_members fuel tbl mn [] = Ok [].
Proof. destruct fuel; reflexivity. Qed.

Lemma no_compof_until_marker l : no_compof l = true -> no_compof (until_marker l) = true.
Proof.
  unfold no_compof. induction l as [|x r IH]; [reflexivity|]. simpl. intros H.
  apply andb_prop in H as [Hx Hr]. destruct (is_marker x); [reflexivity|]. simpl. rewrite Hx, (IH Hr). reflexivity.
Qed.

Lemma no_compof_app l1 l2 : no_compof l1 = true -> no_compof l2 = true -> no_compof (l1 ++ l2) = true.
Proof. unfold no_compof. intros. rewrite forallb_app. apply andb_true_intro; split; assumption. Qed.

Lemma expand_no_compof fuel : forall tbl mn l l',
  expand_members fuel tbl mn l = Ok l' -> no_compof l' = true.
Proof.
  induction fuel as [|f IHf]; intros tbl mn l; induction l as [|x r IH]; intros l' E.
  - rewrite expand_nil in E. inv_ok. reflexivity.
  - rewrite expand_cons in E. destruct x; inv_ok; unfold no_compof; simpl; apply IH; assumption.
  - rewrite expand_nil in E. inv_ok. reflexivity.
  - rewrite expand_cons in E. destruct x; inv_ok; try (unfold no_compof; simpl; apply IH; assumption).
    destruct (fst x) as [| |?|? [ims|] ?]; inv_ok.
    apply no_compof_app; [apply no_compof_until_marker; eapply IHf; eauto | apply IH; assumption].
Qed.

Lemma no_compof_expand fuel tbl mn l : no_compof l = true -> expand_members fuel tbl mn l = Ok l.
Proof.
  unfold no_compof. induction l as [|x r IH]; intros H; [apply expand_nil|].
  simpl in H. apply andb_prop in H as [Hx Hr]. rewrite expand_cons, (IH Hr).
  destruct x; try reflexivity. discriminate.
Qed.

Lemma top_nocompof_map f n : top_nocompof (map_attrs f n) = top_nocompof n.
Proof.
  destruct n as [| | |a [l|] el]; try reflexivity. simpl. unfold no_compof.
  induction l as [|x r IH]; [reflexivity|]. simpl. rewrite IH. destruct x; reflexivity.
Qed.

Lemma expand_top_nocompof fuel tbl mn n n' :
  expand_top fuel tbl mn n = Ok n' -> top_nocompof n' = true /\ head_of n' = head_of n.
Proof.
  destruct n as [| | |a [l|] el]; simpl; intros H; inv_ok; try (split; reflexivity).
  split; [|reflexivity]. simpl. eapply expand_no_compof; eauto.
Qed.

Lemma nocompof_expand_top fuel tbl mn n :
  top_nocompof n = true -> head_of n <> None -> expand_top fuel tbl mn n = Ok n.
Proof.
  destruct n as [| | |a [l|] el]; simpl; intros H Hh; try reflexivity; [congruence|].
  rewrite (no_compof_expand _ _ _ _ H). reflexivity.
Qed.

Lemma mapM_forallb {A} (f : A -> result A) (p : A -> bool) l l' :
  (forall x y, f x = Ok y -> p x = true -> p y = true) ->
  mapM f l = Ok l' -> forallb p l = true -> forallb p l' = true.
Proof.
  intros Hf. revert l'. induction l as [|x r IH]; intros l' E H; simpl in E; inv_ok; [reflexivity|].
  simpl in *. apply andb_prop in H as [Hx Hr]. rewrite (Hf _ _ E0 Hx), (IH _ E1 Hr). reflexivity.
Qed.

Lemma ext_top_nocompof var n n' :
  ext_node var n = Ok n' -> top_nocompof n = true -> top_nocompof n' = true.
Proof.
  destruct n as [| | |a [l|] el]; simpl; intros H Hn; inv_ok; try reflexivity.
  simpl. unfold add_marker, no_compof in *.
  assert (F : forallb (fun x => negb (is_compof x)) x0 = true).
  { eapply mapM_forallb; [|eassumption|exact Hn].
    intros y z Ey Hy. destruct y; cbn [ext_member] in Ey.
    - inv_ok. reflexivity.
    - simpl in Hy. discriminate.
    - inv_ok. reflexivity.
    - apply ext_node_NType in Ey as (? & ? & ->). reflexivity. }
  destruct (existsb is_marker x0); [exact F|]. rewrite forallb_app, F. reflexivity.
Qed.

Lemma tag_top_nocompof fuel sk mn mtags k n n' :
  tag_node fuel sk mn mtags k n = Ok n' -> top_nocompof n' = top_nocompof n.
Proof.
  intros H. apply tag_pres in H. rewrite <- (top_nocompof_map clr_tag n'), H. apply top_nocompof_map.
Qed.

(** head (what look-ups read of a top-level type) is preserved by every pass *)
Lemma head_of_map_clr_tag n : head_of (map_attrs clr_tag n) = head_of n.
Proof. destruct n; try reflexivity. simpl. unfold clr_tag. rewrite head_set_tag. reflexivity. Qed.
Lemma head_of_map_clr_def n : head_of (map_attrs clr_def n) = head_of n.
Proof. destruct n; try reflexivity. simpl. unfold clr_def. rewrite head_set_default. reflexivity. Qed.

Lemma ext_head var n n' : ext_node var n = Ok n' -> head_of n' = head_of n.
Proof.
  destruct n as [| | |a ms el]; simpl; intros H; inv_ok; try reflexivity.
  destruct ms; inv_ok; reflexivity.
Qed.
Lemma tag_head fuel sk mn mtags k n n' :
  tag_node fuel sk mn mtags k n = Ok n' -> head_of n' = head_of n.
Proof.
  intros H. apply tag_pres in H. rewrite <- (head_of_map_clr_tag n'), H. apply head_of_map_clr_tag.
Qed.

(** * One top-level type through the passes of one module step *)
Section Pipeline.
  Variable fuel : nat.
  Variable var : variant.
  Hypothesis Hvar : v_numeric_in_dict var = false.
  Variable sk : table (option head).
  Variable mn mtags : string.
  Variable ext : bool.

  Definition ext_if (n : node) : result node := if ext then ext_node var n else Ok n.

  Definition node_fixed (n : node) : Prop :=
    top_nocompof n = true /\ head_of n <> None /\
    ext_if n = Ok n /\
    tag_node fuel sk mn mtags None n = Ok n /\
    forall numeric, def_node fuel var numeric sk mn false n = Ok n.

  Lemma pipeline_fixed numeric x y z w :
    top_nocompof x = true ->
    ext_if x = Ok y ->
    tag_node fuel sk mn mtags None y = Ok z ->
    def_node fuel var numeric sk mn false z = Ok w ->
    node_fixed w /\ head_of w = head_of x.
  Proof.
    intros Nx Ey Tz Dw.
    pose proof (tag_pres _ _ _ _ _ _ _ Tz) as Pz.
    pose proof (def_pres fuel var sk mn numeric _ _ _ Dw) as Pw.
    assert (Hy : head_of y = head_of x /\ top_nocompof y = true /\ ext_if y = Ok y).
    { unfold ext_if in *. destruct ext; inv_ok.
      - split; [eapply ext_head; eauto|]. split; [eapply ext_top_nocompof; eauto|]. eapply ext_idem; eauto.
      - auto. }
    destruct Hy as (Hy1 & Hy2 & Hy3).
    assert (Hw : head_of w = head_of x).
    { rewrite <- (head_of_map_clr_def w), Pw, head_of_map_clr_def.
      rewrite (tag_head _ _ _ _ _ _ _ Tz). exact Hy1. }
    split; [|exact Hw]. repeat split.
    - rewrite <- (top_nocompof_map clr_def w), Pw, top_nocompof_map.
      rewrite (tag_top_nocompof _ _ _ _ _ _ _ Tz). exact Hy2.
    - apply def_node_NType in Dw as (? & ? & ? & ? & ? & ? & _ & -> & _). discriminate.
    - unfold ext_if in *. destruct ext; [|reflexivity].
      apply (ext_fixed_transfer var clr_def z w Pw).
      apply (ext_fixed_transfer var clr_tag y z Pz). exact Hy3.
    - apply (tag_fixed_transfer _ _ _ _ z w Pw). eapply tag_idem; eauto.
    - intros numeric'. rewrite (def_numeric fuel var sk mn Hvar numeric' numeric).
      eapply def_idem; eauto.
  Qed.

  Lemma step_types_nil f : step_types f [] = Ok [].
  Proof. reflexivity. Qed.
  Lemma step_types_cons f nt r :
    step_types f (nt :: r) =
    (let* t := f (snd nt) in let* r' := step_types f r in Ok ((fst nt, t) :: r')).
  Proof.
    unfold step_types. rewrite mapM_cons. destruct (f (snd nt)); reflexivity.
  Qed.

  Lemma step_types_id f ts :
    Forall (fun nt => f (snd nt) = Ok (snd nt)) ts -> step_types f ts = Ok ts.
  Proof.
    induction 1 as [|[n t] r Hx Hr IH]; [reflexivity|].
    rewrite step_types_cons. simpl in *. rewrite Hx. simpl. rewrite IH. reflexivity.
  Qed.

  Lemma ext_if_types ts :
    (if ext then step_types (ext_node var) ts else Ok ts) = step_types ext_if ts.
  Proof.
    unfold ext_if. destruct ext; [reflexivity|]. symmetry. apply step_types_id.
    apply Forall_forall. reflexivity.
  Qed.

  Definition types_fixed (ts : list (string * node)) : Prop :=
    Forall (fun nt => node_fixed (snd nt)) ts.

  Lemma types_pipeline numeric ts : forall ts1 ts2 ts3,
    Forall (fun nt => top_nocompof (snd nt) = true) ts ->
    step_types ext_if ts = Ok ts1 ->
    step_types (tag_node fuel sk mn mtags None) ts1 = Ok ts2 ->
    step_types (def_node fuel var numeric sk mn false) ts2 = Ok ts3 ->
    types_fixed ts3 /\ skel_types ts3 = skel_types ts.
  Proof.
    induction ts as [|[n t] r IH]; intros ts1 ts2 ts3 N E1 E2 E3.
    - rewrite step_types_nil in E1. inv_ok. rewrite step_types_nil in E2. inv_ok.
      rewrite step_types_nil in E3. inv_ok. split; [constructor|reflexivity].
    - inversion N as [|? ? Nx Nr]; subst. simpl in Nx.
      rewrite step_types_cons in E1. inv_ok. rewrite step_types_cons in E2. inv_ok.
      rewrite step_types_cons in E3. inv_ok. simpl in *.
      match goal with
      | A : ext_if t = Ok ?y, B : tag_node _ _ _ _ None ?y = Ok ?z, C : def_node _ _ _ _ _ false ?z = Ok ?w |- _ =>
        destruct (pipeline_fixed _ _ _ _ _ Nx A B C) as [F Hh]
      end.
      match goal with
      | A : step_types ext_if r = Ok _, B : step_types (tag_node _ _ _ _ None) _ = Ok _,
        C : step_types (def_node _ _ _ _ _ false) _ = Ok _ |- _ =>
        destruct (IH _ _ _ Nr A B C) as [Fr Hr]
      end.
      split; [constructor; [exact F|exact Fr]|]. simpl. rewrite Hh, Hr. reflexivity.
  Qed.

  Lemma types_fixed_steps numeric ts :
    types_fixed ts ->
    step_types ext_if ts = Ok ts /\
    step_types (tag_node fuel sk mn mtags None) ts = Ok ts /\
    step_types (def_node fuel var numeric sk mn false) ts = Ok ts.
  Proof.
    intros F. repeat split; apply step_types_id; eapply Forall_impl; try exact F;
      intros nt (A & B & C & D & E); auto.
  Qed.
End Pipeline.

(** * Modules and the dictionary *)
Definition same_frame (m m' : module) : Prop :=
  m_name m' = m_name m /\ m_tags m' = m_tags m /\ m_ext m' = m_ext m /\
  m_imports m' = m_imports m /\ skel_types (m_types m') = skel_types (m_types m).

Lemma same_frame_refl m : same_frame m m.
Proof. repeat split. Qed.

Lemma same_frame_set_types m ts :
  skel_types ts = skel_types (m_types m) -> same_frame m (set_types m ts).
Proof. destruct m; simpl. intros H. repeat split. exact H. Qed.

Lemma set_types_same m : set_types m (m_types m) = m.
Proof. destruct m; reflexivity. Qed.

Lemma m_types_set_types m ts : m_types (set_types m ts) = ts.
Proof. destruct m; reflexivity. Qed.

Lemma find_replace_same d mn m m' :
  find_module d mn = Some m -> m_name m' = m_name m ->
  find_module (replace_module d mn m') mn = Some m'.
Proof.
  induction d as [|x r IH]; simpl; intros F N; [discriminate|].
  destruct (String.eqb mn (m_name x)) eqn:E.
  - injection F as ->. simpl. rewrite N, E. reflexivity.
  - simpl. rewrite E. apply IH; assumption.
Qed.

Lemma find_replace_other d mn mn' m m' :
  find_module d mn = Some m -> m_name m' = m_name m -> mn' <> mn ->
  find_module (replace_module d mn m') mn' = find_module d mn'.
Proof.
  induction d as [|x r IH]; simpl; intros F N D; [discriminate|].
  destruct (String.eqb mn (m_name x)) eqn:E.
  - injection F as ->. simpl. rewrite N. apply String.eqb_eq in E. subst mn.
    destruct (String.eqb mn' (m_name m)) eqn:E2; [|reflexivity].
    apply String.eqb_eq in E2. congruence.
  - simpl. destruct (String.eqb mn' (m_name x)); [reflexivity|]. apply IH; assumption.
Qed.

Lemma replace_self d mn m : find_module d mn = Some m -> replace_module d mn m = d.
Proof.
  induction d as [|x r IH]; simpl; intros F; [reflexivity|].
  destruct (String.eqb mn (m_name x)); [injection F as ->; reflexivity|]. f_equal. auto.
Qed.

Lemma skel_replace d mn m m' :
  find_module d mn = Some m -> same_frame m m' -> skel (replace_module d mn m') = skel d.
Proof.
  intros F (N & _ & _ & I & S). revert F. induction d as [|x r IH]; simpl; intros F; [reflexivity|].
  destruct (String.eqb mn (m_name x)).
  - injection F as ->. simpl. rewrite N, I, S. reflexivity.
  - simpl. f_equal. auto.
Qed.

Lemma names_of_skel d : map m_name d = map fst (skel d).
Proof. unfold skel. rewrite map_map. reflexivity. Qed.

Lemma find_module_In d mn m : find_module d mn = Some m -> In mn (map m_name d).
Proof.
  induction d as [|x r IH]; simpl; intros F; [discriminate|].
  destruct (String.eqb mn (m_name x)) eqn:E; [left; apply String.eqb_eq in E; auto | right; auto].
Qed.

Lemma step_types_spec f (Q : node -> node -> Prop) ts : forall ts',
  (forall t t', f t = Ok t' -> Q t t') -> step_types f ts = Ok ts' ->
  Forall2 (fun nt nt' => fst nt' = fst nt /\ Q (snd nt) (snd nt')) ts ts'.
Proof.
  induction ts as [|nt r IH]; intros ts' HQ E.
  - rewrite step_types_nil in E. inv_ok. constructor.
  - rewrite step_types_cons in E. inv_ok. constructor; [split; [reflexivity|]; simpl; auto|auto].
Qed.

Section Dict.
  Variable fuel : nat.
  Variable var : variant.
  Hypothesis Hvar : v_numeric_in_dict var = false.

  Definition module_nocompof (m : module) : Prop :=
    Forall (fun nt => top_nocompof (snd nt) = true) (m_types m).
  Definition module_fixed (sk : table (option head)) (m : module) : Prop :=
    types_fixed fuel var sk (m_name m) (module_tags m) (m_ext m) (m_types m).

  Lemma module_fixed_nocompof sk m : module_fixed sk m -> module_nocompof m.
  Proof.
    unfold module_fixed, module_nocompof, types_fixed. intros F.
    eapply Forall_impl; [|exact F]. intros nt (A & _). exact A.
  Qed.

  Lemma module_tags_frame m m' : same_frame m m' -> module_tags m' = module_tags m.
  Proof. intros (_ & T & _). unfold module_tags. rewrite T. reflexivity. Qed.

  Lemma expand_module_spec d m m' :
    expand_module fuel d m = Ok m' -> module_nocompof m' /\ same_frame m m'.
  Proof.
    unfold expand_module. intros H. inv_ok.
    pose proof (step_types_spec _ (fun t t' => top_nocompof t' = true /\ head_of t' = head_of t) _ _
                                (expand_top_nocompof fuel (dict_table d) (m_name m)) E) as F2.
    assert (G : Forall (fun nt => top_nocompof (snd nt) = true) x /\ skel_types x = skel_types (m_types m)).
    { clear E. induction F2 as [|nt nt' r r' (A & B & C) F2 IH]; [split; [constructor|reflexivity]|].
      destruct IH as [I1 I2]. split; [constructor; assumption|]. simpl. rewrite A, C, I2. reflexivity. }
    destruct G as [G1 G2]. split.
    - unfold module_nocompof. rewrite m_types_set_types. exact G1.
    - apply same_frame_set_types. exact G2.
  Qed.

  Lemma fixed_expand_module sk d m : module_fixed sk m -> expand_module fuel d m = Ok m.
  Proof.
    intros F. unfold expand_module. rewrite step_types_id; [simpl; rewrite set_types_same; reflexivity|].
    eapply Forall_impl; [|exact F]. intros nt (A & B & _). apply nocompof_expand_top; assumption.
  Qed.

  Lemma process_module_spec numeric d m m' :
    process_module fuel var numeric d m = Ok m' ->
    (v_compof_first var = true -> module_nocompof m) ->
    module_fixed (skel d) m' /\ same_frame m m'.
  Proof.
    unfold process_module. intros H Pre. inv_ok.
    assert (M1 : module_nocompof x /\ same_frame m x).
    { destruct (v_compof_first var); inv_ok; [split; [auto|apply same_frame_refl]|].
      eapply expand_module_spec; eauto. }
    destruct M1 as [N1 F1]. rewrite ext_if_types in E0.
    destruct (types_pipeline fuel var Hvar (skel d) (m_name m) (module_tags m) (m_ext x) numeric
                             _ _ _ _ N1 E0 E1 E2) as [TF SK].
    split.
    - unfold module_fixed. destruct F1 as (_ & _ & Fe & _).
      destruct m; simpl in *. rewrite <- Fe. exact TF.
    - apply same_frame_set_types. rewrite SK. destruct F1 as (_ & _ & _ & _ & S). exact S.
  Qed.

  Lemma module_fixed_process numeric d m :
    module_fixed (skel d) m -> process_module fuel var numeric d m = Ok m.
  Proof.
    intros F. unfold process_module.
    assert (X : (if v_compof_first var then Ok m else expand_module fuel d m) = Ok m).
    { destruct (v_compof_first var); [reflexivity|]. eapply fixed_expand_module; eauto. }
    rewrite X. simpl. rewrite ext_if_types.
    destruct (types_fixed_steps fuel var (skel d) (m_name m) (module_tags m) (m_ext m) numeric _ F)
      as (A & B & C).
    rewrite A. simpl. rewrite B. simpl. rewrite C. simpl. rewrite set_types_same. reflexivity.
  Qed.

  Definition fixed_at (d : dict) (mn : string) : Prop :=
    exists m, find_module d mn = Some m /\ module_fixed (skel d) m.
  Definition all_nocompof (d : dict) : Prop :=
    forall mn m, find_module d mn = Some m -> module_nocompof m.

  Lemma run_process_spec numeric names : forall d d1,
    run_modules (process_module fuel var numeric) names d = Ok d1 ->
    (v_compof_first var = true -> all_nocompof d) ->
    skel d1 = skel d /\
    (forall mn, In mn names -> fixed_at d1 mn) /\
    (forall mn, fixed_at d mn -> fixed_at d1 mn).
  Proof.
    induction names as [|mn r IH]; intros d d1 E Pre.
    - simpl in E. inv_ok. repeat split; [intros ? []|auto].
    - simpl in E. destruct (find_module d mn) as [m|] eqn:F; [|discriminate]. inv_ok.
      destruct (process_module_spec _ _ _ _ E0 (fun c => Pre c _ _ F)) as [MF SF].
      pose proof (skel_replace _ _ _ _ F SF) as SK.
      set (d' := replace_module d mn x) in *.
      assert (Keep : forall mn', fixed_at d mn' -> fixed_at d' mn').
      { intros mn' (m0 & F0 & MF0). destruct (String.eqb mn' mn) eqn:Q.
        - apply String.eqb_eq in Q. subst mn'. exists x. split.
          + apply (find_replace_same _ _ _ _ F). apply SF.
          + rewrite SK. exact MF.
        - apply String.eqb_neq in Q. exists m0. split.
          + unfold d'. rewrite (find_replace_other _ _ _ _ _ F); [exact F0|apply SF|exact Q].
          + rewrite SK. exact MF0. }
      assert (Here : fixed_at d' mn).
      { exists x. split; [apply (find_replace_same _ _ _ _ F); apply SF | rewrite SK; exact MF]. }
      assert (Pre' : v_compof_first var = true -> all_nocompof d').
      { intros c mn' m0 F0. destruct (String.eqb mn' mn) eqn:Q.
        - apply String.eqb_eq in Q. subst mn'. unfold d' in F0.
          rewrite (find_replace_same _ _ _ _ F) in F0 by apply SF. injection F0 as <-.
          eapply module_fixed_nocompof; eauto.
        - apply String.eqb_neq in Q. unfold d' in F0.
          rewrite (find_replace_other _ _ _ _ _ F) in F0; [eapply Pre; eauto|apply SF|exact Q]. }
      destruct (IH _ _ E Pre') as (S1 & In1 & Keep1).
      split; [rewrite S1; exact SK|]. split.
      + intros mn' [<-|I]; [apply Keep1; exact Here | apply In1; exact I].
      + intros mn' Fx. apply Keep1. apply Keep. exact Fx.
  Qed.

  Lemma run_process_fixed numeric names d :
    (forall mn, In mn names -> fixed_at d mn) ->
    run_modules (process_module fuel var numeric) names d = Ok d.
  Proof.
    induction names as [|mn r IH]; intros H; [reflexivity|]. simpl.
    destruct (H mn (or_introl eq_refl)) as (m & F & MF). rewrite F.
    rewrite (module_fixed_process _ _ _ MF). simpl. rewrite (replace_self _ _ _ F).
    apply IH. intros mn' I. apply H. right. exact I.
  Qed.

  Lemma run_expand_spec names : forall d d1,
    run_modules (expand_module fuel) names d = Ok d1 ->
    skel d1 = skel d /\
    (forall mn m, In mn names -> find_module d1 mn = Some m -> module_nocompof m) /\
    (forall mn, (forall m, find_module d mn = Some m -> module_nocompof m) ->
                forall m, find_module d1 mn = Some m -> module_nocompof m).
  Proof.
    induction names as [|mn r IH]; intros d d1 E.
    - simpl in E. inv_ok. repeat split; [intros ? ? []|auto].
    - simpl in E. destruct (find_module d mn) as [m|] eqn:F; [|discriminate]. inv_ok.
      destruct (expand_module_spec _ _ _ E0) as [MN SF].
      pose proof (skel_replace _ _ _ _ F SF) as SK.
      set (d' := replace_module d mn x) in *.
      assert (Here : forall m0, find_module d' mn = Some m0 -> module_nocompof m0).
      { intros m0 F0. unfold d' in F0. rewrite (find_replace_same _ _ _ _ F) in F0 by apply SF.
        injection F0 as <-. exact MN. }
      assert (Keep : forall mn', (forall m0, find_module d mn' = Some m0 -> module_nocompof m0) ->
                                 forall m0, find_module d' mn' = Some m0 -> module_nocompof m0).
      { intros mn' P m0 F0. destruct (String.eqb mn' mn) eqn:Q.
        - apply String.eqb_eq in Q. subst mn'. apply Here. exact F0.
        - apply String.eqb_neq in Q. unfold d' in F0.
          rewrite (find_replace_other _ _ _ _ _ F) in F0; [auto|apply SF|exact Q]. }
      destruct (IH _ _ E) as (S1 & In1 & Keep1).
      split; [rewrite S1; exact SK|]. split.
      + intros mn' m0 [<-|I] F0; [eapply Keep1; eauto | eapply In1; eauto].
      + intros mn' P. apply Keep1. apply Keep. exact P.
  Qed.

  Lemma run_expand_fixed names d :
    (forall mn, In mn names -> fixed_at d mn) ->
    run_modules (expand_module fuel) names d = Ok d.
  Proof.
    induction names as [|mn r IH]; intros H; [reflexivity|]. simpl.
    destruct (H mn (or_introl eq_refl)) as (m & F & MF). rewrite F.
    rewrite (fixed_expand_module _ _ _ MF). simpl. rewrite (replace_self _ _ _ F).
    apply IH. intros mn' I. apply H. right. exact I.
  Qed.

  (** A successful pre_process leaves every module (the first one of each
      name) at a fixed point of the module step. *)
  Lemma preprocess_fixed numeric d d1 :
    preprocess fuel var numeric d = Ok d1 ->
    skel d1 = skel d /\ forall mn, In mn (map m_name d) -> fixed_at d1 mn.
  Proof.
    unfold preprocess. intros H. inv_ok.
    assert (P1 : skel x = skel d /\ (v_compof_first var = true -> all_nocompof x)).
    { destruct (v_compof_first var); inv_ok; [|split; [reflexivity|discriminate]].
      destruct (run_expand_spec _ _ _ E) as (S & I & _). split; [exact S|].
      intros _ mn m F. eapply I; [|exact F].
      rewrite names_of_skel, <- S, <- names_of_skel. eapply find_module_In; eauto. }
    destruct P1 as [S1 Pre].
    destruct (run_process_spec _ _ _ _ H Pre) as (S2 & I2 & _).
    split; [rewrite S2; exact S1 | exact I2].
  Qed.

  Theorem preprocess_idempotent_ numeric numeric' d d1 :
    preprocess fuel var numeric d = Ok d1 -> preprocess fuel var numeric' d1 = Ok d1.
  Proof.
    intros H. destruct (preprocess_fixed _ _ _ H) as [S Fx].
    assert (N : map m_name d1 = map m_name d) by (rewrite !names_of_skel, S; reflexivity).
    unfold preprocess. rewrite N.
    assert (X : (if v_compof_first var then run_modules (expand_module fuel) (map m_name d) d1 else Ok d1) = Ok d1).
    { destruct (v_compof_first var); [|reflexivity]. apply run_expand_fixed. exact Fx. }
    rewrite X. simpl. apply run_process_fixed. exact Fx.
  Qed.

  (** The options of a run do not matter when numeric_enums does not touch the dictionary. *)
  Lemma process_module_numeric n1 n2 d m :
    process_module fuel var n1 d m = process_module fuel var n2 d m.
  Proof.
    unfold process_module.
    destruct (if v_compof_first var then Ok m else expand_module fuel d m) as [m1|]; simpl; [|reflexivity].
    destruct (if m_ext m1 then step_types (ext_node var) (m_types m1) else Ok (m_types m1)) as [ts2|];
      simpl; [|reflexivity].
    destruct (step_types (tag_node fuel (skel d) (m_name m) (module_tags m) None) ts2) as [ts3|];
      simpl; [|reflexivity].
    assert (E : step_types (def_node fuel var n1 (skel d) (m_name m) false) ts3 =
                step_types (def_node fuel var n2 (skel d) (m_name m) false) ts3).
    { unfold step_types. apply mapM_ext. apply Forall_forall. intros nt _.
      rewrite (def_numeric fuel var (skel d) (m_name m) Hvar n1 n2). reflexivity. }
    rewrite E. reflexivity.
  Qed.

  Lemma run_modules_ext f g names : (forall d m, f d m = g d m) ->
    forall d, run_modules f names d = run_modules g names d.
  Proof.
    intros H. induction names as [|mn r IH]; intros d; [reflexivity|]. simpl.
    destruct (find_module d mn); [|reflexivity]. rewrite H. destruct (g d m); simpl; auto.
  Qed.

  Lemma preprocess_numeric n1 n2 d : preprocess fuel var n1 d = preprocess fuel var n2 d.
  Proof.
    unfold preprocess.
    destruct (if v_compof_first var then run_modules (expand_module fuel) (map m_name d) d else Ok d);
      simpl; [|reflexivity].
    apply run_modules_ext. intros. apply process_module_numeric.
  Qed.
End Dict.

(** * The theorems *)
Theorem preprocess_idempotent fuel var n1 n2 d d1 :
  v_numeric_in_dict var = false ->
  preprocess fuel var n1 d = Ok d1 -> preprocess fuel var n2 d1 = Ok d1.
Proof. intros Hvar. apply preprocess_idempotent_. exact Hvar. Qed.

Theorem preprocess_absorbs fuel var o1 o2 d :
  v_numeric_in_dict var = false ->
  (let* d1 := preprocess fuel var o1 d in preprocess fuel var o2 d1) = preprocess fuel var o2 d.
Proof.
  intros Hvar. rewrite (preprocess_numeric fuel var Hvar o2 o1 d).
  destruct (preprocess fuel var o1 d) as [d1|] eqn:E; simpl; [|reflexivity].
  eapply preprocess_idempotent; eauto.
Qed.

Section History.
  Context {R : Type}.
  Variable fuel : nat.
  Variable var : variant.
  Hypothesis Hvar : v_numeric_in_dict var = false.
  Variable process : compiler_id -> bool -> dict -> R.

  Lemma compile_dict_ok c n d d1 :
    preprocess fuel var n d = Ok d1 ->
    compile_dict fuel var process c n d =
    Ok (d1, (process (CCodec c) n d1, process CTypeChecker n d1, process CConstraintsChecker n d1)).
  Proof.
    intros H. unfold compile_dict. rewrite H. simpl.
    rewrite (preprocess_idempotent _ _ _ n _ _ Hvar H). simpl.
    rewrite (preprocess_idempotent _ _ _ n _ _ Hvar H). reflexivity.
  Qed.

  Lemma compile_dict_err c n d e :
    preprocess fuel var n d = Err e -> compile_dict fuel var process c n d = Err e.
  Proof. intros H. unfold compile_dict. rewrite H. reflexivity. Qed.

  Lemma run_state h : forall d d',
    run fuel var process h d = Ok d' -> d' = d \/ preprocess fuel var false d = Ok d'.
  Proof.
    induction h as [|s r IH]; intros d d' E; simpl in E.
    - inv_ok. left. reflexivity.
    - destruct s as [c n| |]; try (apply IH; exact E).
      inv_ok. destruct (preprocess fuel var n d) as [d1|] eqn:P.
      + rewrite (compile_dict_ok _ _ _ _ P) in E0. inv_ok. simpl in E.
        rewrite (preprocess_numeric fuel var Hvar n false) in P.
        destruct (IH _ _ E) as [->|Q]; [right; exact P|].
        right. rewrite (preprocess_idempotent _ _ _ false _ _ Hvar P) in Q. inv_ok. exact P.
      + rewrite (compile_dict_err _ _ _ _ P) in E0. discriminate.
  Qed.

  (** Compiling with any codec and options after any history of successful
      compilations (with pformat/eval and deep-copy steps in between) of the
      same dictionary gives exactly the result of compiling the dictionary as
      parsed: the same final dictionary and the same three compiler outputs,
      or the same failure. *)
  Theorem history_independent h c o d d' :
    run fuel var process h d = Ok d' ->
    compile_dict fuel var process c o d' = compile_dict fuel var process c o d.
  Proof.
    intros H. destruct (run_state _ _ _ H) as [->|P]; [reflexivity|].
    rewrite (preprocess_numeric fuel var Hvar false o) in P.
    rewrite (compile_dict_ok c o d d' P).
    apply compile_dict_ok. eapply preprocess_idempotent; eauto.
  Qed.
End History.

(** * The upstream numeric_enums rewrite refutes it *)
Definition enum_e : node :=
  NType (Attrs "ENUMERATED" (Some "e") None false (Some (DvStr "c"))
               (Some [Some ("a", EvInt 0); Some ("b", EvInt 1); Some ("c", EvInt 2)]) None [])
        None None.
(** M DEFINITIONS AUTOMATIC TAGS ::= BEGIN
      T ::= SEQUENCE { e ENUMERATED { a, b, c } DEFAULT c } END *)
Definition witness_dict : dict :=
  [Module "M" (Some "AUTOMATIC") false []
          [("T", NType (Attrs "SEQUENCE" None None false None None None []) (Some [enum_e]) None)] []].

Definition view (_ : compiler_id) (_ : bool) (d : dict) : list (string * dval) := default_view d.

Theorem preprocess_absorbs_refuted :
  exists d, (let* d1 := preprocess 8 upstream true d in preprocess 8 upstream false d1)
            <> preprocess 8 upstream false d.
Proof. exists witness_dict. vm_compute. intros H. discriminate H. Qed.

(** compile_dict(d, 'der', numeric_enums=True) then compile_dict(d, 'der'):
    the second codec's absent DEFAULT is the int 2 instead of 'c'. *)
Theorem history_independent_refuted :
  exists h c o d d',
    run 8 upstream view h d = Ok d' /\
    compile_dict 8 upstream view c o d' <> compile_dict 8 upstream view c o d /\
    option_map (fun x => fst (fst (snd x)))
               (match compile_dict 8 upstream view c o d' with Ok x => Some x | Err _ => None end)
    = Some [("M.T.e", DvInt 2)].
Proof.
  exists [SCompile Der true], Der, false, witness_dict.
  eexists. split; [vm_compute; reflexivity|]. split; [vm_compute; intros H; discriminate H|].
  vm_compute. reflexivity.
Qed.

(** The same history with the repaired behaviour. *)
Example history_witness_repaired :
  match run 8 repaired view [SCompile Der true] witness_dict with
  | Ok d' => compile_dict 8 repaired view Der false d' = compile_dict 8 repaired view Der false witness_dict
  | Err _ => False
  end.
Proof. vm_compute. reflexivity. Qed.
