(** C19 — what a type means independently of how the specification text is
    organised, and what the library's compile makes of it.

    [unfold n K env mn t]: the type [t], written in module [mn], with every
    type reference replaced by the referenced definition (looked up through
    the own module, then IMPORTS), value references in bounds replaced by
    their numbers, constraints applied to a reference (SIZE / value range)
    applied to the referenced type, and DEFAULT values interpreted by the
    resolved type of the member.  Recursive types unfold for ever, so the
    result is the unfolding truncated at constructor depth [n] ([FCut]); two
    types are the same when their unfoldings agree at every depth.  [K] bounds
    chains of references (A ::= B, B ::= C ...; a cyclic chain gives [EFuel]).
    Constructed types carry the tagging default and EXTENSIBILITY IMPLIED flag
    of the module they are written in (these change their meaning).

    [compile_per cv ...]: the same traversal the way
    asn1tools/codecs/compiler.py + per.py do it (compile_type /
    compile_user_type / compile_member, 826-905): a reference is compiled from
    the referenced definition, then the member's attributes are applied to a
    shallow copy: SIZE through set_size_range (which upstream is a no-op for
    SEQUENCE OF / SET OF / BIT STRING in per.py, [cv_size_on_ref]) and only when
    the reference is the type of a member; a value range through
    set_restricted_to_range with the bounds looked up in the module of the
    REFERENCED type upstream ([cv_range_module] = false); the DEFAULT value as
    parser.convert_value converts it from the token and the syntactic type
    alone, then the DEFAULT clean-up of pre_process by resolved type (BIT /
    OCTET STRING, and BOOLEAN when [cv_bool_default]).  The compiled-type cache
    (get/set_compiled_type keyed by module, type and member name) memoises a
    function of its key and every attribute is set on a copy, so it does not
    appear here: see [Compile/FlattenProofs.v] [memo_transparent].

    No proofs in this file. *)
From Asn1V Require Import Base.Prelude Compile.Descr Compile.Preprocess Compile.Resolve.
Open Scope string_scope.
Open Scope list_scope.
Open Scope Z_scope.

Inductive fvalue : Type :=
| VB (b : bool)
| VI (z : Z)
| VE (s : string)
| VBitsV (bs : list bool)
| VBytesV (bs : list Z)
| VRaw (d : dtext).           (* not interpretable at this type: the token itself *)

Inductive fopt : Type := FMandatory | FOptional | FDefault (v : fvalue).

Inductive fty : Type :=
| FCut
| FBool
| FNull
| FInt (c : option fcons)
| FEnum (items : list (string * Z)) (extensible : bool)
| FBits (size : option fcons)
| FOctets (size : option fcons)
| FStr (size : option fcons)
| FSeq (isset : bool) (tags : string) (ext_implied : bool)
       (root : list (string * option stag * fty * fopt))
       (ext : option (list (string * option stag * fty * fopt)))
| FSeqOf (isset : bool) (elem : fty) (size : option fcons)
| FChoice (tags : string) (ext_implied : bool)
          (root : list (string * option stag * fty * fopt))
          (ext : option (list (string * option stag * fty * fopt))).

Definition fmember : Type := (string * option stag * fty * fopt)%type.

Definition bits_of (o : option (list bool)) (d : dtext) : fvalue :=
  match o with Some bs => VBitsV bs | None => VRaw d end.

(** The value a DEFAULT token denotes at a resolved type. *)
Definition interp_default (f : fty) (d : dtext) : fvalue :=
  match f, d with
  | FBool, TTrue => VB true
  | FBool, TFalse => VB false
  | FInt _, TNum z => VI z
  | FEnum _ _, TIdent s => VE s
  | FBits _, TBin s => bits_of (bin_bits s) d
  | FBits _, THex s => bits_of (option_map strip_trailing_false (hex_bits s)) d   (* as the library: trailing 0 bits dropped *)
  | FOctets _, TBin s =>
    match bin_bits s with Some bs => VBytesV (pack (pad_to 8 bs)) | None => VRaw d end
  | FOctets _, THex s =>
    match hex_bits (if Nat.odd (String.length s) then (s ++ "0")%string else s) with
    | Some bs => VBytesV (pack bs) | None => VRaw d end
  | _, _ => VRaw d
  end.

Definition apply_size (sz : option fcons) (f : fty) : fty :=
  match sz with
  | None => f
  | Some _ =>
    match f with
    | FBits _ => FBits sz
    | FOctets _ => FOctets sz
    | FStr _ => FStr sz
    | FSeqOf s e _ => FSeqOf s e sz
    | _ => f
    end
  end.

Definition apply_range (rg : option fcons) (f : fty) : fty :=
  match rg with
  | None => f
  | Some _ => match f with FInt _ => FInt rg | _ => f end
  end.

(** Is the DEFAULT token a value of the resolved type?  Ill-typed DEFAULTs
    (x BOOLEAN DEFAULT 5) and DEFAULTs below the depth limit are outside the
    model: both [unfold] and [compile_per] answer the raw token for them. *)
Definition wf_default (f : fty) (d : dtext) : bool :=
  match f, d with
  | FBool, (TTrue | TFalse) => true
  | FInt _, TNum _ => true
  | FEnum _ _, TIdent _ => true
  | (FBits _ | FOctets _), (TBin _ | THex _) => true
  | _, _ => false
  end.

Definition fopt_of (interp : fty -> dtext -> fvalue) (f : fty) (o : sopt) : fopt :=
  match o with
  | SMandatory => FMandatory
  | SOptional => FOptional
  | SDefault d => FDefault (if wf_default f d then interp f d else VRaw d)
  end.

Section Unfold.
  Variable lf : nat.     (* fuel of one look-up (length of IMPORTS chains) *)
  Variable K : nat.      (* bound on chains of references between two constructors *)
  Variable env : senv.

  Definition member_with (U : sty -> result fty) (m : smember) : result fmember :=
    let* f := U (sm_ty m) in
    Ok (sm_name m, sm_tag m, f, fopt_of interp_default f (sm_opt m)).

  Definition flags (mn : string) : result (string * bool) :=
    match assoc mn (flags_table env) with Some x => Ok x | None => Err EKey end.

  Fixpoint unfold (n : nat) : nat -> string -> sty -> result fty :=
    match n with
    | O => fun _ _ _ => Ok FCut
    | S n' =>
      fix go (k : nat) (mn : string) (t : sty) {struct k} : result fty :=
        match t with
        | SBool => Ok FBool
        | SNull => Ok FNull
        | SInt c => let* c' := resolve_cons lf env mn c in Ok (FInt c')
        | SEnum items e => Ok (FEnum items e)
        | SBits s => let* s' := resolve_cons lf env mn s in Ok (FBits s')
        | SOctets s => let* s' := resolve_cons lf env mn s in Ok (FOctets s')
        | SStr s => let* s' := resolve_cons lf env mn s in Ok (FStr s')
        | SSeq isset root ext =>
          let* fl := flags mn in
          let* root' := mapM (member_with (unfold n' K mn)) root in
          let* ext' := optM (mapM (member_with (unfold n' K mn))) ext in
          Ok (FSeq isset (fst fl) (snd fl) root' ext')
        | SChoice root ext =>
          let* fl := flags mn in
          let* root' := mapM (member_with (unfold n' K mn)) root in
          let* ext' := optM (mapM (member_with (unfold n' K mn))) ext in
          Ok (FChoice (fst fl) (snd fl) root' ext')
        | SSeqOf isset elem s =>
          let* e' := unfold n' K mn elem in
          let* s' := resolve_cons lf env mn s in
          Ok (FSeqOf isset e' s')
        | SRef name sz rg =>
          match k with
          | O => Err EFuel
          | S k' =>
            let* d := lookup_type lf env mn name in
            let* f := go k' (snd d) (fst d) in
            let* sz' := resolve_cons lf env mn sz in
            let* rg' := resolve_cons lf env mn rg in
            Ok (apply_range rg' (apply_size sz' f))
          end
        end
    end.
End Unfold.

(** flatten: the unfolding of the named type [name] of module [mn]. *)
Definition flatten (lf K : nat) (env : senv) (n : nat) (mn name : string) : result fty :=
  unfold lf K env n K mn (SRef name None None).

(** ------------------------------------------------------------------ *)
(** The library's compile (PER family)                                  *)

Inductive cvariant : Type :=
  CVariant (size_on_ref : bool)     (* set_size_range implemented by per.ArrayType / per.BitString *)
           (bool_default : bool)    (* TRUE/FALSE DEFAULT through a reference converted *)
           (range_module : bool).   (* bounds of a range applied to a reference looked up in the module of the reference *)
Definition cv_size_on_ref v := let 'CVariant a _ _ := v in a.
Definition cv_bool_default v := let 'CVariant _ a _ := v in a.
Definition cv_range_module v := let 'CVariant _ _ a := v in a.
Definition cupstream : cvariant := CVariant false false false.
Definition crepaired : cvariant := CVariant true true true.

(** parser.convert_value: keyed on the syntactic type of the member only *)
Definition parser_default (syntactic : sty) (d : dtext) : fvalue :=
  match syntactic, d with
  | SBool, TTrue => VB true
  | SBool, _ => VB false                   (* tokens[0] == 'TRUE' *)
  | SInt _, TNum z => VI z
  | _, TNum z => VI z                      (* convert_number *)
  | _, TIdent s => VE s                    (* a str *)
  | _, _ => VRaw d                         (* 'TRUE' / 'FALSE' / '0b..' / '0x..' as text *)
  end.

(** then pre_process_default_value, by the resolved type *)
Definition lib_default (cv : cvariant) (syntactic : sty) (f : fty) (d : dtext) : fvalue :=
  match parser_default syntactic d with
  | VRaw TTrue => match f with FBool => if cv_bool_default cv then VB true else VRaw d | _ => VRaw d end
  | VRaw TFalse => match f with FBool => if cv_bool_default cv then VB false else VRaw d | _ => VRaw d end
  | VRaw (TBin s) =>
    match f with
    | FBits _ => bits_of (bin_bits s) d
    | FOctets _ => match bin_bits s with Some bs => VBytesV (pack (pad_to 8 bs)) | None => VRaw d end
    | _ => VRaw d
    end
  | VRaw (THex s) =>
    match f with
    | FBits _ => bits_of (option_map strip_trailing_false (hex_bits s)) d
    | FOctets _ =>
      match hex_bits (if Nat.odd (String.length s) then (s ++ "0")%string else s) with
      | Some bs => VBytesV (pack bs) | None => VRaw d end
    | _ => VRaw d
    end
  | v => v
  end.

(** set_size_range on the (copy of the) compiled referenced type *)
Definition lib_apply_size (cv : cvariant) (sz : option fcons) (f : fty) : fty :=
  match sz with
  | None => f
  | Some _ =>
    match f with
    | FOctets _ => FOctets sz
    | FStr _ => FStr sz
    | FBits _ => if cv_size_on_ref cv then FBits sz else f
    | FSeqOf s e _ => if cv_size_on_ref cv then FSeqOf s e sz else f
    | _ => f
    end
  end.

Section CompilePer.
  Variable cv : cvariant.
  Variable lf : nat.
  Variable K : nat.
  Variable env : senv.

  Definition lib_member (C : sty -> result fty) (m : smember) : result fmember :=
    let* f := C (sm_ty m) in
    Ok (sm_name m, sm_tag m, f, fopt_of (lib_default cv (sm_ty m)) f (sm_opt m)).

  (** [pos]: the type is the type of a SEQUENCE / SET / CHOICE member
      (compile_member applies 'size'); otherwise it is an element of SEQUENCE
      OF / SET OF or the right-hand side of an assignment. *)
  Fixpoint compile_per (n : nat) : nat -> bool -> string -> sty -> result fty :=
    match n with
    | O => fun _ _ _ _ => Ok FCut
    | S n' =>
      fix go (k : nat) (pos : bool) (mn : string) (t : sty) {struct k} : result fty :=
        match t with
        | SBool => Ok FBool
        | SNull => Ok FNull
        | SInt c => let* c' := resolve_cons lf env mn c in Ok (FInt c')
        | SEnum items e => Ok (FEnum items e)
        | SBits s => let* s' := resolve_cons lf env mn s in Ok (FBits s')
        | SOctets s => let* s' := resolve_cons lf env mn s in Ok (FOctets s')
        | SStr s => let* s' := resolve_cons lf env mn s in Ok (FStr s')
        | SSeq isset root ext =>
          let* fl := flags env mn in
          let* root' := mapM (lib_member (compile_per n' K true mn)) root in
          let* ext' := optM (mapM (lib_member (compile_per n' K true mn))) ext in
          Ok (FSeq isset (fst fl) (snd fl) root' ext')
        | SChoice root ext =>
          let* fl := flags env mn in
          let* root' := mapM (lib_member (compile_per n' K true mn)) root in
          let* ext' := optM (mapM (lib_member (compile_per n' K true mn))) ext in
          Ok (FChoice (fst fl) (snd fl) root' ext')
        | SSeqOf isset elem s =>
          let* e' := compile_per n' K false mn elem in
          let* s' := resolve_cons lf env mn s in
          Ok (FSeqOf isset e' s')
        | SRef name sz rg =>
          match k with
          | O => Err EFuel
          | S k' =>
            let* d := lookup_type lf env mn name in
            let* f := go k' false (snd d) (fst d) in
            let* f1 := if pos then
                         let* sz' := resolve_cons lf env mn sz in Ok (lib_apply_size cv sz' f)
                       else Ok f in
            let* rg' := resolve_cons lf env (if cv_range_module cv then mn else snd d) rg in
            Ok (apply_range rg' f1)
          end
        end
    end.
End CompilePer.

Definition compile_named (cv : cvariant) (lf K : nat) (env : senv) (n : nat) (mn name : string) : result fty :=
  compile_per cv lf K env n K false mn (SRef name None None).
