(** C13 — model of asn1tools/codecs/compiler.py Compiler.pre_process
    (lines ~246-517 and the lookup/resolve helpers ~760-800, 1024-1066): the
    passes that rewrite the specification dictionary IN PLACE, written as a
    pure function [dict -> result dict] that returns the rewritten dictionary.

      COMPONENTS OF expansion          pre_process_components_of*
      EXTENSIBILITY IMPLIED markers    pre_process_extensibility_implied*
      tag kind defaulting + AUTOMATIC  pre_process_tags*
      DEFAULT clean-up                 pre_process_default_value*

    The X.683 parameterisation steps are the identity on dictionaries without
    'parameters' / 'actual-parameters' (the properties exclude parameterised
    types) and are not modelled; object-class field types ('&') neither.

    Granularity of the in-place mutation.  Python mutates one descriptor at a
    time; the model threads the dictionary through the loop over MODULES (so
    that COMPONENTS OF, which copies members out of other modules, sees exactly
    the state the Python sees) and, within one module step, answers the
    reference look-ups of the tag and DEFAULT passes ([resolve_type_name],
    [resolve_type_descriptor]) from the *skeleton* of the dictionary at the
    start of the step: module names, IMPORTS and, per top-level type, its
    'type', 'values' and 'named-bits'.  No pass writes any of these, which is
    why this is the same as reading the partly rewritten dictionary.

    [variant] selects between the behaviour of the upstream code and the
    behaviour with the proposed repairs (proposed_fixes/C13-*.diff,
    C19-*.diff); the correspondence run of harness/c13.py uses [repaired].

    Fuel: [lookup] follows IMPORTS chains and [resolve_*] follow chains of type
    references; a cyclic chain makes the Python recurse without bound
    (RecursionError) or loop forever; the model answers [EFuel].

    Deviations, all on inputs the parser cannot produce: the text of a
    bstring/hstring DEFAULT is required to be "0b"/"0x" followed by binary /
    hexadecimal digits (Python's int() would also accept "_", whitespace, a
    sign); when a malformed dictionary would make several passes raise, the
    model may report a different one of these exceptions first.

    No proofs in this file. *)
From Asn1V Require Import Base.Prelude Compile.Descr.
Open Scope string_scope.
Open Scope list_scope.
Open Scope Z_scope.

Inductive variant : Type :=
  Variant (numeric_in_dict : bool)   (* numeric_enums rewrites ENUMERATED DEFAULTs in the dictionary (upstream) *)
          (bool_default : bool)      (* TRUE/FALSE DEFAULT of a member whose type is a reference to BOOLEAN is converted *)
          (compof_first : bool)      (* COMPONENTS OF is expanded in all modules before the other passes *)
          (ext_elem : bool)          (* EXTENSIBILITY IMPLIED descends into SEQUENCE OF / SET OF elements *)
          (group_defaults : bool).   (* DEFAULTs of members inside [[ ]] groups are cleaned up *)
Definition v_numeric_in_dict v := let 'Variant a _ _ _ _ := v in a.
Definition v_bool_default v := let 'Variant _ a _ _ _ := v in a.
Definition v_compof_first v := let 'Variant _ _ a _ _ := v in a.
Definition v_ext_elem v := let 'Variant _ _ _ a _ := v in a.
Definition v_group_defaults v := let 'Variant _ _ _ _ a := v in a.

Definition upstream : variant := Variant true false false false false.
Definition repaired : variant := Variant false true true true true.

(** ------------------------------------------------------------------ *)
(** Look-up through the own module, then IMPORTS (lookup_in_modules).   *)

Definition table (A : Type) : Type :=
  list (string * (list (string * list string) * list (string * A))).

Definition head : Type :=
  (string * option (list (option (string * enumv))) * option (list (string * string)))%type.
Definition head_of_attrs (a : attrs) : head := (a_type a, a_values a, a_named_bits a).
Definition head_of (n : node) : option head :=
  match n with NType a _ _ => Some (head_of_attrs a) | _ => None end.

Definition dict_table (d : dict) : table node :=
  map (fun m => (m_name m, (m_imports m, m_types m))) d.
Definition skel_types (ts : list (string * node)) : list (string * option head) :=
  map (fun nt => (fst nt, head_of (snd nt))) ts.
Definition skel (d : dict) : table (option head) :=
  map (fun m => (m_name m, (m_imports m, skel_types (m_types m)))) d.

Fixpoint lookup {A} (fuel : nat) (tbl : table A) (mn name : string) : result (A * string) :=
  match fuel with
  | O => Err EFuel
  | S f =>
    match assoc mn tbl with
    | None => Err EKey                       (* self._specification[module_name] *)
    | Some (imports, types) =>
      match assoc name types with
      | Some x => Ok (x, mn)
      | None =>
        (fix imp (l : list (string * list string)) : result (A * string) :=
           match l with
           | [] => Err ECompile
           | (from, names) :: r =>
             if mem_str name names then
               match assoc from tbl with
               | None => Err ECompile        (* cannot import from missing module *)
               | Some _ =>
                 match lookup f tbl from name with
                 | Ok x => Ok x
                 | Err e => if is_compile_error e then Err ECompile else Err e
                 end
               end
             else imp r
           end) imports
      end
    end
  end.

(** resolve_type_name: follow references until the look-up fails. *)
Fixpoint resolve_name (fuel : nat) (sk : table (option head)) (mn name : string) : result string :=
  match fuel with
  | O => Err EFuel
  | S f =>
    match lookup (S f) sk mn name with
    | Ok (Some h, mn') => resolve_name f sk mn' (fst (fst h))
    | Ok (None, _) => Err EType
    | Err e => if is_compile_error e then Ok name else Err e
    end
  end.

(** resolve_type_descriptor: the last descriptor on the reference chain (the
    member itself when its type is not a reference). *)
Fixpoint resolve_descr (fuel : nat) (sk : table (option head)) (mn : string) (h : head) : result head :=
  match fuel with
  | O => Err EFuel
  | S f =>
    match lookup (S f) sk mn (fst (fst h)) with
    | Ok (Some h', mn') => resolve_descr f sk mn' h'
    | Ok (None, _) => Err EType
    | Err e => if is_compile_error e then Ok h else Err e
    end
  end.

(** ------------------------------------------------------------------ *)
(** COMPONENTS OF                                                      *)

Definition is_marker (n : node) : bool := match n with NMarker => true | _ => false end.

Fixpoint until_marker (l : list node) : list node :=
  match l with
  | [] => []
  | x :: r => if is_marker x then [] else x :: until_marker r
  end.

Fixpoint expand_members (fuel : nat) (tbl : table node) (mn : string) (ms : list node)
  : result (list node) :=
  (fix go (l : list node) : result (list node) :=
     match l with
     | [] => Ok []
     | NCompOf n :: r =>
       match fuel with
       | O => Err EFuel
       | S f =>
         let* tm := lookup (S f) tbl mn n in
         match fst tm with
         | NType _ (Some ims) _ =>
           let* inner := expand_members f tbl (snd tm) ims in
           let* r' := go r in
           Ok (until_marker inner ++ r')
         | NType _ None _ | NCompOf _ => Err EKey      (* type_descriptor['members'] *)
         | NMarker | NGroup _ => Err EType
         end
       end
     | x :: r => let* r' := go r in Ok (x :: r')
     end) ms.

Definition expand_top (fuel : nat) (tbl : table node) (mn : string) (n : node) : result node :=
  match n with
  | NType a (Some l) el => let* l' := expand_members fuel tbl mn l in Ok (NType a (Some l') el)
  | NType _ None _ | NCompOf _ | NGroup _ => Ok n
  | NMarker => Err EType
  end.

Definition step_types (f : node -> result node) (ts : list (string * node))
  : result (list (string * node)) :=
  mapM (fun nt => let* t := f (snd nt) in Ok (fst nt, t)) ts.

Definition expand_module (fuel : nat) (d : dict) (m : module) : result module :=
  let* ts := step_types (expand_top fuel (dict_table d) (m_name m)) (m_types m) in
  Ok (set_types m ts).

(** ------------------------------------------------------------------ *)
(** EXTENSIBILITY IMPLIED                                              *)

Definition add_marker (l : list node) : list node :=
  if existsb is_marker l then l else (l ++ [NMarker])%list.

Definition ext_member (f : node -> result node) (x : node) : result node :=
  match x with
  | NMarker => Ok NMarker
  | NGroup g => let* g' := mapM f g in Ok (NGroup g')
  | _ => f x
  end.

Fixpoint ext_node (var : variant) (n : node) {struct n} : result node :=
  match n with
  | NMarker => Err EType
  | NCompOf _ | NGroup _ => Ok n
  | NType a ms el =>
    let* el' := if v_ext_elem var then optM (ext_node var) el else Ok el in
    match ms with
    | None => Ok (NType a None el')
    | Some l =>
      let* l' := mapM (ext_member (ext_node var)) l in
      Ok (NType a (Some (add_marker l')) el')
    end
  end.

(** ------------------------------------------------------------------ *)
(** Tags                                                               *)

Definition has_tag (n : node) : bool :=
  match n with NType a _ _ => match a_tag a with Some _ => true | None => false end | _ => false end.

Definition any_tagged (l : list node) : bool :=
  existsb (fun n => match n with NGroup g => existsb has_tag g | _ => has_tag n end) l.

(** member['tag']['number'] = number  (creating the tag dict when absent) *)
Definition apply_number (k : option Z) (a : attrs) : attrs :=
  match k with
  | None => a
  | Some z =>
    match a_tag a with
    | None => set_tag a (Some (Tagd z None None))
    | Some (Tagd _ c kd) => set_tag a (Some (Tagd z c kd))
    end
  end.

Definition default_kind (mtags resolved : string) : string :=
  if String.eqb resolved "CHOICE" then "EXPLICIT"
  else if String.eqb mtags "IMPLICIT" || String.eqb mtags "EXPLICIT" then mtags
  else "IMPLICIT".

Definition set_kind (fuel : nat) (sk : table (option head)) (mn mtags : string) (a : attrs)
  : result attrs :=
  match a_tag a with
  | None => Ok a
  | Some (Tagd num c kd) =>
    let* resolved := resolve_name fuel sk mn (a_type a) in
    match kd with
    | Some _ => Ok a
    | None => Ok (set_tag a (Some (Tagd num c (Some (default_kind mtags resolved)))))
    end
  end.

Definition next (k : option Z) : option Z := option_map Z.succ k.

(** The loop over flatten(members): [k] is the running AUTOMATIC tag number
    (None when this member list is not numbered); extension markers are
    skipped; every other item is handed to [f] with its number. *)
Definition thread (f : option Z -> node -> result node)
  : option Z -> list node -> result (list node * option Z) :=
  fix go (k : option Z) (l : list node) {struct l} : result (list node * option Z) :=
    match l with
    | [] => Ok ([], k)
    | NMarker :: r => let* r' := go k r in Ok (NMarker :: fst r', snd r')
    | x :: r =>
      let* x' := f k x in
      let* r' := go (next k) r in Ok (x' :: fst r', snd r')
    end.

(** The same with one level of [[ ]] groups flattened into the sequence. *)
Definition thread_top (f : option Z -> node -> result node)
  : option Z -> list node -> result (list node * option Z) :=
  fix go (k : option Z) (l : list node) {struct l} : result (list node * option Z) :=
    match l with
    | [] => Ok ([], k)
    | NMarker :: r => let* r' := go k r in Ok (NMarker :: fst r', snd r')
    | NGroup g :: r =>
      let* g' := thread f k g in
      let* r' := go (snd g') r in Ok (NGroup (fst g') :: fst r', snd r')
    | x :: r =>
      let* x' := f k x in
      let* r' := go (next k) r in Ok (x' :: fst r', snd r')
    end.

Definition auto_start (mtags : string) (l : list node) : option Z :=
  if String.eqb mtags "AUTOMATIC" && negb (any_tagged l) then Some 0 else None.

Fixpoint tag_node (fuel : nat) (sk : table (option head)) (mn mtags : string)
         (k : option Z) (n : node) {struct n} : result node :=
  match n with
  | NMarker => Err EType
  | NCompOf _ => Err EKey
  | NGroup _ => Err EType
  | NType a ms el =>
    let* a' := set_kind fuel sk mn mtags (apply_number k a) in
    let* ms' :=
       match ms with
       | None => Ok None
       | Some l =>
         let* r := thread_top (tag_node fuel sk mn mtags) (auto_start mtags l) l in
         Ok (Some (fst r))
       end in
    let* el' := optM (tag_node fuel sk mn mtags None) el in
    Ok (NType a' ms' el')
  end.

(** ------------------------------------------------------------------ *)
(** DEFAULT clean-up                                                   *)

Definition ascii_Z (c : ascii) : Z := Z.of_nat (nat_of_ascii c).

Definition hex_val (c : ascii) : option Z :=
  let n := ascii_Z c in
  if (48 <=? n) && (n <=? 57) then Some (n - 48)
  else if (97 <=? n) && (n <=? 102) then Some (n - 87)
  else if (65 <=? n) && (n <=? 70) then Some (n - 55) else None.

Definition nibble_bits (v : Z) : list bool :=
  [Z.testbit v 3; Z.testbit v 2; Z.testbit v 1; Z.testbit v 0].

Fixpoint hex_bits (s : string) : option (list bool) :=
  match s with
  | EmptyString => Some []
  | String c r =>
    match hex_val c, hex_bits r with
    | Some v, Some bs => Some (nibble_bits v ++ bs)%list
    | _, _ => None
    end
  end.

Fixpoint bin_bits (s : string) : option (list bool) :=
  match s with
  | EmptyString => Some []
  | String c r =>
    match bin_bits r with
    | None => None
    | Some bs => if Ascii.eqb c "0"%char then Some (false :: bs)
                 else if Ascii.eqb c "1"%char then Some (true :: bs) else None
    end
  end.

Fixpoint byte_of_bits (n : nat) (bs : list bool) (acc : Z) : Z * list bool :=
  match n with
  | O => (acc, bs)
  | S n' =>
    match bs with
    | [] => byte_of_bits n' [] (acc * 2)
    | b :: r => byte_of_bits n' r (acc * 2 + (if b then 1 else 0))
    end
  end.

(** bitstruct.pack('u<n>', mask): the bits, most significant first, zero padded
    to a whole number of octets. *)
Fixpoint pack_bits (fuel : nat) (bs : list bool) : list Z :=
  match fuel with
  | O => []
  | S f =>
    match bs with
    | [] => []
    | _ => let '(b, r) := byte_of_bits 8 bs 0 in b :: pack_bits f r
    end
  end.
Definition pack (bs : list bool) : list Z := pack_bits (S (length bs)) bs.

Fixpoint strip_trailing_false (bs : list bool) : list bool :=
  match bs with
  | [] => []
  | b :: r =>
    match strip_trailing_false r with
    | [] => if b then [true] else []
    | r' => b :: r'
    end
  end.

Definition prefix2 (s : string) : string := substring 0 2 s.
Definition drop2 (s : string) : string := substring 2 (String.length s - 2) s.

Fixpoint parse_dec_acc (s : string) (acc : Z) : option Z :=
  match s with
  | EmptyString => Some acc
  | String c r =>
    let n := ascii_Z c in
    if (48 <=? n) && (n <=? 57) then parse_dec_acc r (acc * 10 + (n - 48)) else None
  end.
Definition parse_dec (s : string) : option Z :=
  match s with EmptyString => None | _ => parse_dec_acc s 0 end.

Fixpoint set_nth (n : nat) (bs : list bool) : list bool :=
  match n, bs with
  | O, [] => [true]
  | O, _ :: r => true :: r
  | S n', [] => false :: set_nth n' []
  | S n', b :: r => b :: set_nth n' r
  end.

(** the named-bit list form: positions of the names, most significant = bit 0 *)
Fixpoint names_bits (nb : list (string * string)) (names : list string) (acc : list bool)
  : result (list bool) :=
  match names with
  | [] => Ok acc
  | n :: r =>
    match assoc n nb with
    | None => Err EKey
    | Some txt =>
      match parse_dec txt with
      | None => Err EValue
      | Some p => names_bits nb r (set_nth (Z.to_nat p) acc)
      end
    end
  end.

Definition pad_to (m : nat) (bs : list bool) : list bool :=
  (bs ++ repeat false ((m - (length bs mod m)) mod m))%list.

(** pre_process_default_value_bit_string *)
Definition conv_bits (nb : option (list (string * string))) (dv : dval) : result dval :=
  match dv with
  | DvBits _ _ => Ok dv                                   (* already pre-processed *)
  | DvNames l =>
    match nb with
    | None => Err EKey
    | Some nbl =>
      let* bs := names_bits nbl l [] in
      Ok (DvBits (pack bs) (Z.of_nat (length bs)))
    end
  | DvStr s =>
    if String.eqb (prefix2 s) "0x" then
      let digits := drop2 s in
      let digits := if Nat.odd (String.length digits) then (digits ++ "0")%string else digits in
      match hex_bits digits with
      | None => Err EValue
      | Some bs => let bs' := strip_trailing_false bs in
                   Ok (DvBits (pack bs') (Z.of_nat (length bs')))
      end
    else if String.eqb s "0b" then Ok (DvBits [] 0)
    else if String.eqb (prefix2 s) "0b" then
      match bin_bits (drop2 s) with
      | None => Err EValue
      | Some bs => Ok (DvBits (pack bs) (Z.of_nat (length bs)))
      end
    else Err EValue
  | DvBytes _ => Err EType
  | DvBool _ | DvInt _ | DvNone | DvOther _ => Err EAttribute
  end.

(** pre_process_default_value_octet_string *)
Definition conv_octets (dv : dval) : result dval :=
  match dv with
  | DvBytes _ => Ok dv                                    (* already pre-processed *)
  | DvStr s =>
    if String.eqb (prefix2 s) "0b" then
      match bin_bits (drop2 s) with
      | None => Err EValue
      | Some bs => Ok (DvBytes (pack (pad_to 8 bs)))
      end
    else if String.eqb (prefix2 s) "0x" then
      let digits := drop2 s in
      let digits := if Nat.odd (String.length digits) then (digits ++ "0")%string else digits in
      match hex_bits digits with
      | None => Err EValue
      | Some bs => Ok (DvBytes (pack bs))
      end
    else Ok dv
  | _ => Err EAttribute
  end.

(** pre_process_default_value_boolean (repair) *)
Definition conv_bool (dv : dval) : dval :=
  match dv with
  | DvStr s => if String.eqb s "TRUE" then DvBool true
               else if String.eqb s "FALSE" then DvBool false else dv
  | _ => dv
  end.

Definition dval_of_enumv (v : enumv) : dval :=
  match v with EvInt z => DvInt z | EvName s => DvStr s end.

(** the numeric_enums loop of pre_process_default_value (upstream) *)
Fixpoint conv_enum (vals : list (option (string * enumv))) (dv : dval) : dval :=
  match vals with
  | [] => dv
  | None :: r => conv_enum r dv
  | Some (key, v) :: r =>
    match dv with
    | DvStr s => if String.eqb key s then dval_of_enumv v else conv_enum r dv
    | _ => conv_enum r dv
    end
  end.

Definition conv_default (fuel : nat) (var : variant) (numeric : bool) (sk : table (option head))
           (mn : string) (a : attrs) : result attrs :=
  match a_default a with
  | None => Ok a
  | Some dv =>
    let* h := resolve_descr fuel sk mn (head_of_attrs a) in
    let rt := fst (fst h) in
    if String.eqb rt "BIT STRING" then
      let* dv' := conv_bits (snd h) dv in Ok (set_default a (Some dv'))
    else if String.eqb rt "OCTET STRING" then
      let* dv' := conv_octets dv in Ok (set_default a (Some dv'))
    else if String.eqb rt "BOOLEAN" && v_bool_default var then
      Ok (set_default a (Some (conv_bool dv)))
    else if String.eqb rt "ENUMERATED" && numeric && v_numeric_in_dict var then
      match snd (fst h) with
      | None => Err EKey
      | Some vals => Ok (set_default a (Some (conv_enum vals dv)))
      end
    else Ok a
  end.

Definition is_seq_or_set (a : attrs) : bool :=
  String.eqb (a_type a) "SEQUENCE" || String.eqb (a_type a) "SET".

(** [cv]: the node is a direct member of a SEQUENCE / SET whose DEFAULT is to
    be cleaned up before descending into it. *)
(** One item of a 'members' list: markers are skipped, the members of a
    [[ ]] group are visited with [cg], any other item with [cm]. *)
Definition on_member (f : bool -> node -> result node) (cm cg : bool) (x : node) : result node :=
  match x with
  | NMarker => Ok NMarker
  | NGroup g => let* g' := mapM (f cg) g in Ok (NGroup g')
  | _ => f cm x
  end.

Fixpoint def_node (fuel : nat) (var : variant) (numeric : bool) (sk : table (option head))
         (mn : string) (cv : bool) (n : node) {struct n} : result node :=
  match n with
  | NMarker => Err EType
  | NCompOf _ => Err EKey
  | NGroup _ => Err EType
  | NType a ms el =>
    let* a' := if cv then conv_default fuel var numeric sk mn a else Ok a in
    let here := is_seq_or_set a in
    let* ms' :=
       match ms with
       | None => if here then Err EKey else Ok None
       | Some l =>
         let* l' := mapM (on_member (def_node fuel var numeric sk mn) here
                                    (here && v_group_defaults var)) l in
         Ok (Some l')
       end in
    let* el' := optM (def_node fuel var numeric sk mn false) el in
    Ok (NType a' ms' el')
  end.

(** ------------------------------------------------------------------ *)
(** pre_process                                                        *)

Definition module_tags (m : module) : string :=
  match m_tags m with Some t => t | None => "EXPLICIT" end.

Definition process_module (fuel : nat) (var : variant) (numeric : bool) (d : dict) (m : module)
  : result module :=
  let sk := skel d in
  let* m1 := if v_compof_first var then Ok m else expand_module fuel d m in
  let* ts2 := if m_ext m1 then step_types (ext_node var) (m_types m1) else Ok (m_types m1) in
  let* ts3 := step_types (tag_node fuel sk (m_name m) (module_tags m) None) ts2 in
  let* ts4 := step_types (def_node fuel var numeric sk (m_name m) false) ts3 in
  Ok (set_types m ts4).

Fixpoint run_modules (f : dict -> module -> result module) (names : list string) (d : dict)
  : result dict :=
  match names with
  | [] => Ok d
  | mn :: r =>
    match find_module d mn with
    | None => Err EKey
    | Some m => let* m' := f d m in run_modules f r (replace_module d mn m')
    end
  end.

Definition preprocess (fuel : nat) (var : variant) (numeric : bool) (d : dict) : result dict :=
  let names := map m_name d in
  let* d1 := if v_compof_first var then run_modules (expand_module fuel) names d else Ok d in
  run_modules (process_module fuel var numeric) names d1.

(** ------------------------------------------------------------------ *)
(** compile_dict and histories (asn1tools/compiler.py compile_dict 275-318):
    the codec compiler, the type checker compiler and the constraints checker
    compiler each run pre_process on the SAME dictionary and then compile
    from it.  What they compile is a parameter: any function of the
    pre-processed dictionary, the compiler and numeric_enums (that process()
    does not write to the dictionary after pre_process() is checked
    dynamically by harness/c13.py). *)

Inductive codec : Type := Ber | Der | Per | Uper | Oer | Jer | Xer | Gser.
Inductive compiler_id : Type := CCodec (c : codec) | CTypeChecker | CConstraintsChecker.

Inductive step : Type :=
| SCompile (c : codec) (numeric : bool)   (* asn1tools.compile_dict(d, c, numeric_enums=numeric) *)
| SPformatEval                            (* d = eval(pformat(d))   *)
| SDeepcopy.                              (* d = copy.deepcopy(d)   *)

Section CompileDict.
  Context {R : Type}.
  Variable fuel : nat.
  Variable var : variant.
  Variable process : compiler_id -> bool -> dict -> R.

  Definition compile_dict (c : codec) (numeric : bool) (d : dict) : result (dict * (R * R * R)) :=
    let* d1 := preprocess fuel var numeric d in
    let r1 := process (CCodec c) numeric d1 in
    let* d2 := preprocess fuel var numeric d1 in
    let r2 := process CTypeChecker numeric d2 in
    let* d3 := preprocess fuel var numeric d2 in
    let r3 := process CConstraintsChecker numeric d3 in
    Ok (d3, (r1, r2, r3)).

  (** The dictionary after a history of successful steps. *)
  Fixpoint run (h : list step) (d : dict) : result dict :=
    match h with
    | [] => Ok d
    | SCompile c numeric :: r => let* x := compile_dict c numeric d in run r (fst x)
    | SPformatEval :: r | SDeepcopy :: r => run r d
    end.
End CompileDict.

(** What every compiler reads of a DEFAULT: the value handed to set_default,
    per (module, type, path of member names). *)
Fixpoint default_view_node (path : string) (n : node) {struct n} : list (string * dval) :=
  match n with
  | NType a ms el =>
    let p := match a_name a with Some nm => (path ++ "." ++ nm)%string | None => path end in
    ((match a_default a with Some dv => [(p, dv)] | None => [] end) ++
     (match ms with
      | None => []
      | Some l => flat_map (fun x => match x with
                                     | NGroup g => flat_map (default_view_node p) g
                                     | _ => default_view_node p x
                                     end) l
      end) ++
     (match el with None => [] | Some e => default_view_node p e end))%list
  | _ => []
  end.

Definition default_view (d : dict) : list (string * dval) :=
  flat_map (fun m => flat_map (fun nt => default_view_node (m_name m ++ "." ++ fst nt)%string (snd nt))
                              (m_types m)) d.
