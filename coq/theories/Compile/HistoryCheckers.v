(** C13, round 5 — compile_dict as a STATEFUL operation on dictionary OBJECTS.

    Compile/Preprocess.v models compile_dict as a pure function of the
    dictionary's content; nothing in it can express process-global state that
    survives from one call to the next (a module-level variable in
    asn1tools/compiler.py remembering something about "the dictionary compiled
    last").  This file adds that layer:

    * a dictionary object has an identity ([oid]) besides its content;
      compile_dict rewrites the content of the object in place (pre_process),
      eval(pformat(d)) / deepcopy(d) make a NEW object with the same content,
      a fresh parse is a new object too;
    * the compiled object is the triple (codec, type checkers, constraints
      checkers) — what Specification.encode / decode consult — each an
      arbitrary function [process] of (compiler, numeric_enums, pre-processed
      dictionary), exactly as in Preprocess.compile_dict;
    * the process carries a one-entry memo of the checkers compiled last;
      [memo_policy] says when compile_dict may hand them out again:
        [MNone]             never (what /repo does: every call compiles all three),
        [MIdentity]         when the very same object is compiled again,
        [MIdentityOptions]  when the very same object is compiled again with
                            the same numeric_enums.

    Compile/HistoryCheckersProofs.v proves that under [MNone] and
    [MIdentityOptions] every compile after every history (on the same object,
    on copies, interleaved with compilations of other dictionaries) yields the
    triple of a fresh compile, and refutes it for [MIdentity].  harness/c13.py
    (through harness/c13_seq.py) evaluates [observe_flags] under [MNone] on the
    histories it runs on /repo and compares, per compiled object, which
    numeric_enums setting the codec and the type checker were observably
    compiled with.  No proofs in this file. *)
From Asn1V Require Import Base.Prelude Compile.Descr Compile.Preprocess.

Definition oid := nat.

Inductive memo_policy : Type := MNone | MIdentity | MIdentityOptions.

Inductive wstep : Type :=
| WCompile (c : codec) (numeric : bool)               (* compile_dict(d, c, numeric_enums=numeric), d the current object *)
| WCopy                                               (* d = eval(pformat(d)) or d = deepcopy(d): a new object *)
| WForeign (d2 : dict) (c : codec) (numeric : bool).  (* compile_dict of another (new) dictionary object, e.g. a fresh
                                                         parse; its result is dropped, a failure is caught by the caller *)

Section Stateful.
  Context {R : Type}.
  Variable fuel : nat.
  Variable var : variant.
  Variable process : compiler_id -> bool -> dict -> R.
  Variable policy : memo_policy.

  Record memo : Type := Memo { mo_id : oid; mo_numeric : bool; mo_types : R; mo_constraints : R }.

  Record world : Type := World {
    w_next : oid;              (* the next unused object identity *)
    w_id : oid;                (* the current dictionary object ... *)
    w_dict : dict;             (* ... and its content *)
    w_memo : option memo }.    (* the module-level "compiled last" entry *)

  Definition reuse (i : oid) (n : bool) (m : option memo) : option (R * R) :=
    match m with
    | None => None
    | Some mm =>
      match policy with
      | MNone => None
      | MIdentity => if Nat.eqb (mo_id mm) i then Some (mo_types mm, mo_constraints mm) else None
      | MIdentityOptions =>
        if Nat.eqb (mo_id mm) i && Bool.eqb (mo_numeric mm) n then Some (mo_types mm, mo_constraints mm) else None
      end
    end.

  (** compile_dict on the object [i] with content [d]: the new content, the
      compiled triple, the new memo.  The codec compiler always runs; the two
      checker compilers run unless the memo answers. *)
  Definition compile_obj (c : codec) (n : bool) (i : oid) (d : dict) (m : option memo)
    : result (dict * (R * R * R) * option memo) :=
    let* d1 := preprocess fuel var n d in
    let r1 := process (CCodec c) n d1 in
    match reuse i n m with
    | Some (r2, r3) => Ok (d1, (r1, r2, r3), m)
    | None =>
      let* d2 := preprocess fuel var n d1 in
      let r2 := process CTypeChecker n d2 in
      let* d3 := preprocess fuel var n d2 in
      let r3 := process CConstraintsChecker n d3 in
      Ok (d3, (r1, r2, r3), Some (Memo i n r2 r3))
    end.

  Definition wstep_run (s : wstep) (w : world) : result world :=
    match s with
    | WCompile c n =>
      let* x := compile_obj c n (w_id w) (w_dict w) (w_memo w) in
      Ok (World (w_next w) (w_id w) (fst (fst x)) (snd x))
    | WCopy => Ok (World (S (w_next w)) (w_next w) (w_dict w) (w_memo w))
    | WForeign d2 c n =>
      match compile_obj c n (w_next w) d2 (w_memo w) with
      | Ok x => Ok (World (S (w_next w)) (w_id w) (w_dict w) (snd x))
      | Err _ => Ok (World (S (w_next w)) (w_id w) (w_dict w) (w_memo w))
      end
    end.

  (** The world after a history of successful steps on the current object. *)
  Fixpoint wrun (h : list wstep) (w : world) : result world :=
    match h with
    | [] => Ok w
    | s :: r => let* w1 := wstep_run s w in wrun r w1
    end.

  (** The compiled triple of every [WCompile] step of a history, in order
      (the objects a caller keeps while going on compiling). *)
  Fixpoint wrun_collect (h : list wstep) (w : world) : result (list (R * R * R)) :=
    match h with
    | [] => Ok []
    | s :: r =>
      let* w1 := wstep_run s w in
      let* rest := wrun_collect r w1 in
      match s with
      | WCompile c n =>
        let* x := compile_obj c n (w_id w) (w_dict w) (w_memo w) in
        Ok (snd (fst x) :: rest)
      | _ => Ok rest
      end
    end.

  Definition init (d : dict) : world := World 1%nat 0%nat d None.

  (** What the caller gets from one more compile_dict in the world [w]. *)
  Definition compile_in (c : codec) (n : bool) (w : world) : result (dict * (R * R * R)) :=
    let* x := compile_obj c n (w_id w) (w_dict w) (w_memo w) in Ok (fst x).
End Stateful.

Arguments Memo {R}.
Arguments World {R}.

(** The pure history this stateful history performs on the current object. *)
Fixpoint erase (h : list wstep) : list step :=
  match h with
  | [] => []
  | WCompile c n :: r => SCompile c n :: erase r
  | WCopy :: r => SDeepcopy :: erase r
  | WForeign _ _ _ :: r => erase r
  end.

(** Observation used by the harness: with which numeric_enums setting each of
    the three components of every compiled object of a history was compiled. *)
Definition flag_view (_ : compiler_id) (n : bool) (_ : dict) : bool := n.

Definition observe_flags (fuel : nat) (var : variant) (policy : memo_policy) (h : list wstep) (d : dict)
  : result (list (bool * bool * bool)) :=
  wrun_collect fuel var flag_view policy h (init d).
