(** C19 — proofs about Compile/Flatten.v. *)
From Coq Require Import Permutation.
From Asn1V Require Import Base.Prelude Compile.Descr Compile.Preprocess Compile.PreprocessProofs
     Compile.Resolve Compile.Flatten.
Open Scope string_scope.
Open Scope list_scope.
Open Scope Z_scope.

(** * Look-ups only depend on the dictionary as a finite map *)
Lemma assoc_in {A} k (l : list (string * A)) v : assoc k l = Some v -> In (k, v) l.
Proof.
  induction l as [|[k' a] r IH]; simpl; [discriminate|].
  destruct (String.eqb k k') eqn:E; intros H.
  - injection H as ->. apply String.eqb_eq in E. subst. left. reflexivity.
  - right. auto.
Qed.

Lemma assoc_none_notin {A} k (l : list (string * A)) : assoc k l = None -> ~ In k (map fst l).
Proof.
  induction l as [|[k' a] r IH]; simpl; intros H; [tauto|].
  destruct (String.eqb k k') eqn:E; [discriminate|]. apply String.eqb_neq in E.
  intros [X|X]; [congruence|]. exact (IH H X).
Qed.

Lemma in_assoc_nodup {A} k v (l : list (string * A)) :
  NoDup (map fst l) -> In (k, v) l -> assoc k l = Some v.
Proof.
  induction l as [|[k' a] r IH]; simpl; intros N H; [tauto|].
  inversion N as [|? ? N1 N2]; subst.
  destruct H as [H|H].
  - injection H as -> ->. rewrite String.eqb_refl. reflexivity.
  - destruct (String.eqb k k') eqn:E; [|auto].
    apply String.eqb_eq in E. subst. exfalso. apply N1. apply (in_map fst) in H. exact H.
Qed.

Lemma assoc_perm {A} k (l l' : list (string * A)) :
  NoDup (map fst l) -> Permutation l l' -> assoc k l = assoc k l'.
Proof.
  intros N P.
  assert (N' : NoDup (map fst l')) by (eapply Permutation_NoDup; [apply Permutation_map; exact P|exact N]).
  destruct (assoc k l) as [v|] eqn:E.
  - symmetry. apply in_assoc_nodup; [exact N'|]. eapply Permutation_in; [exact P|]. apply assoc_in. exact E.
  - destruct (assoc k l') as [v|] eqn:E'; [|reflexivity].
    exfalso. apply (assoc_none_notin _ _ E). apply assoc_in in E'.
    apply (in_map fst) in E'. simpl in E'. eapply Permutation_in; [|exact E'].
    apply Permutation_map. apply Permutation_sym. exact P.
Qed.

(** Two tables with the same modules, the same IMPORTS and the same
    name -> definition maps. *)
Definition tbl_equiv {A} (t t' : table A) : Prop :=
  forall mn,
    match assoc mn t, assoc mn t' with
    | Some (i, ts), Some (i', ts') => i = i' /\ forall name, assoc name ts = assoc name ts'
    | None, None => True
    | _, _ => False
    end.

Lemma lookup_equiv {A} (t t' : table A) : tbl_equiv t t' ->
  forall fuel mn name, lookup fuel t mn name = lookup fuel t' mn name.
Proof.
  intros Q fuel. induction fuel as [|f IH]; intros mn name; [reflexivity|].
  simpl. pose proof (Q mn) as Qm.
  destruct (assoc mn t) as [[i ts]|], (assoc mn t') as [[i' ts']|]; try tauto.
  destruct Qm as [<- Qn]. rewrite <- Qn. destruct (assoc name ts); [reflexivity|].
  induction i as [|[from names] r IHr]; [reflexivity|].
  destruct (mem_str name names); [|exact IHr].
  pose proof (Q from) as Qf.
  destruct (assoc from t) as [[? ?]|], (assoc from t') as [[? ?]|]; try tauto.
  rewrite IH. reflexivity.
Qed.

(** Unfolding equations (the nested fixpoints never have to be unfolded again). *)
Lemma unfold_eq lf K env n k mn t :
  unfold lf K env (S n) k mn t =
  match t with
  | SBool => Ok FBool
  | SNull => Ok FNull
  | SInt c => let* c' := resolve_cons lf env mn c in Ok (FInt c')
  | SEnum items e => Ok (FEnum items e)
  | SBits s => let* s' := resolve_cons lf env mn s in Ok (FBits s')
  | SOctets s => let* s' := resolve_cons lf env mn s in Ok (FOctets s')
  | SStr s => let* s' := resolve_cons lf env mn s in Ok (FStr s')
  | SSeq isset root ext =>
    let* fl := flags env mn in
    let* root' := mapM (member_with (unfold lf K env n K mn)) root in
    let* ext' := optM (mapM (member_with (unfold lf K env n K mn))) ext in
    Ok (FSeq isset (fst fl) (snd fl) root' ext')
  | SChoice root ext =>
    let* fl := flags env mn in
    let* root' := mapM (member_with (unfold lf K env n K mn)) root in
    let* ext' := optM (mapM (member_with (unfold lf K env n K mn))) ext in
    Ok (FChoice (fst fl) (snd fl) root' ext')
  | SSeqOf isset elem s =>
    let* e' := unfold lf K env n K mn elem in
    let* s' := resolve_cons lf env mn s in
    Ok (FSeqOf isset e' s')
  | SRef name sz rg =>
    match k with
    | O => Err EFuel
    | S k' =>
      let* d := lookup_type lf env mn name in
      let* f := unfold lf K env (S n) k' (snd d) (fst d) in
      let* sz' := resolve_cons lf env mn sz in
      let* rg' := resolve_cons lf env mn rg in
      Ok (apply_range rg' (apply_size sz' f))
    end
  end.
Proof. destruct k; destruct t; reflexivity. Qed.

Lemma compile_per_eq cv lf K env n k pos mn t :
  compile_per cv lf K env (S n) k pos mn t =
  match t with
  | SBool => Ok FBool
  | SNull => Ok FNull
  | SInt c => let* c' := resolve_cons lf env mn c in Ok (FInt c')
  | SEnum items e => Ok (FEnum items e)
  | SBits s => let* s' := resolve_cons lf env mn s in Ok (FBits s')
  | SOctets s => let* s' := resolve_cons lf env mn s in Ok (FOctets s')
  | SStr s => let* s' := resolve_cons lf env mn s in Ok (FStr s')
  | SSeq isset root ext =>
    let* fl := flags env mn in
    let* root' := mapM (lib_member cv (compile_per cv lf K env n K true mn)) root in
    let* ext' := optM (mapM (lib_member cv (compile_per cv lf K env n K true mn))) ext in
    Ok (FSeq isset (fst fl) (snd fl) root' ext')
  | SChoice root ext =>
    let* fl := flags env mn in
    let* root' := mapM (lib_member cv (compile_per cv lf K env n K true mn)) root in
    let* ext' := optM (mapM (lib_member cv (compile_per cv lf K env n K true mn))) ext in
    Ok (FChoice (fst fl) (snd fl) root' ext')
  | SSeqOf isset elem s =>
    let* e' := compile_per cv lf K env n K false mn elem in
    let* s' := resolve_cons lf env mn s in
    Ok (FSeqOf isset e' s')
  | SRef name sz rg =>
    match k with
    | O => Err EFuel
    | S k' =>
      let* d := lookup_type lf env mn name in
      let* f := compile_per cv lf K env (S n) k' false (snd d) (fst d) in
      let* f1 := if pos then
                   let* sz' := resolve_cons lf env mn sz in Ok (lib_apply_size cv sz' f)
                 else Ok f in
      let* rg' := resolve_cons lf env (if cv_range_module cv then mn else snd d) rg in
      Ok (apply_range rg' f1)
    end
  end.
Proof. destruct k; destruct t; reflexivity. Qed.

Definition env_equiv (e e' : senv) : Prop :=
  tbl_equiv (types_table e) (types_table e') /\
  tbl_equiv (values_table e) (values_table e') /\
  forall mn, assoc mn (flags_table e) = assoc mn (flags_table e').

Section Equiv.
  Variable lf K : nat.
  Variable e e' : senv.
  Hypothesis Q : env_equiv e e'.

  Lemma lookup_type_equiv mn name : lookup_type lf e mn name = lookup_type lf e' mn name.
  Proof. unfold lookup_type. apply lookup_equiv. apply Q. Qed.

  Lemma resolve_cons_equiv mn c : resolve_cons lf e mn c = resolve_cons lf e' mn c.
  Proof.
    assert (B : forall b, resolve_bound lf e mn b = resolve_bound lf e' mn b).
    { intros [z|v| |]; try reflexivity. simpl. unfold lookup_value.
      rewrite (lookup_equiv _ _ (proj1 (proj2 Q))). reflexivity. }
    destruct c as [[lo hi x]|]; [|reflexivity]. simpl. rewrite !B. reflexivity.
  Qed.

  Lemma flags_equiv mn : flags e mn = flags e' mn.
  Proof. unfold flags. rewrite (proj2 (proj2 Q)). reflexivity. Qed.

  Lemma mapM_ext_all {A B} (f g : A -> result B) l : (forall x, f x = g x) -> mapM f l = mapM g l.
  Proof. intros H. apply mapM_ext. apply Forall_forall. intros; apply H. Qed.

  Lemma member_with_ext U U' m : (forall t, U t = U' t) -> member_with U m = member_with U' m.
  Proof. intros H. unfold member_with. rewrite H. reflexivity. Qed.

  (** The unfolding of every type, at every depth, is the same in both environments. *)
  Theorem unfold_equiv : forall n k mn t, unfold lf K e n k mn t = unfold lf K e' n k mn t.
  Proof.
    induction n as [|n IHn]; [reflexivity|].
    assert (M : forall mn l, mapM (member_with (unfold lf K e n K mn)) l =
                             mapM (member_with (unfold lf K e' n K mn)) l).
    { intros. apply mapM_ext_all. intros m. apply member_with_ext. intros t. apply IHn. }
    induction k as [|k IHk]; intros mn t; rewrite !unfold_eq;
      destruct t; rewrite ?resolve_cons_equiv, ?flags_equiv, ?M, ?IHn; try reflexivity;
      try (destruct ext as [x|]; simpl; rewrite ?M; reflexivity).
    rewrite lookup_type_equiv. destruct (lookup_type lf e' mn name) as [[t' mn']|]; simpl; [|reflexivity].
    rewrite IHk. reflexivity.
  Qed.
End Equiv.

(** * Permuting modules, permuting assignments *)
Lemma tbl_equiv_perm {A} (t t' : table A) :
  NoDup (map fst t) -> Permutation t t' -> tbl_equiv t t'.
Proof.
  intros N P mn. rewrite <- (assoc_perm mn t t' N P).
  destruct (assoc mn t) as [[i ts]|]; [split; reflexivity | exact I].
Qed.

Lemma fst_types_table env : map fst (types_table env) = map smod_name env.
Proof. unfold types_table. rewrite map_map. reflexivity. Qed.
Lemma fst_values_table env : map fst (values_table env) = map smod_name env.
Proof. unfold values_table. rewrite map_map. reflexivity. Qed.
Lemma fst_flags_table env : map fst (flags_table env) = map smod_name env.
Proof. unfold flags_table. rewrite map_map. reflexivity. Qed.

Theorem permute_modules_equiv env env' :
  NoDup (map smod_name env) -> Permutation env env' -> env_equiv env env'.
Proof.
  intros N P. repeat split.
  - apply tbl_equiv_perm; [rewrite fst_types_table; exact N | apply Permutation_map; exact P].
  - apply tbl_equiv_perm; [rewrite fst_values_table; exact N | apply Permutation_map; exact P].
  - intros mn. apply assoc_perm; [rewrite fst_flags_table; exact N | apply Permutation_map; exact P].
Qed.

(** the same module with its type and value assignments in another order *)
Definition mod_perm (m m' : smodule) : Prop :=
  smod_name m' = smod_name m /\ smod_tags m' = smod_tags m /\ smod_ext m' = smod_ext m /\
  smod_imports m' = smod_imports m /\
  Permutation (smod_types m) (smod_types m') /\ Permutation (smod_values m) (smod_values m').

Definition mod_nodup (m : smodule) : Prop :=
  NoDup (map fst (smod_types m)) /\ NoDup (map fst (smod_values m)).

Lemma tbl_equiv_Forall2 {A} (f g : smodule -> list (string * A)) env env' :
  Forall2 (fun m m' => smod_name m' = smod_name m /\ smod_imports m' = smod_imports m /\
                       forall name, assoc name (f m) = assoc name (g m')) env env' ->
  tbl_equiv (map (fun m => (smod_name m, (smod_imports m, f m))) env)
            (map (fun m => (smod_name m, (smod_imports m, g m))) env').
Proof.
  induction 1 as [|m m' r r' (N & I & A') F IH]; intros mn; simpl; [exact I|].
  rewrite N. destruct (String.eqb mn (smod_name m)).
  - split; [symmetry; exact I | exact A'].
  - apply IH.
Qed.

Theorem permute_assignments_equiv env env' :
  Forall mod_nodup env -> Forall2 mod_perm env env' -> env_equiv env env'.
Proof.
  intros N P. repeat split.
  - unfold types_table. apply tbl_equiv_Forall2.
    clear -N P. induction P as [|m m' r r' (A & B & C & D & E & F) P IH]; [constructor|].
    inversion N as [|? ? [N1 N2] Nr]; subst. constructor; [|apply IH; exact Nr].
    repeat split; auto. intros name. apply assoc_perm; assumption.
  - unfold values_table. apply tbl_equiv_Forall2.
    clear -N P. induction P as [|m m' r r' (A & B & C & D & E & F) P IH]; [constructor|].
    inversion N as [|? ? [N1 N2] Nr]; subst. constructor; [|apply IH; exact Nr].
    repeat split; auto. intros name. apply assoc_perm; assumption.
  - intros mn. unfold flags_table. clear N.
    induction P as [|m m' r r' (A & B & C & _) P IH]; [reflexivity|].
    simpl. rewrite A, B, C, IH. reflexivity.
Qed.

Theorem permute_modules_flatten lf K env env' :
  NoDup (map smod_name env) -> Permutation env env' ->
  forall n mn name, flatten lf K env n mn name = flatten lf K env' n mn name.
Proof. intros N P n mn name. apply unfold_equiv. apply permute_modules_equiv; assumption. Qed.

Theorem permute_assignments_flatten lf K env env' :
  Forall mod_nodup env -> Forall2 mod_perm env env' ->
  forall n mn name, flatten lf K env n mn name = flatten lf K env' n mn name.
Proof. intros N P n mn name. apply unfold_equiv. apply permute_assignments_equiv; assumption. Qed.

(** * The library's compile against the unfolding *)

(** A SIZE constraint applied to a type reference sits on the type of a
    SEQUENCE / SET / CHOICE member (the only place where compile_member
    applies it; known finding size-on-element-reference otherwise). *)
Fixpoint ok_ty (pos : bool) (t : sty) {struct t} : bool :=
  match t with
  | SRef _ sz _ => pos || match sz with None => true | Some _ => false end
  | SSeq _ root ext | SChoice root ext =>
    forallb (fun m : smember => ok_ty true (snd (fst m))) root &&
    match ext with Some l => forallb (fun m : smember => ok_ty true (snd (fst m))) l | None => true end
  | SSeqOf _ e _ => ok_ty false e
  | _ => true
  end.

Definition env_ok (env : senv) : bool :=
  forallb (fun m => forallb (fun nt => ok_ty false (snd nt)) (smod_types m)) env.

Lemma lookup_in {A} fuel (tbl : table A) : forall mn name x mn',
  lookup fuel tbl mn name = Ok (x, mn') ->
  exists i ts, In (mn', (i, ts)) tbl /\ In (name, x) ts.
Proof.
  induction fuel as [|f IH]; intros mn name x mn' H; [discriminate|].
  simpl in H. destruct (assoc mn tbl) as [[i ts]|] eqn:Em; [|discriminate].
  destruct (assoc name ts) as [y|] eqn:En.
  - injection H as -> ->. exists i, ts. split; apply assoc_in; assumption.
  - clear En Em. induction i as [|[from names] r IHr]; [discriminate|].
    destruct (mem_str name names); [|auto].
    destruct (assoc from tbl); [|discriminate].
    destruct (lookup f tbl from name) as [[y m2]|e] eqn:L.
    + injection H as -> ->. eapply IH; eauto.
    + destruct (is_compile_error e); discriminate.
Qed.

Lemma lookup_type_ok lf env mn name t mn' :
  env_ok env = true -> lookup_type lf env mn name = Ok (t, mn') -> ok_ty false t = true.
Proof.
  intros Hok H. unfold lookup_type in H. apply lookup_in in H as (i & ts & I1 & I2).
  unfold types_table in I1. apply in_map_iff in I1 as (m & Em & Im). injection Em as _ _ <-.
  unfold env_ok in Hok. rewrite forallb_forall in Hok. specialize (Hok _ Im).
  rewrite forallb_forall in Hok. exact (Hok _ I2).
Qed.

Lemma lib_default_repaired syn f d :
  (syn = SBool -> f = FBool) -> wf_default f d = true ->
  lib_default crepaired syn f d = interp_default f d.
Proof.
  intros Hb W. destruct f; try discriminate; destruct d; try discriminate;
    destruct syn; try reflexivity; try (specialize (Hb eq_refl); discriminate).
Qed.

Lemma unfold_SBool lf K env n k mn f : unfold lf K env n k mn SBool = Ok f -> f = FBool \/ f = FCut.
Proof. destruct n; [simpl; intros H; inv_ok; auto|]. rewrite unfold_eq. intros H. inv_ok. auto. Qed.

Lemma lib_apply_size_repaired sz f : lib_apply_size crepaired sz f = apply_size sz f.
Proof. destruct sz; [|reflexivity]. destruct f; reflexivity. Qed.

Section Factor.
  Variable lf K : nat.
  Variable env : senv.
  Hypothesis Hok : env_ok env = true.

  Notation C := (compile_per crepaired lf K env).
  Notation U := (unfold lf K env).

  Lemma member_eq n mn m :
    C n K true mn (sm_ty m) = U n K mn (sm_ty m) ->
    lib_member crepaired (C n K true mn) m = member_with (U n K mn) m.
  Proof.
    intros H. unfold lib_member, member_with. rewrite H.
    destruct (U n K mn (sm_ty m)) as [f|] eqn:E; simpl; [|reflexivity].
    f_equal. f_equal. unfold fopt_of. destruct (sm_opt m); try reflexivity.
    destruct (wf_default f d) eqn:W; [|reflexivity]. f_equal.
    apply lib_default_repaired; [|exact W].
    intros S. rewrite S in E. apply unfold_SBool in E as [->| ->]; [reflexivity|discriminate].
  Qed.

  Lemma members_eq n mn l :
    (forall t, ok_ty true t = true -> C n K true mn t = U n K mn t) ->
    forallb (fun m : smember => ok_ty true (snd (fst m))) l = true ->
    mapM (lib_member crepaired (C n K true mn)) l = mapM (member_with (U n K mn)) l.
  Proof.
    intros IH F. apply mapM_ext. rewrite forallb_forall in F. apply Forall_forall. intros m I.
    apply member_eq. apply IH. exact (F _ I).
  Qed.

  (** With the repairs, and where a SIZE on a reference sits on a member, what
      the library compiles is the unfolding, at every depth. *)
  Theorem compile_is_unfold : forall n k pos mn t,
    ok_ty pos t = true -> C n k pos mn t = U n k mn t.
  Proof.
    induction n as [|n IHn]; [reflexivity|].
    induction k as [|k IHk]; intros pos mn t O; rewrite compile_per_eq, unfold_eq;
      destruct t; try reflexivity; simpl in O.
    - apply andb_prop in O as [O1 O2].
      rewrite (members_eq n mn root (fun t H => IHn K true mn t H) O1).
      destruct ext as [l|]; simpl; [rewrite (members_eq n mn l (fun t H => IHn K true mn t H) O2)|]; reflexivity.
    - rewrite (IHn K false mn t O). reflexivity.
    - apply andb_prop in O as [O1 O2].
      rewrite (members_eq n mn root (fun t H => IHn K true mn t H) O1).
      destruct ext as [l|]; simpl; [rewrite (members_eq n mn l (fun t H => IHn K true mn t H) O2)|]; reflexivity.
    - apply andb_prop in O as [O1 O2].
      rewrite (members_eq n mn root (fun t H => IHn K true mn t H) O1).
      destruct ext as [l|]; simpl; [rewrite (members_eq n mn l (fun t H => IHn K true mn t H) O2)|]; reflexivity.
    - rewrite (IHn K false mn t O). reflexivity.
    - apply andb_prop in O as [O1 O2].
      rewrite (members_eq n mn root (fun t H => IHn K true mn t H) O1).
      destruct ext as [l|]; simpl; [rewrite (members_eq n mn l (fun t H => IHn K true mn t H) O2)|]; reflexivity.
    - destruct (lookup_type lf env mn name) as [[t' mn']|] eqn:L; cbn [bind fst snd]; [|reflexivity].
      rewrite (IHk false mn' t' (lookup_type_ok _ _ _ _ _ _ Hok L)).
      destruct (U (S n) k mn' t') as [f|]; cbn [bind]; [|reflexivity].
      destruct pos; cbn [cv_range_module crepaired].
      + destruct (resolve_cons lf env mn size) as [sz'|]; cbn [bind]; [|reflexivity].
        rewrite lib_apply_size_repaired. reflexivity.
      + simpl in O. destruct size; [discriminate|]. reflexivity.
  Qed.
End Factor.

(** compile factors through flatten: two arrangements in which a type has the
    same unfolding compile it to the same thing. *)
Theorem compile_factors_through_flatten lf K env1 env2 :
  env_ok env1 = true -> env_ok env2 = true ->
  forall n mn1 mn2 name,
    flatten lf K env1 n mn1 name = flatten lf K env2 n mn2 name ->
    compile_named crepaired lf K env1 n mn1 name = compile_named crepaired lf K env2 n mn2 name.
Proof.
  intros O1 O2 n mn1 mn2 name H. unfold compile_named.
  rewrite !compile_is_unfold by (assumption || reflexivity). exact H.
Qed.

(** * Rearrangements: look-up simulations *)
Definition cons_vrefs (c : option cons) : list string :=
  match c with
  | None => []
  | Some (Cons lo hi _) =>
    (match lo with BVal v => [v] | _ => [] end) ++ (match hi with BVal v => [v] | _ => [] end)
  end.

(** type names / value names a type refers to directly *)
Fixpoint trefs (t : sty) {struct t} : list string :=
  match t with
  | SRef name _ _ => [name]
  | SSeq _ root ext | SChoice root ext =>
    flat_map (fun m : smember => trefs (snd (fst m))) root ++
    match ext with Some l => flat_map (fun m : smember => trefs (snd (fst m))) l | None => [] end
  | SSeqOf _ e _ => trefs e
  | _ => []
  end.

Fixpoint vrefs (t : sty) {struct t} : list string :=
  match t with
  | SInt c => cons_vrefs c
  | SBits s | SOctets s | SStr s => cons_vrefs s
  | SRef _ sz rg => cons_vrefs sz ++ cons_vrefs rg
  | SSeq _ root ext | SChoice root ext =>
    flat_map (fun m : smember => vrefs (snd (fst m))) root ++
    match ext with Some l => flat_map (fun m : smember => vrefs (snd (fst m))) l | None => [] end
  | SSeqOf _ e s => cons_vrefs s ++ vrefs e
  | _ => []
  end.

Section Sim.
  Variable lf K : nat.
  Variable e1 e2 : senv.
  (** [R m1 m2 tn vn]: seen from module m1 of e1 and from module m2 of e2, the
      type names tn and the value names vn denote corresponding definitions. *)
  Variable R : string -> string -> list string -> list string -> Prop.
  Hypothesis R_mono : forall m1 m2 tn vn tn' vn',
      R m1 m2 tn vn -> incl tn' tn -> incl vn' vn -> R m1 m2 tn' vn'.
  Hypothesis R_flags : forall m1 m2 tn vn, R m1 m2 tn vn -> flags e1 m1 = flags e2 m2.
  Hypothesis R_values : forall m1 m2 tn vn v,
      R m1 m2 tn vn -> In v vn -> lookup_value lf e1 m1 v = lookup_value lf e2 m2 v.
  Hypothesis R_types : forall m1 m2 tn vn name,
      R m1 m2 tn vn -> In name tn ->
      match lookup_type lf e1 m1 name, lookup_type lf e2 m2 name with
      | Ok (t1, m1'), Ok (t2, m2') => t1 = t2 /\ R m1' m2' (trefs t1) (vrefs t1)
      | Err a, Err b => a = b
      | _, _ => False
      end.

  Lemma sim_cons m1 m2 tn vn c :
    R m1 m2 tn vn -> incl (cons_vrefs c) vn -> resolve_cons lf e1 m1 c = resolve_cons lf e2 m2 c.
  Proof.
    intros Hr I. destruct c as [[lo hi x]|]; [|reflexivity]. simpl in *.
    assert (B : forall b, incl (match b with BVal v => [v] | _ => [] end) vn ->
                          resolve_bound lf e1 m1 b = resolve_bound lf e2 m2 b).
    { intros [z|v| |] J; try reflexivity. simpl.
      rewrite (R_values _ _ _ _ v Hr); [reflexivity|]. apply J. left. reflexivity. }
    rewrite (B lo), (B hi); [reflexivity| |];
      intros v Hv; apply I; apply in_or_app; [right|left]; exact Hv.
  Qed.

  Lemma sim_members n m1 m2 (l : list smember) :
    (forall t, R m1 m2 (trefs t) (vrefs t) -> unfold lf K e1 n K m1 t = unfold lf K e2 n K m2 t) ->
    R m1 m2 (flat_map (fun m : smember => trefs (snd (fst m))) l)
      (flat_map (fun m : smember => vrefs (snd (fst m))) l) ->
    mapM (member_with (unfold lf K e1 n K m1)) l = mapM (member_with (unfold lf K e2 n K m2)) l.
  Proof.
    intros IH Hr. apply mapM_ext. apply Forall_forall. intros m I.
    unfold member_with. rewrite IH; [reflexivity|].
    eapply R_mono; [exact Hr| |]; intros x Hx; apply in_flat_map; exists m; split; assumption.
  Qed.

  (** Every type unfolds alike in two environments related by a look-up simulation. *)
  Theorem unfold_sim : forall n k m1 m2 t,
    R m1 m2 (trefs t) (vrefs t) -> unfold lf K e1 n k m1 t = unfold lf K e2 n k m2 t.
  Proof.
    induction n as [|n IHn]; [reflexivity|].
    assert (Seq : forall m1 m2 root ext,
               R m1 m2 (trefs (SSeq true root ext)) (vrefs (SSeq true root ext)) ->
               mapM (member_with (unfold lf K e1 n K m1)) root = mapM (member_with (unfold lf K e2 n K m2)) root /\
               optM (mapM (member_with (unfold lf K e1 n K m1))) ext =
               optM (mapM (member_with (unfold lf K e2 n K m2))) ext).
    { intros m1 m2 root ext Hr. simpl in Hr. split.
      - apply sim_members; [intros; apply IHn; assumption|].
        eapply R_mono; [exact Hr| |]; apply incl_appl; apply incl_refl.
      - destruct ext as [l|]; [|reflexivity]. simpl. rewrite (sim_members n m1 m2 l); [reflexivity| |].
        + intros; apply IHn; assumption.
        + eapply R_mono; [exact Hr| |]; apply incl_appr; apply incl_refl. }
    induction k as [|k IHk]; intros m1 m2 t Hr; rewrite !unfold_eq; destruct t; try reflexivity;
      try (rewrite (sim_cons m1 m2 _ _ _ Hr) by (simpl; apply incl_refl); reflexivity).
    - destruct (Seq _ _ _ _ Hr) as [A B]. rewrite A, B, (R_flags _ _ _ _ Hr). reflexivity.
    - simpl in Hr. rewrite (sim_cons m1 m2 _ _ size Hr) by (apply incl_appl; apply incl_refl).
      rewrite (IHn K m1 m2 t); [reflexivity|].
      eapply R_mono; [exact Hr|apply incl_refl|apply incl_appr; apply incl_refl].
    - destruct (Seq _ _ _ _ Hr) as [A B]. rewrite A, B, (R_flags _ _ _ _ Hr). reflexivity.
    - destruct (Seq _ _ _ _ Hr) as [A B]. rewrite A, B, (R_flags _ _ _ _ Hr). reflexivity.
    - simpl in Hr. rewrite (sim_cons m1 m2 _ _ size Hr) by (apply incl_appl; apply incl_refl).
      rewrite (IHn K m1 m2 t); [reflexivity|].
      eapply R_mono; [exact Hr|apply incl_refl|apply incl_appr; apply incl_refl].
    - destruct (Seq _ _ _ _ Hr) as [A B]. rewrite A, B, (R_flags _ _ _ _ Hr). reflexivity.
    - simpl in Hr. pose proof (R_types _ _ _ _ name Hr (or_introl eq_refl)) as L.
      destruct (lookup_type lf e1 m1 name) as [[t1 m1']|a], (lookup_type lf e2 m2 name) as [[t2 m2']|b];
        try tauto; [|subst; reflexivity].
      destruct L as [<- Hr']. cbn [bind fst snd]. rewrite (IHk _ _ _ Hr').
      destruct (unfold lf K e2 (S n) k m2' t1); cbn [bind]; [|reflexivity].
      rewrite (sim_cons m1 m2 _ _ size Hr) by (apply incl_appl; apply incl_refl).
      rewrite (sim_cons m1 m2 _ _ range Hr) by (apply incl_appr; apply incl_refl). reflexivity.
  Qed.
End Sim.

(** * Moving definitions between modules and importing them *)
Definition all_types (env : senv) : list (string * sty) := flat_map smod_types env.
Definition all_values (env : senv) : list (string * Z) := flat_map smod_values env.

Definition resolves (lf : nat) (env : senv) (m : string) (tn vn : list string) : Prop :=
  (forall name, In name tn -> exists t m', lookup_type lf env m name = Ok (t, m')) /\
  (forall v, In v vn -> exists z, lookup_value lf env m v = Ok z).

(** every reference of every definition resolves from the module of the definition *)
Definition closed (lf : nat) (env : senv) : Prop :=
  forall m, In m env -> forall nt, In nt (smod_types m) ->
    resolves lf env (smod_name m) (trefs (snd nt)) (vrefs (snd nt)).

Definition uniform_flags (env : senv) (tg : string) (ex : bool) : Prop :=
  forall m, In m env -> smod_tags m = tg /\ smod_ext m = ex.

Lemma functional_nodup {A} (l : list (string * A)) k a b :
  NoDup (map fst l) -> In (k, a) l -> In (k, b) l -> a = b.
Proof.
  intros N Ia Ib. apply (in_assoc_nodup _ _ _ N) in Ia. apply (in_assoc_nodup _ _ _ N) in Ib. congruence.
Qed.

Lemma lookup_type_in lf env m name t m' :
  lookup_type lf env m name = Ok (t, m') ->
  exists mm, In mm env /\ smod_name mm = m' /\ In (name, t) (smod_types mm).
Proof.
  intros H. apply lookup_in in H as (i & ts & I1 & I2).
  unfold types_table in I1. apply in_map_iff in I1 as (mm & E & Im). injection E as E1 E2 E3. subst.
  exists mm. auto.
Qed.

Lemma lookup_value_in lf env m v z :
  lookup_value lf env m v = Ok z -> In (v, z) (all_values env).
Proof.
  unfold lookup_value. intros H. inv_ok. destruct x as [z' m']. simpl.
  apply lookup_in in E as (i & ts & I1 & I2).
  unfold values_table in I1. apply in_map_iff in I1 as (mm & E & Im). injection E as E1 E2 E3. subst.
  unfold all_values. apply in_flat_map. exists mm. auto.
Qed.

Lemma flags_uniform env tg ex m :
  uniform_flags env tg ex -> In m (map smod_name env) -> flags env m = Ok (tg, ex).
Proof.
  intros U. unfold flags, flags_table. induction env as [|x r IH]; simpl; [tauto|]. intros I.
  destruct (String.eqb m (smod_name x)) eqn:E.
  - destruct (U x (or_introl eq_refl)) as [-> ->]. reflexivity.
  - apply IH; [intros y Iy; apply U; right; exact Iy|].
    destruct I as [I|I]; [|exact I]. apply String.eqb_neq in E. congruence.
Qed.

Section Arrangement.
  Variable lf K : nat.
  Variable e1 e2 : senv.
  Variable tg : string.
  Variable ex : bool.
  (** the same definitions (assignment names unique over the whole
      specification), one tagging default, all references resolve *)
  Hypothesis U1 : uniform_flags e1 tg ex.
  Hypothesis U2 : uniform_flags e2 tg ex.
  Hypothesis NT : NoDup (map fst (all_types e1)).
  Hypothesis NV : NoDup (map fst (all_values e1)).
  Hypothesis ST : forall name t, In (name, t) (all_types e2) -> In (name, t) (all_types e1).
  Hypothesis SV : forall v z, In (v, z) (all_values e2) -> In (v, z) (all_values e1).
  Hypothesis C1 : closed lf e1.
  Hypothesis C2 : closed lf e2.

  Definition RA (m1 m2 : string) (tn vn : list string) : Prop :=
    In m1 (map smod_name e1) /\ In m2 (map smod_name e2) /\
    resolves lf e1 m1 tn vn /\ resolves lf e2 m2 tn vn.

  Lemma in_all_types env mm name t : In mm env -> In (name, t) (smod_types mm) -> In (name, t) (all_types env).
  Proof. intros. unfold all_types. apply in_flat_map. eauto. Qed.

  Theorem arrangement_unfold : forall n k m1 m2 t,
    RA m1 m2 (trefs t) (vrefs t) -> unfold lf K e1 n k m1 t = unfold lf K e2 n k m2 t.
  Proof.
    apply (unfold_sim lf K e1 e2 RA).
    - intros m1 m2 tn vn tn' vn' (A & B & [R1 R1'] & [R2 R2']) It Iv. repeat split; auto.
    - intros m1 m2 tn vn (A & B & _). rewrite (flags_uniform _ _ _ _ U1 A), (flags_uniform _ _ _ _ U2 B). reflexivity.
    - intros m1 m2 tn vn v (_ & _ & [_ R1] & [_ R2]) I.
      destruct (R1 v I) as [z1 L1], (R2 v I) as [z2 L2]. rewrite L1, L2. f_equal.
      apply lookup_value_in in L1. apply lookup_value_in in L2. apply SV in L2.
      eapply functional_nodup; eauto.
    - intros m1 m2 tn vn name (_ & _ & [R1 _] & [R2 _]) I.
      destruct (R1 name I) as (t1 & m1' & L1), (R2 name I) as (t2 & m2' & L2). rewrite L1, L2.
      apply lookup_type_in in L1 as (mm1 & I1 & N1 & D1). apply lookup_type_in in L2 as (mm2 & I2 & N2 & D2).
      assert (t1 = t2).
      { eapply functional_nodup; [exact NT|eapply in_all_types; eauto|]. apply ST. eapply in_all_types; eauto. }
      subst t2. split; [reflexivity|]. repeat split.
      + rewrite <- N1. apply in_map. exact I1.
      + rewrite <- N2. apply in_map. exact I2.
      + rewrite <- N1. apply (proj1 (C1 _ I1 _ D1)).
      + rewrite <- N1. apply (proj2 (C1 _ I1 _ D1)).
      + rewrite <- N2. apply (proj1 (C2 _ I2 _ D2)).
      + rewrite <- N2. apply (proj2 (C2 _ I2 _ D2)).
  Qed.

  (** Where the definitions live and who imports what is irrelevant: a named
      type has the same unfolding in both arrangements, from any two modules
      that can see it. *)
  Theorem move_and_import_flatten n m1 m2 name :
    In m1 (map smod_name e1) -> In m2 (map smod_name e2) ->
    (exists t m', lookup_type lf e1 m1 name = Ok (t, m')) ->
    (exists t m', lookup_type lf e2 m2 name = Ok (t, m')) ->
    flatten lf K e1 n m1 name = flatten lf K e2 n m2 name.
  Proof.
    intros A B L1 L2. unfold flatten. apply arrangement_unfold. repeat split; auto.
    - intros x [<-|[]]. exact L1.
    - intros v [].
    - intros x [<-|[]]. exact L2.
    - intros v [].
  Qed.
End Arrangement.

(** * Replacing a reference by a copy of the definition *)

(** the constraints written after a reference, put on the copied definition *)
Definition with_overlay (t : sty) (sz rg : option cons) : sty :=
  match t with
  | SBits None => SBits sz
  | SOctets None => SOctets sz
  | SStr None => SStr sz
  | SSeqOf s e None => SSeqOf s e sz
  | SInt None => SInt rg
  | SRef n None None => SRef n sz rg
  | _ => t
  end.

(** the overlay is meaningful for this definition: SIZE on an unconstrained
    string / SEQUENCE OF, a range on an unconstrained INTEGER, anything on an
    unconstrained alias, nothing otherwise *)
Definition overlay_fits (t : sty) (sz rg : option cons) : bool :=
  match t, sz, rg with
  | _, None, None => true
  | (SBits None | SOctets None | SStr None | SSeqOf _ _ None), Some _, None => true
  | SInt None, None, Some _ => true
  | SRef _ None None, _, _ => true
  | _, _, _ => false
  end.

Section Inline.
  Variable lf K : nat.
  Variable env : senv.
  (** the names used by the definition mean the same in the module of the
      reference as in the module of the definition *)
  Variable R : string -> string -> list string -> list string -> Prop.
  Hypothesis R_mono : forall m1 m2 tn vn tn' vn',
      R m1 m2 tn vn -> incl tn' tn -> incl vn' vn -> R m1 m2 tn' vn'.
  Hypothesis R_flags : forall m1 m2 tn vn, R m1 m2 tn vn -> flags env m1 = flags env m2.
  Hypothesis R_values : forall m1 m2 tn vn v,
      R m1 m2 tn vn -> In v vn -> lookup_value lf env m1 v = lookup_value lf env m2 v.
  Hypothesis R_types : forall m1 m2 tn vn name,
      R m1 m2 tn vn -> In name tn ->
      match lookup_type lf env m1 name, lookup_type lf env m2 name with
      | Ok (t1, m1'), Ok (t2, m2') => t1 = t2 /\ R m1' m2' (trefs t1) (vrefs t1)
      | Err a, Err b => a = b
      | _, _ => False
      end.

  Lemma resolve_cons_none mn : resolve_cons lf env mn None = Ok None.
  Proof. reflexivity. Qed.

  (** [x T c] unfolds to what [x <definition of T> c] written in place unfolds to. *)
  Theorem inline_ref_flatten n k mn name sz rg t' mn' :
    lookup_type lf env mn name = Ok (t', mn') ->
    R mn' mn (trefs t') (vrefs t') ->
    overlay_fits t' sz rg = true ->
    unfold lf K env (S n) (S k) mn (SRef name sz rg) =
    unfold lf K env (S n) k mn (with_overlay t' sz rg).
  Proof.
    intros L Hr F. rewrite (unfold_eq lf K env n (S k)). rewrite L. cbn [bind fst snd].
    rewrite (unfold_sim lf K env env R R_mono R_flags R_values R_types (S n) k mn' mn t' Hr).
    assert (N : resolve_cons lf env mn None = Ok None) by reflexivity.
    destruct sz as [s|], rg as [r|]; destruct t' as [| |[c|]| |[c|]|[c|]|[c|]| |? ? [c|]| |rn [c1|] [c2|]];
      try discriminate F; cbn [with_overlay];
      rewrite ?(unfold_eq lf K env n k); rewrite ?N; cbn [bind apply_size apply_range];
      try reflexivity;
      repeat match goal with
             | |- context [resolve_cons lf env mn ?c] =>
               destruct (resolve_cons lf env mn c); cbn [bind apply_size apply_range]
             | |- context [unfold lf K env n K mn ?t] =>
               destruct (unfold lf K env n K mn t); cbn [bind apply_size apply_range]
             | |- context [flags env mn] => destruct (flags env mn); cbn [bind apply_size apply_range]
             | |- context [mapM ?f ?l] => destruct (mapM f l); cbn [bind apply_size apply_range]
             | |- context [optM ?f ?l] => destruct (optM f l); cbn [bind apply_size apply_range]
             end; try reflexivity;
      try (repeat match goal with a : option fcons |- _ => destruct a end; reflexivity).
    all: destruct k; [reflexivity|];
      destruct (lookup_type lf env mn rn) as [[t2 m2]|]; cbn [bind fst snd]; [|reflexivity];
      destruct (unfold lf K env (S n) k m2 t2); reflexivity.
  Qed.
End Inline.

(** * The compiled-type cache *)
Section Memo.
  Context {Key Val : Type}.
  Variable eqb : Key -> Key -> bool.
  Hypothesis eqb_eq : forall a b, eqb a b = true -> a = b.
  (** compile_type for the key (module, type name, member name): a function of
      the key, and every later attribute is set on a copy of its result *)
  Variable compile : Key -> Val.

  Fixpoint cache_find (c : list (Key * Val)) (k : Key) : option Val :=
    match c with
    | [] => None
    | (k', v) :: r => if eqb k k' then Some v else cache_find r k
    end.

  (** compile_user_type: get_compiled_type, else compile and set_compiled_type *)
  Definition compile_user_type (c : list (Key * Val)) (k : Key) : Val * list (Key * Val) :=
    match cache_find c k with
    | Some v => (v, c)
    | None => (compile k, (k, compile k) :: c)
    end.

  Definition cache_ok (c : list (Key * Val)) : Prop := Forall (fun kv => snd kv = compile (fst kv)) c.

  Lemma memo_transparent c k :
    cache_ok c ->
    fst (compile_user_type c k) = compile k /\ cache_ok (snd (compile_user_type c k)).
  Proof.
    intros H. unfold compile_user_type. destruct (cache_find c k) as [v|] eqn:F; simpl.
    - split; [|exact H]. induction H as [|[k' v'] r Hx Hr IH]; simpl in F; [discriminate|].
      destruct (eqb k k') eqn:E; [|auto]. injection F as <-. apply eqb_eq in E. subst. exact Hx.
    - split; [reflexivity|]. constructor; [reflexivity|exact H].
  Qed.
End Memo.

(** * What upstream refutes *)
Definition mem (n : string) (t : sty) (o : sopt) : smember := (n, None, t, o).
Definition one_module (types : list (string * sty)) (values : list (string * Z)) : senv :=
  [SModule "M" "AUTOMATIC" false [] types values].

(** T ::= BOOLEAN   S ::= SEQUENCE { x T DEFAULT TRUE }   against   x BOOLEAN DEFAULT TRUE *)
Definition w_bool_ref : senv :=
  one_module [("T", SBool); ("S", SSeq false [mem "x" (SRef "T" None None) (SDefault TTrue)] None)] [].
Definition w_bool_inl : senv :=
  one_module [("T", SBool); ("S", SSeq false [mem "x" SBool (SDefault TTrue)] None)] [].

Theorem compile_factors_refuted_boolean_default :
  flatten 8 8 w_bool_ref 3 "M" "S" = flatten 8 8 w_bool_inl 3 "M" "S" /\
  compile_named cupstream 8 8 w_bool_ref 3 "M" "S" <> compile_named cupstream 8 8 w_bool_inl 3 "M" "S" /\
  compile_named crepaired 8 8 w_bool_ref 3 "M" "S" = compile_named crepaired 8 8 w_bool_inl 3 "M" "S".
Proof. split; [vm_compute; reflexivity|]. split; [vm_compute; intros H; discriminate H|vm_compute; reflexivity]. Qed.

(** L ::= SEQUENCE OF BOOLEAN   S ::= SEQUENCE { x L (SIZE(1..2)) }   against
    x SEQUENCE (SIZE(1..2)) OF BOOLEAN *)
Definition sz12 : option cons := Some (Cons (BNum 1) (BNum 2) false).
Definition w_size_ref : senv :=
  one_module [("L", SSeqOf false SBool None);
              ("S", SSeq false [mem "x" (SRef "L" sz12 None) SMandatory] None)] [].
Definition w_size_inl : senv :=
  one_module [("L", SSeqOf false SBool None);
              ("S", SSeq false [mem "x" (SSeqOf false SBool sz12) SMandatory] None)] [].

Theorem compile_factors_refuted_size_on_reference :
  flatten 8 8 w_size_ref 3 "M" "S" = flatten 8 8 w_size_inl 3 "M" "S" /\
  compile_named cupstream 8 8 w_size_ref 3 "M" "S" <> compile_named cupstream 8 8 w_size_inl 3 "M" "S" /\
  compile_named crepaired 8 8 w_size_ref 3 "M" "S" = compile_named crepaired 8 8 w_size_inl 3 "M" "S".
Proof. split; [vm_compute; reflexivity|]. split; [vm_compute; intros H; discriminate H|vm_compute; reflexivity]. Qed.

(** v INTEGER ::= 5   S ::= SEQUENCE { x T (0..v) }   with T ::= INTEGER in
    the same module, against T moved to another module and imported *)
Definition rg0v : option cons := Some (Cons (BNum 0) (BVal "v") false).
Definition w_range_one : senv :=
  one_module [("T", SInt None); ("S", SSeq false [mem "x" (SRef "T" None rg0v) SMandatory] None)] [("v", 5)].
Definition w_range_two : senv :=
  [SModule "M" "AUTOMATIC" false [("N", ["T"])]
           [("S", SSeq false [mem "x" (SRef "T" None rg0v) SMandatory] None)] [("v", 5)];
   SModule "N" "AUTOMATIC" false [] [("T", SInt None)] []].

Theorem compile_factors_refuted_range_module :
  flatten 8 8 w_range_one 3 "M" "S" = flatten 8 8 w_range_two 3 "M" "S" /\
  compile_named cupstream 8 8 w_range_one 3 "M" "S" <> compile_named cupstream 8 8 w_range_two 3 "M" "S" /\
  compile_named crepaired 8 8 w_range_one 3 "M" "S" = compile_named crepaired 8 8 w_range_two 3 "M" "S".
Proof. split; [vm_compute; reflexivity|]. split; [vm_compute; intros H; discriminate H|vm_compute; reflexivity]. Qed.

(** Not repaired (known finding size-on-element-reference):
    S ::= SEQUENCE OF L (SIZE(1..2))   against   SEQUENCE OF SEQUENCE (SIZE(1..2)) OF BOOLEAN *)
Definition w_elem_ref : senv :=
  one_module [("L", SSeqOf false SBool None); ("S", SSeqOf false (SRef "L" sz12 None) None)] [].
Definition w_elem_inl : senv :=
  one_module [("L", SSeqOf false SBool None); ("S", SSeqOf false (SSeqOf false SBool sz12) None)] [].

Theorem compile_factors_refuted_size_on_element_reference :
  flatten 8 8 w_elem_ref 3 "M" "S" = flatten 8 8 w_elem_inl 3 "M" "S" /\
  compile_named crepaired 8 8 w_elem_ref 3 "M" "S" <> compile_named crepaired 8 8 w_elem_inl 3 "M" "S" /\
  env_ok w_elem_ref = false.
Proof. split; [vm_compute; reflexivity|]. split; [vm_compute; intros H; discriminate H|vm_compute; reflexivity]. Qed.

(** * A worked instance of the rearrangement theorem *)
Definition ex_types : list (string * sty) :=
  [("B", SBool);
   ("L", SSeqOf false (SRef "B" None None) None);
   ("R", SSeq false [mem "v" (SRef "L" (Some (Cons (BNum 1) (BVal "hi") false)) None) SMandatory;
                     mem "f" (SRef "B" None None) (SDefault TTrue);
                     mem "next" (SRef "R" None None) SOptional] (Some []))].
Definition ex_one : senv := [SModule "M" "AUTOMATIC" false [] ex_types [("hi", 4)]].
Definition ex_three : senv :=
  [SModule "P" "AUTOMATIC" false [("Q", ["L"; "hi"]); ("M", ["B"])]
           [("R", snd (nth 2 ex_types ("", SNull)))] [];
   SModule "M" "AUTOMATIC" false [] [("B", SBool)] [];
   SModule "Q" "AUTOMATIC" false [("M", ["B"])] [("L", snd (nth 1 ex_types ("", SNull)))] [("hi", 4)]].


Lemma closed_one : closed 8 ex_one.
Proof.
  intros m [<-|[]] nt I. simpl in I.
  repeat (destruct I as [<-|I]; [split; intros x Hx; simpl in Hx;
    repeat (destruct Hx as [<-|Hx]; [do 2 eexists + eexists; vm_compute; reflexivity|]); try contradiction|]).
  contradiction.
Qed.

Lemma closed_three : closed 8 ex_three.
Proof.
  intros m I. simpl in I.
  repeat (destruct I as [<-|I]; [intros nt J; simpl in J;
    repeat (destruct J as [<-|J]; [split; intros x Hx; simpl in Hx;
      repeat (destruct Hx as [<-|Hx]; [do 2 eexists + eexists; vm_compute; reflexivity|]); try contradiction|]);
    try contradiction|]).
  contradiction.
Qed.

Lemma example_move : forall n, flatten 8 8 ex_one n "M" "R" = flatten 8 8 ex_three n "P" "R".
Proof.
  intros n.
  apply (move_and_import_flatten 8 8 ex_one ex_three "AUTOMATIC" false).
  - intros m [<-|[]]. split; reflexivity.
  - intros m [<-|[<-|[<-|[]]]]; split; reflexivity.
  - vm_compute. repeat constructor; simpl; intuition discriminate.
  - vm_compute. repeat constructor; simpl; intuition discriminate.
  - intros name t I. vm_compute in I. vm_compute. intuition.
  - intros v z I. vm_compute in I. vm_compute. intuition.
  - exact closed_one.
  - exact closed_three.
  - simpl. auto.
  - simpl. auto.
  - do 2 eexists. vm_compute. reflexivity.
  - do 2 eexists. vm_compute. reflexivity.
Qed.
