(** C13 / C19 — the parser's output (asn1tools/parser.py, the "specification
    dictionary") as data, as far as the pre-processing passes of
    asn1tools/codecs/compiler.py read or write it.

    A Python dict is an association list in insertion order with unique keys
    (the parser builds them with dict literals and [merge_dicts]); lookup is
    first-match.  Everything a pass never reads or writes (SIZE, value
    constraints, FROM, WITH COMPONENTS, named numbers, element names, ...) is
    carried in [a_rest] as an opaque, canonically ordered list of
    (key, repr(value)) pairs so that the correspondence run still compares it.

    No proofs in this file. *)
From Asn1V Require Import Base.Prelude.
Open Scope string_scope.
Open Scope list_scope.
Open Scope Z_scope.

(** DEFAULT values as they occur in the dictionary: what the parser emits
    (bool, int, text for names / bstrings "0b.." / hstrings "0x.." /
    character strings, a list of names for a named-bit list) and what the
    DEFAULT clean-up pass writes ((bytes, nbits) tuples, bytes).  Anything else
    (OBJECT IDENTIFIER lists, ...) is [DvOther] with its repr. *)
Inductive dval : Type :=
| DvBool (b : bool)
| DvInt (z : Z)
| DvStr (s : string)
| DvNames (l : list string)
| DvBits (bs : list Z) (n : Z)
| DvBytes (bs : list Z)
| DvNone
| DvOther (repr : string).

(** member['tag'] : {'number': n, 'class': c (optional), 'kind': k (optional)} *)
Inductive tagd : Type := Tagd (number : Z) (class : option string) (kind : option string).

(** The number of an ENUMERATED item: an int, or a value reference. *)
Inductive enumv : Type := EvInt (z : Z) | EvName (s : string).

(** The non-recursive attributes of a type descriptor. *)
Inductive attrs : Type :=
  Attrs (type : string)                                   (* 'type'                        *)
        (name : option string)                            (* 'name' (members)              *)
        (tag : option tagd)                               (* 'tag'                         *)
        (optional : bool)                                 (* 'optional' present            *)
        (default : option dval)                           (* 'default'                     *)
        (values : option (list (option (string * enumv))))  (* ENUMERATED 'values', None = "..." *)
        (named_bits : option (list (string * string)))    (* BIT STRING 'named-bits'       *)
        (rest : list (string * string)).                  (* every other key, opaque       *)

Definition a_type (a : attrs) := let 'Attrs t _ _ _ _ _ _ _ := a in t.
Definition a_name (a : attrs) := let 'Attrs _ n _ _ _ _ _ _ := a in n.
Definition a_tag (a : attrs) := let 'Attrs _ _ t _ _ _ _ _ := a in t.
Definition a_optional (a : attrs) := let 'Attrs _ _ _ o _ _ _ _ := a in o.
Definition a_default (a : attrs) := let 'Attrs _ _ _ _ d _ _ _ := a in d.
Definition a_values (a : attrs) := let 'Attrs _ _ _ _ _ v _ _ := a in v.
Definition a_named_bits (a : attrs) := let 'Attrs _ _ _ _ _ _ b _ := a in b.
Definition a_rest (a : attrs) := let 'Attrs _ _ _ _ _ _ _ r := a in r.
Definition set_tag (a : attrs) (t : option tagd) : attrs :=
  let 'Attrs ty n _ o d v b r := a in Attrs ty n t o d v b r.
Definition set_default (a : attrs) (d : option dval) : attrs :=
  let 'Attrs ty n t o _ v b r := a in Attrs ty n t o d v b r.

(** An item of a 'members' list, or a type descriptor:
      None (EXTENSION_MARKER)           [NMarker]
      {'components-of': T}              [NCompOf]
      [member, ...]  (an addition group) [NGroup]
      a type descriptor / member         [NType attrs members element]     *)
Inductive node : Type :=
| NMarker
| NCompOf (n : string)
| NGroup (g : list node)
| NType (a : attrs) (members : option (list node)) (element : option node).

Inductive valdef : Type := ValDef (type : string) (value : dval).

(** One module of the dictionary. [m_tags = None]: no 'tags' key. *)
Inductive module : Type :=
  Module (name : string) (tags : option string) (ext_implied : bool)
         (imports : list (string * list string))
         (types : list (string * node))
         (values : list (string * valdef)).

Definition m_name (m : module) := let 'Module n _ _ _ _ _ := m in n.
Definition m_tags (m : module) := let 'Module _ t _ _ _ _ := m in t.
Definition m_ext (m : module) := let 'Module _ _ e _ _ _ := m in e.
Definition m_imports (m : module) := let 'Module _ _ _ i _ _ := m in i.
Definition m_types (m : module) := let 'Module _ _ _ _ t _ := m in t.
Definition m_values (m : module) := let 'Module _ _ _ _ _ v := m in v.
Definition set_types (m : module) (t : list (string * node)) : module :=
  let 'Module n tg e i _ v := m in Module n tg e i t v.

Definition dict : Type := list module.

(** Python's [d[k]] / [k in d] on an insertion-ordered dict. *)
Fixpoint assoc {A} (k : string) (l : list (string * A)) : option A :=
  match l with
  | [] => None
  | (k', a) :: r => if String.eqb k k' then Some a else assoc k r
  end.

Fixpoint find_module (d : dict) (mn : string) : option module :=
  match d with
  | [] => None
  | m :: r => if String.eqb mn (m_name m) then Some m else find_module r mn
  end.

Fixpoint replace_module (d : dict) (mn : string) (m' : module) : dict :=
  match d with
  | [] => []
  | m :: r => if String.eqb mn (m_name m) then m' :: r else m :: replace_module r mn m'
  end.

Fixpoint mem_str (s : string) (l : list string) : bool :=
  match l with [] => false | x :: r => String.eqb s x || mem_str s r end.

(** The Python exceptions the passes can raise. *)
Definition ECompile : err := EForeign "CompileError".
Definition EKey : err := EForeign "KeyError".
Definition EType : err := EForeign "TypeError".
Definition EValue : err := EForeign "ValueError".
Definition EAttribute : err := EForeign "AttributeError".
Definition is_compile_error (e : err) : bool :=
  match e with EForeign k => String.eqb k "CompileError" | _ => false end.

(** Monadic map, written so that it can be used for nested recursion. *)
Definition mapM {A B} (f : A -> result B) : list A -> result (list B) :=
  fix go (l : list A) : result (list B) :=
    match l with
    | [] => Ok []
    | x :: r => let* y := f x in let* r' := go r in Ok (y :: r')
    end.

Definition optM {A B} (f : A -> result B) (o : option A) : result (option B) :=
  match o with None => Ok None | Some x => let* y := f x in Ok (Some y) end.
