(** "v is a value of type t" in the Python representation the library uses
    (DESIGN 3.1): the hypothesis of the checker theorems.  Fuel is consumed at
    every node exactly as the checker models do, so [well_typed fuel ... = true]
    also says that [fuel] suffices for this value. *)
From Asn1V Require Import Base.Prelude Syntax.Asn1.

Fixpoint nodup_str (l : list string) : bool :=
  match l with
  | [] => true
  | n :: r => negb (existsb (String.eqb n) r) && nodup_str r
  end.

Definition members_flat {T} (root : list (member_of T)) (ext : option (list (addition_of T))) : list (member_of T) :=
  root ++ match ext with None => [] | Some adds => concat (map snd adds) end.
Definition alternatives {T} (root : list (member_of T)) (ext : option (list (member_of T))) : list (member_of T) :=
  root ++ match ext with None => [] | Some l => l end.
Definition member_types {T} (ms : list (member_of T)) : list (string * T) :=
  map (fun m => (m_name m, m_ty m)) ms.
Definition enum_names (root : list (string * Z)) (ext : option (list (string * Z))) : list string :=
  map fst root ++ match ext with None => [] | Some l => map fst l end.
Definition is_mandatory (o : optionality) : bool := match o with Mandatory => true | _ => false end.

Fixpoint well_typed (fuel : nat) (env : env) (t : ty) (v : value) : bool :=
  match fuel with
  | O => false
  | S f =>
    match t, v with
    | TBool, VBool _ => true
    | TNull, VNone => true
    | TInt _, VInt _ => true
    | TEnum root ext, VEnum n => existsb (String.eqb n) (enum_names root ext)
    | TBits _ _, VBits bs n => forallb is_byteb bs && (0 <=? n) && (n <=? 8 * Z.of_nat (length bs))
    | TOctets _, VBytes bs => forallb is_byteb bs
    | TStr _ _ _, VStr cps => forallb (fun c => (0 <=? c) && (c <? 1114112)) cps
    | TOid, VOid _ => true
    | TSeq _ root ext, VSeq fields =>
      let ms := members_flat root ext in
      nodup_str (map fst fields)
      && nodup_str (map m_name ms)
      && forallb (fun nv => existsb (String.eqb (fst nv)) (map m_name ms)) fields
      && forallb (fun m => match lookup (m_name m) fields with
                           | Some x => well_typed f env (m_ty m) x
                           | None => true
                           end) ms
      && forallb (fun m => negb (is_mandatory (m_opt m))
                           || match lookup (m_name m) fields with Some _ => true | None => false end) root
    | TSeqOf _ elem _, VList vs => forallb (well_typed f env elem) vs
    | TChoice root ext, VChoice n x =>
      nodup_str (map m_name (alternatives root ext))
      && match lookup n (member_types (alternatives root ext)) with
         | Some t' => well_typed f env t' x
         | None => false
         end
    | TRef n, _ => match lookup n env with Some t' => well_typed f env t' v | None => false end
    | TTag _ t', _ => well_typed f env t' v
    | _, _ => false
    end
  end.

(** Every mandatory member is present, also among the extension additions,
    at every level (what JER/XER/GSER require of a value; BER/DER/PER/UPER/OER
    accept absent additions). *)
Fixpoint fully_present (fuel : nat) (env : env) (t : ty) (v : value) : bool :=
  match fuel with
  | O => false
  | S f =>
    match t, v with
    | TSeq _ root ext, VSeq fields =>
      forallb (fun m => match lookup (m_name m) fields with
                        | Some x => fully_present f env (m_ty m) x
                        | None => negb (is_mandatory (m_opt m))
                        end) (members_flat root ext)
    | TSeqOf _ elem _, VList vs => forallb (fully_present f env elem) vs
    | TChoice root ext, VChoice n x =>
      match lookup n (member_types (alternatives root ext)) with
      | Some t' => fully_present f env t' x
      | None => true
      end
    | TRef n, _ => match lookup n env with Some t' => fully_present f env t' v | None => false end
    | TTag _ t', _ => fully_present f env t' v
    | _, _ => true
    end
  end.
