(** Specification: "the declared constraints admit the value".

    Independent of the checker model: no range objects, no early return, no
    error values or locations — a plain conjunction over all components.

    A component is admitted unless it violates a NON-extensible single-range
    value constraint (INTEGER), SIZE constraint (strings in characters, BIT
    STRING in bits, OCTET STRING in octets, SEQUENCE OF / SET OF in elements) or
    permitted alphabet (FROM if given, else the alphabet of the restricted
    string type itself for NumericString, PrintableString, IA5String,
    VisibleString and BMPString).  A bound that is MIN/MAX is no bound.  A
    CHOICE value naming no known alternative is admitted exactly when the CHOICE
    is extensible.  Absent members are not constrained. *)
From Asn1V Require Import Base.Prelude Syntax.Asn1 Check.WellTyped.

Definition above (lo : option Z) (n : Z) : bool := match lo with None => true | Some l => l <=? n end.
Definition below (hi : option Z) (n : Z) : bool := match hi with None => true | Some h => n <=? h end.

Definition in_size (s : size) (n : Z) : bool :=
  match s with
  | SzNone => true
  | SzRange lo hi ext => ext || ((lo <=? n) && below hi n)
  end.

Definition in_intc (c : intc) (z : Z) : bool :=
  match c with
  | IcNone => true
  | IcRange lo hi ext => ext || (above lo z && below hi z)
  end.

Definition between (a b c : Z) : bool := (a <=? c) && (c <=? b).

(** X.680 41.4 table 9 (PrintableString), 41.2 (NumericString), ISO 646 (IA5,
    Visible = graphic characters and space), BMP = the basic plane without the
    surrogate block. *)
Definition in_class (k : strkind) (c : Z) : bool :=
  match k with
  | SkNumeric => (c =? 32) || between 48 57 c
  | SkPrintable =>
    between 65 90 c || between 97 122 c || between 48 57 c
    || existsb (Z.eqb c) [32; 39; 40; 41; 43; 44; 45; 46; 47; 58; 61; 63]
  | SkIA5 => between 0 127 c
  | SkVisible => between 32 126 c
  | SkBMP => between 0 65535 c && negb (between 55296 57343 c)
  | _ => true
  end.

Definition in_alphabet (k : strkind) (from : option (list Z)) (c : Z) : bool :=
  match from with
  | Some l => existsb (Z.eqb c) l
  | None => in_class k c
  end.

Definition is_some {A} (o : option A) : bool := match o with Some _ => true | None => false end.

Fixpoint admits (fuel : nat) (env : env) (t : ty) (v : value) : bool :=
  match fuel with
  | O => false
  | S f =>
    match t, v with
    | TBool, _ | TNull, _ | TEnum _ _, _ => true
    | TOid, VOid _ => true
    | TInt c, VInt z => in_intc c z
    | TBits _ sz, VBits _ n => in_size sz n
    | TOctets sz, VBytes bs => in_size sz (Z.of_nat (length bs))
    | TStr k sz from, VStr cps =>
      in_size sz (Z.of_nat (length cps)) && forallb (in_alphabet k from) cps
    | TSeq _ root ext, VSeq fields =>
      forallb (fun m => match lookup (m_name m) fields with
                        | Some x => admits f env (m_ty m) x
                        | None => true
                        end) (members_flat root ext)
    | TSeqOf _ elem sz, VList vs =>
      in_size sz (Z.of_nat (length vs)) && forallb (admits f env elem) vs
    | TChoice root ext, VChoice n x =>
      match lookup n (member_types (alternatives root ext)) with
      | Some t' => admits f env t' x
      | None => is_some ext
      end
    | TChoice _ ext, VUnknownChoice => is_some ext
    | TRef n, _ => match lookup n env with Some t' => admits f env t' v | None => false end
    | TTag _ t', _ => admits f env t' v
    | _, _ => false
    end
  end.
