(** Entry points evaluated by the correspondence runs of harness/c11.py and
    harness/c12.py: outcome as (class code, dotted path). *)
From Asn1V Require Import Base.Prelude Syntax.Asn1 Check.Location Check.Constraints.

Definition class_code (o : outcome) : Z :=
  match outcome_class o with
  | None => 0
  | Some EConstraints => 1
  | Some EEncode => 2
  | Some (EForeign _) => 3
  | Some EFuel => 4
  | Some EUnmodelled => 5
  | Some _ => 6
  end.

Definition observe (o : outcome) : Z * string := (class_code o, outcome_path o).

Definition run_constraints (vr : variant) (env : env) (c : string * value) : Z * string :=
  observe (check_top vr 400 env (fst c) (snd c)).

From Asn1V Require Import Check.TypeCheck Check.Skeleton.

Definition codec_of (z : Z) : codec :=
  match z with
  | 0 => Ber | 1 => Der | 2 => Uper | 3 => Per | 4 => Oer | 5 => Jer | 6 => Xer | _ => Gser
  end.

(** first_error for each listed codec *)
Definition run_first (vr : variant) (env : env) (c : string * value * list Z) : list (Z * string) :=
  let '(name, v, cds) := c in
  map (fun cd => observe (first_error vr (codec_of cd) 400 env name v)) cds.

Definition run_tcheck (vr : variant) (env : env) (c : string * value) : Z * string :=
  observe (tcheck_top vr 400 env (fst c) (snd c)).

(** A recorded run of the real ErrorWithLocation: the element given to the
    constructor (if any) and the sequence of add_location calls, elements
    identified by small integers (Python object identity). *)
Definition mk_elem (p : Z * string) : elem := mkElem (""%string, [Z.to_nat (fst p)], false) (snd p) false.
Definition run_location (vr : variant) (c : list (Z * string) * list (Z * string)) : string :=
  let x0 := match fst c with [] => raise_plain EEncode | e :: _ => raise_at EEncode (mk_elem e) end in
  location_str (fold_left (fun x el => add_location vr (mk_elem el) x) (snd c) x0).
