(** Skeleton of the eight codecs' encoders: only what decides WHETHER an
    EncodeError is raised for a missing mandatory member or an unknown
    ENUMERATED name, and which location it carries (the member / choice
    encoders of ber.py, per.py, oer.py, jer.py, xer.py, gser.py; der/uper
    inherit from ber/per).  Everything else an encoder does is abstracted to
    "no error" — the one-fault theorem is about values that are otherwise
    encodable, and the property test only starts from values the codec encodes.

    As coded:
    - a member present in the dict is encoded inside try/except that adds the
      member to the location; an absent OPTIONAL/DEFAULT member is skipped; an
      absent mandatory ROOT member raises EncodeError from the container (no
      location of its own: the path is the container's path);
    - BER/DER/PER/UPER/OER encode the extension additions inside
      [try ... except EncodeError: pass]: an absent mandatory addition silently
      ends the additions.  Unrepaired, that handler also swallows every
      EncodeError raised inside a present addition (known C12 defect);
      proposed_fixes/C12-addition-errors.diff re-raises errors that carry a
      location.  JER/XER/GSER treat additions like root members;
    - CHOICE adds the alternative; SEQUENCE OF / SET OF and Recursive add
      nothing;
    - an unknown ENUMERATED name is an EncodeError; unrepaired PER/UPER/GSER
      raise KeyError instead (proposed_fixes/C12-enumerated-unknown-name.diff);
    - a member equal to its DEFAULT is not encoded by some codecs: not modelled,
      a DEFAULT value is a valid value and raises nothing either way. *)
From Asn1V Require Import Base.Prelude Syntax.Asn1 Check.Location Check.WellTyped Check.Constraints Check.TypeCheck.

Inductive codec : Type := Ber | Der | Uper | Per | Oer | Jer | Xer | Gser.

Definition swallows (cd : codec) : bool :=
  match cd with Ber | Der | Uper | Per | Oer => true | _ => false end.

Definition enum_error (vr : variant) (cd : codec) : outcome :=
  match vr, cd with
  | Orig, (Uper | Per | Gser) => Fail (raise_plain (EForeign "KeyError"%string))
  | _, _ => encode_error
  end.

Section Rec.
  Variable vr : variant.
  Variable rec : cctx -> ty -> value -> outcome.

  (** Member loop.  [absent m]: what an absent member does ([None] = skip).
      [on_fail x]: what a failure inside a present member becomes. *)
  Fixpoint walk_members (absent : member_of ty -> option outcome) (on_fail : exn -> outcome)
           (c : cctx) (ms : list (member_of ty)) (i : nat) (fields : list (string * value)) : outcome :=
    match ms with
    | [] => Pass
    | m :: r =>
      match lookup (m_name m) fields with
      | Some x =>
        match with_location vr (node_elem (sub c i) (m_name m)) (rec (sub c i) (m_ty m) x) with
        | Pass => walk_members absent on_fail c r (S i) fields
        | Fail e => on_fail e
        end
      | None =>
        match absent m with
        | None => walk_members absent on_fail c r (S i) fields
        | Some o => o
        end
      end
    end.
End Rec.

Definition absent_root (m : member_of ty) : option outcome :=
  if is_mandatory (m_opt m) then Some encode_error else None.
(** inside [try ... except EncodeError: pass]: the additions end here *)
Definition absent_addition_swallowed (m : member_of ty) : option outcome :=
  if is_mandatory (m_opt m) then Some Pass else None.

Definition swallow (vr : variant) (x : exn) : outcome :=
  match x_class x with
  | EEncode =>
    match vr with
    | Orig => Pass
    | Repaired => match x_loc x with [] => Pass | _ => Fail x end
    end
  | _ => Fail x
  end.

Fixpoint skel (vr : variant) (cd : codec) (fuel : nat) (env : env) (c : cctx) (t : ty) (v : value) : outcome :=
  match fuel with
  | O => Fail (raise_plain EFuel)
  | S fuel' =>
    let rec := skel vr cd fuel' env in
    match t with
    | TEnum root ext =>
      match v with
      | VEnum n => if mem_str n (enum_names root ext) then Pass else enum_error vr cd
      | VStr _ | VOid _ => enum_error vr cd      (* a str that is no name of the type *)
      | _ => Fail (raise_plain EUnmodelled)
      end
    | TSeq _ root ext =>
      match v with
      | VSeq fields =>
        match walk_members vr rec absent_root Fail c root 0 fields with
        | Pass =>
          if swallows cd
          then walk_members vr rec absent_addition_swallowed (swallow vr) c (flatten_additions ext) (length root) fields
          else walk_members vr rec absent_root Fail c (flatten_additions ext) (length root) fields
        | f => f
        end
      | _ => Fail (raise_plain EUnmodelled)
      end
    | TSeqOf _ elem _ =>
      match v with
      | VList vs => check_elems rec (sub c 0) elem vs
      | _ => Fail (raise_plain EUnmodelled)
      end
    | TChoice root ext =>
      match v with
      | VChoice n x =>
        match find_member n (choice_members root ext) 0 with
        | Some (i, m) => with_location vr (node_elem (sub c i) (m_name m)) (rec (sub c i) (m_ty m) x)
        | None => encode_error
        end
      | _ => Fail (raise_plain EUnmodelled)
      end
    | TRef n =>
      match lookup n env with
      | None => Fail (raise_plain EUnmodelled)
      | Some t' =>
        if mem_str n (c_bt c)
        then rec (mkCtx n [] [n]) t' v
        else rec (mkCtx (c_root c) (c_path c) (n :: c_bt c)) t' v
      end
    | TTag _ t' => rec c t' v
    | _ => Pass
    end
  end.

Definition skel_top (vr : variant) (cd : codec) (fuel : nat) (env : env) (name : string) (v : value) : outcome :=
  match lookup name env with
  | None => Fail (raise_plain EUnmodelled)
  | Some t => with_location vr (node_elem (top_ctx name) name) (skel vr cd fuel env (top_ctx name) t v)
  end.

(** Specification.encode(name, v, check_types=True, check_constraints=True):
    type check, then constraints check, then the codec. *)
Definition first_error (vr : variant) (cd : codec) (fuel : nat) (env : env) (name : string) (v : value) : outcome :=
  match tcheck_top vr fuel env name v with
  | Pass =>
    match check_top vr fuel env name v with
    | Pass => skel_top vr cd fuel env name v
    | f => f
    end
  | f => f
  end.
