(** Implementation model of asn1tools/codecs/constraints_checker.py over the
    shared universe [ty]/[value] (Syntax/Asn1.v).

    The model follows the code, not the standard:
    - every compiled node starts with minimum 'MIN' / maximum 'MAX' (modelled as
      [None]); [set_range] RETURNS EARLY when the constraint has an extension
      marker, so an extensible constraint leaves the node unconstrained;
    - [is_in_range] compares against a bound only when it is not 'MIN'/'MAX';
    - BIT STRING sizes are counted in bits ([data[1]]), OCTET STRING in bytes,
      character strings in characters ([len(str)]), lists in elements;
    - NumericString, PrintableString, IA5String, BMPString and VisibleString have
      a built-in permitted alphabet that a FROM constraint REPLACES; all other
      string types are checked against FROM only;
    - SEQUENCE/SET: members (root, then additions with groups flattened) that are
      present in the dict are checked, absent ones skipped, whatever their
      optionality; CHOICE: the chosen alternative is checked, an unknown one is a
      ConstraintsError unless the CHOICE is extensible; list elements add no
      location; type references are transparent (the compiled copy carries the
      member's name); a recursive reference is the same object at every depth.

    Bounds in [ty] are numbers: MIN/MAX, named numbers and value references are
    resolved by the generator that also writes the ASN.1 text, so the
    correspondence run checks the library's resolution
    (codecs/compiler.py get_size_range / get_restricted_to_range) against it.
    A constraint written on a type reference ([x L (SIZE(1..2))]) is exported as
    the referenced type with that constraint. *)
From Asn1V Require Import Base.Prelude Syntax.Asn1 Check.Location.

(** minimum / maximum of a compiled node; [None] is the string 'MIN' / 'MAX'. *)
Record range : Type := mkRange { r_min : option Z; r_max : option Z }.
Definition unbounded : range := mkRange None None.

(** [Type.set_range(minimum, maximum, has_extension_marker)] on a fresh node. *)
Definition set_range (cur : range) (lo hi : option Z) (ext : bool) : range :=
  if ext then cur else mkRange lo hi.

Definition has_lower_bound (r : range) : bool := match r_min r with None => false | Some _ => true end.
Definition has_upper_bound (r : range) : bool := match r_max r with None => false | Some _ => true end.

Definition is_in_range (r : range) (v : Z) : bool :=
  let minimum_ok := negb (has_lower_bound r) || match r_min r with Some m => m <=? v | None => false end in
  let maximum_ok := negb (has_upper_bound r) || match r_max r with Some m => v <=? m | None => false end in
  minimum_ok && maximum_ok.

(** [get_size_range] + [set_size_range] in the constructor. *)
Definition size_range (s : size) : range :=
  match s with
  | SzNone => set_range unbounded None None false
  | SzRange lo hi ext => set_range unbounded (Some lo) hi ext
  end.

(** [get_restricted_to_range] + [set_restricted_to_range] (only when the
    descriptor has 'restricted-to'). *)
Definition int_range (c : intc) : range :=
  match c with
  | IcNone => unbounded
  | IcRange lo hi ext => set_range unbounded lo hi ext
  end.

(** Permitted alphabets as sorted code-point ranges (the Python strings of
    permitted_alphabet.py). *)
Definition alphabet : Type := list (Z * Z).
Definition alphabet_mem (a : alphabet) (c : Z) : bool :=
  existsb (fun r => (fst r <=? c) && (c <=? snd r)) a.

Definition NUMERIC_STRING : alphabet := [(32, 32); (48, 57)].
Definition PRINTABLE_STRING : alphabet :=
  [(65, 90); (97, 122); (48, 57); (32, 32); (39, 41); (43, 47); (58, 58); (61, 61); (63, 63)].
Definition IA5_STRING : alphabet := [(0, 127)].
Definition BMP_STRING : alphabet := [(0, 55295); (57344, 65535)].
Definition VISIBLE_STRING : alphabet := [(32, 126)].

Definition class_alphabet (k : strkind) : option alphabet :=
  match k with
  | SkNumeric => Some NUMERIC_STRING
  | SkPrintable => Some PRINTABLE_STRING
  | SkIA5 => Some IA5_STRING
  | SkBMP => Some BMP_STRING
  | SkVisible => Some VISIBLE_STRING
  | _ => None
  end.

Definition permitted_alphabet (k : strkind) (from : option (list Z)) : option alphabet :=
  match from with
  | Some l => Some (map (fun c => (c, c)) l)
  | None => class_alphabet k
  end.

Definition constraints_error : outcome := Fail (raise_plain EConstraints).
Definition foreign (k : string) : outcome := Fail (raise_plain (EForeign k)).

Definition check_range (r : range) (n : Z) : outcome :=
  if is_in_range r n then Pass else constraints_error.

Fixpoint check_chars (a : alphabet) (cps : list Z) : outcome :=
  match cps with
  | [] => Pass
  | c :: r => if alphabet_mem a c then check_chars a r else constraints_error
  end.

(** Compilation context: which top-level compilation created the node being
    visited ([c_root], [c_path]) and the compiler's [types_backtrace]. *)
Record cctx : Type := mkCtx { c_root : string; c_path : list nat; c_bt : list string }.

Definition sub (c : cctx) (i : nat) : cctx := mkCtx (c_root c) (c_path c ++ [i]) (c_bt c).
Definition node_elem (c : cctx) (name : string) : elem := mkElem (c_root c, c_path c, false) name false.
Definition mem_str (n : string) (l : list string) : bool := existsb (String.eqb n) l.

(** [compile_members]: root members, then the additions with groups flattened. *)
Definition flatten_additions {T} (ext : option (list (addition_of T))) : list (member_of T) :=
  match ext with None => [] | Some adds => concat (map snd adds) end.
Definition all_members {T} (root : list (member_of T)) (ext : option (list (addition_of T))) :=
  root ++ flatten_additions ext.
Definition choice_members {T} (root : list (member_of T)) (ext : option (list (member_of T))) :=
  root ++ match ext with None => [] | Some l => l end.

Fixpoint find_member {T} (n : string) (ms : list (member_of T)) (i : nat) : option (nat * member_of T) :=
  match ms with
  | [] => None
  | m :: r => if String.eqb n (m_name m) then Some (i, m) else find_member n r (S i)
  end.

Section Rec.
  Variable vr : variant.
  (** the recursive call: context, type, value *)
  Variable rec : cctx -> ty -> value -> outcome.

  (** [Dict.encode]: for member in self.members: if name in data: ... *)
  Fixpoint check_members (c : cctx) (ms : list (member_of ty)) (i : nat)
           (fields : list (string * value)) : outcome :=
    match ms with
    | [] => Pass
    | m :: r =>
      match lookup (m_name m) fields with
      | Some x =>
        match with_location vr (node_elem (sub c i) (m_name m)) (rec (sub c i) (m_ty m) x) with
        | Pass => check_members c r (S i) fields
        | f => f
        end
      | None => check_members c r (S i) fields
      end
    end.

  (** [List.encode]: for entry in data: self.element_type.encode(entry) *)
  Fixpoint check_elems (c : cctx) (t : ty) (vs : list value) : outcome :=
    match vs with
    | [] => Pass
    | x :: r => match rec c t x with Pass => check_elems c t r | f => f end
    end.
End Rec.

Fixpoint check (vr : variant) (fuel : nat) (env : env) (c : cctx) (t : ty) (v : value) : outcome :=
  match fuel with
  | O => Fail (raise_plain EFuel)
  | S fuel' =>
    let rec := check vr fuel' env in
    match t with
    | TBool | TNull | TEnum _ _ => Pass
    | TInt ic =>
      match v with
      | VInt z => check_range (int_range ic) z
      | _ => foreign "TypeError"%string
      end
    | TBits _ sz =>
      match v with
      | VBits _ n => check_range (size_range sz) n
      | _ => foreign "TypeError"%string
      end
    | TOctets sz =>
      match v with
      | VBytes bs => check_range (size_range sz) (Z.of_nat (length bs))
      | _ => foreign "TypeError"%string
      end
    | TStr k sz from =>
      match v with
      | VStr cps =>
        match check_range (size_range sz) (Z.of_nat (length cps)) with
        | Pass => match permitted_alphabet k from with
                  | None => Pass
                  | Some a => check_chars a cps
                  end
        | f => f
        end
      | _ => foreign "TypeError"%string
      end
    | TOid => match v with VOid _ => Pass | _ => foreign "TypeError"%string end
    | TSeq _ root ext =>
      match v with
      | VSeq fields => check_members vr rec c (all_members root ext) 0 fields
      | _ => foreign "TypeError"%string
      end
    | TSeqOf _ elem sz =>
      match v with
      | VList vs =>
        match check_range (size_range sz) (Z.of_nat (length vs)) with
        | Pass => check_elems rec (sub c 0) elem vs
        | f => f
        end
      | _ => foreign "TypeError"%string
      end
    | TChoice root ext =>
      let unknown := match ext with Some _ => Pass | None => constraints_error end in
      match v with
      | VChoice n x =>
        match find_member n (choice_members root ext) 0 with
        | Some (i, m) => with_location vr (node_elem (sub c i) (m_name m)) (rec (sub c i) (m_ty m) x)
        | None => unknown
        end
      | VUnknownChoice => unknown
      | _ => foreign "TypeError"%string
      end
    | TRef n =>
      match lookup n env with
      | None => Fail (raise_plain EUnmodelled)
      | Some t' =>
        if mem_str n (c_bt c)
        then (* Recursive node: its inner type is a copy of the top-level compilation of n *)
          rec (mkCtx n [] [n]) t' v
        else rec (mkCtx (c_root c) (c_path c) (n :: c_bt c)) t' v
      end
    | TTag _ t' => rec c t' v
    end
  end.

(** [CompiledType.encode] of the top-level type [name]: the checker run, the
    type's own node added last. *)
Definition top_ctx (name : string) : cctx := mkCtx name [] [name].

Definition check_top (vr : variant) (fuel : nat) (env : env) (name : string) (v : value) : outcome :=
  match lookup name env with
  | None => Fail (raise_plain EUnmodelled)
  | Some t => with_location vr (node_elem (top_ctx name) name) (check vr fuel env (top_ctx name) t v)
  end.
