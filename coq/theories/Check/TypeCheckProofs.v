(** The type checker never rejects a well-typed value. *)
From Asn1V Require Import Base.Prelude Syntax.Asn1 Check.Location Check.WellTyped Check.Constraints
     Check.TypeCheck Check.ConstraintsProofs.

Lemma check_members_all_pass vr rec ms : forall c i fields,
  (forall m x c', In m ms -> lookup (m_name m) fields = Some x -> rec c' (m_ty m) x = Pass) ->
  check_members vr rec c ms i fields = Pass.
Proof.
  induction ms as [|m r IH]; intros c i fields H; [reflexivity|].
  cbn [check_members]. destruct (lookup (m_name m) fields) as [x|] eqn:L.
  - rewrite (H m x (sub c i) (or_introl eq_refl) L). cbn. apply IH.
    intros m' x' c' I. apply H. right. exact I.
  - apply IH. intros m' x' c' I. apply H. right. exact I.
Qed.

Lemma check_elems_all_pass rec c t vs :
  (forall x c', In x vs -> rec c' t x = Pass) -> check_elems rec c t vs = Pass.
Proof.
  induction vs as [|x r IH]; intros H; [reflexivity|].
  cbn [check_elems]. rewrite (H x c (or_introl eq_refl)). apply IH.
  intros x' c' I. apply H. right. exact I.
Qed.

Lemma well_typed_node_accepts fuel env t v :
  well_typed fuel env t v = true -> node_accepts t v = true.
Proof.
  destruct fuel as [|f]; [discriminate|]. destruct t; cbn [well_typed node_accepts]; intros W;
    destruct v; try discriminate; try reflexivity.
  - (* TBits *) apply andb_true_iff in W. destruct W as [_ W]. exact W.
  - (* TChoice *)
    apply andb_true_iff in W. destruct W as [_ W].
    pose proof (find_member_lookup alt (choice_members root ext) 0) as L.
    change (alternatives root ext) with (choice_members root ext) in W.
    destruct (find_member alt (choice_members root ext) 0) as [[i m]|]; [reflexivity|].
    rewrite L in W. discriminate.
Qed.

Theorem tcheck_complete :
  forall vr fuel env c t v, well_typed fuel env t v = true -> tcheck vr fuel env c t v = Pass.
Proof.
  intros vr. induction fuel as [|f IH]; intros env c t v W; [discriminate|].
  pose proof (well_typed_node_accepts _ _ _ _ W) as A.
  cbn [tcheck]. rewrite A. cbn [negb]. cbn [well_typed] in W.
  destruct t; try reflexivity.
  - (* TSeq *)
    destruct v; try discriminate.
    repeat (apply andb_true_iff in W; destruct W as [W ?]).
    apply check_members_all_pass. intros m x c' I L.
    apply IH.
    match goal with H : forallb _ (members_flat root ext) = true |- _ =>
      rewrite forallb_forall in H; specialize (H m I); rewrite L in H; exact H end.
  - (* TSeqOf *)
    destruct v; try discriminate.
    apply check_elems_all_pass. intros x c' I. apply IH.
    rewrite forallb_forall in W. apply W. exact I.
  - (* TChoice *)
    destruct v; try discriminate.
    apply andb_true_iff in W. destruct W as [_ W].
    pose proof (find_member_lookup alt (choice_members root ext) 0) as L.
    change (alternatives root ext) with (choice_members root ext) in W.
    destruct (find_member alt (choice_members root ext) 0) as [[i m]|].
    + rewrite L in W. rewrite (IH _ _ _ _ W). reflexivity.
    + rewrite L in W. discriminate.
  - (* TRef *)
    destruct (lookup name env) as [t'|]; [|discriminate].
    destruct (mem_str name (c_bt c)); rewrite (IH _ _ _ _ W); reflexivity.
  - (* TTag *) apply IH. exact W.
Qed.

Theorem tcheck_top_complete :
  forall vr fuel env name v, well_typed_top fuel env name v = true -> tcheck_top vr fuel env name v = Pass.
Proof.
  intros vr fuel env name v. unfold well_typed_top, tcheck_top.
  destruct (lookup name env) as [t|]; [|discriminate]. intros W.
  rewrite (tcheck_complete _ _ _ _ _ _ W). reflexivity.
Qed.
