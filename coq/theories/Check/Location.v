(** Model of [ErrorWithLocation] (asn1tools/codecs/__init__.py): the location
    list carried by EncodeError / DecodeError / ConstraintsError, [add_location]
    and [location_str].

    Compiled nodes are Python objects and [add_location] compares them by
    identity, so every node of the model carries an identity [nid]: the name of
    the top-level type whose compilation created the object, the path of
    member/element/alternative indices below it, and a flag that distinguishes
    the private copy a [Recursive] node keeps of its target type.  A recursive
    member is the SAME object at every depth of a value (same [nid]).

    Two variants are modelled:
    - [Orig]     the rule of the unrepaired tree: an element equal to the last
                 one is dropped (identity comparison);
    - [Repaired] proposed_fixes/C12-recursive-path.diff: only the element the
                 error was constructed with ([location=...]) is dropped, and
                 only when it is re-added first. *)
From Asn1V Require Import Base.Prelude.

Inductive variant : Type := Orig | Repaired.

Definition nid : Type := (string * list nat * bool)%type.

Record elem : Type := mkElem { el_id : nid; el_name : string; el_noloc : bool }.

Fixpoint natlist_eqb (a b : list nat) : bool :=
  match a, b with
  | [], [] => true
  | x :: a', y :: b' => Nat.eqb x y && natlist_eqb a' b'
  | _, _ => false
  end.

Definition nid_eqb (a b : nid) : bool :=
  let '(r1, p1, c1) := a in let '(r2, p2, c2) := b in
  String.eqb r1 r2 && natlist_eqb p1 p2 && Bool.eqb c1 c2.

(** The raised exception: class, location list (innermost element first, as
    in Python where [add_location] appends), and the element given to the
    constructor that has not been re-added yet (Repaired variant only). *)
Record exn : Type := mkExn { x_class : err; x_loc : list elem; x_raised_by : option elem }.

(** [raise X(message)] and [raise X(message, location=el)]. *)
Definition raise_plain (e : err) : exn := mkExn e [] None.
Definition raise_at (e : err) (el : elem) : exn := mkExn e [el] (Some el).

Definition last_elem (l : list elem) : option elem :=
  match rev l with [] => None | x :: _ => Some x end.

Definition add_location (vr : variant) (el : elem) (x : exn) : exn :=
  if el_noloc el then x else
  match vr with
  | Orig =>
    match last_elem (x_loc x) with
    | Some l => if nid_eqb (el_id el) (el_id l) then x
                else mkExn (x_class x) (x_loc x ++ [el]) (x_raised_by x)
    | None => mkExn (x_class x) (x_loc x ++ [el]) (x_raised_by x)
    end
  | Repaired =>
    match x_raised_by x with
    | Some r => if nid_eqb (el_id el) (el_id r) then mkExn (x_class x) (x_loc x) None
                else mkExn (x_class x) (x_loc x ++ [el]) None
    | None => mkExn (x_class x) (x_loc x ++ [el]) None
    end
  end.

(** [location_str]: names outermost first, blank names omitted, joined by '.'. *)
Definition names_of (l : list elem) : list string :=
  filter (fun n => negb (String.eqb n ""%string)) (map el_name (rev l)).

Fixpoint dotted (ns : list string) : string :=
  match ns with
  | [] => ""%string
  | [n] => n
  | n :: r => String.append n (String.append "."%string (dotted r))
  end.

Definition location_str (x : exn) : string := dotted (names_of (x_loc x)).

(** Outcome of a checker / encoder skeleton run. *)
Inductive outcome : Type :=
| Pass
| Fail (x : exn).

Definition on_fail (f : exn -> exn) (o : outcome) : outcome :=
  match o with Pass => Pass | Fail x => Fail (f x) end.

(** [try: ... except ErrorWithLocation as e: e.add_location(el); raise e].
    Foreign exceptions (TypeError, KeyError, ...) are not ErrorWithLocation
    and pass through untouched; so does the model-only EFuel/EUnmodelled. *)
Definition is_located (e : err) : bool :=
  match e with
  | EDecode | EOutOfData | EMissing _ _ | EEncode | EConstraints => true
  | _ => false
  end.

Definition with_location (vr : variant) (el : elem) (o : outcome) : outcome :=
  match o with
  | Pass => Pass
  | Fail x => if is_located (x_class x) then Fail (add_location vr el x) else Fail x
  end.

Definition outcome_class (o : outcome) : option err :=
  match o with Pass => None | Fail x => Some (x_class x) end.
Definition outcome_path (o : outcome) : string :=
  match o with Pass => ""%string | Fail x => location_str x end.
Definition outcome_names (o : outcome) : list string :=
  match o with Pass => [] | Fail x => names_of (x_loc x) end.
