(** Serial application of value-range / SIZE constraints at reference sites.

      A ::= INTEGER (0..10)          B ::= A (2..5, ...)        C ::= B (3..4)
      S ::= IA5String (SIZE (1..5))  x S (SIZE (2..3, ...))     SEQUENCE OF A (2..5, ...)

    The constraints that apply to a component reached through type references
    form a SERIES, outermost parent first: the constraint of the built-in type
    at the end of the reference chain, then the constraint written at every
    reference site on the way back (alias, member, list element).

    Implementation model ([compiled_range]): what codecs/compiler.py and
    constraints_checker.py do.  The reference branch of [compile_type] (and
    [compile_member], [set_compiled_restricted_to]) takes a COPY of the compiled
    referenced type, which already carries the range left by the earlier
    constraints of the series, and calls [set_size_range] /
    [set_restricted_to_range] = [Type.set_range] on it:
      - [Head]: the code as it is: an extensible constraint returns early (the
        inherited range stays in force), a non-extensible one REPLACES both
        bounds, a bound written MIN / MAX becoming the string 'MIN' / 'MAX';
      - [KeepBounds]: proposed repair (proposed_fixes/C11-serial-min-max.diff):
        a bound written MIN / MAX keeps the inherited bound (X.680 51.4: MIN and
        MAX denote the smallest / largest value of the PARENT type).

    Specification ([admits_series]), independent of the bookkeeping: X.680 50 —
    a value of a type defined by serially applied constraints satisfies every
    constraint of the series; an extensible constraint excludes nothing (its
    extension additions may be any value of its parent), a bound MIN / MAX
    excludes nothing by itself.  This is the reading of the property C11 for
    series: "raise iff some non-extensible constraint the specification states
    (here or on a referenced type) is violated". *)
From Asn1V Require Import Base.Prelude Syntax.Asn1 Check.Constraints Check.Admits.

(** One constraint of a series.  [None] is MIN / MAX.  SIZE constraints use the
    same record (lower bound always given). *)
Record sconstr : Type := mkSc { sc_lo : option Z; sc_hi : option Z; sc_ext : bool }.

Inductive impl : Type := Head | KeepBounds.

Definition or_else (a b : option Z) : option Z := match a with Some _ => a | None => b end.

(** [set_range] on the copy of the compiled referenced type. *)
Definition set_range_on (i : impl) (cur : range) (c : sconstr) : range :=
  match i with
  | Head => set_range cur (sc_lo c) (sc_hi c) (sc_ext c)
  | KeepBounds =>
    if sc_ext c then cur
    else mkRange (or_else (sc_lo c) (r_min cur)) (or_else (sc_hi c) (r_max cur))
  end.

Definition compiled_range_from (i : impl) (r : range) (cs : list sconstr) : range :=
  fold_left (set_range_on i) cs r.

(** A fresh checker node is 'MIN'..'MAX'. *)
Definition compiled_range (i : impl) (cs : list sconstr) : range := compiled_range_from i unbounded cs.

Definition check_series (i : impl) (cs : list sconstr) (n : Z) : bool :=
  is_in_range (compiled_range i cs) n.

(** Specification. *)
Definition sc_admits (c : sconstr) (n : Z) : bool :=
  sc_ext c || (above (sc_lo c) n && below (sc_hi c) n).

Definition admits_series (cs : list sconstr) (n : Z) : bool := forallb (fun c => sc_admits c n) cs.

(** Legality of a series (X.680 50.9/50.10: a serially applied constraint is
    stated in terms of values of its parent).  [strict]: a bound MIN / MAX is
    written only where the parent has no bound on that side either. *)
Definition lo_within (strict : bool) (r : range) (lo : option Z) : bool :=
  match r_min r, lo with
  | None, _ => true
  | Some m, Some l => m <=? l
  | Some _, None => negb strict
  end.

Definition hi_within (strict : bool) (r : range) (hi : option Z) : bool :=
  match r_max r, hi with
  | None, _ => true
  | Some m, Some h => h <=? m
  | Some _, None => negb strict
  end.

Fixpoint legal_from (strict : bool) (r : range) (cs : list sconstr) : bool :=
  match cs with
  | [] => true
  | c :: rest =>
    if sc_ext c then legal_from strict r rest
    else lo_within strict r (sc_lo c) && hi_within strict r (sc_hi c)
         && legal_from strict (set_range_on KeepBounds r c) rest
  end.

Definition legal_series (strict : bool) (cs : list sconstr) : bool := legal_from strict unbounded cs.

(** The single constraint a series amounts to (what the harness exports as the
    constraint of the effective type): the range left by [KeepBounds], or an
    extensible (= excluding nothing) constraint when no constraint of the series
    is non-extensible. *)
Definition collapse (cs : list sconstr) : sconstr :=
  let r := compiled_range KeepBounds cs in
  mkSc (r_min r) (r_max r) (forallb sc_ext cs).

(** Entry point of the correspondence run of harness/c11.py: for a series and
    test values: legality (strict, lax), the collapsed range, and per value the
    verdict of the code as it is, of the repair, and of the specification. *)
Definition b2z (b : bool) : Z := if b then 1 else 0.
Definition oz (o : option Z) : list Z := match o with Some z => [z] | None => [] end.

Definition run_series (p : list (list Z * list Z * bool) * list Z)
  : (Z * Z) * (list Z * list Z) * list (Z * (Z * Z)) :=
  let cs := map (fun c => mkSc (hd_error (fst (fst c))) (hd_error (snd (fst c))) (snd c)) (fst p) in
  let r := compiled_range KeepBounds cs in
  ((b2z (legal_series true cs), b2z (legal_series false cs)),
   (oz (r_min r), oz (r_max r)),
   map (fun n => (b2z (check_series Head cs n),
                  (b2z (check_series KeepBounds cs n), b2z (admits_series cs n)))) (snd p)).
