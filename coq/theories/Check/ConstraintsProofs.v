(** Proofs about the constraints-checker model: it passes exactly the values
    the specification [admits], and on well-typed values every rejection is a
    ConstraintsError. *)
From Asn1V Require Import Base.Prelude Syntax.Asn1 Check.Location Check.WellTyped Check.Constraints Check.Admits.

Definition passes (o : outcome) : bool := match o with Pass => true | Fail _ => false end.

Lemma forallb_ext_simple {A} (f g : A -> bool) (l : list A) :
  (forall x, f x = g x) -> forallb f l = forallb g l.
Proof. intros H. induction l as [|x r IH]; [reflexivity|]. cbn. rewrite H, IH. reflexivity. Qed.

Lemma size_range_spec s n : is_in_range (size_range s) n = in_size s n.
Proof.
  destruct s as [|lo hi ext]; [reflexivity|].
  destruct ext, hi; reflexivity.
Qed.

Lemma int_range_spec c z : is_in_range (int_range c) z = in_intc c z.
Proof.
  destruct c as [|lo hi ext]; [reflexivity|].
  destruct ext, lo, hi; reflexivity.
Qed.

Lemma check_range_passes r n : passes (check_range r n) = is_in_range r n.
Proof. unfold check_range. destruct (is_in_range r n); reflexivity. Qed.

Lemma check_range_class r n :
  outcome_class (check_range r n) = if is_in_range r n then None else Some EConstraints.
Proof. unfold check_range. destruct (is_in_range r n); reflexivity. Qed.

Lemma check_chars_passes a cps : passes (check_chars a cps) = forallb (alphabet_mem a) cps.
Proof.
  induction cps as [|c r IH]; [reflexivity|]. cbn [check_chars forallb].
  destruct (alphabet_mem a c); [exact IH | reflexivity].
Qed.

Lemma check_chars_class a cps :
  outcome_class (check_chars a cps) = if forallb (alphabet_mem a) cps then None else Some EConstraints.
Proof.
  induction cps as [|c r IH]; [reflexivity|]. cbn [check_chars forallb].
  destruct (alphabet_mem a c); [exact IH | reflexivity].
Qed.

Lemma from_alphabet_spec l c :
  alphabet_mem (map (fun c => (c, c)) l) c = existsb (Z.eqb c) l.
Proof.
  unfold alphabet_mem. induction l as [|x r IH]; [reflexivity|].
  cbn [map existsb fst snd]. rewrite IH. f_equal.
  destruct (c =? x) eqn:E.
  - apply Z.eqb_eq in E. subst. rewrite Z.leb_refl. reflexivity.
  - destruct (x <=? c) eqn:E1, (c <=? x) eqn:E2; try reflexivity. lia.
Qed.

Lemma class_alphabet_spec k a c : class_alphabet k = Some a -> alphabet_mem a c = in_class k c.
Proof.
  destruct k; cbn [class_alphabet]; intros H; inversion H; subst; clear H;
    unfold alphabet_mem, in_class, between, IA5_STRING, VISIBLE_STRING, NUMERIC_STRING, PRINTABLE_STRING, BMP_STRING;
    cbn [existsb fst snd];
    match goal with |- ?l = ?r => destruct l eqn:E1; destruct r eqn:E2; try reflexivity; exfalso; lia end.
Qed.

Lemma class_alphabet_none k c : class_alphabet k = None -> in_class k c = true.
Proof. destruct k; cbn; intros H; try reflexivity; discriminate. Qed.

Lemma permitted_alphabet_spec k from cps :
  match permitted_alphabet k from with
  | None => true
  | Some a => forallb (alphabet_mem a) cps
  end = forallb (in_alphabet k from) cps.
Proof.
  unfold permitted_alphabet, in_alphabet. destruct from as [l|].
  - apply forallb_ext_simple. intros c. apply from_alphabet_spec.
  - destruct (class_alphabet k) as [a|] eqn:E.
    + apply forallb_ext_simple. intros c. apply (class_alphabet_spec _ _ _ E).
    + symmetry. apply forallb_forall. intros c _. apply class_alphabet_none. exact E.
Qed.

Lemma add_location_class vr el x : x_class (add_location vr el x) = x_class x.
Proof.
  unfold add_location. destruct (el_noloc el); [reflexivity|]. destruct vr.
  - destruct (last_elem (x_loc x)); [destruct (nid_eqb _ _)|]; reflexivity.
  - destruct (x_raised_by x); [destruct (nid_eqb _ _)|]; reflexivity.
Qed.

Lemma with_location_passes vr el o : passes (with_location vr el o) = passes o.
Proof. destruct o as [|x]; [reflexivity|]. cbn. destruct (is_located (x_class x)); reflexivity. Qed.

Lemma with_location_class vr el o : outcome_class (with_location vr el o) = outcome_class o.
Proof.
  destruct o as [|x]; [reflexivity|]. cbn. destruct (is_located (x_class x)); cbn; [|reflexivity].
  rewrite add_location_class. reflexivity.
Qed.

Lemma passes_class o : passes o = match outcome_class o with None => true | Some _ => false end.
Proof. destruct o; reflexivity. Qed.

Section Members.
  Variable vr : variant.
  Variable rec : cctx -> ty -> value -> outcome.
  Variable g : ty -> value -> bool.

  Definition members_spec (fields : list (string * value)) (ms : list (member_of ty)) : bool :=
    forallb (fun m => match lookup (m_name m) fields with
                      | Some x => g (m_ty m) x
                      | None => true
                      end) ms.

  Lemma check_members_passes :
    (forall c t v, passes (rec c t v) = g t v) ->
    forall ms c i fields, passes (check_members vr rec c ms i fields) = members_spec fields ms.
  Proof.
    intros H. induction ms as [|m r IH]; intros c i fields; [reflexivity|].
    cbn [check_members members_spec forallb]. fold (members_spec fields r).
    destruct (lookup (m_name m) fields) as [x|].
    - specialize (H (sub c i) (m_ty m) x). rewrite <- (with_location_passes vr (node_elem (sub c i) (m_name m))) in H.
      destruct (with_location vr _ _) eqn:E.
      + rewrite <- H. cbn. apply IH.
      + rewrite <- H. reflexivity.
    - apply IH.
  Qed.

  Lemma check_elems_passes :
    (forall c t v, passes (rec c t v) = g t v) ->
    forall c t vs, passes (check_elems rec c t vs) = forallb (g t) vs.
  Proof.
    intros H c t. induction vs as [|x r IH]; [reflexivity|].
    cbn [check_elems forallb]. rewrite <- (H c t x).
    destruct (rec c t x); [exact IH | reflexivity].
  Qed.

  Variable wt : ty -> value -> bool.
  Definition verdict (b : bool) : option err := if b then None else Some EConstraints.

  Lemma check_members_class :
    (forall c t v, wt t v = true -> outcome_class (rec c t v) = verdict (g t v)) ->
    forall ms c i fields,
      forallb (fun m => match lookup (m_name m) fields with Some x => wt (m_ty m) x | None => true end) ms = true ->
      outcome_class (check_members vr rec c ms i fields) = verdict (members_spec fields ms).
  Proof.
    intros H. induction ms as [|m r IH]; intros c i fields W; [reflexivity|].
    cbn [forallb] in W. apply andb_true_iff in W. destruct W as [W1 W2].
    cbn [check_members members_spec forallb]. fold (members_spec fields r).
    destruct (lookup (m_name m) fields) as [x|].
    - specialize (H (sub c i) (m_ty m) x W1).
      rewrite <- (with_location_class vr (node_elem (sub c i) (m_name m))) in H.
      destruct (with_location vr _ _) eqn:E.
      + cbn in H. destruct (g (m_ty m) x); [|discriminate]. cbn. apply IH. exact W2.
      + cbn in H. cbn. destruct (g (m_ty m) x); [discriminate|]. exact H.
    - apply IH. exact W2.
  Qed.

  Lemma check_elems_class :
    (forall c t v, wt t v = true -> outcome_class (rec c t v) = verdict (g t v)) ->
    forall c t vs, forallb (wt t) vs = true ->
      outcome_class (check_elems rec c t vs) = verdict (forallb (g t) vs).
  Proof.
    intros H c t. induction vs as [|x r IH]; intros W; [reflexivity|].
    cbn [forallb] in W. apply andb_true_iff in W. destruct W as [W1 W2].
    cbn [check_elems forallb]. specialize (H c t x W1).
    destruct (rec c t x) eqn:E.
    - cbn in H. destruct (g t x); [|discriminate]. cbn. apply IH. exact W2.
    - cbn in H. destruct (g t x); [discriminate|]. exact H.
  Qed.
End Members.

Lemma find_member_lookup {T} n (ms : list (member_of T)) i :
  match find_member n ms i with
  | Some (_, m) => lookup n (member_types ms) = Some (m_ty m)
  | None => lookup n (member_types ms) = None
  end.
Proof.
  revert i. induction ms as [|m r IH]; intros i; [reflexivity|].
  cbn [find_member member_types map lookup]. destruct (String.eqb n (m_name m)); [reflexivity|].
  apply IH.
Qed.

(** Main equivalence: no hypothesis is needed in the model (an ill-shaped
    value is neither passed by the checker model nor admitted). *)
Theorem check_passes_iff_admits :
  forall vr fuel env c t v, passes (check vr fuel env c t v) = admits fuel env t v.
Proof.
  intros vr. induction fuel as [|f IH]; intros env c t v; [reflexivity|].
  destruct t; cbn [check admits].
  - destruct v; reflexivity.
  - destruct v; reflexivity.
  - destruct v; try reflexivity. rewrite check_range_passes. apply int_range_spec.
  - destruct v; reflexivity.
  - destruct v; try reflexivity. rewrite check_range_passes. apply size_range_spec.
  - destruct v; try reflexivity. rewrite check_range_passes. apply size_range_spec.
  - destruct v; try reflexivity.
    rewrite <- size_range_spec, <- permitted_alphabet_spec, <- check_range_passes.
    destruct (check_range _ _); [|reflexivity]. cbn.
    destruct (permitted_alphabet k alpha); [apply check_chars_passes | reflexivity].
  - destruct v; reflexivity.
  - destruct v; try reflexivity.
    apply (check_members_passes vr (check vr f env) (admits f env)). intros; apply IH.
  - destruct v; try reflexivity.
    rewrite <- size_range_spec, <- check_range_passes.
    destruct (check_range _ _); [|reflexivity]. cbn.
    apply (check_elems_passes (check vr f env) (admits f env)). intros; apply IH.
  - destruct v; try reflexivity.
    + pose proof (find_member_lookup alt (choice_members root ext) 0) as L.
      change (alternatives root ext) with (choice_members root ext).
      destruct (find_member alt (choice_members root ext) 0) as [[i m]|].
      * rewrite L, with_location_passes. apply IH.
      * rewrite L. destruct ext; reflexivity.
    + destruct ext; reflexivity.
  - destruct (lookup name env) as [t'|]; [|reflexivity].
    destruct (mem_str name (c_bt c)); apply IH.
  - apply IH.
Qed.

(** On a well-typed value the only possible failure is a ConstraintsError:
    never a foreign exception, never fuel exhaustion, never "unmodelled". *)
Theorem check_class :
  forall vr fuel env c t v,
    well_typed fuel env t v = true ->
    outcome_class (check vr fuel env c t v) = verdict (admits fuel env t v).
Proof.
  intros vr. induction fuel as [|f IH]; intros env c t v W; [discriminate|].
  destruct t; cbn [check admits]; cbn [well_typed] in W.
  - destruct v; reflexivity.
  - destruct v; reflexivity.
  - destruct v; try discriminate. rewrite check_range_class, int_range_spec. reflexivity.
  - destruct v; reflexivity.
  - destruct v; try discriminate. rewrite check_range_class, size_range_spec. reflexivity.
  - destruct v; try discriminate. rewrite check_range_class, size_range_spec. reflexivity.
  - destruct v; try discriminate.
    rewrite <- size_range_spec, <- permitted_alphabet_spec.
    pose proof (check_range_class (size_range sz) (Z.of_nat (length cps))) as R.
    destruct (check_range _ _).
    + cbn in R. destruct (is_in_range _ _); [|discriminate]. cbn [andb].
      destruct (permitted_alphabet k alpha); [apply check_chars_class | reflexivity].
    + cbn in R. destruct (is_in_range _ _); [discriminate|]. exact R.
  - destruct v; try discriminate. reflexivity.
  - destruct v; try discriminate.
    repeat (apply andb_true_iff in W; destruct W as [W ?]).
    apply (check_members_class vr (check vr f env) (admits f env) (well_typed f env)); [|assumption].
    intros; apply IH; assumption.
  - destruct v; try discriminate.
    rewrite <- size_range_spec.
    pose proof (check_range_class (size_range sz) (Z.of_nat (length vs))) as R.
    destruct (check_range _ _).
    + cbn in R. destruct (is_in_range _ _); [|discriminate]. cbn [andb].
      apply (check_elems_class (check vr f env) (admits f env) (well_typed f env)); [|assumption].
      intros; apply IH; assumption.
    + cbn in R. destruct (is_in_range _ _); [discriminate|]. exact R.
  - destruct v; try discriminate.
    apply andb_true_iff in W. destruct W as [_ W].
    pose proof (find_member_lookup alt (choice_members root ext) 0) as L.
    change (alternatives root ext) with (choice_members root ext) in *.
    destruct (find_member alt (choice_members root ext) 0) as [[i m]|].
    + rewrite L in *. rewrite with_location_class. apply IH. exact W.
    + rewrite L in W. discriminate.
  - destruct (lookup name env) as [t'|]; [|discriminate].
    destruct (mem_str name (c_bt c)); apply IH; exact W.
  - apply IH. exact W.
Qed.

(** * Top level: CompiledType.encode and its invocation by Specification *)

Definition admits_top (fuel : nat) (env : env) (name : string) (v : value) : bool :=
  match lookup name env with Some t => admits fuel env t v | None => false end.
Definition well_typed_top (fuel : nat) (env : env) (name : string) (v : value) : bool :=
  match lookup name env with Some t => well_typed fuel env t v | None => false end.

Theorem check_top_iff :
  forall vr fuel env name v,
    check_top vr fuel env name v = Pass <-> admits_top fuel env name v = true.
Proof.
  intros. unfold check_top, admits_top. destruct (lookup name env) as [t|]; [|split; discriminate].
  rewrite <- (check_passes_iff_admits vr fuel env (top_ctx name) t v).
  rewrite <- (with_location_passes vr (node_elem (top_ctx name) name)).
  destruct (with_location _ _ _); cbn; split; congruence.
Qed.

Theorem check_top_class :
  forall vr fuel env name v,
    well_typed_top fuel env name v = true ->
    outcome_class (check_top vr fuel env name v) = verdict (admits_top fuel env name v).
Proof.
  intros vr fuel env name v. unfold check_top, admits_top, well_typed_top.
  destruct (lookup name env) as [t|]; [|discriminate]. intros W.
  rewrite with_location_class. apply check_class. exact W.
Qed.

(** Specification.encode(name, v, check_constraints=True) and
    Specification.decode(name, data, check_constraints=True) for an arbitrary
    codec ([enc]/[dec] are whatever the codec does): the check runs before the
    encoder and after the decoder (asn1tools/compiler.py). *)
Section Invoke.
  Variable wire : Type.
  Variable enc : value -> result wire.
  Variable dec : wire -> result value.
  Variable vr : variant.

  Definition spec_encode (fuel : nat) (env : env) (name : string) (v : value) : result wire :=
    match check_top vr fuel env name v with
    | Pass => enc v
    | Fail x => Err (x_class x)
    end.

  Definition spec_decode (fuel : nat) (env : env) (name : string) (w : wire) : result value :=
    match dec w with
    | Err e => Err e
    | Ok v => match check_top vr fuel env name v with
              | Pass => Ok v
              | Fail x => Err (x_class x)
              end
    end.

  Theorem spec_encode_checked :
    forall fuel env name v,
      well_typed_top fuel env name v = true ->
      spec_encode fuel env name v =
      if admits_top fuel env name v then enc v else Err EConstraints.
  Proof.
    intros fuel env name v W. unfold spec_encode.
    pose proof (check_top_class vr fuel env name v W) as C.
    destruct (check_top vr fuel env name v); cbn in C.
    - destruct (admits_top fuel env name v); [reflexivity | discriminate].
    - destruct (admits_top fuel env name v); [discriminate|]. cbn in C. congruence.
  Qed.

  Theorem spec_decode_checked :
    forall fuel env name w v,
      dec w = Ok v -> well_typed_top fuel env name v = true ->
      spec_decode fuel env name w =
      if admits_top fuel env name v then Ok v else Err EConstraints.
  Proof.
    intros fuel env name w v D W. unfold spec_decode. rewrite D.
    pose proof (check_top_class vr fuel env name v W) as C.
    destruct (check_top vr fuel env name v); cbn in C.
    - destruct (admits_top fuel env name v); [reflexivity | discriminate].
    - destruct (admits_top fuel env name v); [discriminate|]. cbn in C. congruence.
  Qed.
End Invoke.

(** An extensible constraint constrains nothing, MIN/MAX are no bounds, as
    stated by the specification side. *)
Lemma extensible_admits_all_sizes lo hi n : in_size (SzRange lo hi true) n = true.
Proof. reflexivity. Qed.
Lemma extensible_admits_all_integers lo hi z : in_intc (IcRange lo hi true) z = true.
Proof. reflexivity. Qed.
Lemma admits_integer_range lo hi z :
  in_intc (IcRange (Some lo) (Some hi) false) z = true <-> lo <= z <= hi.
Proof. cbn. lia. Qed.
Lemma admits_integer_min lo z : in_intc (IcRange (Some lo) None false) z = true <-> lo <= z.
Proof. cbn. lia. Qed.
Lemma admits_integer_max hi z : in_intc (IcRange None (Some hi) false) z = true <-> z <= hi.
Proof. cbn. lia. Qed.
Lemma admits_size_range lo hi n :
  in_size (SzRange lo (Some hi) false) n = true <-> lo <= n <= hi.
Proof. cbn. lia. Qed.

Lemma spec_reading :
  (forall lo hi z, in_intc (IcRange (Some lo) (Some hi) false) z = true <-> lo <= z <= hi) /\
  (forall lo z, in_intc (IcRange (Some lo) None false) z = true <-> lo <= z) /\
  (forall hi z, in_intc (IcRange None (Some hi) false) z = true <-> z <= hi) /\
  (forall lo hi z, in_intc (IcRange lo hi true) z = true) /\
  (forall lo hi n, in_size (SzRange lo (Some hi) false) n = true <-> lo <= n <= hi) /\
  (forall lo hi n, in_size (SzRange lo hi true) n = true).
Proof.
  split; [exact admits_integer_range|]. split; [exact admits_integer_min|].
  split; [exact admits_integer_max|]. split; [exact extensible_admits_all_integers|].
  split; [exact admits_size_range | exact extensible_admits_all_sizes].
Qed.
