(** "Well-formed except for one component": positions inside a value,
    corruption kinds, and the relation [corrupt_at].

    [corrupt_at env bt t v p k v' crossed]: [v'] is [v] with the component at
    path [p] (below type [t], compiler backtrace [bt]) replaced by a fault of
    kind [k]; [crossed] tells whether [p] goes through a recursive type
    reference (the type checker then inserts type names into the path, see
    Props/C12.v).

    Kinds (the property's list):
      KWrongType    a Python object the type check is specified to reject at
                    this node ([node_accepts t v' = false])
      KUnknownAlt   a CHOICE value naming no alternative
      KUnknownEnum  an ENUMERATED name the type does not have
      KMissing n    the mandatory root member [n] of a SEQUENCE/SET removed
                    (the path leads to the SEQUENCE/SET)
      KConstraint   a value of the right Python type violating the node's own
                    value range / SIZE / alphabet (for a list: its SIZE) *)
From Asn1V Require Import Base.Prelude Syntax.Asn1 Check.Location Check.WellTyped Check.Constraints
     Check.Admits Check.TypeCheck.

Inductive step : Type :=
| SField (n : string)            (* member n of a SEQUENCE / SET *)
| SElem (i : nat)                (* i-th element of a SEQUENCE OF / SET OF *)
| SAlt (n : string).             (* the chosen alternative n of a CHOICE *)
Definition path : Type := list step.

Inductive ckind : Type :=
| KWrongType | KUnknownAlt | KUnknownEnum | KMissing (member : string) | KConstraint.

Definition class_of (k : ckind) : err :=
  match k with KConstraint => EConstraints | _ => EEncode end.

Definition nonblank (n : string) : bool := negb (String.eqb n ""%string).
Definition step_names (s : step) : list string :=
  match s with SField n | SAlt n => [n] | SElem _ => [] end.
(** the dotted path the property promises: member / alternative names, list
    elements contribute nothing, blank names are not printed *)
Definition names_along (p : path) : list string := filter nonblank (flat_map step_names p).

Definition update_field (n : string) (x : value) (fields : list (string * value)) : list (string * value) :=
  map (fun kv => if String.eqb (fst kv) n then (fst kv, x) else kv) fields.
Definition remove_field (n : string) (fields : list (string * value)) : list (string * value) :=
  filter (fun kv => negb (String.eqb (fst kv) n)) fields.
Fixpoint update_nth (i : nat) (x : value) (vs : list value) : list value :=
  match vs, i with
  | [], _ => []
  | _ :: r, O => x :: r
  | y :: r, S i' => y :: update_nth i' x r
  end.

(** members that precede the first member named [n] *)
Fixpoint before {T} (n : string) (ms : list (member_of T)) : list (member_of T) :=
  match ms with
  | [] => []
  | m :: r => if String.eqb n (m_name m) then [] else m :: before n r
  end.

Definition flat_type (t : ty) : bool :=
  match t with TInt _ | TBits _ _ | TOctets _ | TStr _ _ _ => true | _ => false end.

(** The fault itself, at a node of (non-reference) type [t] holding [v]. *)
Inductive leaf_fault (env : env) : ty -> value -> ckind -> value -> Prop :=
| C_wrong t v v' :
    node_accepts t v' = false ->
    leaf_fault env t v KWrongType v'
| C_alt root ext v n x :
    find_member n (choice_members root ext) 0 = None ->
    leaf_fault env (TChoice root ext) v KUnknownAlt (VChoice n x)
| C_enum root ext v n :
    mem_str n (enum_names root ext) = false ->
    leaf_fault env (TEnum root ext) v KUnknownEnum (VEnum n)
| C_missing isset root ext fields m x :
    In m root -> m_opt m = Mandatory -> lookup (m_name m) fields = Some x ->
    leaf_fault env (TSeq isset root ext) (VSeq fields) (KMissing (m_name m))
               (VSeq (remove_field (m_name m) fields))
| C_constraint_flat t v v' :
    flat_type t = true -> well_typed 1 env t v' = true -> admits 1 env t v' = false ->
    leaf_fault env t v KConstraint v'
| C_constraint_size isset elem sz vs vs' :
    Forall (fun x => In x vs) vs' -> in_size sz (Z.of_nat (length vs')) = false ->
    leaf_fault env (TSeqOf isset elem sz) (VList vs) KConstraint (VList vs').

(** [descend env bt t v p btl tl vl vl' v' crossed]: following [p] from the
    node (t, v) (backtrace bt) leads to the node (tl, vl) (backtrace btl), and
    [v'] is [v] with that component replaced by [vl']. *)
Inductive descend (env : env) :
  list string -> ty -> value -> path -> list string -> ty -> value -> value -> value -> bool -> Prop :=
| D_here bt t v v' :
    descend env bt t v [] bt t v v' v' false
| D_field bt isset root ext fields n i m x p btl tl vl vl' x' crossed :
    find_member n (all_members root ext) 0 = Some (i, m) ->
    lookup n fields = Some x ->
    (* well-formed value: no mandatory member before this one is absent
       (extension additions are prefix closed) *)
    (forall m', In m' (before n (all_members root ext)) ->
                is_mandatory (m_opt m') = true -> lookup (m_name m') fields <> None) ->
    descend env bt (m_ty m) x p btl tl vl vl' x' crossed ->
    descend env bt (TSeq isset root ext) (VSeq fields) (SField n :: p) btl tl vl vl'
            (VSeq (update_field n x' fields)) crossed
| D_elem bt isset elem sz vs i x p btl tl vl vl' x' crossed :
    nth_error vs i = Some x ->
    descend env bt elem x p btl tl vl vl' x' crossed ->
    descend env bt (TSeqOf isset elem sz) (VList vs) (SElem i :: p) btl tl vl vl'
            (VList (update_nth i x' vs)) crossed
| D_choice bt root ext n i m x p btl tl vl vl' x' crossed :
    find_member n (choice_members root ext) 0 = Some (i, m) ->
    descend env bt (m_ty m) x p btl tl vl vl' x' crossed ->
    descend env bt (TChoice root ext) (VChoice n x) (SAlt n :: p) btl tl vl vl' (VChoice n x') crossed
| D_tag bt tg t v p btl tl vl vl' v' crossed :
    descend env bt t v p btl tl vl vl' v' crossed ->
    descend env bt (TTag tg t) v p btl tl vl vl' v' crossed
| D_ref bt n t v p btl tl vl vl' v' crossed :
    lookup n env = Some t -> mem_str n bt = false ->
    descend env (n :: bt) t v p btl tl vl vl' v' crossed ->
    descend env bt (TRef n) v p btl tl vl vl' v' crossed
| D_ref_recursive bt n t v p btl tl vl vl' v' crossed :
    lookup n env = Some t -> mem_str n bt = true ->
    descend env [n] t v p btl tl vl vl' v' crossed ->
    descend env bt (TRef n) v p btl tl vl vl' v' true.

Definition corrupt_at (env : env) (bt : list string) (t : ty) (v : value) (p : path) (k : ckind)
           (v' : value) (crossed : bool) : Prop :=
  exists btl tl vl vl', descend env bt t v p btl tl vl vl' v' crossed /\ leaf_fault env tl vl k vl'.
