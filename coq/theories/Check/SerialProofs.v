(** Proofs about serially applied constraints (Check/Serial.v). *)
From Asn1V Require Import Base.Prelude Syntax.Asn1 Check.Constraints Check.Admits Check.Serial.

(** [is_in_range] without the has_*_bound detour. *)
Lemma is_in_range_spec : forall r n, is_in_range r n = above (r_min r) n && below (r_max r) n.
Proof.
  intros [[lo|] [hi|]] n; unfold is_in_range, has_lower_bound, has_upper_bound, above, below; cbn;
    try reflexivity; now rewrite ?andb_true_r.
Qed.

(** The single-constraint series is the range the constructors of
    Check/Constraints.v compute. *)
Lemma series_single_int : forall lo hi ext,
    compiled_range Head [mkSc lo hi ext] = int_range (IcRange lo hi ext).
Proof. reflexivity. Qed.

Lemma series_single_size : forall lo hi ext,
    compiled_range Head [mkSc (Some lo) hi ext] = size_range (SzRange lo hi ext).
Proof. reflexivity. Qed.

Lemma series_single_admits_int : forall lo hi ext n,
    admits_series [mkSc lo hi ext] n = in_intc (IcRange lo hi ext) n.
Proof. intros; unfold admits_series, sc_admits; cbn. now rewrite andb_true_r. Qed.

Lemma series_single_admits_size : forall lo hi ext n,
    admits_series [mkSc (Some lo) hi ext] n = in_size (SzRange lo hi ext) n.
Proof. intros; unfold admits_series, sc_admits; cbn. now rewrite andb_true_r. Qed.

(** One non-extensible step inside the parent's range: the new range is the
    conjunction of the parent's range and the constraint. *)
Lemma step_within : forall strict r c n,
    sc_ext c = false ->
    lo_within strict r (sc_lo c) = true ->
    hi_within strict r (sc_hi c) = true ->
    is_in_range (set_range_on KeepBounds r c) n = is_in_range r n && sc_admits c n.
Proof.
  intros strict [rlo rhi] [lo hi ext] n He Hlo Hhi. cbn in He. subst ext.
  rewrite !is_in_range_spec. unfold set_range_on, sc_admits, lo_within, hi_within in *. cbn in *.
  destruct rlo as [rl|], lo as [l|], rhi as [rh|], hi as [h|]; cbn in *; lia.
Qed.

(** Under strict legality the code as it is computes the same range as the repair. *)
Lemma step_head_keep : forall r c,
    (sc_ext c = true \/ (lo_within true r (sc_lo c) = true /\ hi_within true r (sc_hi c) = true)) ->
    set_range_on Head r c = set_range_on KeepBounds r c.
Proof.
  intros [rlo rhi] [lo hi ext] H. unfold set_range_on, set_range. cbn in *.
  destruct ext; [reflexivity|]. destruct H as [H|[Hlo Hhi]]; [discriminate|].
  unfold lo_within, hi_within in *. cbn in *.
  destruct rlo, lo, rhi, hi; cbn in *; try reflexivity; discriminate.
Qed.

Lemma lo_within_strict_lax : forall r lo, lo_within true r lo = true -> lo_within false r lo = true.
Proof. intros [[m|] ?] [l|]; cbn; intros; try reflexivity; try assumption; discriminate. Qed.
Lemma hi_within_strict_lax : forall r hi, hi_within true r hi = true -> hi_within false r hi = true.
Proof. intros [? [m|]] [h|]; cbn; intros; try reflexivity; try assumption; discriminate. Qed.

Lemma legal_strict_lax : forall cs r, legal_from true r cs = true -> legal_from false r cs = true.
Proof.
  induction cs as [|c cs IH]; intros r H; [reflexivity|]. cbn in *.
  destruct (sc_ext c); [now apply IH|].
  apply andb_true_iff in H as [H H3]. apply andb_true_iff in H as [H1 H2].
  rewrite (lo_within_strict_lax _ _ H1), (hi_within_strict_lax _ _ H2). cbn. now apply IH.
Qed.

(** Repaired rule: for every legal series (bounds within the parent's, MIN/MAX
    allowed anywhere), from every inherited range. *)
Theorem keep_bounds_agrees_from : forall cs r n,
    legal_from false r cs = true ->
    is_in_range (compiled_range_from KeepBounds r cs) n = is_in_range r n && admits_series cs n.
Proof.
  induction cs as [|c cs IH]; intros r n H.
  - cbn. now rewrite andb_true_r.
  - cbn [compiled_range_from fold_left]. cbn [legal_from] in H.
    change (fold_left (set_range_on KeepBounds) cs (set_range_on KeepBounds r c))
      with (compiled_range_from KeepBounds (set_range_on KeepBounds r c) cs).
    unfold admits_series. cbn [forallb]. fold (admits_series cs n).
    destruct (sc_ext c) eqn:He.
    + assert (Hs : set_range_on KeepBounds r c = r) by (unfold set_range_on; now rewrite He).
      rewrite Hs, (IH _ n H). unfold sc_admits. rewrite He. reflexivity.
    + apply andb_true_iff in H as [H H3]. apply andb_true_iff in H as [H1 H2].
      rewrite (IH _ n H3), (step_within false r c n He H1 H2). now rewrite andb_assoc.
Qed.

Theorem serial_keep_bounds_agrees : forall cs n,
    legal_series false cs = true ->
    check_series KeepBounds cs n = admits_series cs n.
Proof.
  intros cs n H. unfold check_series, compiled_range.
  rewrite (keep_bounds_agrees_from cs unbounded n H). reflexivity.
Qed.

(** The code as it is computes the repaired range on strictly legal series. *)
Lemma head_range_strict : forall cs r,
    legal_from true r cs = true ->
    compiled_range_from Head r cs = compiled_range_from KeepBounds r cs.
Proof.
  induction cs as [|c cs IH]; intros r H; [reflexivity|].
  cbn [compiled_range_from fold_left]. cbn [legal_from] in H.
  destruct (sc_ext c) eqn:He.
  - rewrite (step_head_keep r c (or_introl He)).
    assert (Hs : set_range_on KeepBounds r c = r) by (unfold set_range_on; now rewrite He).
    rewrite Hs. apply (IH _ H).
  - apply andb_true_iff in H as [H H3]. apply andb_true_iff in H as [H1 H2].
    rewrite (step_head_keep r c (or_intror (conj H1 H2))). apply (IH _ H3).
Qed.

(** Code as it is: correct on every strictly legal series — all four
    combinations of extensible / non-extensible parent and child, any number of
    reference levels. *)
Theorem serial_head_agrees : forall cs n,
    legal_series true cs = true ->
    check_series Head cs n = admits_series cs n.
Proof.
  intros cs n H. unfold check_series, compiled_range.
  rewrite (head_range_strict cs unbounded H).
  apply (serial_keep_bounds_agrees cs n). now apply legal_strict_lax.
Qed.

(** ... and wrong on a legal series with MIN written on a bounded parent:
    P ::= INTEGER (0..MAX), D ::= P (MIN..5) admits -1. *)
Theorem serial_head_refuted :
  exists cs n, legal_series false cs = true /\ check_series Head cs n = true /\ admits_series cs n = false.
Proof.
  exists [mkSc (Some 0) None false; mkSc None (Some 5) false], (-1). now vm_compute.
Qed.

(** An extensible constraint at a reference site changes nothing: the
    constraints of the referenced type stay in force (both rules, the
    specification), whatever came before. *)
Theorem serial_ext_child_keeps_parent : forall i cs c n,
    sc_ext c = true ->
    check_series i (cs ++ [c]) n = check_series i cs n /\
    admits_series (cs ++ [c]) n = admits_series cs n.
Proof.
  intros i cs c n He. split.
  - unfold check_series, compiled_range, compiled_range_from. rewrite fold_left_app. cbn.
    destruct i; unfold set_range_on, set_range; now rewrite He.
  - unfold admits_series. rewrite forallb_app. cbn. unfold sc_admits. rewrite He. cbn.
    now rewrite !andb_true_r.
Qed.

(** A non-extensible constraint at a reference site is in force, whatever the
    parent (specification: by definition; both rules: on legal series). *)
Theorem serial_nonext_child_in_force : forall cs c n,
    sc_ext c = false ->
    admits_series (cs ++ [c]) n = true ->
    above (sc_lo c) n = true /\ below (sc_hi c) n = true.
Proof.
  intros cs c n He H. unfold admits_series in H. rewrite forallb_app in H.
  apply andb_true_iff in H as [_ H]. cbn in H. unfold sc_admits in H. rewrite He in H. cbn in H.
  rewrite andb_true_r in H. now apply andb_true_iff in H.
Qed.

(** The collapsed single constraint means the same as the series. *)
Theorem collapse_admits : forall cs n,
    legal_series false cs = true ->
    sc_admits (collapse cs) n = admits_series cs n.
Proof.
  intros cs n H. unfold collapse, sc_admits. cbn.
  rewrite <- (serial_keep_bounds_agrees cs n H). unfold check_series. rewrite is_in_range_spec.
  destruct (forallb sc_ext cs) eqn:E; [|reflexivity]. cbn.
  (* all extensible: the range is unbounded *)
  assert (G : forall l r, forallb sc_ext l = true -> compiled_range_from KeepBounds r l = r).
  { induction l as [|c l IH]; intros r Hl; [reflexivity|]. cbn in Hl. apply andb_true_iff in Hl as [Hc Hl].
    cbn [compiled_range_from fold_left].
    assert (Hs : set_range_on KeepBounds r c = r) by (unfold set_range_on; now rewrite Hc).
    rewrite Hs. now apply IH. }
  unfold compiled_range. rewrite (G cs unbounded E). reflexivity.
Qed.

(** Non-trivial instance: A (0..10) ; B ::= A (2..5, ...) ; member x B (3..4, ...):
    11 is rejected, 7 admitted; with a non-extensible (3..4) on top, 5 is rejected. *)
Example serial_instance :
  legal_series true [mkSc (Some 0) (Some 10) false; mkSc (Some 2) (Some 5) true; mkSc (Some 3) (Some 4) true] = true /\
  check_series Head [mkSc (Some 0) (Some 10) false; mkSc (Some 2) (Some 5) true; mkSc (Some 3) (Some 4) true] 11 = false /\
  check_series Head [mkSc (Some 0) (Some 10) false; mkSc (Some 2) (Some 5) true; mkSc (Some 3) (Some 4) true] 7 = true /\
  check_series Head [mkSc (Some 0) (Some 10) true; mkSc (Some 2) (Some 5) true; mkSc (Some 3) (Some 4) false] 5 = false.
Proof. now vm_compute. Qed.

Print Assumptions serial_head_agrees.
Print Assumptions serial_keep_bounds_agrees.
Print Assumptions serial_head_refuted.
Print Assumptions serial_ext_child_keeps_parent.
Print Assumptions collapse_admits.
