(** Implementation model of asn1tools/codecs/type_checker.py: which Python
    types each ASN.1 type accepts, and how the location is propagated.

    Values of the shared universe stand for Python objects:
      VBool -> bool (an int subclass), VInt -> int, VNone -> None,
      VEnum / VStr / VOid -> str, VBytes -> bytes, VBits -> (bytes, int),
      VSeq -> dict, VList -> list, VChoice -> (str, object),
      VUnknownChoice -> (None, None).
    A value of the wrong shape for a type (VStr where an INTEGER is expected) is
    how an ill-typed component is modelled.

    As coded:
    - INTEGER accepts int and str (hence bool too); ENUMERATED (names) accepts
      str; NULL accepts None only; BOOLEAN accepts bool only; BIT STRING a
      2-tuple (bytes, int) with at least the stated number of bits; character
      strings and OBJECT IDENTIFIER accept str; OCTET STRING accepts bytes;
    - SEQUENCE/SET accept a dict and check the members that are present (a
      missing member is not the type checker's business); SEQUENCE OF / SET OF
      accept a list; CHOICE accepts a 2-tuple whose first item is a str naming
      an alternative ("Expected choice ..." otherwise);
    - a Recursive node adds its private copy of the target type (whose name is
      the TYPE name) to the location, in both variants: the suite pins
      'A.a.A.a.A' (tests/test_type_checker.py test_sequence). *)
From Asn1V Require Import Base.Prelude Syntax.Asn1 Check.Location Check.Constraints.

Definition encode_error : outcome := Fail (raise_plain EEncode).

(** isinstance(data, str) etc. on the modelled shapes *)
Definition is_str (v : value) : bool := match v with VEnum _ | VStr _ | VOid _ => true | _ => false end.
Definition is_int (v : value) : bool := match v with VInt _ | VBool _ => true | _ => false end.

(** Node-level verdict of the type checker: does [Type.encode] of this node
    itself raise (before looking at any component)? *)
Definition node_accepts (t : ty) (v : value) : bool :=
  match t with
  | TBool => match v with VBool _ => true | _ => false end
  | TNull => match v with VNone => true | _ => false end
  | TInt _ => is_int v || is_str v
  | TEnum _ _ => is_str v
  | TBits _ _ => match v with VBits bs n => n <=? 8 * Z.of_nat (length bs) | _ => false end
  | TOctets _ => match v with VBytes _ => true | _ => false end
  | TStr _ _ _ | TOid => is_str v
  | TSeq _ _ _ => match v with VSeq _ => true | _ => false end
  | TSeqOf _ _ _ => match v with VList _ => true | _ => false end
  | TChoice root ext =>
    match v with
    | VChoice n _ => match find_member n (choice_members root ext) 0 with Some _ => true | None => false end
    | _ => false
    end
  | TRef _ | TTag _ _ => true
  end.

Definition inner_elem (n : string) : elem := mkElem (n, [], true) n false.

Fixpoint tcheck (vr : variant) (fuel : nat) (env : env) (c : cctx) (t : ty) (v : value) : outcome :=
  match fuel with
  | O => Fail (raise_plain EFuel)
  | S fuel' =>
    let rec := tcheck vr fuel' env in
    if negb (node_accepts t v) then encode_error else
    match t with
    | TSeq _ root ext =>
      match v with
      | VSeq fields => check_members vr rec c (all_members root ext) 0 fields
      | _ => encode_error
      end
    | TSeqOf _ elem _ =>
      match v with
      | VList vs => check_elems rec (sub c 0) elem vs
      | _ => encode_error
      end
    | TChoice root ext =>
      match v with
      | VChoice n x =>
        match find_member n (choice_members root ext) 0 with
        | Some (i, m) => with_location vr (node_elem (sub c i) (m_name m)) (rec (sub c i) (m_ty m) x)
        | None => encode_error
        end
      | _ => encode_error
      end
    | TRef n =>
      match lookup n env with
      | None => Fail (raise_plain EUnmodelled)
      | Some t' =>
        if mem_str n (c_bt c)
        then with_location vr (inner_elem n) (rec (mkCtx n [] [n]) t' v)
        else rec (mkCtx (c_root c) (c_path c) (n :: c_bt c)) t' v
      end
    | TTag _ t' => rec c t' v
    | _ => Pass
    end
  end.

Definition tcheck_top (vr : variant) (fuel : nat) (env : env) (name : string) (v : value) : outcome :=
  match lookup name env with
  | None => Fail (raise_plain EUnmodelled)
  | Some t => with_location vr (node_elem (top_ctx name) name) (tcheck vr fuel env (top_ctx name) t v)
  end.
