(** Where the code refutes C12: concrete witnesses, evaluated in the model
    (and replayed on /repo by harness/c12.py). *)
From Asn1V Require Import Base.Prelude Syntax.Asn1 Check.Location Check.WellTyped Check.Constraints
     Check.Admits Check.TypeCheck Check.Skeleton Check.Corrupt Check.PathProofs.

Definition S_ (s : string) := s.
Notation "# s" := (s%string) (at level 0, only parsing).

(** R ::= SEQUENCE { v INTEGER (0..3), next R OPTIONAL } *)
Definition envR : env :=
  [(#"R", TSeq false [(#"v", TInt (IcRange (Some 0) (Some 3) false), Mandatory);
                      (#"next", TRef #"R", Optional)] None)].
Definition tR : ty :=
  TSeq false [(#"v", TInt (IcRange (Some 0) (Some 3) false), Mandatory); (#"next", TRef #"R", Optional)] None.
Definition leafR (x : value) : value := VSeq [(#"v", x)].
Definition depth1 (x : value) : value := VSeq [(#"v", VInt 0); (#"next", leafR x)].
Definition depth2 (x : value) : value :=
  VSeq [(#"v", VInt 0); (#"next", VSeq [(#"v", VInt 0); (#"next", leafR x)])].

Lemma depth1_corrupt (x' : value) k :
  leaf_fault envR (TInt (IcRange (Some 0) (Some 3) false)) (VInt 1) k x' ->
  corrupt_at envR [#"R"] tR (depth1 (VInt 1)) [SField #"next"; SField #"v"] k (depth1 x') true.
Proof.
  intros LF. exists [#"R"], (TInt (IcRange (Some 0) (Some 3) false)), (VInt 1), x'. split; [|exact LF].
  unfold depth1, leafR, tR.
  change (VSeq [(#"v", VInt 0); (#"next", VSeq [(#"v", x')])])
    with (VSeq (update_field #"next" (VSeq (update_field #"v" x' [(#"v", VInt 1)]))
                             [(#"v", VInt 0); (#"next", VSeq [(#"v", VInt 1)])])).
  eapply (D_field envR [#"R"] false _ None _ #"next" 1%nat (#"next", TRef #"R", Optional)).
  - reflexivity.
  - reflexivity.
  - cbn. intros m' [<-|[]] _. cbn. discriminate.
  - eapply D_ref_recursive; [reflexivity | reflexivity |].
    eapply (D_field envR [#"R"] false _ None _ #"v" 0%nat
                    (#"v", TInt (IcRange (Some 0) (Some 3) false), Mandatory)).
    + reflexivity.
    + reflexivity.
    + cbn. intros m' [].
    + apply D_here.
Qed.

(** 1. The type checker inserts the type name at every recursion level, in
    both variants (pinned by tests/test_type_checker.py): the path promised by
    the property, R.next.v, is not what is reported. *)
Theorem typecheck_recursive_path_refuted :
  forall vr, exists env name t v p v',
    lookup name env = Some t /\ good Ber 10 env t v /\
    corrupt_at env [name] t v p KWrongType v' true /\
    outcome_class (first_error vr Ber 10 env name v') = Some EEncode /\
    outcome_path (first_error vr Ber 10 env name v') = #"R.next.R.v" /\
    dotted (name1 name ++ names_along p) = #"R.next.v".
Proof.
  intros vr. exists envR, #"R", tR, (depth1 (VInt 1)), [SField #"next"; SField #"v"], (depth1 (VBytes [120])).
  split; [reflexivity|]. split; [repeat split; try (left; reflexivity)|].
  split; [apply depth1_corrupt; apply C_wrong; reflexivity|].
  destruct vr; vm_compute; repeat split.
Qed.

(** 2. Unrepaired add_location (drop an element equal to the last one): a
    recursive member is the same object at every depth, so one level of the
    path disappears for every fault the constraints checker or a codec reports
    two or more levels down.  Repaired: the promised path. *)
Theorem orig_recursive_path_collapses_refuted :
  outcome_path (first_error Orig Ber 10 envR #"R" (depth2 (VInt 9))) = #"R.next.v" /\
  outcome_path (first_error Orig Ber 10 envR #"R" (depth2 (VBytes [120]))) = #"R.next.R.next.R.v" /\
  outcome_path (first_error Orig Ber 10 envR #"R"
                            (VSeq [(#"v", VInt 0); (#"next", VSeq [(#"v", VInt 0); (#"next", VSeq [])])])) = #"R.next" /\
  outcome_path (first_error Repaired Ber 10 envR #"R" (depth2 (VInt 9))) = #"R.next.next.v" /\
  outcome_path (first_error Repaired Ber 10 envR #"R"
                            (VSeq [(#"v", VInt 0); (#"next", VSeq [(#"v", VInt 0); (#"next", VSeq [])])])) = #"R.next.next".
Proof. vm_compute. repeat split. Qed.

(** G ::= SEQUENCE { e ENUMERATED {a,b}, ..., x ENUMERATED {c,d} OPTIONAL, y INTEGER OPTIONAL } *)
Definition envG : env :=
  [(#"G", TSeq false [(#"e", TEnum [(#"a", 0); (#"b", 1)] None, Mandatory)]
               (Some [(false, [(#"x", TEnum [(#"c", 0); (#"d", 1)] None, Optional)]);
                      (false, [(#"y", TInt IcNone, Optional)])]))].
Definition vG_bad : value := VSeq [(#"e", VEnum #"a"); (#"x", VEnum #"zz"); (#"y", VInt 5)].

(** 3. Unrepaired BER/DER/PER/UPER/OER: an unknown ENUMERATED name inside an
    extension addition is swallowed by [except EncodeError: pass]: bytes are
    returned (and the sibling addition y is dropped).  JER/XER raise.
    Repaired: EncodeError at G.x on every codec. *)
Theorem orig_addition_enum_swallowed_refuted :
  first_error Orig Ber 10 envG #"G" vG_bad = Pass /\
  first_error Orig Oer 10 envG #"G" vG_bad = Pass /\
  outcome_path (first_error Orig Jer 10 envG #"G" vG_bad) = #"G.x" /\
  (forall cd, outcome_class (first_error Repaired cd 10 envG #"G" vG_bad) = Some EEncode /\
              outcome_path (first_error Repaired cd 10 envG #"G" vG_bad) = #"G.x").
Proof.
  split; [reflexivity|]. split; [reflexivity|]. split; [reflexivity|].
  intros cd. destruct cd; vm_compute; split; reflexivity.
Qed.

(** 4. Unrepaired PER/UPER/GSER: an unknown ENUMERATED name is a foreign
    KeyError. *)
Theorem orig_enum_keyerror_refuted :
  outcome_class (first_error Orig Per 10 envG #"G" (VSeq [(#"e", VEnum #"zz")])) = Some (EForeign #"KeyError") /\
  outcome_class (first_error Orig Uper 10 envG #"G" (VSeq [(#"e", VEnum #"zz")])) = Some (EForeign #"KeyError") /\
  outcome_class (first_error Orig Gser 10 envG #"G" (VSeq [(#"e", VEnum #"zz")])) = Some (EForeign #"KeyError") /\
  outcome_class (first_error Repaired Per 10 envG #"G" (VSeq [(#"e", VEnum #"zz")])) = Some EEncode.
Proof. vm_compute. repeat split. Qed.

(** 5. The type checker accepts a str for INTEGER ("Expected data of type int
    or str" is pinned by the suite; docs/index.rst specifies int): the
    constraints checker then raises a foreign TypeError, in both variants. *)
Theorem integer_str_accepted_refuted :
  forall vr,
    outcome_class (tcheck_top vr 10 envR #"R" (VSeq [(#"v", VStr [120])])) = None /\
    outcome_class (first_error vr Ber 10 envR #"R" (VSeq [(#"v", VStr [120])])) = Some (EForeign #"TypeError").
Proof. intros vr. destruct vr; vm_compute; split; reflexivity. Qed.

(** Non-vacuity of one_fault_path: every hypothesis holds for a constraint
    fault below a recursive reference, on a codec that requires full presence. *)
Lemma one_fault_example :
  lookup #"R" envR = Some tR /\
  good Jer 10 envR tR (depth1 (VInt 1)) /\
  corrupt_at envR [#"R"] tR (depth1 (VInt 1)) [SField #"next"; SField #"v"] KConstraint (depth1 (VInt 9)) true /\
  (tc_kind KConstraint = true -> true = false) /\
  outcome_class (first_error Repaired Jer 10 envR #"R" (depth1 (VInt 9))) = Some EConstraints /\
  outcome_path (first_error Repaired Jer 10 envR #"R" (depth1 (VInt 9))) = #"R.next.v".
Proof.
  split; [reflexivity|]. split; [repeat split; right; reflexivity|].
  split; [apply depth1_corrupt; apply C_constraint_flat; reflexivity|].
  split; [discriminate|]. vm_compute. split; reflexivity.
Qed.
