(** one_fault_path: a value that is well formed except for one component is
    rejected with the class of the fault and the dotted path to the component.
    Proofs; statements are collected in Props/C12.v. *)
From Asn1V Require Import Base.Prelude Syntax.Asn1 Check.Location Check.WellTyped Check.Constraints
     Check.Admits Check.TypeCheck Check.Skeleton Check.Corrupt Check.ConstraintsProofs Check.TypeCheckProofs.

(** * Location facts (Repaired variant, errors raised without a location) *)

Definition plain (x : exn) : Prop := x_raised_by x = None.

Lemma add_location_repaired_plain el x :
  plain x -> el_noloc el = false ->
  add_location Repaired el x = mkExn (x_class x) (x_loc x ++ [el]) None.
Proof. intros P N. unfold add_location. rewrite N. unfold plain in P. rewrite P. reflexivity. Qed.

Lemma names_of_app l el :
  names_of (l ++ [el]) = (if nonblank (el_name el) then [el_name el] else []) ++ names_of l.
Proof.
  unfold names_of. rewrite rev_app_distr. cbn [rev app map filter]. unfold nonblank.
  destruct (negb (String.eqb (el_name el) "")); reflexivity.
Qed.

(** An outcome that is a failure of class [e] whose printed names are [ns],
    raised without constructor location. *)
Definition fails_with (o : outcome) (e : err) (ns : list string) : Prop :=
  exists x, o = Fail x /\ x_class x = e /\ names_of (x_loc x) = ns /\ plain x.

Lemma with_location_fails o e ns c name :
  is_located e = true -> fails_with o e ns ->
  fails_with (with_location Repaired (node_elem c name) o) e
             ((if nonblank name then [name] else []) ++ ns).
Proof.
  intros L (x & -> & C & N & P). cbn [with_location]. rewrite C, L.
  rewrite add_location_repaired_plain by (exact P || reflexivity).
  eexists. split; [reflexivity|]. cbn [x_class x_loc x_raised_by]. repeat split; try assumption.
  rewrite names_of_app. cbn [node_elem el_name]. rewrite N. reflexivity.
Qed.

Lemma fails_with_not_pass o e ns : fails_with o e ns -> o <> Pass.
Proof. intros (x & -> & _). discriminate. Qed.

(** * check_members is the plain member walk *)

Lemma check_members_walk vr rec ms : forall c i fields,
  check_members vr rec c ms i fields = walk_members vr rec (fun _ => None) Fail c ms i fields.
Proof.
  induction ms as [|m r IH]; intros c i fields; [reflexivity|].
  cbn [check_members walk_members]. destruct (lookup (m_name m) fields).
  - destruct (with_location vr _ _); [apply IH | reflexivity].
  - apply IH.
Qed.

(** * Lookups in updated / reduced dicts *)

Lemma lookup_update k n x fields :
  lookup k (update_field n x fields) =
  match lookup k fields with
  | Some y => Some (if String.eqb k n then x else y)
  | None => None
  end.
Proof.
  induction fields as [|[k0 y0] r IH]; [reflexivity|].
  cbn [update_field map fst]. destruct (String.eqb k0 n) eqn:E0; cbn [lookup].
  - destruct (String.eqb k k0) eqn:E.
    + apply String.eqb_eq in E. subst k0. rewrite E0. reflexivity.
    + exact IH.
  - destruct (String.eqb k k0) eqn:E.
    + apply String.eqb_eq in E. subst k0. rewrite E0. reflexivity.
    + exact IH.
Qed.

Lemma lookup_update_other k n x fields :
  String.eqb k n = false -> lookup k (update_field n x fields) = lookup k fields.
Proof. intros E. rewrite lookup_update, E. destruct (lookup k fields); reflexivity. Qed.

Lemma lookup_update_same n x fields y :
  lookup n fields = Some y -> lookup n (update_field n x fields) = Some x.
Proof. intros L. rewrite lookup_update, L, String.eqb_refl. reflexivity. Qed.

Lemma lookup_remove k n fields :
  lookup k (remove_field n fields) = if String.eqb k n then None else lookup k fields.
Proof.
  induction fields as [|[k0 y0] r IH].
  - cbn. destruct (String.eqb k n); reflexivity.
  - cbn [remove_field filter fst]. destruct (String.eqb k0 n) eqn:E0; cbn [negb lookup].
    + fold (remove_field n r). rewrite IH. destruct (String.eqb k n) eqn:E; [reflexivity|].
      destruct (String.eqb k k0) eqn:E1; [|reflexivity].
      apply String.eqb_eq in E1. subst k0. congruence.
    + fold (remove_field n r). destruct (String.eqb k k0) eqn:E1.
      * apply String.eqb_eq in E1. subst k0. rewrite E0. reflexivity.
      * exact IH.
Qed.

(** * The member walk around one member *)

Fixpoint after {T} (n : string) (ms : list (member_of T)) : list (member_of T) :=
  match ms with
  | [] => []
  | m :: r => if String.eqb n (m_name m) then r else after n r
  end.

Section Walk.
  Variable rec : cctx -> ty -> value -> outcome.
  Variable absent : member_of ty -> option outcome.
  Variable on_fail : exn -> outcome.
  Variable c : cctx.
  Let walk := walk_members Repaired rec absent on_fail c.

  Lemma walk_at ms : forall i0 i m fields fields' n,
    find_member n ms i0 = Some (i, m) ->
    (forall k, String.eqb k n = false -> lookup k fields' = lookup k fields) ->
    (forall m' y c', In m' (before n ms) -> lookup (m_name m') fields = Some y -> rec c' (m_ty m') y = Pass) ->
    (forall m', In m' (before n ms) -> lookup (m_name m') fields = None -> absent m' = None) ->
    walk ms i0 fields' =
    match lookup n fields' with
    | Some x' =>
      match with_location Repaired (node_elem (sub c i) (m_name m)) (rec (sub c i) (m_ty m) x') with
      | Pass => walk (after n ms) (S i) fields'
      | Fail e => on_fail e
      end
    | None =>
      match absent m with
      | None => walk (after n ms) (S i) fields'
      | Some o => o
      end
    end.
  Proof.
    induction ms as [|m0 r IH]; intros i0 i m fields fields' n F Same B A; [discriminate|].
    cbn [find_member] in F. cbn [before] in B, A. cbn [after]. unfold walk. cbn [walk_members].
    destruct (String.eqb n (m_name m0)) eqn:E.
    - inversion F; subst i m. apply String.eqb_eq in E. subst n. reflexivity.
    - assert (E' : String.eqb (m_name m0) n = false) by (rewrite String.eqb_sym; exact E).
      rewrite (Same _ E').
      destruct (lookup (m_name m0) fields) as [y|] eqn:L.
      + rewrite (B m0 y (sub c i0) (or_introl eq_refl) L). cbn [with_location].
        apply (IH (S i0) i m fields fields' n F Same).
        * intros m' y' c' I. apply B. right. exact I.
        * intros m' I. apply A. right. exact I.
      + rewrite (A m0 (or_introl eq_refl) L).
        apply (IH (S i0) i m fields fields' n F Same).
        * intros m' y' c' I. apply B. right. exact I.
        * intros m' I. apply A. right. exact I.
  Qed.

  Lemma walk_all_pass ms : forall i0 fields,
    (forall m' y c', In m' ms -> lookup (m_name m') fields = Some y -> rec c' (m_ty m') y = Pass) ->
    (forall m', In m' ms -> lookup (m_name m') fields = None -> absent m' = None \/ absent m' = Some Pass) ->
    walk ms i0 fields = Pass.
  Proof.
    induction ms as [|m0 r IH]; intros i0 fields B A; [reflexivity|].
    unfold walk. cbn [walk_members]. destruct (lookup (m_name m0) fields) as [y|] eqn:L.
    - rewrite (B m0 y (sub c i0) (or_introl eq_refl) L). cbn [with_location]. apply IH.
      + intros m' y' c' I. apply B. right. exact I.
      + intros m' I. apply A. right. exact I.
    - destruct (A m0 (or_introl eq_refl) L) as [-> | ->]; [|reflexivity]. apply IH.
      + intros m' y' c' I. apply B. right. exact I.
      + intros m' I. apply A. right. exact I.
  Qed.
End Walk.

Lemma In_before_In {T} n (ms : list (member_of T)) m : In m (before n ms) -> In m ms.
Proof.
  induction ms as [|m0 r IH]; [intros []|]. cbn [before]. destruct (String.eqb n (m_name m0)); [intros []|].
  intros [->|I]; [left; reflexivity | right; apply IH; exact I].
Qed.

Lemma In_after_In {T} n (ms : list (member_of T)) m : In m (after n ms) -> In m ms.
Proof.
  induction ms as [|m0 r IH]; [intros []|]. cbn [after]. destruct (String.eqb n (m_name m0)).
  - intros I. right. exact I.
  - intros I. right. apply IH. exact I.
Qed.

Lemma find_member_In {T} n (ms : list (member_of T)) : forall i0 i m,
  find_member n ms i0 = Some (i, m) -> In m ms /\ m_name m = n.
Proof.
  induction ms as [|m0 r IH]; intros i0 i m F; [discriminate|]. cbn [find_member] in F.
  destruct (String.eqb n (m_name m0)) eqn:E.
  - inversion F; subst. apply String.eqb_eq in E. split; [left; reflexivity | symmetry; exact E].
  - destruct (IH _ _ _ F) as [I N]. split; [right; exact I | exact N].
Qed.

(** with distinct member names, no member after the first one named [n] is named [n] *)
Lemma after_names_differ {T} n (ms : list (member_of T)) m :
  nodup_str (map m_name ms) = true -> In m (after n ms) -> String.eqb (m_name m) n = false.
Proof.
  induction ms as [|m0 r IH]; [intros _ []|]. cbn [map nodup_str after]. intros ND I.
  apply andb_true_iff in ND. destruct ND as [ND1 ND2].
  destruct (String.eqb n (m_name m0)) eqn:E.
  - apply String.eqb_eq in E. subst n.
    destruct (String.eqb (m_name m) (m_name m0)) eqn:E2; [|reflexivity].
    apply String.eqb_eq in E2. exfalso.
    apply negb_true_iff in ND1. apply not_true_iff_false in ND1. apply ND1.
    apply existsb_exists. exists (m_name m). split.
    + apply in_map. exact I.
    + rewrite E2. apply String.eqb_refl.
  - apply IH; assumption.
Qed.

(** * List elements around one element *)

Lemma elems_at rec c t : forall vs i x x',
  nth_error vs i = Some x ->
  (forall y c', In y vs -> rec c' t y = Pass) ->
  check_elems rec c t (update_nth i x' vs) =
  match rec c t x' with Pass => Pass | f => f end.
Proof.
  induction vs as [|y r IH]; intros i x x' N B; [destruct i; discriminate|].
  destruct i as [|i]; cbn [update_nth check_elems].
  - destruct (rec c t x'); [|reflexivity].
    apply check_elems_all_pass. intros y' c' I. apply B. right. exact I.
  - rewrite (B y c (or_introl eq_refl)). cbn in N.
    apply (IH i x x' N). intros y' c' I. apply B. right. exact I.
Qed.

(** * Good values: what the base value and every untouched sibling are *)

Definition good (cd : codec) (fuel : nat) (env : env) (t : ty) (v : value) : Prop :=
  well_typed fuel env t v = true /\ admits fuel env t v = true /\
  (swallows cd = true \/ fully_present fuel env t v = true).

Lemma good_fuel cd fuel env t v : good cd fuel env t v -> exists f, fuel = S f.
Proof. intros (W & _). destruct fuel; [discriminate | eexists; reflexivity]. Qed.

Lemma good_field cd f env isset root ext fields m y :
  good cd (S f) env (TSeq isset root ext) (VSeq fields) ->
  In m (all_members root ext) -> lookup (m_name m) fields = Some y ->
  good cd f env (m_ty m) y.
Proof.
  intros (W & A & E) I L. cbn [well_typed admits fully_present] in *.
  change (members_flat root ext) with (all_members root ext) in *.
  repeat (apply andb_true_iff in W; destruct W as [W ?]).
  repeat split.
  - match goal with H : forallb _ (all_members root ext) = true |- _ =>
      rewrite forallb_forall in H; specialize (H m I); rewrite L in H; exact H end.
  - rewrite forallb_forall in A. specialize (A m I). rewrite L in A. exact A.
  - destruct E as [E|E]; [left; exact E|]. right.
    rewrite forallb_forall in E. specialize (E m I). rewrite L in E. exact E.
Qed.

Lemma good_elem cd f env isset elem sz vs y :
  good cd (S f) env (TSeqOf isset elem sz) (VList vs) -> In y vs -> good cd f env elem y.
Proof.
  intros (W & A & E) I. cbn [well_typed admits fully_present] in *.
  apply andb_true_iff in A. destruct A as [_ A].
  rewrite forallb_forall in W, A. repeat split; [apply W | apply A |]; try exact I.
  destruct E as [E|E]; [left; exact E|]. right. rewrite forallb_forall in E. apply E. exact I.
Qed.

Lemma good_choice cd f env root ext n x i m :
  good cd (S f) env (TChoice root ext) (VChoice n x) ->
  find_member n (choice_members root ext) 0 = Some (i, m) ->
  good cd f env (m_ty m) x.
Proof.
  intros (W & A & E) F. cbn [well_typed admits fully_present] in *.
  change (alternatives root ext) with (choice_members root ext) in *.
  pose proof (find_member_lookup n (choice_members root ext) 0) as L. rewrite F in L.
  rewrite L in *. apply andb_true_iff in W. destruct W as [_ W].
  repeat split; assumption.
Qed.

Lemma good_ref cd f env n t v :
  good cd (S f) env (TRef n) v -> lookup n env = Some t -> good cd f env t v.
Proof. intros (W & A & E) L. cbn [well_typed admits fully_present] in *. rewrite L in *. repeat split; assumption. Qed.

Lemma good_tag cd f env tg t v : good cd (S f) env (TTag tg t) v -> good cd f env t v.
Proof. intros (W & A & E). cbn [well_typed admits fully_present] in *. repeat split; assumption. Qed.

(** * Each stage passes good values (in every compilation context) *)

Lemma tcheck_good cd fuel env c t v : good cd fuel env t v -> tcheck Repaired fuel env c t v = Pass.
Proof. intros (W & _). apply tcheck_complete. exact W. Qed.

Lemma check_good cd fuel env c t v : good cd fuel env t v -> check Repaired fuel env c t v = Pass.
Proof.
  intros (_ & A & _). pose proof (check_passes_iff_admits Repaired fuel env c t v) as P.
  rewrite A in P. destruct (check Repaired fuel env c t v); [reflexivity | discriminate].
Qed.

Lemma mem_str_existsb n l : mem_str n l = existsb (String.eqb n) l.
Proof. reflexivity. Qed.

Lemma In_root_all {T} (root : list (member_of T)) ext m : In m root -> In m (all_members root ext).
Proof. intros I. unfold all_members. apply in_or_app. left. exact I. Qed.
Lemma In_adds_all {T} (root : list (member_of T)) ext m : In m (flatten_additions ext) -> In m (all_members root ext).
Proof. intros I. unfold all_members. apply in_or_app. right. exact I. Qed.

Lemma skel_good cd : forall fuel env c t v, good cd fuel env t v -> skel Repaired cd fuel env c t v = Pass.
Proof.
  induction fuel as [|f IH]; intros env c t v G; [destruct G as (W & _); discriminate|].
  destruct t; cbn [skel]; try reflexivity.
  - (* TEnum *)
    destruct G as (W & _). cbn [well_typed] in W. destruct v; try discriminate.
    rewrite mem_str_existsb, W. reflexivity.
  - (* TSeq *)
    pose proof G as (W & A & E). cbn [well_typed] in W. destruct v; try discriminate.
    repeat (apply andb_true_iff in W; destruct W as [W ?]).
    assert (R : walk_members Repaired (skel Repaired cd f env) absent_root Fail c root 0 fields = Pass).
    { apply walk_all_pass.
      - intros m' y c' I L. apply IH. apply (good_field _ _ _ _ _ _ _ _ _ G (In_root_all _ _ _ I) L).
      - intros m' I L. left. unfold absent_root.
        match goal with H : forallb _ root = true |- _ =>
          rewrite forallb_forall in H; specialize (H m' I); rewrite L in H end.
        destruct (is_mandatory (m_opt m')); [discriminate | reflexivity]. }
    rewrite R. destruct (swallows cd) eqn:SW.
    + apply walk_all_pass.
      * intros m' y c' I L. apply IH. apply (good_field _ _ _ _ _ _ _ _ _ G (In_adds_all _ _ _ I) L).
      * intros m' I L. unfold absent_addition_swallowed. destruct (is_mandatory (m_opt m')); [right | left]; reflexivity.
    + apply walk_all_pass.
      * intros m' y c' I L. apply IH. apply (good_field _ _ _ _ _ _ _ _ _ G (In_adds_all _ _ _ I) L).
      * intros m' I L. left. destruct E as [E|E]; [discriminate|].
        cbn [fully_present] in E. rewrite forallb_forall in E.
        specialize (E m' (In_adds_all root ext m' I)). rewrite L in E.
        unfold absent_root. destruct (is_mandatory (m_opt m')); [discriminate | reflexivity].
  - (* TSeqOf *)
    pose proof G as (W & _). cbn [well_typed] in W. destruct v; try discriminate.
    apply check_elems_all_pass. intros y c' I. apply IH. apply (good_elem _ _ _ _ _ _ _ _ G I).
  - (* TChoice *)
    pose proof G as (W & _). cbn [well_typed] in W. destruct v; try discriminate.
    apply andb_true_iff in W. destruct W as [_ W].
    pose proof (find_member_lookup alt (choice_members root ext) 0) as L.
    change (alternatives root ext) with (choice_members root ext) in W.
    destruct (find_member alt (choice_members root ext) 0) as [[i m]|] eqn:F.
    + rewrite (IH env (sub c i) (m_ty m) v). reflexivity. apply (good_choice _ _ _ _ _ _ _ _ _ G F).
    + rewrite L in W. discriminate.
  - (* TRef *)
    pose proof G as (W & _). cbn [well_typed] in W.
    destruct (lookup name env) as [t'|] eqn:L; [|discriminate].
    destruct (mem_str name (c_bt c)); apply IH; apply (good_ref _ _ _ _ _ _ G L).
  - (* TTag *) apply IH. apply (good_tag _ _ _ _ _ _ G).
Qed.

(** * Propagation of the outcome at the corrupted node to the whole value *)

Definition transfers (inner outer : outcome) (ns : list string) : Prop :=
  (inner = Pass -> outer = Pass) /\
  (forall e ms, is_located e = true -> fails_with inner e ms -> fails_with outer e (ns ++ ms)).

Lemma transfers_refl o : transfers o o [].
Proof. split; [tauto|]. intros e ms _ F. exact F. Qed.

Lemma transfers_trans a b c ns1 ns2 :
  transfers a b ns1 -> transfers b c ns2 -> transfers a c (ns2 ++ ns1).
Proof.
  intros [P1 F1] [P2 F2]. split; [tauto|].
  intros e ms L F. rewrite <- app_assoc. apply F2; [exact L|]. apply F1; assumption.
Qed.

Definition name1 (n : string) : list string := filter nonblank [n].

Lemma names_along_field n p : names_along (SField n :: p) = name1 n ++ names_along p.
Proof. unfold names_along, name1. cbn [flat_map step_names]. rewrite filter_app. reflexivity. Qed.
Lemma names_along_alt n p : names_along (SAlt n :: p) = name1 n ++ names_along p.
Proof. unfold names_along, name1. cbn [flat_map step_names]. rewrite filter_app. reflexivity. Qed.
Lemma names_along_elem i p : names_along (SElem i :: p) = names_along p.
Proof. reflexivity. Qed.

Lemma with_location_transfers o c n :
  transfers o (with_location Repaired (node_elem c n) o) (name1 n).
Proof.
  split; [intros ->; reflexivity|].
  intros e ms L F. unfold name1. cbn [filter]. apply with_location_fails; assumption.
Qed.

Section Stage.
  Variable env : Asn1.env.
  Variable cd : codec.
  Variable St : nat -> cctx -> ty -> value -> outcome.
  Variable transparent : bool.

  Hypothesis St_field : forall f c isset root ext fields n i m x x',
    find_member n (all_members root ext) 0 = Some (i, m) ->
    lookup n fields = Some x ->
    (forall m', In m' (before n (all_members root ext)) ->
                is_mandatory (m_opt m') = true -> lookup (m_name m') fields <> None) ->
    good cd (S f) env (TSeq isset root ext) (VSeq fields) ->
    transfers (St f (sub c i) (m_ty m) x')
              (St (S f) c (TSeq isset root ext) (VSeq (update_field n x' fields))) (name1 n).
  Hypothesis St_elem : forall f c isset elem sz vs i x x',
    nth_error vs i = Some x ->
    good cd (S f) env (TSeqOf isset elem sz) (VList vs) ->
    transfers (St f (sub c 0) elem x') (St (S f) c (TSeqOf isset elem sz) (VList (update_nth i x' vs))) [].
  Hypothesis St_choice : forall f c root ext n i m x x',
    find_member n (choice_members root ext) 0 = Some (i, m) ->
    good cd (S f) env (TChoice root ext) (VChoice n x) ->
    transfers (St f (sub c i) (m_ty m) x') (St (S f) c (TChoice root ext) (VChoice n x')) (name1 n).
  Hypothesis St_tag : forall f c tg t v',
    transfers (St f c t v') (St (S f) c (TTag tg t) v') [].
  Hypothesis St_ref : forall f c n t v',
    lookup n env = Some t -> mem_str n (c_bt c) = false ->
    transfers (St f (mkCtx (c_root c) (c_path c) (n :: c_bt c)) t v') (St (S f) c (TRef n) v') [].
  Hypothesis St_ref_rec : forall f c n t v',
    transparent = true -> lookup n env = Some t -> mem_str n (c_bt c) = true ->
    transfers (St f (mkCtx n [] [n]) t v') (St (S f) c (TRef n) v') [].

  Lemma stage_descend bt t v p btl tl vl vl' v' crossed :
    descend env bt t v p btl tl vl vl' v' crossed ->
    crossed = false \/ transparent = true ->
    forall fuel c, c_bt c = bt -> good cd fuel env t v ->
    exists fuel' c', c_bt c' = btl /\ good cd fuel' env tl vl /\
                     transfers (St fuel' c' tl vl') (St fuel c t v') (names_along p).
  Proof.
    induction 1 as
        [bt t v v'
        |bt isset root ext fields n i m x p btl tl vl vl' x' crossed F L PC D IH
        |bt isset elem sz vs i x p btl tl vl vl' x' crossed N D IH
        |bt root ext n i m x p btl tl vl vl' x' crossed F D IH
        |bt tg t v p btl tl vl vl' v' crossed D IH
        |bt n t v p btl tl vl vl' v' crossed L M D IH
        |bt n t v p btl tl vl vl' v' crossed L M D IH];
      intros TC fuel c Hbt G.
    - exists fuel, c. split; [exact Hbt|]. split; [exact G|]. apply transfers_refl.
    - destruct (good_fuel _ _ _ _ _ G) as [f ->].
      destruct (find_member_In _ _ _ _ _ F) as [I Nm].
      assert (G' : good cd f env (m_ty m) x).
      { apply (good_field _ _ _ _ _ _ _ _ _ G I). rewrite Nm. exact L. }
      destruct (IH TC f (sub c i) Hbt G') as (fuel' & c' & B & Gl & T).
      exists fuel', c'. split; [exact B|]. split; [exact Gl|].
      rewrite names_along_field. eapply transfers_trans; [exact T|].
      apply (St_field f c isset root ext fields n i m x x' F L PC G).
    - destruct (good_fuel _ _ _ _ _ G) as [f ->].
      assert (G' : good cd f env elem x).
      { apply (good_elem _ _ _ _ _ _ _ _ G). eapply nth_error_In. exact N. }
      destruct (IH TC f (sub c 0) Hbt G') as (fuel' & c' & B & Gl & T).
      exists fuel', c'. split; [exact B|]. split; [exact Gl|].
      rewrite names_along_elem. rewrite <- (app_nil_l (names_along p)).
      eapply transfers_trans; [exact T|]. apply (St_elem f c isset elem sz vs i x x' N G).
    - destruct (good_fuel _ _ _ _ _ G) as [f ->].
      pose proof (good_choice _ _ _ _ _ _ _ _ _ G F) as G'.
      destruct (IH TC f (sub c i) Hbt G') as (fuel' & c' & B & Gl & T).
      exists fuel', c'. split; [exact B|]. split; [exact Gl|].
      rewrite names_along_alt. eapply transfers_trans; [exact T|].
      apply (St_choice f c root ext n i m x x' F G).
    - destruct (good_fuel _ _ _ _ _ G) as [f ->].
      pose proof (good_tag _ _ _ _ _ _ G) as G'.
      destruct (IH TC f c Hbt G') as (fuel' & c' & B & Gl & T).
      exists fuel', c'. split; [exact B|]. split; [exact Gl|].
      rewrite <- (app_nil_l (names_along p)). eapply transfers_trans; [exact T|]. apply St_tag.
    - destruct (good_fuel _ _ _ _ _ G) as [f ->].
      pose proof (good_ref _ _ _ _ _ _ G L) as G'.
      assert (Hbt' : c_bt (mkCtx (c_root c) (c_path c) (n :: c_bt c)) = n :: bt) by (cbn; rewrite Hbt; reflexivity).
      destruct (IH TC f _ Hbt' G') as (fuel' & c' & B & Gl & T).
      exists fuel', c'. split; [exact B|]. split; [exact Gl|].
      rewrite <- (app_nil_l (names_along p)). eapply transfers_trans; [exact T|].
      apply St_ref; [exact L | rewrite Hbt; exact M].
    - destruct TC as [TC|TC]; [discriminate|].
      destruct (good_fuel _ _ _ _ _ G) as [f ->].
      pose proof (good_ref _ _ _ _ _ _ G L) as G'.
      assert (Hbt' : c_bt (mkCtx n [] [n]) = [n]) by reflexivity.
      destruct (IH (or_intror TC) f _ Hbt' G') as (fuel' & c' & B & Gl & T).
      exists fuel', c'. split; [exact B|]. split; [exact Gl|].
      rewrite <- (app_nil_l (names_along p)). eapply transfers_trans; [exact T|].
      apply St_ref_rec; [exact TC | exact L | rewrite Hbt; exact M].
  Qed.
  Hypothesis St_ref_rec_pass : forall f c n t v',
    lookup n env = Some t -> mem_str n (c_bt c) = true ->
    St f (mkCtx n [] [n]) t v' = Pass -> St (S f) c (TRef n) v' = Pass.

  (** passing is preserved along any path, recursive references included *)
  Lemma stage_descend_pass bt t v p btl tl vl vl' v' crossed :
    descend env bt t v p btl tl vl vl' v' crossed ->
    forall fuel c, c_bt c = bt -> good cd fuel env t v ->
    exists fuel' c', c_bt c' = btl /\ good cd fuel' env tl vl /\
                     (St fuel' c' tl vl' = Pass -> St fuel c t v' = Pass).
  Proof.
    induction 1 as
        [bt t v v'
        |bt isset root ext fields n i m x p btl tl vl vl' x' crossed F L PC D IH
        |bt isset elem sz vs i x p btl tl vl vl' x' crossed N D IH
        |bt root ext n i m x p btl tl vl vl' x' crossed F D IH
        |bt tg t v p btl tl vl vl' v' crossed D IH
        |bt n t v p btl tl vl vl' v' crossed L M D IH
        |bt n t v p btl tl vl vl' v' crossed L M D IH];
      intros fuel c Hbt G.
    - exists fuel, c. split; [exact Hbt|]. split; [exact G|]. tauto.
    - destruct (good_fuel _ _ _ _ _ G) as [f ->].
      destruct (find_member_In _ _ _ _ _ F) as [I Nm].
      assert (G' : good cd f env (m_ty m) x).
      { apply (good_field _ _ _ _ _ _ _ _ _ G I). rewrite Nm. exact L. }
      destruct (IH f (sub c i) Hbt G') as (fuel' & c' & B & Gl & T).
      exists fuel', c'. split; [exact B|]. split; [exact Gl|].
      intros P. apply (proj1 (St_field f c isset root ext fields n i m x x' F L PC G)). apply T. exact P.
    - destruct (good_fuel _ _ _ _ _ G) as [f ->].
      assert (G' : good cd f env elem x).
      { apply (good_elem _ _ _ _ _ _ _ _ G). eapply nth_error_In. exact N. }
      destruct (IH f (sub c 0) Hbt G') as (fuel' & c' & B & Gl & T).
      exists fuel', c'. split; [exact B|]. split; [exact Gl|].
      intros P. apply (proj1 (St_elem f c isset elem sz vs i x x' N G)). apply T. exact P.
    - destruct (good_fuel _ _ _ _ _ G) as [f ->].
      pose proof (good_choice _ _ _ _ _ _ _ _ _ G F) as G'.
      destruct (IH f (sub c i) Hbt G') as (fuel' & c' & B & Gl & T).
      exists fuel', c'. split; [exact B|]. split; [exact Gl|].
      intros P. apply (proj1 (St_choice f c root ext n i m x x' F G)). apply T. exact P.
    - destruct (good_fuel _ _ _ _ _ G) as [f ->].
      pose proof (good_tag _ _ _ _ _ _ G) as G'.
      destruct (IH f c Hbt G') as (fuel' & c' & B & Gl & T).
      exists fuel', c'. split; [exact B|]. split; [exact Gl|].
      intros P. apply (proj1 (St_tag f c tg t v')). apply T. exact P.
    - destruct (good_fuel _ _ _ _ _ G) as [f ->].
      pose proof (good_ref _ _ _ _ _ _ G L) as G'.
      assert (Hbt' : c_bt (mkCtx (c_root c) (c_path c) (n :: c_bt c)) = n :: bt) by (cbn; rewrite Hbt; reflexivity).
      destruct (IH f _ Hbt' G') as (fuel' & c' & B & Gl & T).
      exists fuel', c'. split; [exact B|]. split; [exact Gl|].
      intros P. apply (proj1 (St_ref f c n t v' L ltac:(rewrite Hbt; exact M))). apply T. exact P.
    - destruct (good_fuel _ _ _ _ _ G) as [f ->].
      pose proof (good_ref _ _ _ _ _ _ G L) as G'.
      assert (Hbt' : c_bt (mkCtx n [] [n]) = [n]) by reflexivity.
      destruct (IH f _ Hbt' G') as (fuel' & c' & B & Gl & T).
      exists fuel', c'. split; [exact B|]. split; [exact Gl|].
      intros P. apply (St_ref_rec_pass f c n t v' L); [rewrite Hbt; exact M|]. apply T. exact P.
  Qed.
End Stage.

(** * One step through a member loop *)

Lemma walk_same rec absent on_fail c ms : forall i0 fields fields',
  (forall m, In m ms -> lookup (m_name m) fields' = lookup (m_name m) fields) ->
  walk_members Repaired rec absent on_fail c ms i0 fields' =
  walk_members Repaired rec absent on_fail c ms i0 fields.
Proof.
  induction ms as [|m r IH]; intros i0 fields fields' H; [reflexivity|].
  cbn [walk_members]. rewrite (H m (or_introl eq_refl)).
  rewrite (IH (S i0) fields fields'); [reflexivity|]. intros m' I. apply H. right. exact I.
Qed.

Lemma walk_step rec absent on_fail c ms i0 i m fields n x x' :
  find_member n ms i0 = Some (i, m) -> lookup n fields = Some x ->
  nodup_str (map m_name ms) = true ->
  (forall m' y c', In m' ms -> lookup (m_name m') fields = Some y -> rec c' (m_ty m') y = Pass) ->
  (forall m', In m' (before n ms) -> lookup (m_name m') fields = None -> absent m' = None) ->
  (forall m', In m' (after n ms) -> lookup (m_name m') fields = None -> absent m' = None \/ absent m' = Some Pass) ->
  (forall e, x_loc e <> [] -> on_fail e = Fail e) ->
  transfers (rec (sub c i) (m_ty m) x')
            (walk_members Repaired rec absent on_fail c ms i0 (update_field n x' fields)) (name1 n).
Proof.
  intros F L ND B Ab Aa OF.
  destruct (find_member_In _ _ _ _ _ F) as [I Nm].
  rewrite (walk_at rec absent on_fail c ms i0 i m fields (update_field n x' fields) n F).
  - rewrite (lookup_update_same n x' fields x L). rewrite Nm.
    pose proof (with_location_transfers (rec (sub c i) (m_ty m) x') (sub c i) n) as [TP TF].
    split.
    + intros P. rewrite (TP P).
      apply walk_all_pass.
      * intros m' y c' I' L'. apply after_names_differ with (n := n) in I' as D; [|exact ND].
        rewrite (lookup_update_other _ _ _ _ D) in L'. apply (B m' y c'); [|exact L'].
        eapply In_after_In. exact I'.
      * intros m' I' L'. apply after_names_differ with (n := n) in I' as D; [|exact ND].
        rewrite (lookup_update_other _ _ _ _ D) in L'. apply Aa; assumption.
    + intros e ms0 Le Fw. specialize (TF e ms0 Le Fw).
      destruct Fw as (y & Ey & Cy & Ny & Py).
      rewrite Ey in *. cbn [with_location] in *. rewrite Cy, Le in *.
      rewrite add_location_repaired_plain in * by (exact Py || reflexivity).
      rewrite OF; [exact TF|]. cbn. destruct (x_loc y); discriminate.
  - intros k E. apply lookup_update_other. exact E.
  - intros m' y c' I'. apply B. eapply In_before_In. exact I'.
  - exact Ab.
Qed.

Lemma check_members_step rec c ms i m fields n x x' :
  find_member n ms 0 = Some (i, m) -> lookup n fields = Some x ->
  nodup_str (map m_name ms) = true ->
  (forall m' y c', In m' ms -> lookup (m_name m') fields = Some y -> rec c' (m_ty m') y = Pass) ->
  transfers (rec (sub c i) (m_ty m) x')
            (check_members Repaired rec c ms 0 (update_field n x' fields)) (name1 n).
Proof.
  intros F L ND B. rewrite check_members_walk.
  apply (walk_step rec (fun _ => None) Fail c ms 0 i m fields n x x' F L ND B).
  - intros; reflexivity.
  - intros; left; reflexivity.
  - intros; reflexivity.
Qed.

Lemma check_elems_step rec c t vs i x x' :
  nth_error vs i = Some x ->
  (forall y c', In y vs -> rec c' t y = Pass) ->
  check_elems rec c t (update_nth i x' vs) = rec c t x'.
Proof.
  intros N B. rewrite (elems_at rec c t vs i x x' N B). destruct (rec c t x'); reflexivity.
Qed.

Lemma length_update_nth i x vs : length (update_nth i x vs) = length vs.
Proof.
  revert i. induction vs as [|y r IH]; intros i; [destruct i; reflexivity|].
  destruct i; cbn [update_nth length]; [reflexivity | rewrite IH; reflexivity].
Qed.

Lemma good_nodup cd f env isset root ext fields :
  good cd (S f) env (TSeq isset root ext) (VSeq fields) ->
  nodup_str (map m_name (all_members root ext)) = true.
Proof.
  intros (W & _). cbn [well_typed] in W. change (members_flat root ext) with (all_members root ext) in W.
  repeat (apply andb_true_iff in W; destruct W as [W ?]). assumption.
Qed.

Lemma transfers_eq a b : a = b -> transfers b a [].
Proof. intros ->. apply transfers_refl. Qed.

(** ** The type checker *)
Section TcheckStage.
  Variable env : Asn1.env.
  Variable cd : codec.
  Let St := fun f => tcheck Repaired f env.

  Lemma tcheck_field : forall f c isset root ext fields n i m x x',
    find_member n (all_members root ext) 0 = Some (i, m) ->
    lookup n fields = Some x ->
    (forall m', In m' (before n (all_members root ext)) ->
                is_mandatory (m_opt m') = true -> lookup (m_name m') fields <> None) ->
    good cd (S f) env (TSeq isset root ext) (VSeq fields) ->
    transfers (St f (sub c i) (m_ty m) x')
              (St (S f) c (TSeq isset root ext) (VSeq (update_field n x' fields))) (name1 n).
  Proof.
    intros f c isset root ext fields n i m x x' F L _ G. unfold St. cbn [tcheck node_accepts negb].
    apply (check_members_step _ c _ i m fields n x x' F L (good_nodup _ _ _ _ _ _ _ G)).
    intros m' y c' I L'. apply (tcheck_good cd). apply (good_field _ _ _ _ _ _ _ _ _ G I L').
  Qed.

  Lemma tcheck_elem : forall f c isset elem sz vs i x x',
    nth_error vs i = Some x ->
    good cd (S f) env (TSeqOf isset elem sz) (VList vs) ->
    transfers (St f (sub c 0) elem x') (St (S f) c (TSeqOf isset elem sz) (VList (update_nth i x' vs))) [].
  Proof.
    intros f c isset elem sz vs i x x' N G. unfold St. cbn [tcheck node_accepts negb].
    apply transfers_eq. apply (check_elems_step _ _ _ vs i x x' N).
    intros y c' I. apply (tcheck_good cd). apply (good_elem _ _ _ _ _ _ _ _ G I).
  Qed.

  Lemma tcheck_choice : forall f c root ext n i m (x x' : value),
    find_member n (choice_members root ext) 0 = Some (i, m) ->
    good cd (S f) env (TChoice root ext) (VChoice n x) ->
    transfers (St f (sub c i) (m_ty m) x') (St (S f) c (TChoice root ext) (VChoice n x')) (name1 n).
  Proof.
    intros f c root ext n i m x x' F _. unfold St. cbn [tcheck node_accepts]. rewrite F. cbn [negb].
    destruct (find_member_In _ _ _ _ _ F) as [_ <-]. apply with_location_transfers.
  Qed.

  Lemma tcheck_tag : forall f c tg t v', transfers (St f c t v') (St (S f) c (TTag tg t) v') [].
  Proof. intros. apply transfers_refl. Qed.

  Lemma tcheck_ref : forall f c n t v',
    lookup n env = Some t -> mem_str n (c_bt c) = false ->
    transfers (St f (mkCtx (c_root c) (c_path c) (n :: c_bt c)) t v') (St (S f) c (TRef n) v') [].
  Proof.
    intros f c n t v' L M. unfold St. cbn [tcheck node_accepts negb]. rewrite L, M. apply transfers_refl.
  Qed.

  Lemma tcheck_ref_rec : forall f c n t v',
    false = true -> lookup n env = Some t -> mem_str n (c_bt c) = true ->
    transfers (St f (mkCtx n [] [n]) t v') (St (S f) c (TRef n) v') [].
  Proof. intros; discriminate. Qed.

  Lemma tcheck_ref_rec_pass : forall f c n t v',
    lookup n env = Some t -> mem_str n (c_bt c) = true ->
    St f (mkCtx n [] [n]) t v' = Pass -> St (S f) c (TRef n) v' = Pass.
  Proof. intros f c n t v' L M P. unfold St in *. cbn [tcheck node_accepts negb]. rewrite L, M, P. reflexivity. Qed.

  Definition tcheck_descend :=
    stage_descend env cd St false tcheck_field tcheck_elem tcheck_choice tcheck_tag tcheck_ref tcheck_ref_rec.
  Definition tcheck_descend_pass :=
    stage_descend_pass env cd St tcheck_field tcheck_elem tcheck_choice tcheck_tag tcheck_ref tcheck_ref_rec_pass.
End TcheckStage.

(** ** The constraints checker *)
Section CheckStage.
  Variable env : Asn1.env.
  Variable cd : codec.
  Let St := fun f => check Repaired f env.

  Lemma ccheck_field : forall f c isset root ext fields n i m x x',
    find_member n (all_members root ext) 0 = Some (i, m) ->
    lookup n fields = Some x ->
    (forall m', In m' (before n (all_members root ext)) ->
                is_mandatory (m_opt m') = true -> lookup (m_name m') fields <> None) ->
    good cd (S f) env (TSeq isset root ext) (VSeq fields) ->
    transfers (St f (sub c i) (m_ty m) x')
              (St (S f) c (TSeq isset root ext) (VSeq (update_field n x' fields))) (name1 n).
  Proof.
    intros f c isset root ext fields n i m x x' F L _ G. unfold St. cbn [check].
    apply (check_members_step _ c _ i m fields n x x' F L (good_nodup _ _ _ _ _ _ _ G)).
    intros m' y c' I L'. apply (check_good cd). apply (good_field _ _ _ _ _ _ _ _ _ G I L').
  Qed.

  Lemma ccheck_elem : forall f c isset elem sz vs i x x',
    nth_error vs i = Some x ->
    good cd (S f) env (TSeqOf isset elem sz) (VList vs) ->
    transfers (St f (sub c 0) elem x') (St (S f) c (TSeqOf isset elem sz) (VList (update_nth i x' vs))) [].
  Proof.
    intros f c isset elem sz vs i x x' N G. unfold St. cbn [check].
    rewrite length_update_nth.
    assert (R : check_range (size_range sz) (Z.of_nat (length vs)) = Pass).
    { destruct G as (_ & A & _). cbn [admits] in A. apply andb_true_iff in A. destruct A as [A _].
      unfold check_range. rewrite size_range_spec, A. reflexivity. }
    rewrite R. apply transfers_eq. apply (check_elems_step _ _ _ vs i x x' N).
    intros y c' I. apply (check_good cd). apply (good_elem _ _ _ _ _ _ _ _ G I).
  Qed.

  Lemma ccheck_choice : forall f c root ext n i m (x x' : value),
    find_member n (choice_members root ext) 0 = Some (i, m) ->
    good cd (S f) env (TChoice root ext) (VChoice n x) ->
    transfers (St f (sub c i) (m_ty m) x') (St (S f) c (TChoice root ext) (VChoice n x')) (name1 n).
  Proof.
    intros f c root ext n i m x x' F _. unfold St. cbn [check]. rewrite F.
    destruct (find_member_In _ _ _ _ _ F) as [_ <-]. apply with_location_transfers.
  Qed.

  Lemma ccheck_tag : forall f c tg t v', transfers (St f c t v') (St (S f) c (TTag tg t) v') [].
  Proof. intros. apply transfers_refl. Qed.

  Lemma ccheck_ref : forall f c n t v',
    lookup n env = Some t -> mem_str n (c_bt c) = false ->
    transfers (St f (mkCtx (c_root c) (c_path c) (n :: c_bt c)) t v') (St (S f) c (TRef n) v') [].
  Proof. intros f c n t v' L M. unfold St. cbn [check]. rewrite L, M. apply transfers_refl. Qed.

  Lemma ccheck_ref_rec : forall f c n t v',
    true = true -> lookup n env = Some t -> mem_str n (c_bt c) = true ->
    transfers (St f (mkCtx n [] [n]) t v') (St (S f) c (TRef n) v') [].
  Proof. intros f c n t v' _ L M. unfold St. cbn [check]. rewrite L, M. apply transfers_refl. Qed.

  Lemma ccheck_ref_rec_pass : forall f c n t v',
    lookup n env = Some t -> mem_str n (c_bt c) = true ->
    St f (mkCtx n [] [n]) t v' = Pass -> St (S f) c (TRef n) v' = Pass.
  Proof. intros f c n t v' L M P. apply (proj1 (ccheck_ref_rec f c n t v' eq_refl L M)). exact P. Qed.

  Definition ccheck_descend :=
    stage_descend env cd St true ccheck_field ccheck_elem ccheck_choice ccheck_tag ccheck_ref ccheck_ref_rec.
  Definition ccheck_descend_pass :=
    stage_descend_pass env cd St ccheck_field ccheck_elem ccheck_choice ccheck_tag ccheck_ref ccheck_ref_rec_pass.
End CheckStage.

(** ** The codec skeleton *)

Lemma find_member_app {T} n (l1 l2 : list (member_of T)) : forall i0,
  find_member n (l1 ++ l2) i0 =
  match find_member n l1 i0 with
  | Some r => Some r
  | None => find_member n l2 (i0 + length l1)
  end.
Proof.
  induction l1 as [|m r IH]; intros i0.
  - cbn. rewrite Nat.add_0_r. reflexivity.
  - cbn [app find_member length]. destruct (String.eqb n (m_name m)); [reflexivity|].
    rewrite IH. replace (S i0 + length r)%nat with (i0 + S (length r))%nat by lia. reflexivity.
Qed.

Lemma before_app_found {T} n (l1 l2 : list (member_of T)) i0 r :
  find_member n l1 i0 = Some r -> before n (l1 ++ l2) = before n l1.
Proof.
  revert i0. induction l1 as [|m l IH]; intros i0 F; [discriminate|].
  cbn [app before find_member] in *. destruct (String.eqb n (m_name m)); [reflexivity|].
  f_equal. apply (IH (S i0)). exact F.
Qed.

Lemma before_app_missing {T} n (l1 l2 : list (member_of T)) i0 :
  find_member n l1 i0 = None -> before n (l1 ++ l2) = l1 ++ before n l2.
Proof.
  revert i0. induction l1 as [|m l IH]; intros i0 F; [reflexivity|].
  cbn [app before find_member] in *. destruct (String.eqb n (m_name m)); [discriminate|].
  f_equal. apply (IH (S i0)). exact F.
Qed.

Lemma find_member_none_names {T} n (ms : list (member_of T)) i0 m :
  find_member n ms i0 = None -> In m ms -> String.eqb (m_name m) n = false.
Proof.
  revert i0. induction ms as [|m0 r IH]; intros i0 F I; [destruct I|].
  cbn [find_member] in F. destruct (String.eqb n (m_name m0)) eqn:E; [discriminate|].
  destruct I as [<-|I]; [rewrite String.eqb_sym; exact E | apply (IH (S i0)); assumption].
Qed.

Lemma nodup_str_app l1 l2 :
  nodup_str (l1 ++ l2) = true ->
  nodup_str l1 = true /\ nodup_str l2 = true /\
  (forall a, In a l1 -> existsb (String.eqb a) l2 = false).
Proof.
  induction l1 as [|a r IH]; intros H.
  - repeat split; [exact H | intros a []].
  - cbn [app nodup_str] in H. apply andb_true_iff in H. destruct H as [H1 H2].
    destruct (IH H2) as (N1 & N2 & D). rewrite existsb_app in H1.
    apply negb_true_iff in H1. apply orb_false_iff in H1. destruct H1 as [H1a H1b].
    repeat split.
    + cbn [nodup_str]. rewrite H1a, N1. reflexivity.
    + exact N2.
    + intros b [<-|I]; [exact H1b | apply D; exact I].
Qed.

Lemma found_in_first_not_in_second {T} n (l1 l2 : list (member_of T)) i0 r m :
  nodup_str (map m_name (l1 ++ l2)) = true ->
  find_member n l1 i0 = Some r -> In m l2 -> String.eqb (m_name m) n = false.
Proof.
  intros ND F I. rewrite map_app in ND. destruct (nodup_str_app _ _ ND) as (_ & _ & D).
  destruct r as [i m1]. destruct (find_member_In _ _ _ _ _ F) as [I1 N1].
  specialize (D n). rewrite <- N1 in D at 1. specialize (D (in_map m_name _ _ I1)).
  destruct (String.eqb (m_name m) n) eqn:E; [|reflexivity].
  apply String.eqb_eq in E. exfalso.
  apply not_true_iff_false in D. apply D. apply existsb_exists.
  exists (m_name m). split; [apply in_map; exact I|]. rewrite E. apply String.eqb_refl.
Qed.

Lemma swallow_nonempty e : x_loc e <> [] -> swallow Repaired e = Fail e.
Proof.
  intros H. unfold swallow. destruct (x_class e); try reflexivity.
  destruct (x_loc e); [contradiction | reflexivity].
Qed.

Section SkelStage.
  Variable env : Asn1.env.
  Variable cd : codec.
  Let St := fun f => skel Repaired cd f env.

  Lemma skel_root_absent f isset root ext fields m' :
    good cd (S f) env (TSeq isset root ext) (VSeq fields) ->
    In m' root -> lookup (m_name m') fields = None -> absent_root m' = None.
  Proof.
    intros (W & _) I L. cbn [well_typed] in W.
    repeat (apply andb_true_iff in W; destruct W as [W ?]).
    match goal with H : forallb _ root = true |- _ =>
      rewrite forallb_forall in H; specialize (H m' I); rewrite L in H end.
    unfold absent_root. destruct (is_mandatory (m_opt m')); [discriminate | reflexivity].
  Qed.

  Lemma skel_additions_pass f c isset root ext fields :
    good cd (S f) env (TSeq isset root ext) (VSeq fields) ->
    (if swallows cd
     then walk_members Repaired (St f) absent_addition_swallowed (swallow Repaired) c (flatten_additions ext) (length root) fields
     else walk_members Repaired (St f) absent_root Fail c (flatten_additions ext) (length root) fields) = Pass.
  Proof.
    intros G. destruct (swallows cd) eqn:SW.
    - apply walk_all_pass.
      + intros m' y c' I L. apply skel_good. apply (good_field _ _ _ _ _ _ _ _ _ G (In_adds_all _ _ _ I) L).
      + intros m' I L. unfold absent_addition_swallowed. destruct (is_mandatory (m_opt m')); [right | left]; reflexivity.
    - apply walk_all_pass.
      + intros m' y c' I L. apply skel_good. apply (good_field _ _ _ _ _ _ _ _ _ G (In_adds_all _ _ _ I) L).
      + intros m' I L. left. destruct G as (_ & _ & [E|E]); [congruence|].
        cbn [fully_present] in E. rewrite forallb_forall in E.
        specialize (E m' (In_adds_all root ext m' I)). rewrite L in E.
        unfold absent_root. destruct (is_mandatory (m_opt m')); [discriminate | reflexivity].
  Qed.

  Lemma skel_root_pass f c isset root ext fields :
    good cd (S f) env (TSeq isset root ext) (VSeq fields) ->
    walk_members Repaired (St f) absent_root Fail c root 0 fields = Pass.
  Proof.
    intros G. apply walk_all_pass.
    - intros m' y c' I L. apply skel_good. apply (good_field _ _ _ _ _ _ _ _ _ G (In_root_all _ _ _ I) L).
    - intros m' I L. left. apply (skel_root_absent _ _ _ _ _ _ G I L).
  Qed.

  Lemma skel_field : forall f c isset root ext fields n i m x x',
    find_member n (all_members root ext) 0 = Some (i, m) ->
    lookup n fields = Some x ->
    (forall m', In m' (before n (all_members root ext)) ->
                is_mandatory (m_opt m') = true -> lookup (m_name m') fields <> None) ->
    good cd (S f) env (TSeq isset root ext) (VSeq fields) ->
    transfers (St f (sub c i) (m_ty m) x')
              (St (S f) c (TSeq isset root ext) (VSeq (update_field n x' fields))) (name1 n).
  Proof.
    intros f c isset root ext fields n i m x x' F L PC G.
    pose proof (good_nodup _ _ _ _ _ _ _ G) as ND. unfold all_members in F, ND, PC.
    rewrite find_member_app in F. rewrite map_app in ND.
    destruct (nodup_str_app _ _ ND) as (ND1 & ND2 & _). rewrite <- map_app in ND.
    unfold St at 2. cbn [skel]. fold (St f).
    destruct (find_member n root 0) as [r|] eqn:FR.
    - (* the member is a root member *)
      inversion F; subst r; clear F.
      assert (T : transfers (St f (sub c i) (m_ty m) x')
                            (walk_members Repaired (St f) absent_root Fail c root 0 (update_field n x' fields)) (name1 n)).
      { apply (walk_step _ _ _ c root 0 i m fields n x x' FR L ND1).
        - intros m' y c' I L'. apply skel_good. apply (good_field _ _ _ _ _ _ _ _ _ G (In_root_all _ _ _ I) L').
        - intros m' I L'. apply (skel_root_absent _ _ _ _ _ _ G (In_before_In _ _ _ I) L').
        - intros m' I L'. left. apply (skel_root_absent _ _ _ _ _ _ G (In_after_In _ _ _ I) L').
        - intros; reflexivity. }
      destruct T as [TP TF]. split.
      + intros P. rewrite (TP P).
        assert (Same : forall m0, In m0 (flatten_additions ext) ->
                  lookup (m_name m0) (update_field n x' fields) = lookup (m_name m0) fields).
        { intros m0 I0. apply lookup_update_other.
          apply (found_in_first_not_in_second n root (flatten_additions ext) 0 (i, m) m0 ND FR I0). }
        pose proof (skel_additions_pass f c isset root ext fields G) as AP.
        destruct (swallows cd); rewrite (walk_same _ _ _ _ _ _ _ _ Same); exact AP.
      + intros e ms0 Le Fw. specialize (TF e ms0 Le Fw).
        destruct TF as (y & Ey & Hy). rewrite Ey. exists y. split; [reflexivity | exact Hy].
    - (* the member is an extension addition *)
      cbn [Nat.add] in F.
      assert (SameR : forall m0, In m0 root ->
                lookup (m_name m0) (update_field n x' fields) = lookup (m_name m0) fields).
      { intros m0 I0. apply lookup_update_other. apply (find_member_none_names n root 0 m0 FR I0). }
      rewrite (walk_same _ _ _ _ _ _ _ _ SameR). rewrite (skel_root_pass f c isset root ext fields G).
      rewrite (before_app_missing n root (flatten_additions ext) 0 FR) in PC.
      assert (Ab : forall m', In m' (before n (flatten_additions ext)) ->
                              lookup (m_name m') fields = None -> is_mandatory (m_opt m') = false).
      { intros m' I L'. destruct (is_mandatory (m_opt m')) eqn:E; [|reflexivity].
        exfalso. apply (PC m'); [apply in_or_app; right; exact I | exact E | exact L']. }
      assert (B : forall m' y c', In m' (flatten_additions ext) -> lookup (m_name m') fields = Some y ->
                                  St f c' (m_ty m') y = Pass).
      { intros m' y c' I L'. apply skel_good. apply (good_field _ _ _ _ _ _ _ _ _ G (In_adds_all _ _ _ I) L'). }
      destruct (swallows cd) eqn:SW.
      + apply (walk_step _ _ _ c (flatten_additions ext) (length root) i m fields n x x' F L ND2 B).
        * intros m' I L'. unfold absent_addition_swallowed. rewrite (Ab m' I L'). reflexivity.
        * intros m' I L'. unfold absent_addition_swallowed. destruct (is_mandatory (m_opt m')); [right | left]; reflexivity.
        * apply swallow_nonempty.
      + apply (walk_step _ _ _ c (flatten_additions ext) (length root) i m fields n x x' F L ND2 B).
        * intros m' I L'. unfold absent_root. rewrite (Ab m' I L'). reflexivity.
        * intros m' I L'. left. destruct G as (_ & _ & [E|E]); [congruence|].
          cbn [fully_present] in E. rewrite forallb_forall in E.
          specialize (E m' (In_adds_all root ext m' (In_after_In _ _ _ I))). rewrite L' in E.
          unfold absent_root. destruct (is_mandatory (m_opt m')); [discriminate | reflexivity].
        * intros; reflexivity.
  Qed.
End SkelStage.

Section SkelStage2.
  Variable env : Asn1.env.
  Variable cd : codec.
  Let St := fun f => skel Repaired cd f env.

  Lemma skel_elem : forall f c isset elem sz vs i x x',
    nth_error vs i = Some x ->
    good cd (S f) env (TSeqOf isset elem sz) (VList vs) ->
    transfers (St f (sub c 0) elem x') (St (S f) c (TSeqOf isset elem sz) (VList (update_nth i x' vs))) [].
  Proof.
    intros f c isset elem sz vs i x x' N G. unfold St. cbn [skel].
    apply transfers_eq. apply (check_elems_step _ _ _ vs i x x' N).
    intros y c' I. apply skel_good. apply (good_elem _ _ _ _ _ _ _ _ G I).
  Qed.

  Lemma skel_choice : forall f c root ext n i m (x x' : value),
    find_member n (choice_members root ext) 0 = Some (i, m) ->
    good cd (S f) env (TChoice root ext) (VChoice n x) ->
    transfers (St f (sub c i) (m_ty m) x') (St (S f) c (TChoice root ext) (VChoice n x')) (name1 n).
  Proof.
    intros f c root ext n i m x x' F _. unfold St. cbn [skel]. rewrite F.
    destruct (find_member_In _ _ _ _ _ F) as [_ <-]. apply with_location_transfers.
  Qed.

  Lemma skel_tag : forall f c tg t v', transfers (St f c t v') (St (S f) c (TTag tg t) v') [].
  Proof. intros. apply transfers_refl. Qed.

  Lemma skel_ref : forall f c n t v',
    lookup n env = Some t -> mem_str n (c_bt c) = false ->
    transfers (St f (mkCtx (c_root c) (c_path c) (n :: c_bt c)) t v') (St (S f) c (TRef n) v') [].
  Proof. intros f c n t v' L M. unfold St. cbn [skel]. rewrite L, M. apply transfers_refl. Qed.

  Lemma skel_ref_rec : forall f c n t v',
    true = true -> lookup n env = Some t -> mem_str n (c_bt c) = true ->
    transfers (St f (mkCtx n [] [n]) t v') (St (S f) c (TRef n) v') [].
  Proof. intros f c n t v' _ L M. unfold St. cbn [skel]. rewrite L, M. apply transfers_refl. Qed.

  Definition skel_descend :=
    stage_descend env cd St true (skel_field env cd) skel_elem skel_choice skel_tag skel_ref skel_ref_rec.
End SkelStage2.

(** * The fault itself, stage by stage *)

Lemma fails_plain e : fails_with (Fail (raise_plain e)) e [].
Proof. eexists. repeat split. Qed.

Lemma check_chars_result a cps : check_chars a cps = Pass \/ check_chars a cps = constraints_error.
Proof.
  induction cps as [|ch r IH]; [left; reflexivity|]. cbn [check_chars].
  destruct (alphabet_mem a ch); [exact IH | right; reflexivity].
Qed.

Lemma flat_check_fails vr f env c t v :
  flat_type t = true -> well_typed 1 env t v = true -> admits 1 env t v = false ->
  check vr (S f) env c t v = constraints_error.
Proof.
  intros FT W A. destruct t; try discriminate; destruct v; try discriminate; cbn [check admits] in *.
  - unfold check_range. rewrite int_range_spec, A. reflexivity.
  - unfold check_range. rewrite size_range_spec, A. reflexivity.
  - unfold check_range. rewrite size_range_spec, A. reflexivity.
  - unfold check_range. rewrite size_range_spec.
    destruct (in_size sz (Z.of_nat (length cps))); [|reflexivity]. cbn [andb] in A.
    pose proof (permitted_alphabet_spec k alpha cps) as PS. rewrite A in PS.
    destruct (permitted_alphabet k alpha) as [a|]; [|discriminate].
    pose proof (check_chars_passes a cps) as CP. rewrite PS in CP.
    destruct (check_chars_result a cps) as [R|R]; rewrite R in *; [discriminate | reflexivity].
Qed.

Lemma flat_tcheck_passes vr f env c t v :
  flat_type t = true -> well_typed 1 env t v = true -> tcheck vr (S f) env c t v = Pass.
Proof.
  intros FT W. cbn [tcheck]. rewrite (well_typed_node_accepts _ _ _ _ W). cbn [negb].
  destruct t; try discriminate; reflexivity.
Qed.

Lemma members_removed_pass rec c ms n fields :
  (forall m' y c', In m' ms -> lookup (m_name m') fields = Some y -> rec c' (m_ty m') y = Pass) ->
  check_members Repaired rec c ms 0 (remove_field n fields) = Pass.
Proof.
  intros B. apply check_members_all_pass. intros m' y c' I L.
  rewrite lookup_remove in L. destruct (String.eqb (m_name m') n); [discriminate|].
  apply (B m' y c' I L).
Qed.

Lemma find_member_of_In {T} (ms : list (member_of T)) m :
  nodup_str (map m_name ms) = true -> In m ms ->
  forall i0, exists i, find_member (m_name m) ms i0 = Some (i, m).
Proof.
  induction ms as [|m0 r IH]; intros ND I i0; [destruct I|].
  cbn [map nodup_str] in ND. apply andb_true_iff in ND. destruct ND as [ND1 ND2].
  cbn [find_member]. destruct I as [->|I].
  - rewrite String.eqb_refl. eexists; reflexivity.
  - destruct (String.eqb (m_name m) (m_name m0)) eqn:E.
    + exfalso. apply String.eqb_eq in E. apply negb_true_iff in ND1. apply not_true_iff_false in ND1.
      apply ND1. apply existsb_exists. exists (m_name m). split; [apply in_map; exact I|].
      rewrite E. apply String.eqb_refl.
    + apply (IH ND2 I).
Qed.

Section Leaves.
  Variable env : Asn1.env.
  Variable cd : codec.

  (** the type checker at the fault *)
  Lemma leaf_tcheck tl vl k vl' fuel c :
    leaf_fault env tl vl k vl' -> good cd fuel env tl vl ->
    match k with
    | KWrongType | KUnknownAlt => fails_with (tcheck Repaired fuel env c tl vl') EEncode []
    | _ => tcheck Repaired fuel env c tl vl' = Pass
    end.
  Proof.
    intros LF G. destruct (good_fuel _ _ _ _ _ G) as [f ->].
    destruct LF as [t v v' NA | root ext v n x F | root ext v n NM | isset root ext fields m x I MO L
                    | t v v' FT W A | isset elem sz vs vs' SUB SZ].
    - cbn [tcheck]. rewrite NA. cbn [negb]. apply fails_plain.
    - cbn [tcheck node_accepts]. rewrite F. cbn [negb]. apply fails_plain.
    - reflexivity.
    - cbn [tcheck node_accepts negb]. apply members_removed_pass.
      intros m' y c' I' L'. apply (tcheck_good cd). apply (good_field _ _ _ _ _ _ _ _ _ G I' L').
    - apply flat_tcheck_passes; assumption.
    - cbn [tcheck node_accepts negb]. apply check_elems_all_pass.
      intros y c' I'. apply (tcheck_good cd). apply (good_elem _ _ _ _ _ _ _ _ G).
      rewrite Forall_forall in SUB. apply SUB. exact I'.
  Qed.

  (** the constraints checker at the fault (kinds that pass the type checker) *)
  Lemma leaf_check tl vl k vl' fuel c :
    leaf_fault env tl vl k vl' -> good cd fuel env tl vl ->
    match k with
    | KWrongType | KUnknownAlt => True
    | KConstraint => fails_with (check Repaired fuel env c tl vl') EConstraints []
    | _ => check Repaired fuel env c tl vl' = Pass
    end.
  Proof.
    intros LF G. destruct (good_fuel _ _ _ _ _ G) as [f ->].
    destruct LF as [t v v' NA | root ext v n x F | root ext v n NM | isset root ext fields m x I MO L
                    | t v v' FT W A | isset elem sz vs vs' SUB SZ]; try exact I.
    - reflexivity.
    - cbn [check]. apply members_removed_pass.
      intros m' y c' I' L'. apply (check_good cd). apply (good_field _ _ _ _ _ _ _ _ _ G I' L').
    - rewrite (flat_check_fails Repaired f env c t v' FT W A). apply fails_plain.
    - cbn [check]. unfold check_range. rewrite size_range_spec, SZ. apply fails_plain.
  Qed.

  (** the codec at the fault (kinds that pass both checkers) *)
  Lemma leaf_skel tl vl k vl' fuel c :
    leaf_fault env tl vl k vl' -> good cd fuel env tl vl ->
    match k with
    | KUnknownEnum | KMissing _ => fails_with (skel Repaired cd fuel env c tl vl') EEncode []
    | _ => True
    end.
  Proof.
    intros LF G. destruct (good_fuel _ _ _ _ _ G) as [f ->].
    destruct LF as [t v v' NA | root ext v n x F | root ext v n NM | isset root ext fields m x I MO L
                    | t v v' FT W A | isset elem sz vs vs' SUB SZ]; try exact I.
    - cbn [skel]. rewrite NM. apply fails_plain.
    - cbn [skel].
      pose proof (good_nodup _ _ _ _ _ _ _ G) as ND. unfold all_members in ND. rewrite map_app in ND.
      destruct (nodup_str_app _ _ ND) as (ND1 & _ & _).
      destruct (find_member_of_In root m ND1 I 0) as [i F].
      rewrite (walk_at (skel Repaired cd f env) absent_root Fail c root 0 i m fields
                       (remove_field (m_name m) fields) (m_name m) F).
      + rewrite lookup_remove, String.eqb_refl. unfold absent_root. rewrite MO. cbn [is_mandatory].
        apply fails_plain.
      + intros k E. rewrite lookup_remove, E. reflexivity.
      + intros m' y c' I' L'. apply skel_good.
        apply (good_field _ _ _ _ _ _ _ _ _ G (In_root_all _ _ _ (In_before_In _ _ _ I')) L').
      + intros m' I' L'. apply (skel_root_absent env cd _ _ _ _ _ _ G (In_before_In _ _ _ I') L').
  Qed.
End Leaves.

(** * Assembling Specification.encode(check_types=True, check_constraints=True) *)

Definition tc_kind (k : ckind) : bool :=
  match k with KWrongType | KUnknownAlt => true | _ => false end.

Lemma fails_with_is_fail o e ns : fails_with o e ns -> exists x, o = Fail x.
Proof. intros (x & -> & _). eexists; reflexivity. Qed.

Section Top.
  Variable env : Asn1.env.
  Variable cd : codec.
  Variable fuel : nat.
  Variable name : string.
  Variable t : ty.
  Hypothesis Lk : lookup name env = Some t.
  Let top := node_elem (top_ctx name) name.

  Lemma first_error_tcheck_fails v' e ns :
    is_located e = true ->
    fails_with (tcheck Repaired fuel env (top_ctx name) t v') e ns ->
    fails_with (first_error Repaired cd fuel env name v') e (name1 name ++ ns).
  Proof.
    intros Le F. pose proof (with_location_fails _ e ns (top_ctx name) name Le F) as W.
    unfold first_error, tcheck_top. rewrite Lk.
    destruct (fails_with_is_fail _ _ _ W) as [x Ex]. rewrite Ex in *. exact W.
  Qed.

  Lemma first_error_check_fails v' e ns :
    is_located e = true ->
    tcheck Repaired fuel env (top_ctx name) t v' = Pass ->
    fails_with (check Repaired fuel env (top_ctx name) t v') e ns ->
    fails_with (first_error Repaired cd fuel env name v') e (name1 name ++ ns).
  Proof.
    intros Le P F. pose proof (with_location_fails _ e ns (top_ctx name) name Le F) as W.
    unfold first_error, tcheck_top, check_top. rewrite Lk, P. cbn [with_location].
    destruct (fails_with_is_fail _ _ _ W) as [x Ex]. rewrite Ex in *. exact W.
  Qed.

  Lemma first_error_skel_fails v' e ns :
    is_located e = true ->
    tcheck Repaired fuel env (top_ctx name) t v' = Pass ->
    check Repaired fuel env (top_ctx name) t v' = Pass ->
    fails_with (skel Repaired cd fuel env (top_ctx name) t v') e ns ->
    fails_with (first_error Repaired cd fuel env name v') e (name1 name ++ ns).
  Proof.
    intros Le P1 P2 F. pose proof (with_location_fails _ e ns (top_ctx name) name Le F) as W.
    unfold first_error, tcheck_top, check_top, skel_top. rewrite Lk, P1, P2. cbn [with_location].
    exact W.
  Qed.
End Top.

Theorem one_fault_path_proof :
  forall cd fuel env name t v p k v' crossed,
    lookup name env = Some t ->
    good cd fuel env t v ->
    corrupt_at env [name] t v p k v' crossed ->
    (tc_kind k = true -> crossed = false) ->
    fails_with (first_error Repaired cd fuel env name v') (class_of k) (name1 name ++ names_along p).
Proof.
  intros cd fuel env name t v p k v' crossed Lk G (btl & tl & vl & vl' & D & LF) TK.
  assert (Hbt : c_bt (top_ctx name) = [name]) by reflexivity.
  destruct (tcheck_descend_pass env cd _ _ _ _ _ _ _ _ _ _ D fuel (top_ctx name) Hbt G)
    as (f1 & c1 & _ & G1 & TP).
  destruct (ccheck_descend_pass env cd _ _ _ _ _ _ _ _ _ _ D fuel (top_ctx name) Hbt G)
    as (f2 & c2 & _ & G2 & CP).
  pose proof (leaf_tcheck env cd tl vl k vl' f1 c1 LF G1) as LT.
  pose proof (leaf_check env cd tl vl k vl' f2 c2 LF G2) as LC.
  destruct k; cbn [tc_kind class_of] in *.
  - (* KWrongType *)
    destruct (tcheck_descend env cd _ _ _ _ _ _ _ _ _ _ D (or_introl (TK eq_refl)) fuel (top_ctx name) Hbt G)
      as (f & c & _ & Gl & T).
    pose proof (leaf_tcheck env cd tl vl KWrongType vl' f c LF Gl) as L. cbn in L.
    apply (first_error_tcheck_fails env cd fuel name t Lk v' EEncode (names_along p) eq_refl).
    rewrite <- (app_nil_r (names_along p)). apply (proj2 T); [reflexivity | exact L].
  - (* KUnknownAlt *)
    destruct (tcheck_descend env cd _ _ _ _ _ _ _ _ _ _ D (or_introl (TK eq_refl)) fuel (top_ctx name) Hbt G)
      as (f & c & _ & Gl & T).
    pose proof (leaf_tcheck env cd tl vl KUnknownAlt vl' f c LF Gl) as L. cbn in L.
    apply (first_error_tcheck_fails env cd fuel name t Lk v' EEncode (names_along p) eq_refl).
    rewrite <- (app_nil_r (names_along p)). apply (proj2 T); [reflexivity | exact L].
  - (* KUnknownEnum *)
    destruct (skel_descend env cd _ _ _ _ _ _ _ _ _ _ D (or_intror eq_refl) fuel (top_ctx name) Hbt G)
      as (f & c & _ & Gl & T).
    pose proof (leaf_skel env cd tl vl KUnknownEnum vl' f c LF Gl) as L. cbn in L.
    apply (first_error_skel_fails env cd fuel name t Lk v' EEncode (names_along p) eq_refl (TP LT) (CP LC)).
    rewrite <- (app_nil_r (names_along p)). apply (proj2 T); [reflexivity | exact L].
  - (* KMissing *)
    destruct (skel_descend env cd _ _ _ _ _ _ _ _ _ _ D (or_intror eq_refl) fuel (top_ctx name) Hbt G)
      as (f & c & _ & Gl & T).
    pose proof (leaf_skel env cd tl vl (KMissing member) vl' f c LF Gl) as L. cbn in L.
    apply (first_error_skel_fails env cd fuel name t Lk v' EEncode (names_along p) eq_refl (TP LT) (CP LC)).
    rewrite <- (app_nil_r (names_along p)). apply (proj2 T); [reflexivity | exact L].
  - (* KConstraint *)
    destruct (ccheck_descend env cd _ _ _ _ _ _ _ _ _ _ D (or_intror eq_refl) fuel (top_ctx name) Hbt G)
      as (f & c & _ & Gl & T).
    pose proof (leaf_check env cd tl vl KConstraint vl' f c LF Gl) as L. cbn in L.
    apply (first_error_check_fails env cd fuel name t Lk v' EConstraints (names_along p) eq_refl (TP LT)).
    rewrite <- (app_nil_r (names_along p)). apply (proj2 T); [reflexivity | exact L].
Qed.

(** readable form: class and dotted path *)
Corollary one_fault_path_dotted :
  forall cd fuel env name t v p k v' crossed,
    lookup name env = Some t ->
    good cd fuel env t v ->
    corrupt_at env [name] t v p k v' crossed ->
    (tc_kind k = true -> crossed = false) ->
    outcome_class (first_error Repaired cd fuel env name v') = Some (class_of k) /\
    outcome_path (first_error Repaired cd fuel env name v') = dotted (name1 name ++ names_along p).
Proof.
  intros cd fuel env name t v p k v' crossed Lk G CA TK.
  destruct (one_fault_path_proof cd fuel env name t v p k v' crossed Lk G CA TK) as (x & -> & C & N & _).
  cbn [outcome_class outcome_path]. unfold location_str. rewrite C, N. split; reflexivity.
Qed.

(** The constraints checker alone (C11's path statement): a single violated
    constraint is reported with the path to the violating component. *)
Theorem check_top_fault_path :
  forall cd fuel env name t v p v' crossed,
    lookup name env = Some t ->
    good cd fuel env t v ->
    corrupt_at env [name] t v p KConstraint v' crossed ->
    outcome_class (check_top Repaired fuel env name v') = Some EConstraints /\
    outcome_path (check_top Repaired fuel env name v') = dotted (name1 name ++ names_along p).
Proof.
  intros cd fuel env name t v p v' crossed Lk G (btl & tl & vl & vl' & D & LF).
  assert (Hbt : c_bt (top_ctx name) = [name]) by reflexivity.
  destruct (ccheck_descend env cd _ _ _ _ _ _ _ _ _ _ D (or_intror eq_refl) fuel (top_ctx name) Hbt G)
    as (f & c & _ & Gl & T).
  pose proof (leaf_check env cd tl vl KConstraint vl' f c LF Gl) as L. cbn in L.
  pose proof (proj2 T EConstraints [] eq_refl L) as F. rewrite app_nil_r in F.
  pose proof (with_location_fails _ EConstraints _ (top_ctx name) name eq_refl F) as W.
  unfold check_top. rewrite Lk. destruct W as (x & -> & C & N & _).
  cbn [outcome_class outcome_path]. unfold location_str. rewrite C, N. split; reflexivity.
Qed.
