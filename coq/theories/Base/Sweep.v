(** Finite sweeps lifted to universally quantified statements over a bounded
    integer range, and the byte-level mask facts obtained that way. *)
From Asn1V Require Import Base.Prelude.

Definition zrange (lo : Z) (n : nat) : list Z := map (fun i => lo + Z.of_nat i) (seq 0 n).

Lemma zrange_in lo n b : lo <= b < lo + Z.of_nat n -> In b (zrange lo n).
Proof.
  intros H. unfold zrange. apply in_map_iff. exists (Z.to_nat (b - lo)).
  split; [lia|]. apply in_seq. lia.
Qed.

Lemma sweep (P : Z -> bool) lo n :
  forallb P (zrange lo n) = true -> forall b, lo <= b < lo + Z.of_nat n -> P b = true.
Proof.
  intros H b Hb. rewrite forallb_forall in H. apply H. apply zrange_in. exact Hb.
Qed.

Lemma land_128_small b : 0 <= b < 128 -> Z.land b 128 = 0.
Proof.
  intros H. apply Z.eqb_eq.
  apply (sweep (fun b => Z.land b 128 =? 0) 0 128); [vm_compute; reflexivity | lia].
Qed.

Lemma land_128_big b : 128 <= b < 256 -> Z.land b 128 = 128.
Proof.
  intros H. apply Z.eqb_eq.
  apply (sweep (fun b => Z.land b 128 =? 128) 128 128); [vm_compute; reflexivity | lia].
Qed.

Lemma land_127_byte b : 0 <= b < 256 -> Z.land b 127 = b mod 128.
Proof.
  intros H. apply Z.eqb_eq.
  apply (sweep (fun b => Z.land b 127 =? b mod 128) 0 256); [vm_compute; reflexivity | lia].
Qed.

Lemma land_31_byte b : 0 <= b < 256 -> Z.land b 31 = b mod 32.
Proof.
  intros H. apply Z.eqb_eq.
  apply (sweep (fun b => Z.land b 31 =? b mod 32) 0 256); [vm_compute; reflexivity | lia].
Qed.

Lemma lor_128_small b : 0 <= b < 128 -> Z.lor 128 b = 128 + b.
Proof.
  intros H. apply Z.eqb_eq.
  apply (sweep (fun b => Z.lor 128 b =? 128 + b) 0 128); [vm_compute; reflexivity | lia].
Qed.
