(** utf8_decode (utf8_encode cps) = cps for every list of Unicode scalar values. *)
From Asn1V Require Import Base.Prelude Base.Utf8.

Ltac Zify.zify_post_hook ::= Z.div_mod_to_equations.

Lemma utf8_one c bs rest :
  utf8_encode_cp c = Some bs -> utf8_decode_one (bs ++ rest) = Some (c, rest) /\ (1 <= length bs)%nat.
Proof.
  unfold utf8_encode_cp.
  destruct (c <? 0) eqn:E0; [discriminate|].
  destruct (c <? 128) eqn:E1.
  { intros H. assert (bs = [c]) by congruence. subst bs. split; [|cbn; lia]. cbn [app utf8_decode_one].
    destruct ((0 <=? c) && (c <? 128)) eqn:E; [reflexivity|lia]. }
  destruct (c <? 2048) eqn:E2.
  { intros H. assert (bs = [192 + c / 64; 128 + c mod 64]) by congruence. subst bs. split; [|cbn; lia].
    cbn [app utf8_decode_one]. set (b0 := 192 + c / 64). set (b1 := 128 + c mod 64).
    destruct ((0 <=? b0) && (b0 <? 128)) eqn:Ea; [unfold b0 in *; lia|].
    destruct ((194 <=? b0) && (b0 <=? 223)) eqn:Eb; [|unfold b0 in *; lia].
    unfold is_cont. destruct ((128 <=? b1) && (b1 <=? 191)) eqn:Ec; [|unfold b1 in *; lia].
    f_equal. f_equal. unfold b0, b1. lia. }
  destruct (c <? 65536) eqn:E3.
  { destruct ((55296 <=? c) && (c <=? 57343)) eqn:Es; [discriminate|]. intros H.
    assert (bs = [224 + c / 4096; 128 + (c / 64) mod 64; 128 + c mod 64]) by congruence. subst bs.
    split; [|cbn; lia]. cbn [app utf8_decode_one].
    set (b0 := 224 + c / 4096). set (b1 := 128 + (c / 64) mod 64). set (b2 := 128 + c mod 64).
    destruct ((0 <=? b0) && (b0 <? 128)) eqn:Ea; [unfold b0 in *; lia|].
    destruct ((194 <=? b0) && (b0 <=? 223)) eqn:Eb; [unfold b0 in *; lia|].
    destruct ((224 <=? b0) && (b0 <=? 239)) eqn:Ec; [|unfold b0 in *; lia].
    unfold is_cont.
    destruct (b0 =? 224) eqn:E224; destruct (b0 =? 237) eqn:E237;
      match goal with |- (if ?t then _ else _) = _ => destruct t eqn:Et end;
      try (f_equal; f_equal; unfold b0, b1, b2 in *; lia); unfold b0, b1, b2 in *; lia. }
  destruct (c <? 1114112) eqn:E4; [|discriminate].
  intros H.
  assert (bs = [240 + c / 262144; 128 + (c / 4096) mod 64; 128 + (c / 64) mod 64; 128 + c mod 64]) by congruence.
  subst bs. split; [|cbn; lia]. cbn [app utf8_decode_one].
  set (b0 := 240 + c / 262144). set (b1 := 128 + (c / 4096) mod 64).
  set (b2 := 128 + (c / 64) mod 64). set (b3 := 128 + c mod 64).
  destruct ((0 <=? b0) && (b0 <? 128)) eqn:Ea; [unfold b0 in *; lia|].
  destruct ((194 <=? b0) && (b0 <=? 223)) eqn:Eb; [unfold b0 in *; lia|].
  destruct ((224 <=? b0) && (b0 <=? 239)) eqn:Ec; [unfold b0 in *; lia|].
  destruct ((240 <=? b0) && (b0 <=? 244)) eqn:Ed; [|unfold b0 in *; lia].
  unfold is_cont.
  destruct (b0 =? 240) eqn:E240; destruct (b0 =? 244) eqn:E244;
    match goal with |- (if ?t then _ else _) = _ => destruct t eqn:Et end;
    try (f_equal; f_equal; unfold b0, b1, b2, b3 in *; lia); unfold b0, b1, b2, b3 in *; lia.
Qed.

Lemma utf8_decode_fuel_step f bs :
  bs <> [] ->
  utf8_decode_fuel (S f) bs =
  match utf8_decode_one bs with
  | Some (c, r) => match utf8_decode_fuel f r with Some cs => Some (c :: cs) | None => None end
  | None => None
  end.
Proof. destruct bs; [congruence|reflexivity]. Qed.

Lemma utf8_decode_fuel_rt cps : forall bytes f,
  utf8_encode cps = Some bytes -> (length bytes <= f)%nat -> utf8_decode_fuel f bytes = Some cps.
Proof.
  induction cps as [|c cps IH]; intros bytes f; cbn [utf8_encode].
  - intros H _. assert (bytes = []) by congruence. subst. destruct f; reflexivity.
  - destruct (utf8_encode_cp c) as [a|] eqn:Ec; [|discriminate].
    destruct (utf8_encode cps) as [b|] eqn:Er; [|discriminate]. intros H Hf.
    assert (bytes = a ++ b) by congruence. subst bytes.
    destruct (utf8_one c a b Ec) as (Hd & Hl). rewrite app_length in Hf.
    destruct f as [|f]; [lia|].
    rewrite utf8_decode_fuel_step.
    + rewrite Hd. rewrite (IH b f eq_refl) by lia. reflexivity.
    + intros Eab. apply (f_equal (@length Z)) in Eab. rewrite app_length in Eab. cbn in Eab. lia.
Qed.

Theorem utf8_roundtrip cps bytes : utf8_encode cps = Some bytes -> utf8_decode bytes = Some cps.
Proof. intros H. unfold utf8_decode. apply (utf8_decode_fuel_rt cps); [exact H|lia]. Qed.

Lemma utf8_encode_cp_bytes c a : utf8_encode_cp c = Some a -> Forall (fun b => 0 <= b < 256) a.
Proof.
  unfold utf8_encode_cp.
  destruct (c <? 0) eqn:E0; [discriminate|].
  destruct (c <? 128) eqn:E1.
  { intros H. assert (a = [c]) by congruence. subst. constructor; [lia|constructor]. }
  destruct (c <? 2048) eqn:E2.
  { intros H. assert (a = [192 + c / 64; 128 + c mod 64]) by congruence. subst.
    constructor; [lia|]. constructor; [lia|constructor]. }
  destruct (c <? 65536) eqn:E3.
  { destruct ((55296 <=? c) && (c <=? 57343)); [discriminate|]. intros H.
    assert (a = [224 + c / 4096; 128 + (c / 64) mod 64; 128 + c mod 64]) by congruence. subst.
    constructor; [lia|]. constructor; [lia|]. constructor; [lia|constructor]. }
  destruct (c <? 1114112) eqn:E4; [|discriminate]. intros H.
  assert (a = [240 + c / 262144; 128 + (c / 4096) mod 64; 128 + (c / 64) mod 64; 128 + c mod 64]) by congruence.
  subst. constructor; [lia|]. constructor; [lia|]. constructor; [lia|]. constructor; [lia|constructor].
Qed.

Lemma utf8_encode_bytes cps : forall bytes, utf8_encode cps = Some bytes -> Forall (fun b => 0 <= b < 256) bytes.
Proof.
  induction cps as [|c cps IH]; intros bytes; cbn [utf8_encode].
  - intros H. assert (bytes = []) by congruence. subst. constructor.
  - destruct (utf8_encode_cp c) as [a|] eqn:Ec; [|discriminate].
    destruct (utf8_encode cps) as [b|] eqn:Er; [|discriminate]. intros H.
    assert (bytes = a ++ b) by congruence. subst bytes. apply Forall_app. split.
    + eapply utf8_encode_cp_bytes. exact Ec.
    + apply IH. reflexivity.
Qed.
