(** Shared prelude: result type with the library's error classes, Python-like
    byte-list helpers, hex literals for the correspondence cases. *)
From Coq Require Export String Ascii.
From Coq Require Export ZArith List Bool Lia.
From Coq Require Export ZifyBool ZifyNat ZifyN.
Export ListNotations.
Close Scope string_scope.
Open Scope list_scope.
Open Scope Z_scope.
Notation length := List.length.

(** Error classes observable at the API: the library's own decode / encode /
    constraints errors, any foreign Python exception, and two model-only
    outcomes (fuel exhausted = the Python loop does not terminate within the
    fuel; unmodelled construct). *)
Inductive err : Type :=
| EDecode                      (* asn1tools DecodeError (any subclass)           *)
| EOutOfData                   (* OutOfDataError / OutOfByteDataError (DecodeError) *)
| EMissing (offset expected : Z) (* ber.MissingDataError (an OutOfByteDataError)  *)
| EEncode                      (* asn1tools EncodeError                          *)
| EConstraints                 (* asn1tools ConstraintsError                     *)
| EForeign (kind : string)     (* IndexError, ValueError, KeyError, ...          *)
| EFuel                        (* model ran out of fuel: non-termination suspect *)
| EUnmodelled.

Inductive result (A : Type) : Type :=
| Ok (a : A)
| Err (e : err).
Arguments Ok {A} a.
Arguments Err {A} e.

Definition bind {A B} (r : result A) (f : A -> result B) : result B :=
  match r with Ok a => f a | Err e => Err e end.
Notation "'let*' x ':=' r 'in' k" := (bind r (fun x => k))
  (at level 200, x pattern, r at level 100, k at level 200).

(** Is this the library's decode error (DecodeError or a subclass)? *)
Definition is_decode_error (e : err) : bool :=
  match e with EDecode | EOutOfData | EMissing _ _ => true | _ => false end.

(** Python [data[a:b]] for 0 <= a: clamped slice. *)
Definition slice {A} (d : list A) (a b : nat) : list A := firstn (b - a) (skipn a d).

(** Big-endian value of a byte list: int(hexlify(bs), 16) / int.from_bytes(bs,'big'). *)
Fixpoint be_value_acc (acc : Z) (bs : list Z) : Z :=
  match bs with [] => acc | b :: bs' => be_value_acc (acc * 256 + b) bs' end.
Definition be_value (bs : list Z) : Z := be_value_acc 0 bs.

Definition is_byte (b : Z) : Prop := 0 <= b < 256.
Definition bytes_ok (bs : list Z) : Prop := Forall is_byte bs.
Definition is_byteb (b : Z) : bool := (0 <=? b) && (b <? 256).

(** Hex literals, used only by generated case files. *)
Definition hexdigit (c : ascii) : Z :=
  let n := Z.of_nat (nat_of_ascii c) in
  if (48 <=? n) && (n <=? 57) then n - 48
  else if (97 <=? n) && (n <=? 102) then n - 87
  else if (65 <=? n) && (n <=? 70) then n - 55 else 0.
Fixpoint hex (s : string) : list Z :=
  match s with
  | String a (String b s') => (hexdigit a * 16 + hexdigit b) :: hex s'
  | _ => []
  end.

Lemma firstn_app_le {A} (l1 l2 : list A) n :
  (n <= length l1)%nat -> firstn n (l1 ++ l2) = firstn n l1.
Proof.
  intros H. rewrite firstn_app. replace (n - length l1)%nat with 0%nat by lia.
  simpl. apply app_nil_r.
Qed.

Lemma firstn_app_ge {A} (l1 l2 : list A) n :
  (length l1 <= n)%nat -> firstn n (l1 ++ l2) = l1 ++ firstn (n - length l1) l2.
Proof.
  intros H. rewrite firstn_app. rewrite firstn_all2 by lia. reflexivity.
Qed.
